/-!
# Model of `io/utils.coords_time` on integer nanoseconds
`e` is the time stamp stored in the file (end of the forward measurement), `F`, `B` the acquisition times in seconds as the
readers pass them (floats, modelled as rationals).  `astype("timedelta64[s]")` truncates toward zero to whole seconds and
`timedelta64[s] / 2` is an integer division that truncates toward zero.
-/
namespace DtsVerif.TimeCoords

def NS : Int := 1000000000

/-- truncation toward zero of a rational number of seconds -/
def truncSec (q : Rat) : Int := if q < 0 then -((-q).floor) else q.floor

/-- `timedelta64[s] / 2` -/
def halfSec (s : Int) : Int := Int.tdiv s 2

structure Coords where
  timestart : Int
  time : Int
  timeend : Int
  timeFWstart : Int
  timeFWend : Int
  timeFW : Int
  timeBWstart : Int
  timeBWend : Int
  timeBW : Int
deriving Repr, DecidableEq

/-- naive coordinates (before the time-zone conversion), nanoseconds -/
def coords (double : Bool) (e : Int) (F B : Rat) : Coords :=
  let f := truncSec F
  let b := truncSec B
  let fwStart := e - f * NS
  let fwMean := e - halfSec f * NS
  if double then
    { timestart := fwStart, time := e, timeend := e + b * NS,
      timeFWstart := fwStart, timeFWend := e, timeFW := fwMean,
      timeBWstart := e, timeBWend := e + b * NS, timeBW := e + halfSec b * NS }
  else
    { timestart := fwStart, time := fwMean, timeend := e,
      timeFWstart := fwStart, timeFWend := e, timeFW := fwMean,
      timeBWstart := e, timeBWend := e, timeBW := e }

/-- `tz_localize(tz_in).tz_convert(tz_out).tz_localize(None)`: `offIn` = UTC offset of the input zone at that local time,
`offOut` = UTC offset of the output zone at that instant (both in ns; supplied by the time-zone database) -/
def convert (v offIn offOut : Int) : Int := v - offIn + offOut

end DtsVerif.TimeCoords
