import DtsVerif.Model.PyPrim
/-!
# The COO index vectors of the design matrices, as the code builds them (core Lean only)

`calibration_single_ended_solver` (`X_gamma`, `X_dalpha`, `X_c`, `X_TA`, `X_ma`, `X_mt`) and `construct_submatrices`
(`Z_gamma`, `Z_D`, `E`, `Z_TA_fw`, `Z_TA_bw`) spell the row and column of every stored coefficient with
`np.arange / np.tile / np.repeat`.  The definitions below are those expressions, term for term (the translator
`harness/translate.py`, section `design`, re-reads them from the current source on every run and proves `gen = these` by `rfl`).
`Props/Design.lean` proves, for every size, which observation and which parameter each entry belongs to.

Row numbering: single-ended rows are time-major (`y = ….T.ravel()` of an `(nx, nt)` array: row `j*nx + r` is reference row `r`
at time `j`); double-ended rows are location-major (`y_F = ….ravel()`: row `r*nt + j`).
-/
namespace DtsVerif.Design
open DtsVerif.Py

/-! ## single-ended -/
def sGammaRow (nt nx : Nat) : List Nat := arange 0 (nt * nx)
def sGammaCol (nt nx : Nat) : List Nat := constL (nt * nx) 0
def sDalphaRow (nt nx : Nat) : List Nat := arange 0 (nt * nx)
def sDalphaCol (nt nx : Nat) : List Nat := constL (nt * nx) 0
/-- `data_dalpha = np.tile(-x_sec, nt)` -/
def sDalphaData {α} (negx : List α) (nt : Nat) : List α := tile negx nt
def sCRow (nt nx : Nat) : List Nat := arange 0 (nt * nx)
def sCCol (nt nx : Nat) : List Nat := repeatEach (arange 0 nt) nx
/-- rows of the splice block of one splice whose first downstream reference row is `ix0` -/
def sTaRow (nt nx ix0 : Nat) : List Nat :=
  addL (tile (arange ix0 nx) nt) (repeatEach (arangeStep (nx * nt) nx) (nx - ix0))
def sTaCol (nt nx ix0 : Nat) : List Nat := repeatEach (arange 0 nt) (nx - ix0)
/-- number of stored coefficients (`data_ta = -np.ones(nt * (nx - ix0))`) -/
def sTaCount (nt nx ix0 : Nat) : Nat := nt * (nx - ix0)
/-- matching rows: attenuation part -/
def sMaRow (nm nt : Nat) : List Nat := arange 0 (nm * nt)
def sMaCol (nm nt : Nat) : List Nat := constL (nt * nm) 1
def sMaData {α} (dx : List α) (nt : Nat) : List α := tile dx nt
/-- matching rows: splice part -/
def sMtRow (nm nt nta : Nat) : List Nat := tile (arange 0 (nm * nt)) nta
def sMtCol (nm nt nta : Nat) : List Nat :=
  addL (tile (repeatEach (arange 0 nt) nm) nta) (repeatEach (arangeStep (nta * nt) nt) (nt * nm))


/-- `A.flatten("F")` of a 2-D array given as a list of rows with `ncols` columns: column after column -/
def flattenF {α} [Inhabited α] (rows : List (List α)) (ncols : Nat) : List α :=
  (List.range ncols).flatMap fun c => rows.map (fun r => r.getD c default)

/-- `data_mt = np.tile(transient_m_data, (nt, 1)).flatten("F")`: `M` has one row per matching pair and one column per splice -/
def sMtData {α} [Inhabited α] (M : List (List α)) (nt nta : Nat) : List α := flattenF (tile M nt) nta

/-! ## double-ended (`construct_submatrices`) -/
def dGammaRow (nt nx : Nat) : List Nat := arange 0 (nt * nx)
def dGammaCol (nt nx : Nat) : List Nat := constL (nt * nx) 0
def dDRow (nt nx : Nat) : List Nat := arange 0 (nt * nx)
def dDCol (nt nx : Nat) : List Nat := tile (arange 0 nt) nx
def dERow (nt nx : Nat) : List Nat := arange nt (nt * nx)
def dECol (nt nx : Nat) : List Nat := repeatEach (arange 0 (nx - 1)) nt
def dECount (nt nx : Nat) : Nat := nt * (nx - 1)
def dTaFwRow (nt nx ix0 : Nat) : List Nat := arange (nt * ix0) (nt * nx)
def dTaFwCol (nt nx ix0 : Nat) : List Nat := tile (arange 0 nt) (nx - ix0)
def dTaFwCount (nt nx ix0 : Nat) : Nat := nt * (nx - ix0)
def dTaBwRow (nt ix0 : Nat) : List Nat := arange 0 (nt * ix0)
def dTaBwCol (nt ix0 : Nat) : List Nat := tile (arange nt (2 * nt)) ix0
def dTaBwCount (nt ix0 : Nat) : Nat := nt * ix0



/-! ## double-ended matching sections: splice coefficients of EQ1, EQ2, EQ3 (`construct_submatrices_matching_sections`)
per splice, `ix0` = index of the first location at or behind the splice on the WHOLE fibre; `hix`, `tix` = matched location indices,
`ix3` = matched locations outside the reference sections; rows are pair-major (`np.repeat(·, nt)`), columns `tile(arange(nt))` -/
def mEq1Data (hix tix : List Nat) (nt ix0 : Nat) : List Rat := repeatEach (addR (negR (geInd hix ix0)) (geInd tix ix0)) nt
def mEq2Data (hix tix : List Nat) (nt ix0 : Nat) : List Rat := repeatEach (addR (negR (ltInd hix ix0)) (ltInd tix ix0)) nt
def mEq3FData (ix3 : List Nat) (nt ix0 : Nat) : List Rat := repeatEach (halfR (geInd ix3 ix0)) nt
def mEq3BData (ix3 : List Nat) (nt ix0 : Nat) : List Rat := repeatEach (halfR (negR (ltInd ix3 ix0))) nt
def mEqRow (nt n : Nat) : List Nat := arange 0 (nt * n)
def mEqFCol (nt n : Nat) : List Nat := tile (arange 0 nt) n
def mEqBCol (nt n : Nat) : List Nat := tile (arange nt (2 * nt)) n

/-! ## constant data vectors `(count, value)`, shapes `(rows, columns)`, raveling order of the γ coefficients, and the splice rule -/
def sCData (nt nx : Nat) : Nat × Int := (nt * nx, -1)
def sTaData (nt nx ix0 : Nat) : Nat × Int := (nt * (nx - ix0), -1)
def dDData (nt nx : Nat) : Nat × Int := (nt * nx, 1)
def dEData (nt nx : Nat) : Nat × Int := (nt * (nx - 1), 1)
def dTaFwData (nt nx ix0 : Nat) : Nat × Int := (nt * (nx - ix0), -1)
def dTaBwData (nt ix0 : Nat) : Nat × Int := (nt * ix0, -1)

def sGammaShape (nt nx : Nat) : Nat × Nat := (nt * nx, 1)
def sDalphaShape (nt nx : Nat) : Nat × Nat := (nt * nx, 1)
def sCShape (nt nx : Nat) : Nat × Nat := (nt * nx, nt)
def sTaShape (nt nx : Nat) : Nat × Nat := (nt * nx, nt)
def sMaShape (nm nt : Nat) : Nat × Nat := (nm * nt, 2 + nt)
def sMtShape (nm nt nta : Nat) : Nat × Nat := (nm * nt, nta * nt)
def dGammaShape (nt nx : Nat) : Nat × Nat := (nt * nx, 1)
def dDShape (nt nx : Nat) : Nat × Nat := (nt * nx, nt)
def dEShape (nt nx : Nat) : Nat × Nat := (nt * nx, nx - 1)
def dTaShape (nt nx : Nat) : Nat × Nat := (nt * nx, 2 * nt)

/-- `1 / (cal_ref.T.ravel() + 273.15)`: are the reference temperatures raveled time-major (`.T.ravel()`, single-ended) or
location-major (`.ravel()`, double-ended)?  `cal_ref` has shape `(nx, nt)`. -/
def sGammaTimeMajor : Bool := true
def dGammaTimeMajor : Bool := false

/-- the code's rule for the first row downstream of a splice (`ix_sec_ta_ix0`), on a non-empty ascending coordinate vector -/
def ix0Rule (xs : Array Rat) (s : Rat) : Nat :=
  if s > xs.getD (xs.size - 1) 0 then xs.size
  else if s ≤ xs.getD 0 0 then 0
  else ((List.range xs.size).find? (fun k => xs.getD k 0 ≥ s)).getD xs.size

/-- C-order ravel of an `n × m` array given by its entry function (`A.ravel()`); `A.T.ravel()` of an `(m, n)` array `A` is
`ravelC n m (fun a b => A b a)` -/
def ravelC {α} (n m : Nat) (f : Nat → Nat → α) : List α :=
  (List.range n).flatMap fun a => (List.range m).map (f a)

end DtsVerif.Design
