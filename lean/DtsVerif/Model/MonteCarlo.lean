import DtsVerif.Model.Calib
/-!
# Model of the unpacking in `monte_carlo_single_ended` / `monte_carlo_double_ended`

Which entry of the reported `p_val` every sampled array cell is drawn around.
-/
namespace DtsVerif.MonteCarlo
open DtsVerif.Py DtsVerif.Calib

/-- `from_i` of the double-ended sampler: the entries of `p_val` that are sampled jointly -/
def fromI (nt no nta : Nat) (ixSec : List Nat) : List Nat :=
  List.range (1 + 2 * nt) ++ ixSec.map (1 + 2 * nt + ·) ++ arange (1 + 2 * nt + no) (1 + 2 * nt + no + nt * 2 * nta)

/-- position in the jointly sampled vector `po_mc` that the code reads for `ta[t, d, a]`
(`po_mc[:, 2nt+1+nx_sec:].reshape((mc, nt, 2, nta), order="F")`) -/
def taPos (nt nxSec : Nat) (t d a : Nat) : Nat := 2 * nt + 1 + nxSec + posF3 nt 2 t d a

/-- single-ended: `np.reshape(p_mc[:, -nt*nta:], (mc, nta, nt))[·, a, t]` reads this entry of `p_val` -/
def taPosSingle (npar nt nta : Nat) (a t : Nat) : Nat := npar - nt * nta + (a * nt + t)

/-- `np.percentile(sorted, q)` with linear interpolation, `q` in percent -/
def percentile (a : List Rat) (q : Rat) : Rat :=
  if a.length = 0 then 0 else
  let h : Rat := q / 100 * ((a.length : Nat) - 1 : Int)
  let lo : Nat := (h.floor).toNat
  let hi : Nat := min (lo + 1) (a.length - 1)
  a.getD lo 0 + (h - (lo : Nat)) * (a.getD hi 0 - a.getD lo 0)

end DtsVerif.MonteCarlo
