/-!
# Exact weighted least squares (core Lean only, executable)

A system is a list of sparse rows `(coefficients, y, w)`.  `solve` forms the normal equations in exact rational
arithmetic, eliminates (Gauss–Jordan on the symmetric normal matrix, diagonal pivots, dependent columns left free) and
returns a result **only after checking it exactly**: the normal equations for the parameters, `A·G·A = A` for the
g-inverse.  Nothing about the elimination procedure is trusted or proved; an incomplete elimination can only turn an
answer into `none`.
-/
namespace DtsVerif.Wls

/-- one observation: sparse coefficients `(column, value)`, observed value, weight -/
structure Row where
  c : List (Nat × Rat)
  y : Rat
  w : Rat
deriving Repr

structure Sys where
  n : Nat            -- number of parameters (columns)
  rows : Array Row

/-- `q ≈ m · 2^e` with `m` of about `bits` significant bits (truncated toward zero); `(0, 0)` for 0 -/
def dyadicParts (bits : Nat) (q : Rat) : Int × Int :=
  if q.num = 0 then (0, 0) else
  let a := q.num.natAbs
  let b := q.den
  let k : Int := (bits : Int) + (b.log2 : Int) - (a.log2 : Int)
  let m : Nat := if k ≥ 0 then (a <<< k.toNat) / b else a / (b <<< (-k).toNat)
  (if q.num < 0 then -(m : Int) else (m : Int), -k)

/-- dyadic rational with `bits` significant bits next to `q` (toward zero); keeps all later sums cheap -/
def roundDyadic (bits : Nat) (q : Rat) : Rat :=
  let (m, e) := dyadicParts bits q
  if e ≥ 0 then (m : Rat) * ((1 <<< e.toNat : Nat) : Rat) else mkRat m (1 <<< (-e).toNat)

/-- coefficient of column `j` in a sparse row (repeated entries add up) -/
def Row.coef (r : Row) (j : Nat) : Rat :=
  (r.c.map fun cv => if cv.1 = j then cv.2 else 0).sum

/-- fitted value `x_r · p` -/
def Row.fit (r : Row) (p : Array Rat) : Rat :=
  (r.c.map fun cv => cv.2 * p.getD cv.1 0).sum

/-- weighted sum of squared residuals -/
def Sys.wssr (s : Sys) (p : Array Rat) : Rat :=
  (s.rows.toList.map fun r => r.w * (r.y - r.fit p) * (r.y - r.fit p)).sum

/-- entry `j` of `XᵀW(y − Xp)` -/
def Sys.gradEntry (s : Sys) (p : Array Rat) (j : Nat) : Rat :=
  (s.rows.toList.map fun r => r.coef j * (r.w * (r.y - r.fit p))).sum

/-- every column index of every row is a valid parameter index -/
def Sys.wellFormed (s : Sys) : Bool :=
  s.rows.toList.all fun r => r.c.all fun cv => decide (cv.1 < s.n)

/-- the exact check every returned solution has passed: the normal equations hold -/
def Sys.normalEqCheck (s : Sys) (p : Array Rat) : Bool :=
  s.wellFormed && (List.range s.n).all fun j => s.gradEntry p j == 0

/-- normal matrix `XᵀWX` (dense, symmetric) and right-hand side `XᵀWy` -/
def Sys.normal (s : Sys) : Array (Array Rat) × Array Rat := Id.run do
  let n := s.n
  let mut A : Array (Array Rat) := Array.replicate n (Array.replicate n 0)
  let mut g : Array Rat := Array.replicate n 0
  for r in s.rows do
    for cv in r.c do
      let wc := r.w * cv.2
      g := g.modify cv.1 (· + wc * r.y)
      for dv in r.c do
        A := A.modify cv.1 (fun row => row.modify dv.1 (· + wc * dv.2))
  return (A, g)

def matMul (A B : Array (Array Rat)) : Array (Array Rat) :=
  let n := B.size
  A.map fun row => (Array.range ((B.getD 0 #[]).size)).map fun j =>
    (Array.range n).foldl (fun acc k => acc + row.getD k 0 * (B.getD k #[]).getD j 0) 0

/-- Gauss–Jordan on `[A | I]` with diagonal pivots; a zero diagonal pivot marks the column as dependent (free).
Returns the candidate g-inverse (rows/columns of free indices zeroed) and the list of pivot indices. -/
def gaussJordan (A : Array (Array Rat)) : Array (Array Rat) × List Nat := Id.run do
  let n := A.size
  let mut M : Array (Array Rat) := (Array.range n).map fun i =>
    (A.getD i #[]) ++ ((Array.range n).map fun j => if i = j then (1 : Rat) else 0)
  let mut piv : List Nat := []
  for k in [0:n] do
    let pk := (M.getD k #[]).getD k 0
    if pk != 0 then
      piv := k :: piv
      let rowk := (M.getD k #[]).map (· / pk)
      M := M.set! k rowk
      for i in [0:n] do
        if i != k then
          let f := (M.getD i #[]).getD k 0
          if f != 0 then
            let rowi := M.getD i #[]
            M := M.set! i ((Array.range (2 * n)).map fun j => rowi.getD j 0 - f * rowk.getD j 0)
  let isPiv := fun i => piv.contains i
  let G := (Array.range n).map fun i => (Array.range n).map fun j =>
    if isPiv i && isPiv j then (M.getD i #[]).getD (n + j) 0 else 0
  return (G, piv.reverse)

def matEq (A B : Array (Array Rat)) : Bool :=
  A.size == B.size && (Array.range A.size).all fun i =>
    let a := A.getD i #[]; let b := B.getD i #[]
    a.size == b.size && (Array.range a.size).all fun j => a.getD j 0 == b.getD j 0

structure Solution where
  p : Array Rat               -- a solution of the normal equations (free parameters are 0)
  rank : Nat
  G : Array (Array Rat)       -- a g-inverse of XᵀWX  (A G A = A checked)
  wssr : Rat
  dof : Int                   -- n_obs − n_columns, the code's convention
  errVar : Rat                -- wssr / dof (0 if dof ≤ 0)

/-- result-checked solve -/
def Sys.solve (s : Sys) : Option Solution :=
  let (A, g) := s.normal
  let (G, piv) := gaussJordan A
  let p : Array Rat := (Array.range s.n).map fun i =>
    (Array.range s.n).foldl (fun acc j => acc + (G.getD i #[]).getD j 0 * g.getD j 0) 0
  if s.normalEqCheck p && matEq (matMul (matMul A G) A) A then
    let ss := s.wssr p
    let dof : Int := (s.rows.size : Int) - (s.n : Int)
    some ⟨p, piv.length, G, ss, dof, if dof > 0 then ss / (dof : Rat) else 0⟩
  else none

end DtsVerif.Wls
