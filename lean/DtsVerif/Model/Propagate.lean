import DtsVerif.Model.Calib
/-!
# Model of the first-order variance propagation in `calibrate_single_ended` / `calibrate_double_ended`

The derivative dictionary and the term lists (`var_fw_dict`, `var_bw_dict`, `var_w_dict`) exactly as the code adds them.
The formulas are written once over the arithmetic notation classes, so the executable instance (`Rat`) and the analysed
instance (`ℝ`, in `Props/C05.lean`) are the same definitions.
-/
namespace DtsVerif.Propagate

section Formulas
variable {K : Type} [Add K] [Sub K] [Mul K] [Div K] [Neg K] [OfNat K 2] [OfNat K 0]

/-- sensitivities of one temperature (kelvin `T`) to its inputs -/
structure Derivs (K : Type) where
  g : K        -- ∂T/∂γ
  st : K       -- ∂T/∂(Stokes)
  ast : K      -- ∂T/∂(anti-Stokes)
  d : K        -- ∂T/∂(df | db | c)
  a : K        -- ∂T/∂α
  ta : K       -- ∂T/∂(splice loss)

/-- forward channel: `T = γ/(ln(st/ast) + df + α + TA)` -/
def derivsFw (T γ st ast : K) : Derivs K :=
  ⟨T / γ, -(T * T) / (γ * st), (T * T) / (γ * ast), -(T * T) / γ, -(T * T) / γ, -(T * T) / γ⟩

/-- backward channel: `T = γ/(ln(rst/rast) + db − α + TA)` (note the sign of `∂T/∂α`) -/
def derivsBw (T γ rst rast : K) : Derivs K :=
  ⟨T / γ, -(T * T) / (γ * rst), (T * T) / (γ * rast), -(T * T) / γ, (T * T) / γ, -(T * T) / γ⟩

/-- covariances one channel needs at one cell `(x, t)` -/
structure Covs (K : Type) where
  gg : K   -- var γ
  dd : K   -- var df_t (db_t, c_t)
  aa : K   -- var α_x
  tt : K   -- variance of the summed splice losses (Σ over all pairs of acting splices of their covariance)
  gd : K
  ga : K
  ad : K
  tg : K
  td : K
  ta : K

/-- `var_fw_dict` / `var_bw_dict` of the double-ended calibration (12 terms each) -/
def termsChannel (J : Derivs K) (vst vast : K) (c : Covs K) : List K :=
  [J.st * J.st * vst, J.ast * J.ast * vast,
   J.g * J.g * c.gg, J.d * J.d * c.dd, J.a * J.a * c.aa, J.ta * J.ta * c.tt,
   2 * J.g * J.d * c.gd, 2 * J.g * J.a * c.ga, 2 * J.a * J.d * c.ad,
   2 * J.ta * J.g * c.tg, 2 * J.ta * J.d * c.td, 2 * J.ta * J.a * c.ta]

/-- single-ended `var_fw_dict`: `α = Δα·x`, so `∂T/∂Δα = x·∂T/∂α`; `c.aa`, `c.ga`, `c.ad`, `c.ta` are the (co)variances of `Δα` -/
def termsSingle (J : Derivs K) (x vst vast : K) (c : Covs K) : List K :=
  [J.st * J.st * vst, J.ast * J.ast * vast,
   J.g * J.g * c.gg, J.d * J.d * c.dd, J.a * J.a * (c.aa * (x * x)), J.ta * J.ta * c.tt,
   2 * J.g * J.d * c.gd, 2 * J.ta * J.g * c.tg, 2 * J.ta * J.d * c.td,
   2 * J.g * (x * J.a) * c.ga, 2 * (x * J.a) * J.d * c.ad, 2 * J.ta * (x * J.a) * c.ta]

/-- single-ended with `fix_alpha`: no cross terms with α -/
def termsSingleFixAlpha (J : Derivs K) (vst vast : K) (c : Covs K) : List K :=
  [J.st * J.st * vst, J.ast * J.ast * vast,
   J.g * J.g * c.gg, J.d * J.d * c.dd, J.a * J.a * c.aa, J.ta * J.ta * c.tt,
   2 * J.g * J.d * c.gd, 2 * J.ta * J.g * c.tg, 2 * J.ta * J.d * c.td]

/-- covariances of the weighted temperature's parameters at one cell -/
structure CovsW (K : Type) where
  gg : K
  ff : K   -- var df
  bb : K   -- var db
  aa : K
  tff : K  -- var τF (Σ over all pairs of acting splices)
  tbb : K  -- var τB
  gf : K
  gb : K
  ga : K
  gtf : K
  gtb : K
  fb : K
  fa : K
  ftf : K
  ftb : K
  ba : K
  btf : K
  btb : K
  atf : K  -- cov(α, τF)
  atb : K  -- cov(α, τB)
  tftb : K -- cov(τF, τB)

/-- `var_w_dict`: `tmpw = wf·tmpf + wb·tmpb` with the weights held constant -/
def termsW (wf wb : K) (F B : Derivs K) (vst vast vrst vrast : K) (c : CovsW K) : List K :=
  let Tg := wf * F.g + wb * B.g
  let Tf := wf * F.d
  let Tb := wb * B.d
  let Ta := wf * F.a + wb * B.a
  let Ttf := wf * F.ta
  let Ttb := wb * B.ta
  [wf * F.st * (wf * F.st) * vst, wf * F.ast * (wf * F.ast) * vast,
   wb * B.st * (wb * B.st) * vrst, wb * B.ast * (wb * B.ast) * vrast,
   Tg * Tg * c.gg, Tf * Tf * c.ff, Tb * Tb * c.bb, Ta * Ta * c.aa, Ttf * Ttf * c.tff, Ttb * Ttb * c.tbb,
   2 * Tg * Tf * c.gf, 2 * Tg * Tb * c.gb, 2 * Tg * Ta * c.ga, 2 * Tg * Ttf * c.gtf, 2 * Tg * Ttb * c.gtb,
   2 * Tf * Tb * c.fb, 2 * Tf * Ta * c.fa, 2 * Tf * Ttf * c.ftf, 2 * Tf * Ttb * c.ftb,
   2 * Tb * Ta * c.ba, 2 * Tb * Ttf * c.btf, 2 * Tb * Ttb * c.btb,
   2 * Ta * Ttf * c.atf, 2 * Ta * Ttb * c.atb, 2 * Ttf * Ttb * c.tftb]

end Formulas

/-! ## Extraction of the per-cell covariances from `p_var` / `p_cov` (as `get_params_from_pval_*` does) -/
open DtsVerif.Calib

def sumList (l : List Rat) : Rat := l.foldl (· + ·) 0

/-- Σ over the splices acting at location `i` in direction `down` (forward: `x ≥ s`, backward: `x < s`) -/
def overSplices (inp : Input) (i : Nat) (down : Bool) (f : Nat → Rat) : Rat := upstreamSum inp i f down

/-- Σ over all pairs (a, b) of splices with `a` acting at location `i` in direction `downA` and `b` in direction `downB`
(`splice_loss_covariance`) -/
def overSplicePairs (inp : Input) (i : Nat) (downA downB : Bool) (f : Nat → Nat → Rat) : Rat :=
  overSplices inp i downA (fun a => overSplices inp i downB (fun b => f a b))

/-- forward-channel covariances at cell `(i, j)`, double-ended -/
def covsFwDouble (inp : Input) (pVar : Array Rat) (C : Mat) (i j : Nat) : Covs Rat :=
  let g := Input.colGamma; let d := Input.colDf j; let a := inp.colA i
  let t := fun s => inp.colTaD s 0 j
  ⟨pVar.getD g 0, pVar.getD d 0, pVar.getD a 0, overSplicePairs inp i true true (fun s s' => C.at (t s) (t s')),
   C.at g d, C.at a g, C.at a d,
   overSplices inp i true (fun s => C.at g (t s)), overSplices inp i true (fun s => C.at d (t s)),
   overSplices inp i true (fun s => C.at a (t s))⟩

def covsBwDouble (inp : Input) (pVar : Array Rat) (C : Mat) (i j : Nat) : Covs Rat :=
  let g := Input.colGamma; let d := inp.colDb j; let a := inp.colA i
  let t := fun s => inp.colTaD s 1 j
  ⟨pVar.getD g 0, pVar.getD d 0, pVar.getD a 0, overSplicePairs inp i false false (fun s s' => C.at (t s) (t s')),
   C.at g d, C.at a g, C.at a d,
   overSplices inp i false (fun s => C.at g (t s)), overSplices inp i false (fun s => C.at d (t s)),
   overSplices inp i false (fun s => C.at a (t s))⟩

def covsW (inp : Input) (pVar : Array Rat) (C : Mat) (i j : Nat) : CovsW Rat :=
  let g := Input.colGamma; let f := Input.colDf j; let b := inp.colDb j; let a := inp.colA i
  let tf := fun s => inp.colTaD s 0 j
  let tb := fun s => inp.colTaD s 1 j
  let F := fun (h : Nat → Rat) => overSplices inp i true h
  let B := fun (h : Nat → Rat) => overSplices inp i false h
  { gg := pVar.getD g 0, ff := pVar.getD f 0, bb := pVar.getD b 0, aa := pVar.getD a 0,
    tff := overSplicePairs inp i true true (fun s s' => C.at (tf s) (tf s')),
    tbb := overSplicePairs inp i false false (fun s s' => C.at (tb s) (tb s')),
    gf := C.at g f, gb := C.at g b, ga := C.at a g, gtf := F (fun s => C.at g (tf s)), gtb := B (fun s => C.at g (tb s)),
    fb := C.at f b, fa := C.at a f, ftf := F (fun s => C.at f (tf s)), ftb := B (fun s => C.at f (tb s)),
    ba := C.at a b, btf := F (fun s => C.at b (tf s)), btb := B (fun s => C.at b (tb s)),
    atf := F (fun s => C.at a (tf s)), atb := B (fun s => C.at a (tb s)),
    tftb := overSplicePairs inp i true false (fun s s' => C.at (tf s) (tb s')) }

/-- single-ended covariances at cell `(i, j)`; in `fix_alpha` mode `aa` is the supplied variance of `A_i` -/
def covsSingle (inp : Input) (pVar : Array Rat) (C : Mat) (i j : Nat) : Covs Rat :=
  let g := Input.colGamma; let d := inp.colC j
  let a := if inp.alphaMode then inp.colA i else Input.colDalpha
  let t := fun s => inp.colTa s j
  ⟨pVar.getD g 0, pVar.getD d 0, pVar.getD a 0, overSplicePairs inp i true true (fun s s' => C.at (t s) (t s')),
   C.at g d, C.at a g, C.at a d,
   overSplices inp i true (fun s => C.at g (t s)), overSplices inp i true (fun s => C.at d (t s)),
   overSplices inp i true (fun s => C.at a (t s))⟩

end DtsVerif.Propagate
