import DtsVerif.Model.PyPrim
/-!
# Model of the bookkeeping of the vendor readers (`io/silixa.py`, `io/sensornet.py`, `io/apsensing.py`, `io/sensortran.py`)
What is modelled: the order of the files on the time axis, the stacking of per-file tables, the rejection of files with a
different number of points, the Sensornet cut-out (incl. the reversed channel), and the Sensortran byte layout.  Text/XML
parsing itself is outside the model.
-/
namespace DtsVerif.Readers
open DtsVerif.Py

/-- file names compared as character-code lists (Python's `sorted` on `str` / `Path`) -/
def leName (a b : List Nat) : Bool := decide (a ≤ b)

/-- position on the time axis → index of the file in the directory listing: `sorted(glob(...))` -/
def orderByName (names : List (List Nat)) : List Nat := argsortBy leName names

/-- Sensortran (file names hold the time of day only): ordered by the time stamp of the header -/
def orderByTime (stamps : List Int) : List Nat := argsortBy (fun a b => decide (a ≤ b)) stamps

/-- `da.stack(...)`/the explicit loops: every file must have as many points as the first one (in time-axis order) -/
def stackAccept (npoints : List Nat) : Bool :=
  match npoints with
  | [] => false
  | n :: r => r.all (· == n)

/-- value source map of the stacked array: `out[item][i][k] = table(file order[k])[i][item]` -/
def stackSource (order : List Nat) (nx nitem : Nat) : List (List (List (Nat × Nat × Nat))) :=
  (List.range nitem).map fun item => (List.range nx).map fun i => order.map fun f => (f, i, item)

/-- numeric value of a decimal digit list -/
def digitsVal (ds : List Nat) : Nat := ds.foldl (fun acc d => acc * 10 + d) 0

/-! ## Sensornet cut-out -/

/-- `np.abs(xraw - c).argmin()`: first index of a minimal distance -/
def argminAbs (xs : List Rat) (c : Rat) : Nat :=
  let rec go (l : List Rat) (i best : Nat) (bd : Rat) : Nat :=
    match l with
    | [] => best
    | x :: r => let d := absRat (x - c); if d < bd then go r (i + 1) i d else go r (i + 1) best bd
  match xs with
  | [] => 0
  | x :: r => go r 1 0 (absRat (x - c))

structure Cut where
  start : Nat
  stop : Nat                 -- x, st, ast, tmp = raw[start:stop]
  rev : List Nat             -- raw indices of the rows of rst/rast (double-ended)
deriving Repr

/-- the window the Sensornet reader returns; `fiberLength = none` means "derive from the last x" -/
def sensornetCut (xraw : List Rat) (addInternal : Rat) (fiberLength : Option Rat) (double flip : Bool)
    (fibreEnd : Rat) : Cut :=
  let n := xraw.length
  let last := xraw.getD (n - 1) 0
  let fl : Rat := match fiberLength with
    | some v => v
    | none => if double then (if last - addInternal < 0 then 0 else last - addInternal) else last
  let iStart := argminAbs xraw (-addInternal)
  let i0 := argminAbs xraw 0
  let i1 := argminAbs xraw fl
  let nInd := i1 - i0
  let nInt := i0 - iStart
  let iEnd := if double then min n (i1 + nInt) else i1
  let idx := List.range n
  if !double then ⟨iStart, iEnd, []⟩
  else if !flip then
    let b1 := argminAbs xraw fibreEnd
    let bEnd := min n (b1 + (iEnd - i1))
    let bStart := (b1 - nInd) - nInt       -- np.max([0, ...]) on naturals
    if iEnd - iStart = bEnd - bStart then ⟨iStart, iEnd, (idx.drop bStart).take (bEnd - bStart)⟩
    else ⟨iStart, iEnd, (idx.drop iStart).take (iEnd - iStart)⟩
  else
    let left := i0 - iStart
    let right := min iEnd (n - 1) - i1     -- the flipped reverse channel is read from one row further: that row has to exist
    let sh := min left right
    let s := i0 - sh
    let e := i0 + nInd + sh
    ⟨s, e, pySliceRev idx e s⟩

/-! ## Sensortran byte layout (little endian) -/

/-- `struct.unpack("<i"/"<h", bytes)` as an unsigned number: least significant byte first -/
def decodeLE : List Nat → Nat
  | [] => 0
  | b :: r => b + 256 * decodeLE r

def encodeLE : Nat → Nat → List Nat
  | 0, _ => []
  | k + 1, v => (v % 256) :: encodeLE k (v / 256)

/-- two's complement interpretation of a `k`-byte field -/
def toSigned (k : Nat) (v : Nat) : Int := if v < 256 ^ k / 2 then (v : Int) else (v : Int) - (256 ^ k : Nat)

structure StHeader where
  surveyType : Int
  hdrVersion : Int
  xUnits : Int
  yUnits : Int
  numPoints : Int
  numPulses : Int
  channelId : Int
  numSubtraces : Int
  numSkipped : Int
  refTempBits : Nat        -- float32 kept as its bit pattern
  time : Int
deriving Repr, DecidableEq

def field (bytes : List Nat) (off k : Nat) : Nat := decodeLE ((bytes.drop off).take k)

/-- the fixed part of the header as `read_sensortran_single` unpacks it -/
def decodeHeader (b : List Nat) : StHeader :=
  { surveyType := toSigned 2 (field b 0 2), hdrVersion := toSigned 2 (field b 2 2),
    xUnits := toSigned 4 (field b 4 4), yUnits := toSigned 4 (field b 8 4), numPoints := toSigned 4 (field b 12 4),
    numPulses := toSigned 4 (field b 16 4), channelId := toSigned 4 (field b 20 4), numSubtraces := toSigned 4 (field b 24 4),
    numSkipped := toSigned 4 (field b 28 4), refTempBits := field b 32 4, time := toSigned 4 (field b 36 4) }

/-- offset of the two data arrays: 40 bytes fixed part + 128 bytes probe name + hdr_size + hw_config -/
def dataOffset : Nat := 40 + 128 + 4 + 4

/-- the two arrays of `num_points` 4-byte words following the header -/
def decodeArrays (b : List Nat) (npts : Nat) : List Nat × List Nat :=
  let w := fun (off : Nat) => (List.range npts).map fun i => field b (off + 4 * i) 4
  (w dataOffset, w (dataOffset + 4 * npts))

end DtsVerif.Readers
