/-!
# Model of `average_monte_carlo_single_ended` / `average_monte_carlo_double_ended`
What is returned for each averaging mode: the names and dimensions of the outputs, the deterministic means, and the
variance identities of the inverse-variance weighted modes.
-/
namespace DtsVerif.Average

inductive Mode | avg1 | avg2 | avgx1 | avgx2 deriving DecidableEq, Repr

/-- the dimension that is averaged away -/
def Mode.avgDim : Mode → String
  | .avg1 | .avg2 => "time"
  | .avgx1 | .avgx2 => "x"

/-- the dimension that remains (as named when a selection is given: the averaged one is renamed `*_avg`) -/
def Mode.keptDim : Mode → String
  | .avg1 | .avg2 => "x"
  | .avgx1 | .avgx2 => "time"

def Mode.suffix : Mode → String
  | .avg1 => "avg1" | .avg2 => "avg2" | .avgx1 => "avgx1" | .avgx2 => "avgx2"

/-- outputs of one mode for one temperature label: value, variance, confidence bounds (when `conf_ints` is given) -/
def outputs (label : String) (m : Mode) (ci : Bool) : List (String × List String) :=
  [(label ++ "_" ++ m.suffix, [m.keptDim]), (label ++ "_mc_" ++ m.suffix ++ "_var", [m.keptDim])] ++
  (if ci then [(label ++ "_mc_" ++ m.suffix, ["CI", m.keptDim])] else [])

def labels (double : Bool) : List String := if double then ["tmpf", "tmpb", "tmpw"] else ["tmpf"]

def allOutputs (double : Bool) (m : Mode) (ci : Bool) : List (String × List String) :=
  (labels double).flatMap fun l => outputs l m ci

def sumR (l : List Rat) : Rat := l.foldl (· + ·) 0

/-- arithmetic mean (`*_avg1`, `*_avgx1`) -/
def mean (l : List Rat) : Rat := sumR l / (l.length : Nat)

/-- variance of the inverse-variance weighted mean (`*_mc_avg2_var`, `*_mc_avgx2_var`) -/
def ivwVar (v : List Rat) : Rat := 1 / sumR (v.map (1 / ·))

/-- inverse-variance weighted mean of `t` with variances `v` -/
def ivwMean (t v : List Rat) : Rat := sumR ((t.zip v).map fun p => p.1 / p.2) * ivwVar v

end DtsVerif.Average
