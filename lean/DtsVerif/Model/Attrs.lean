/-!
# Model of how section / matching-section / splice definitions travel with a result
Attributes are a string-keyed map of strings; definitions are written through a codec (`yaml.dump` / `yaml.load`); the
calibration and Monte Carlo routines build a NEW dataset and copy the definitions into it; netCDF storage keeps attributes
and coordinates.
-/
namespace DtsVerif.Attrs

/-- the payload is opaque for the bookkeeping: `V` = definitions, `S` = their serialised form -/
structure Codec (V S : Type) where
  dump : V → S
  load : S → V

/-- attribute names (`_sections`, `_matching_sections`, anything else) -/
inductive AKey | sections | matching | other (n : Nat) deriving DecidableEq, Repr
/-- coordinate names -/
inductive CKey | x | time | transAtt | other (n : Nat) deriving DecidableEq, Repr

structure Dataset (S C : Type) where
  attrs : List (AKey × S)
  coords : List (CKey × C)

def Dataset.attr {S C} (d : Dataset S C) (k : AKey) : Option S := (d.attrs.find? (·.1 == k)).map (·.2)
def Dataset.setAttr {S C} (d : Dataset S C) (k : AKey) (v : S) : Dataset S C :=
  { d with attrs := (k, v) :: d.attrs.filter (·.1 != k) }
def Dataset.coord {S C} (d : Dataset S C) (k : CKey) : Option C := (d.coords.find? (·.1 == k)).map (·.2)

variable {V S C : Type}

/-- `calibrate_*`: a fresh output dataset with the coordinates `x, time, trans_att`, `set_sections`, `set_matching_sections` -/
def calibrate (cd : Codec V S) (inp : Dataset S C) (sections matching : V) (transAtt : C) : Dataset S C :=
  let out : Dataset S C := ⟨[], (.transAtt, transAtt) :: inp.coords.filter (·.1 != .transAtt)⟩
  (out.setAttr .sections (cd.dump sections)).setAttr .matching (cd.dump matching)

def getSections (cd : Codec V S) (d : Dataset S C) : Option V := (d.attr .sections).map cd.load
def getMatching (cd : Codec V S) (d : Dataset S C) : Option V := (d.attr .matching).map cd.load

/-- `monte_carlo_*`: `set_sections(out, result.dts.sections)`, `set_matching_sections(out, result.dts.matching_sections)`,
coordinate `trans_att` copied from the result -/
def monteCarlo (cd : Codec V S) (inp result : Dataset S C) (dflt : V) (dfltC : C) : Dataset S C :=
  let out : Dataset S C := ⟨[], (.transAtt, (result.coord .transAtt).getD dfltC) :: inp.coords.filter (·.1 != .transAtt)⟩
  (out.setAttr .sections (cd.dump ((getSections cd result).getD dflt))).setAttr .matching
    (cd.dump ((getMatching cd result).getD dflt))

/-- netCDF round trip: attributes and coordinates are kept as they are -/
def store (d : Dataset S C) : Dataset S C := ⟨d.attrs, d.coords⟩

end DtsVerif.Attrs
