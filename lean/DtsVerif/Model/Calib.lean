import DtsVerif.Model.Wls
import DtsVerif.Model.Sections
/-!
# Model of the calibration: `calibrate_single_ended` / `calibrate_double_ended` (method="wls")

The system of equations is written row by row, one row per observation, in the documented **full** parameter
layout; fixed parameters are moved to the observation (value) and to its variance (squared coefficient times the
variance of the fixed parameter); the exact weighted least-squares solution comes from `Wls.solve`.

Layouts (documented in `dts_accessor_utils.ParameterIndex*`):
* single-ended  `[γ | Δα | c_0..c_{nt-1} | τ_{0,·} | τ_{1,·} | …]`, with `fix_alpha`: `[γ | A_0..A_{N-1} | c | τ]`
* double-ended  `[γ | df | db | A_0..A_{N-1} | τF_{0,·} | τB_{0,·} | τF_{1,·} | τB_{1,·} | …]`
-/
namespace DtsVerif.Calib
open DtsVerif.Wls

abbrev Mat := Array (Array Rat)

def Mat.at (m : Mat) (i j : Nat) : Rat := (m.getD i #[]).getD j 0

structure Input where
  doubleEnded : Bool
  x : Array Rat                 -- all N locations
  nt : Nat
  ixSec : Array Nat             -- reference locations (ascending)
  K : Mat                       -- K[r][j]: reference temperature in kelvin of reference row r at time j
  trans : Array Rat             -- splice locations
  pairs : Array (Nat × Nat)     -- matched (head, tail) location indices
  iF : Mat                      -- ln(st/ast)   (N × nt)
  iB : Mat                      -- ln(rst/rast) (N × nt), double-ended only
  vF : Mat                      -- st_var/st² + ast_var/ast²
  vB : Mat                      -- rst_var/rst² + rast_var/rast²
  fixGamma : Option (Rat × Rat)
  fixDalpha : Option (Rat × Rat)
  fixAlpha : Option (Array Rat × Array Rat)
  c273 : Rat                    -- the double 273.15 as an exact rational
  wbits : Nat                   -- significant bits kept in coefficients 1/K and in the weights
  codeWeightOrder : Bool        -- single-ended: attach the variances in the order the code ravels them (known finding
                                -- C01-weights-transposed: x-major weights on time-major rows); `false` = the Spec

namespace Input

def N (inp : Input) : Nat := inp.x.size
def nta (inp : Input) : Nat := inp.trans.size
def alphaMode (inp : Input) : Bool := !inp.doubleEnded && inp.fixAlpha.isSome

/-- number of parameters of the full layout -/
def npar (inp : Input) : Nat :=
  if inp.doubleEnded then 1 + 2 * inp.nt + inp.N + 2 * inp.nt * inp.nta
  else if inp.alphaMode then 1 + inp.N + inp.nt + inp.nt * inp.nta
  else 2 + inp.nt + inp.nt * inp.nta

def colGamma : Nat := 0
def colDalpha : Nat := 1
def colC (inp : Input) (j : Nat) : Nat := if inp.alphaMode then 1 + inp.N + j else 2 + j
def colDf (j : Nat) : Nat := 1 + j
def colDb (inp : Input) (j : Nat) : Nat := 1 + inp.nt + j
def colA (inp : Input) (i : Nat) : Nat := if inp.doubleEnded then 1 + 2 * inp.nt + i else 1 + i
/-- single-ended splice loss of splice `a` at time `j` -/
def colTa (inp : Input) (a j : Nat) : Nat :=
  (if inp.alphaMode then 1 + inp.N + inp.nt else 2 + inp.nt) + a * inp.nt + j
/-- double-ended splice loss: direction `d` (0 forward, 1 backward) -/
def colTaD (inp : Input) (a d j : Nat) : Nat := 1 + 2 * inp.nt + inp.N + j + inp.nt * d + 2 * inp.nt * a

def xAt (inp : Input) (i : Nat) : Rat := inp.x.getD i 0

/-- the first reference location, where `A = 0` by definition -/
def r0 (inp : Input) : Nat := inp.ixSec.getD 0 0

/-- the code's rule for "first reference row downstream of the splice" (`ix_sec_ta_ix0`) -/
def taIx0 (xs : Array Rat) (s : Rat) : Nat :=
  if xs.size = 0 then 0
  else if s > xs.getD (xs.size - 1) 0 then xs.size      -- strictly behind the last location (a splice AT it acts on it)
  else if s ≤ xs.getD 0 0 then 0
  else ((List.range xs.size).find? (fun k => xs.getD k 0 ≥ s)).getD xs.size

def xSec (inp : Input) : Array Rat := inp.ixSec.map inp.xAt

/-- is reference row `r` downstream of splice `a` (gets the forward loss)? -/
def downSec (inp : Input) (a r : Nat) : Bool := r ≥ taIx0 inp.xSec (inp.trans.getD a 0)
/-- is location `i` downstream of splice `a`, by the rule used for matched locations (on the whole grid)? -/
def downAll (inp : Input) (a i : Nat) : Bool := i ≥ taIx0 inp.x (inp.trans.getD a 0)

def invK (inp : Input) (r j : Nat) : Rat := roundDyadic inp.wbits (1 / inp.K.at r j)

/-- a raw observation before the fixed parameters are moved over: coefficients in the full layout, value, variance -/
structure Obs where
  c : List (Nat × Rat)
  y : Rat
  v : Rat

def b2r (b : Bool) : Rat := if b then 1 else 0

/-- the reference row of observation (reference row `r`, time `j`) of the single-ended fit -/
def refObsS (inp : Input) (j r : Nat) : Obs :=
  let i := inp.ixSec.getD r 0
  let att : List (Nat × Rat) :=
    if inp.alphaMode then [(inp.colA i, -1)] else [(colDalpha, -(inp.xAt i))]
  let ta := (List.range inp.nta).filterMap fun a =>
    if inp.downSec a r then some (inp.colTa a j, (-1 : Rat)) else none
  -- the code ravels `w` location-major although the rows are time-major
  let v := if inp.codeWeightOrder then
      let flat := j * inp.ixSec.size + r
      inp.vF.at (inp.ixSec.getD (flat / inp.nt) 0) (flat % inp.nt)
    else inp.vF.at i j
  ⟨[(colGamma, inp.invK r j)] ++ att ++ [(inp.colC j, -1)] ++ ta, inp.iF.at i j, v⟩

/-- coefficient of the loss of splice `a` in the matching row of pair `pi`: `[x_tail ≥ s_a] − [x_head ≥ s_a]` -/
def matCf (inp : Input) (pi a : Nat) : Rat :=
  b2r (decide (inp.xAt (inp.pairs.getD pi (0, 0)).2 ≥ inp.trans.getD a 0))
    - b2r (decide (inp.xAt (inp.pairs.getD pi (0, 0)).1 ≥ inp.trans.getD a 0))

/-- the matching row of pair `pi` at time `j` of the single-ended fit -/
def matObsS (inp : Input) (j pi : Nat) : Obs :=
  let h := (inp.pairs.getD pi (0, 0)).1
  let t := (inp.pairs.getD pi (0, 0)).2
  let ta := (List.range inp.nta).filterMap fun a =>
    if inp.matCf pi a = 0 then none else some (inp.colTa a j, inp.matCf pi a)
  let v := if inp.codeWeightOrder then
      let flat := j * inp.pairs.size + pi
      let h' := (inp.pairs.getD (flat / inp.nt) (0, 0)).1
      let t' := (inp.pairs.getD (flat / inp.nt) (0, 0)).2
      inp.vF.at h' (flat % inp.nt) + inp.vF.at t' (flat % inp.nt)
    else inp.vF.at h j + inp.vF.at t j
  ⟨[(colDalpha, inp.xAt t - inp.xAt h)] ++ ta, inp.iF.at h j - inp.iF.at t j, v⟩

/-- single-ended observations: reference rows (time-major), then matching rows -/
def obsSingle (inp : Input) : List Obs :=
  let ref := (List.range inp.nt).flatMap fun j => (List.range inp.ixSec.size).map (inp.refObsS j)
  let mat := if inp.alphaMode then [] else
    (List.range inp.nt).flatMap fun j => (List.range inp.pairs.size).map (inp.matObsS j)
  ref ++ mat

/-- locations whose `A` is a free parameter of the double-ended fit: reference ∪ matched, minus the first reference
location (where `A = 0` by definition) -/
def calMatch (inp : Input) : List Nat :=
  let all := inp.ixSec.toList ++ inp.pairs.toList.map (·.1) ++ inp.pairs.toList.map (·.2)
  ((List.range inp.N).filter fun i => all.contains i).filter fun i => i != inp.r0

def matchNotCal (inp : Input) : List Nat :=
  let m := inp.pairs.toList.map (·.1) ++ inp.pairs.toList.map (·.2)
  (List.range inp.N).filter fun i => m.contains i && !inp.ixSec.toList.contains i

def aTerm (inp : Input) (i : Nat) (cf : Rat) : List (Nat × Rat) :=
  if i = inp.r0 then [] else [(inp.colA i, cf)]

/-- forward row of observation (reference row `r`, time `j`) of the double-ended fit -/
def fwObsD (inp : Input) (r j : Nat) : Obs :=
  let i := inp.ixSec.getD r 0
  let ta := (List.range inp.nta).filterMap fun a =>
    if inp.downSec a r then some (inp.colTaD a 0 j, (-1 : Rat)) else none
  ⟨[(colGamma, inp.invK r j), (colDf j, -1)] ++ inp.aTerm i (-1) ++ ta, inp.iF.at i j, inp.vF.at i j⟩

/-- backward row of observation (reference row `r`, time `j`) -/
def bwObsD (inp : Input) (r j : Nat) : Obs :=
  let i := inp.ixSec.getD r 0
  let ta := (List.range inp.nta).filterMap fun a =>
    if !inp.downSec a r then some (inp.colTaD a 1 j, (-1 : Rat)) else none
  ⟨[(colGamma, inp.invK r j), (inp.colDb j, -1)] ++ inp.aTerm i 1 ++ ta, inp.iB.at i j, inp.vB.at i j⟩

/-- double-ended observations: forward rows, backward rows (location-major), EQ1, EQ2, EQ3 -/
def obsDouble (inp : Input) : List Obs :=
  let fw := (List.range inp.ixSec.size).flatMap fun r => (List.range inp.nt).map (inp.fwObsD r)
  let bw := (List.range inp.ixSec.size).flatMap fun r => (List.range inp.nt).map (inp.bwObsD r)
  let eq1 := inp.pairs.toList.flatMap fun ht => (List.range inp.nt).map fun j =>
    let (h, t) := ht
    let ta := (List.range inp.nta).filterMap fun a =>
      let cf := b2r (inp.downAll a t) - b2r (inp.downAll a h)
      if cf = 0 then none else some (inp.colTaD a 0 j, cf)
    (⟨inp.aTerm h (-1) ++ inp.aTerm t 1 ++ ta, inp.iF.at h j - inp.iF.at t j, inp.vF.at h j + inp.vF.at t j⟩ : Obs)
  let eq2 := inp.pairs.toList.flatMap fun ht => (List.range inp.nt).map fun j =>
    let (h, t) := ht
    let ta := (List.range inp.nta).filterMap fun a =>
      let cf := b2r (!inp.downAll a t) - b2r (!inp.downAll a h)
      if cf = 0 then none else some (inp.colTaD a 1 j, cf)
    (⟨inp.aTerm h 1 ++ inp.aTerm t (-1) ++ ta, inp.iB.at h j - inp.iB.at t j, inp.vB.at h j + inp.vB.at t j⟩ : Obs)
  let eq3 := inp.matchNotCal.flatMap fun i => (List.range inp.nt).map fun j =>
    let ta := (List.range inp.nta).flatMap fun a =>
      if inp.downAll a i then [(inp.colTaD a 0 j, (1/2 : Rat))] else [(inp.colTaD a 1 j, (-1/2 : Rat))]
    (⟨[(colDf j, 1/2), (inp.colDb j, -1/2)] ++ inp.aTerm i 1 ++ ta,
      (inp.iB.at i j - inp.iF.at i j) / 2, (inp.vF.at i j + inp.vB.at i j) / 4⟩ : Obs)
  fw ++ bw ++ eq1 ++ eq2 ++ eq3

def obs (inp : Input) : List Obs := if inp.doubleEnded then inp.obsDouble else inp.obsSingle

/-- value and variance of the parameters the user fixed, per full-layout column -/
def fixedCol (inp : Input) (col : Nat) : Option (Rat × Rat) :=
  if col = colGamma then inp.fixGamma
  else if !inp.doubleEnded && !inp.alphaMode && col = colDalpha then inp.fixDalpha
  else match inp.fixAlpha with
    | none => none
    | some (a, v) =>
      let base := inp.colA 0
      if base ≤ col && col < base + inp.N then some (a.getD (col - base) 0, v.getD (col - base) 0) else none

/-- columns that are unknowns of the reduced problem handed to the solver (ascending = the solver's column order) -/
def activeCols (inp : Input) : List Nat :=
  (List.range inp.npar).filter fun col =>
    (inp.fixedCol col).isNone &&
    (if inp.doubleEnded then
        let base := inp.colA 0
        if base ≤ col && col < base + inp.N then inp.calMatch.contains (col - base) else true
      else true)

/-- move the fixed parameters to the observation: value to `y`, squared coefficient times variance to the variance -/
def reduceObs (inp : Input) (o : Obs) : Row :=
  let (cs, y, v) := o.c.foldl (fun (acc : List (Nat × Rat) × Rat × Rat) cv =>
      match inp.fixedCol cv.1 with
      | some (a, va) => (acc.1, acc.2.1 - cv.2 * a, acc.2.2 + cv.2 * cv.2 * va)
      | none => (acc.1 ++ [cv], acc.2.1, acc.2.2)) ([], o.y, o.v)
  ⟨cs, y, roundDyadic inp.wbits (1 / v)⟩

def system (inp : Input) : Sys := ⟨inp.npar, (inp.obs.map inp.reduceObs).toArray⟩

end Input

/-- the calibration result in the full layout -/
structure Result where
  rows : Array Row
  active : List Nat
  rank : Nat
  dof : Int
  errVar : Rat
  pVal : Array Rat
  pVar : Array Rat
  pCov : Mat
  fitted : Array Rat            -- X p per row (estimable)
  fittedVar : Array Rat         -- diag(X C Xᵀ) per row (estimable)

def upstreamSum (inp : Input) (i : Nat) (f : Nat → Rat) (down : Bool) : Rat :=
  (List.range inp.nta).foldl (fun acc a =>
    let s := inp.trans.getD a 0
    let isDown := decide (inp.xAt i ≥ s)
    if isDown == down then acc + f a else acc) 0

/-- `calc_alpha_double(mode="exact")` at location `i`: inverse-variance weighted time average of
`(I_B − I_F)/2 + (db − df)/2 + (TA_B − TA_F)/2`, with the variance the code assigns -/
def alphaOutside (inp : Input) (p v : Array Rat) (i : Nat) : Rat × Rat :=
  let terms := (List.range inp.nt).map fun j =>
    let a := (inp.iB.at i j - inp.iF.at i j) / 2 + (p.getD (inp.colDb j) 0 - p.getD (Input.colDf j) 0) / 2
      + (upstreamSum inp i (fun a => p.getD (inp.colTaD a 1 j) 0) false
          - upstreamSum inp i (fun a => p.getD (inp.colTaD a 0 j) 0) true) / 2
    let av := (inp.vF.at i j + inp.vB.at i j + v.getD (inp.colDb j) 0 + v.getD (Input.colDf j) 0
      + upstreamSum inp i (fun a => v.getD (inp.colTaD a 0 j) 0) true
      + upstreamSum inp i (fun a => v.getD (inp.colTaD a 1 j) 0) false) / 2
    (a, av)
  let sw := terms.foldl (fun acc t => acc + 1 / t.2) 0
  let ev := 1 / sw
  (terms.foldl (fun acc t => acc + t.1 / t.2) 0 * ev, ev)

def Input.isAlphaCol (inp : Input) (c : Nat) : Bool := inp.doubleEnded && decide (inp.colA 0 ≤ c) && decide (c < inp.colA 0 + inp.N)

/-- value of full-layout parameter `c`: supplied if fixed, solved if it is an unknown of the fit, and for the
double-ended `A` at locations that are neither reference nor matched: 0 at the first reference location, the
weighted time average of `calc_alpha_double` elsewhere -/
def pValAt (inp : Input) (active : List Nat) (solP solV : Array Rat) (c : Nat) : Rat :=
  match inp.fixedCol c with
  | some (a, _) => a
  | none =>
    if active.contains c then solP.getD c 0
    else if inp.isAlphaCol c then
      let i := c - inp.colA 0
      if i = inp.r0 then 0 else (alphaOutside inp solP solV i).1
    else 0

def pVarAt (inp : Input) (active : List Nat) (solP solV : Array Rat) (c : Nat) : Rat :=
  match inp.fixedCol c with
  | some (_, va) => va
  | none =>
    if active.contains c then solV.getD c 0
    else if inp.isAlphaCol c then
      let i := c - inp.colA 0
      if i = inp.r0 then 0 else (alphaOutside inp solP solV i).2
    else 0

/-- covariance in the full layout: solved block where both parameters are unknowns of the fit, the variance on the
diagonal, zero elsewhere (fixed parameters and post-computed `A` carry no covariance) -/
def pCovAt (inp : Input) (active : List Nat) (G : Mat) (errVar : Rat) (pVar : Array Rat) (c d : Nat) : Rat :=
  if active.contains c && active.contains d then G.at c d * errVar
  else if c = d then pVar.getD c 0 else 0

def G_diag (G : Mat) (c : Nat) : Rat := G.at c c

def calibrate (inp : Input) : Option Result :=
  let sys := inp.system
  match sys.solve with
  | none => none
  | some sol =>
    let active := inp.activeCols
    let dof : Int := (sys.rows.size : Int) - (active.length : Int)
    let errVar : Rat := if dof > 0 then sol.wssr / (dof : Rat) else 0
    let npar := inp.npar
    let solV : Array Rat := (Array.range npar).map fun c => if active.contains c then G_diag sol.G c * errVar else 0
    let pVal := (Array.range npar).map (pValAt inp active sol.p solV)
    let pVar := (Array.range npar).map (pVarAt inp active sol.p solV)
    let pCov := (Array.range npar).map fun c => (Array.range npar).map fun d => pCovAt inp active sol.G errVar pVar c d
    let fitted := sys.rows.map fun r => r.fit sol.p
    let fittedVar := sys.rows.map fun r =>
      (r.c.map fun cv => (r.c.map fun dv => cv.2 * dv.2 * Mat.at sol.G cv.1 dv.1).sum).sum * errVar
    some ⟨sys.rows, active, sol.rank, dof, errVar, pVal, pVar, pCov, fitted, fittedVar⟩

/-- forward temperature in °C from the reported parameters -/
def tmpf (inp : Input) (p : Array Rat) (i j : Nat) : Rat :=
  let att := if inp.doubleEnded then p.getD (Input.colDf j) 0 + p.getD (inp.colA i) 0
    else p.getD (inp.colC j) 0 + (if inp.alphaMode then p.getD (inp.colA i) 0 else p.getD Input.colDalpha 0 * inp.xAt i)
  let ta := upstreamSum inp i (fun a => p.getD (if inp.doubleEnded then inp.colTaD a 0 j else inp.colTa a j) 0) true
  p.getD Input.colGamma 0 / (inp.iF.at i j + att + ta) - inp.c273

/-- backward temperature in °C (double-ended) -/
def tmpb (inp : Input) (p : Array Rat) (i j : Nat) : Rat :=
  let ta := upstreamSum inp i (fun a => p.getD (inp.colTaD a 1 j) 0) false
  p.getD Input.colGamma 0 / (inp.iB.at i j + p.getD (inp.colDb j) 0 - p.getD (inp.colA i) 0 + ta) - inp.c273

end DtsVerif.Calib
