import DtsVerif.Model.Sections
/-!
# Model of the residual bookkeeping of `variance_stokes_constant/_exponential/_linear`
Residuals are computed stretch by stretch in dictionary order; row `r` of the concatenated residual array belongs to the
`r`-th selected location in that order.
-/
namespace DtsVerif.Resid
open DtsVerif.Sections

/-- grid index of every residual row, in the order in which the residuals are concatenated (dictionary order) -/
def placement (xs : List Rat) (d : Dict) : List Nat := selectedAll xs d

/-- the reshaped residual array: for each grid location the residual row written there (`none` = NaN) -/
def reshaped (xs : List Rat) (d : Dict) : List (Option Nat) :=
  (List.range xs.length).map fun g => (placement xs d).idxOf? g

def sumQ (l : List Rat) : Rat := l.foldl (· + ·) 0

/-- unbiased sample variance `var(ddof=1)` -/
def sampleVar (l : List Rat) : Rat :=
  let n : Rat := (l.length : Nat)
  let m := sumQ l / n
  sumQ (l.map fun x => (x - m) * (x - m)) / (n - 1)

end DtsVerif.Resid
