/-!
# Model of the input guards of `calibrate_single_ended` / `calibrate_double_ended`

An abstract interpretation of IEEE doubles into six classes and the guard chain in the order in which the code runs it:
`validate_sections` (keys, non-empty stretches, finite reference temperatures) → dims check → `st <= 0` assertions on the
reference locations → `parse_st_var` (finite, non-negative) → `fix_alpha` size → method/solver dispatch →
`wls_sparse` (finite `x0`, `X`, `w`, `y`).
-/
namespace DtsVerif.Guards

inductive Cls | negInf | neg | zero | pos | posInf | nan deriving DecidableEq, Repr

def Cls.isFinite : Cls → Bool
  | .neg | .zero | .pos => true
  | _ => false

/-- `v <= 0.0` in numpy (comparisons with NaN are False) -/
def Cls.leZero : Cls → Bool
  | .negInf | .neg | .zero => true
  | _ => false

/-- `v >= 0.0` in numpy (comparisons with NaN are False) -/
def Cls.geZero : Cls → Bool
  | .zero | .pos | .posInf => true
  | _ => false

/-- `np.log` of a class (log of a negative number is NaN, log 0 = −inf) -/
def Cls.log : Cls → Cls
  | .negInf | .neg | .nan => .nan
  | .zero => .negInf
  | .pos => .pos            -- some finite number (sign irrelevant for the guards)
  | .posInf => .posInf

/-- class of `a / b` for a positive finite partner: corrupted numerator resp. denominator -/
def Cls.overPos (a : Cls) : Cls := a
def Cls.posOver : Cls → Cls
  | .negInf | .posInf => .zero
  | .neg => .neg
  | .zero => .posInf
  | .pos => .pos
  | .nan => .nan

/-- where a single corrupted value can sit -/
inductive Site
  | numer      -- st (rst) at a reference location
  | denom      -- ast (rast) at a reference location
  | tref       -- a reference temperature
  | variance   -- a supplied noise variance
  | fixAlphaShort   -- fix_alpha that does not cover every location
  | transposed      -- intensities stored as (time, x)
  | badMethod
  | badSolver
deriving DecidableEq, Repr

inductive Verdict | raises | returns deriving DecidableEq, Repr

/-- the guard chain for one corrupted entry of class `c` at `site`, everything else valid -/
def verdict (site : Site) (c : Cls) : Verdict :=
  match site with
  | .numer =>
    if c.leZero then .raises                            -- "uncontrolled noise in the ST signal"
    else if (Cls.log (c.overPos)).isFinite then .returns else .raises   -- finite check on y in wls_sparse
  | .denom =>
    if c.leZero then .raises
    else if (Cls.log (c.posOver)).isFinite then .returns else .raises
  | .tref => if c.isFinite then .returns else .raises    -- validate_sections (finite reference temperatures)
  | .variance =>
    -- parse_st_var: finite and >= 0; a variance of exactly 0 gives an infinite weight, refused by wls_sparse
    match c with
    | .pos => .returns
    | _ => .raises
  | .fixAlphaShort | .transposed | .badMethod | .badSolver => .raises

/-- the corruptions the property lists for each site -/
def listed : Site → List Cls
  | .numer | .denom => [.zero, .neg, .nan, .posInf, .negInf]
  | .tref => [.nan, .posInf, .negInf]
  | .variance => [.nan, .posInf, .negInf, .neg]
  | _ => [.pos]

end DtsVerif.Guards
