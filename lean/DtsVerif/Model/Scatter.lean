import DtsVerif.Model.PyPrim
/-!
# Where the solver's unknowns go in the full parameter layout (core Lean only)

`calibrate_double_ended_solver` and the three fixed-parameter branches of `calibrate_double_ended_helper` scatter the covariance of
the reduced problem into the documented layout `[γ | df | db | A_0 … A_{N-1} | splice losses]` through an index vector `from_i`
(`p_cov[np.ix_(from_i, from_i)] = out[2]`).  The definitions below are those vectors as the source spells them (the translator
re-reads them on every run and proves `gen = these` by `rfl`); `Props/Scatter.lean` proves where every unknown lands.
`ixE` = the locations whose `A` is an unknown of the fit (`ix_sec[1:]`, or `ix_from_cal_match_to_glob` with matching sections),
`N` = number of locations of the whole fibre.
-/
namespace DtsVerif.Scatter
open DtsVerif.Py

/-- `calibrate_double_ended_solver` (nothing fixed) -/
def fromISolver (nt N nta : Nat) (ixE : List Nat) : List Nat :=
  arange 0 (1 + 2 * nt) ++ ixE.map (fun i => 1 + 2 * nt + i) ++ arange (1 + 2 * nt + N) (1 + 2 * nt + N + nta * nt * 2)

/-- helper, `fix_gamma` -/
def fromIFixGamma (nt N nta : Nat) (ixE : List Nat) : List Nat :=
  arange 1 (2 * nt + 1) ++ ixE.map (fun i => 2 * nt + 1 + i) ++ arange (1 + 2 * nt + N) (1 + 2 * nt + N + nta * nt * 2)

/-- helper, `fix_alpha` -/
def fromIFixAlpha (nt N nta : Nat) : List Nat :=
  arange 0 (1 + 2 * nt) ++ arange (1 + 2 * nt + N) (1 + 2 * nt + N + nta * nt * 2)

/-- helper, `fix_alpha` and `fix_gamma` -/
def fromIFixBoth (nt N nta : Nat) : List Nat :=
  arange 1 (2 * nt + 1) ++ arange (1 + 2 * nt + N) (1 + 2 * nt + N + nta * nt * 2)

end DtsVerif.Scatter
