import DtsVerif.Model.PyPrim
/-!
# Where the solver's unknowns go in the full parameter layout (core Lean only)

`calibrate_double_ended_solver` and the three fixed-parameter branches of `calibrate_double_ended_helper` scatter the covariance of
the reduced problem into the documented layout `[γ | df | db | A_0 … A_{N-1} | splice losses]` through an index vector `from_i`
(`p_cov[np.ix_(from_i, from_i)] = out[2]`).  The definitions below are those vectors as the source spells them (the translator
re-reads them on every run and proves `gen = these` by `rfl`); `Props/Scatter.lean` proves where every unknown lands.
`ixE` = the locations whose `A` is an unknown of the fit (`ix_sec[1:]`, or `ix_from_cal_match_to_glob` with matching sections),
`N` = number of locations of the whole fibre.
-/
namespace DtsVerif.Scatter
open DtsVerif.Py

/-- `calibrate_double_ended_solver` (nothing fixed) -/
def fromISolver (nt N nta : Nat) (ixE : List Nat) : List Nat :=
  arange 0 (1 + 2 * nt) ++ ixE.map (fun i => 1 + 2 * nt + i) ++ arange (1 + 2 * nt + N) (1 + 2 * nt + N + nta * nt * 2)

/-- helper, `fix_gamma` -/
def fromIFixGamma (nt N nta : Nat) (ixE : List Nat) : List Nat :=
  arange 1 (2 * nt + 1) ++ ixE.map (fun i => 2 * nt + 1 + i) ++ arange (1 + 2 * nt + N) (1 + 2 * nt + N + nta * nt * 2)

/-- helper, `fix_alpha` -/
def fromIFixAlpha (nt N nta : Nat) : List Nat :=
  arange 0 (1 + 2 * nt) ++ arange (1 + 2 * nt + N) (1 + 2 * nt + N + nta * nt * 2)

/-- helper, `fix_alpha` and `fix_gamma` -/
def fromIFixBoth (nt N nta : Nat) : List Nat :=
  arange 1 (2 * nt + 1) ++ arange (1 + 2 * nt + N) (1 + 2 * nt + N + nta * nt * 2)

end DtsVerif.Scatter

namespace DtsVerif.Scatter
open DtsVerif.Py

/-- `ip_use` of `calibration_single_ended_helper`: the full-layout positions of the unknowns handed to the solver
(`p_val[ip_use] = out[0]`, `p_cov[np.ix_(ip_use, ip_use)] = out[2]`, the diagonal holds `p_var`), as the source computes it:
start from all positions of the layout in use, drop `[0]` with `fix_gamma`, `range(1, nx+1)` with `fix_alpha`, `[1]` with `fix_dalpha` -/
def ipUseS (alphaMode fg fa fd : Bool) (nt nx nta : Nat) : List Nat :=
  let u0 := if alphaMode then List.range (1 + nx + nt + nta * nt) else List.range (1 + 1 + nt + nta * nt)
  let u1 := if fg then u0.filter (fun i => !([0].contains i)) else u0
  let u2 := if fa then u1.filter (fun i => !((arange 1 (nx + 1)).contains i)) else u1
  let u3 := if fd then u2.filter (fun i => !([1].contains i)) else u2
  u3

end DtsVerif.Scatter
