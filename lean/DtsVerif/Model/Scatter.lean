import DtsVerif.Model.PyPrim
/-!
# Where the solver's unknowns go in the full parameter layout (core Lean only)

`calibrate_double_ended_solver` and the three fixed-parameter branches of `calibrate_double_ended_helper` scatter the covariance of
the reduced problem into the documented layout `[γ | df | db | A_0 … A_{N-1} | splice losses]` through an index vector `from_i`
(`p_cov[np.ix_(from_i, from_i)] = out[2]`).  The definitions below are those vectors as the source spells them (the translator
re-reads them on every run and proves `gen = these` by `rfl`); `Props/Scatter.lean` proves where every unknown lands.
`ixE` = the locations whose `A` is an unknown of the fit (`ix_sec[1:]`, or `ix_from_cal_match_to_glob` with matching sections),
`N` = number of locations of the whole fibre.
-/
namespace DtsVerif.Scatter
open DtsVerif.Py

/-- `calibrate_double_ended_solver` (nothing fixed) -/
def fromISolver (nt N nta : Nat) (ixE : List Nat) : List Nat :=
  arange 0 (1 + 2 * nt) ++ ixE.map (fun i => 1 + 2 * nt + i) ++ arange (1 + 2 * nt + N) (1 + 2 * nt + N + nta * nt * 2)

/-- helper, `fix_gamma` -/
def fromIFixGamma (nt N nta : Nat) (ixE : List Nat) : List Nat :=
  arange 1 (2 * nt + 1) ++ ixE.map (fun i => 2 * nt + 1 + i) ++ arange (1 + 2 * nt + N) (1 + 2 * nt + N + nta * nt * 2)

/-- helper, `fix_alpha` -/
def fromIFixAlpha (nt N nta : Nat) : List Nat :=
  arange 0 (1 + 2 * nt) ++ arange (1 + 2 * nt + N) (1 + 2 * nt + N + nta * nt * 2)

/-- helper, `fix_alpha` and `fix_gamma` -/
def fromIFixBoth (nt N nta : Nat) : List Nat :=
  arange 1 (2 * nt + 1) ++ arange (1 + 2 * nt + N) (1 + 2 * nt + N + nta * nt * 2)

end DtsVerif.Scatter

namespace DtsVerif.Scatter
open DtsVerif.Py

/-- `ip_use` of `calibration_single_ended_helper`: the full-layout positions of the unknowns handed to the solver
(`p_val[ip_use] = out[0]`, `p_cov[np.ix_(ip_use, ip_use)] = out[2]`, the diagonal holds `p_var`), as the source computes it:
start from all positions of the layout in use, drop `[0]` with `fix_gamma`, `range(1, nx+1)` with `fix_alpha`, `[1]` with `fix_dalpha` -/
def ipUseS (alphaMode fg fa fd : Bool) (nt nx nta : Nat) : List Nat :=
  let u0 := if alphaMode then List.range (1 + nx + nt + nta * nt) else List.range (1 + 1 + nt + nta * nt)
  let u1 := if fg then u0.filter (fun i => !([0].contains i)) else u0
  let u2 := if fa then u1.filter (fun i => !((arange 1 (nx + 1)).contains i)) else u1
  let u3 := if fd then u2.filter (fun i => !([1].contains i)) else u2
  u3

end DtsVerif.Scatter

namespace DtsVerif.Scatter
open DtsVerif.Py

/-- numpy fancy assignment `l[idx] = vals` (equal lengths; entries are written in order, so a repeated index keeps the last value) -/
def assignAt {α} (l : List α) : List Nat → List α → List α
  | i :: is, v :: vs => assignAt (l.set i v) is vs
  | _, _ => l

/-- `po_sol` (and `po_var`) of `calibrate_double_ended_solver` without matching sections:
`np.concatenate((p[: 1 + 2 * nt], E_all, p[2 * nt + nx_sec :]))`, then `po[1 + 2 * nt + ix_sec[1:]] = p[1 + 2 * nt : 2 * nt + nx_sec]`,
then `po[1 + 2 * nt + ix_sec[0]] = 0`.  `p` = solver output, `E` = `calc_alpha_double(mode="exact")` at every location. -/
def poSol {α} (p E : List α) (zero : α) (nt nxs : Nat) (ixSec : List Nat) : List α :=
  let base := pySlice p none (some ((1 + 2 * nt : Nat) : Int)) ++ E ++ pySlice p (some ((2 * nt + nxs : Nat) : Int)) none
  let a := assignAt base (ixSec.tail.map (fun i => 1 + 2 * nt + i))
    (pySlice p (some ((1 + 2 * nt : Nat) : Int)) (some ((2 * nt + nxs : Nat) : Int)))
  a.set (1 + 2 * nt + ixSec.headD 0) zero

/-- the same with matching sections: `m = ix_from_cal_match_to_glob.size` unknowns of `A`, at the locations `ixE` -/
def poSolMatch {α} (p E : List α) (zero : α) (nt m : Nat) (ixE : List Nat) (first : Nat) : List α :=
  let base := pySlice p none (some ((1 + 2 * nt : Nat) : Int)) ++ E ++ pySlice p (some ((1 + 2 * nt + m : Nat) : Int)) none
  let a := assignAt base (ixE.map (fun i => 1 + 2 * nt + i))
    (pySlice p (some ((1 + 2 * nt : Nat) : Int)) (some ((1 + 2 * nt + m : Nat) : Int)))
  a.set (1 + 2 * nt + first) zero

end DtsVerif.Scatter
