import DtsVerif.Model.PyPrim
/-!
# Model of `merge_double_ended_times` and the spatial part of `merge_double_ended`
(`dts_accessor_utils.py`).  Timestamps are integer nanoseconds (`datetime64[ns]`).
-/
namespace DtsVerif.Merge
open DtsVerif.Py

inductive Dir | fw | bw deriving DecidableEq, Repr

structure Ev where
  t : Int
  d : Dir
  i : Nat
deriving DecidableEq, Repr

/-- `{**times_fw, **times_bw}`: a backward entry replaces a forward entry with the same key;
    then `sorted(...)` by key.  Keys within one channel are assumed distinct (an xarray time index). -/
def eventsUnsorted (fw bw : List Int) : List Ev :=
  (fw.zipIdx.filter (fun ti => !bw.contains ti.1)).map (fun ti => ⟨ti.1, .fw, ti.2⟩) ++
  bw.zipIdx.map (fun ti => ⟨ti.1, .bw, ti.2⟩)

def events (fw bw : List Int) : List Ev :=
  insSort (fun a b => decide (a.t ≤ b.t)) (eventsUnsorted fw bw)

/-- the adjacent walk: keep `(a, b)` when a forward event is immediately followed by a backward one -/
def walkEv : List Ev → List (Ev × Ev)
  | a :: b :: rest =>
      (if a.d = .fw ∧ b.d = .bw then [(a, b)] else []) ++ walkEv (b :: rest)
  | _ => []

def walk (L : List Ev) : List (Nat × Nat) := (walkEv L).map (fun p => (p.1.i, p.2.i))

/-- `np.isclose(a, b, atol=1.5, rtol=0)` on offsets in nanoseconds -/
def close15 (a b : Int) : Bool := decide (absInt (a - b) ≤ 1500000000)

/-- `leaveout[1:-1] = isclose(dt[:-2], dt[2:]) * ~isclose(dt[:-2], dt[1:-1])` -/
def leaveout (dt : List Int) : List Bool :=
  (List.range dt.length).map fun k =>
    if k = 0 ∨ k + 1 ≥ dt.length then false
    else close15 (dt.getD (k-1) 0) (dt.getD (k+1) 0) && !close15 (dt.getD (k-1) 0) (dt.getD k 0)

def offsets (fw bw : List Int) (pairs : List (Nat × Nat)) : List Int :=
  pairs.map fun p => bw.getD p.2 0 - fw.getD p.1 0

def dtFilter (fw bw : List Int) (pairs : List (Nat × Nat)) : List (Nat × Nat) :=
  ((pairs.zip (leaveout (offsets fw bw pairs))).filter (fun pl => !pl.2)).map (·.1)

/-- all `bw[k] > fw[k]` -/
def allLater (fw bw : List Int) : Bool :=
  (List.range fw.length).all fun k => decide (fw.getD k 0 < bw.getD k 0)

/-- all `fw[k+1] > bw[k]` (added by the `fix:` commit: the channels interleave) -/
def interleaved (fw bw : List Int) : Bool :=
  (List.range (fw.length - 1)).all fun k => decide (bw.getD k 0 < fw.getD (k + 1) 0)

def maxL (l : List Int) : Int := l.foldl max (l.headD 0)
def minL (l : List Int) : Int := l.foldl min (l.headD 0)

/-- the condition under which the code returns both channels unchanged -/
def shortcut (verify : Bool) (fw bw : List Int) : Bool :=
  decide (fw.length = bw.length) && allLater fw bw && interleaved fw bw &&
  (!verify ||
    let dt := (fw.zip bw).map (fun p => p.2 - p.1)
    decide (maxL dt - minL dt ≤ 1500000000))

def positional (n : Nat) : List (Nat × Nat) := (List.range n).map fun k => (k, k)

/-- the index pairs `(i_fw, i_bw)` that `merge_double_ended_times` keeps -/
def mergeTimes (verify : Bool) (fw bw : List Int) : List (Nat × Nat) :=
  if shortcut verify fw bw then positional fw.length
  else
    let p := walk (events fw bw)
    if verify then dtFilter fw bw p else p

/-! ## Spatial part -/

/-- index in `0..n-1` minimising `f`; ties go to the first index -/
def argminLast (f : Nat → Rat) : Nat → Option Nat
  | 0 => none
  | n + 1 =>
    match argminLast f n with
    | none => some n
    | some j => if f n < f j then some n else some j

/-- `reindex(method="nearest", tolerance=tol)` of a *decreasing* source index `src` onto target `x`:
    nearest source sample; a tie goes to the earlier source position, i.e. the larger coordinate
    (observed pandas behaviour, exercised by the correspondence check);
    `none` beyond the tolerance. -/
def nearest (src : List Rat) (tol : Rat) (x : Rat) : Option Nat :=
  match argminLast (fun k => absRat (src.getD k 0 - x)) src.length with
  | some j => if absRat (src.getD j 0 - x) ≤ tol then some j else none
  | none => none

/-- for every forward location: the backward sample that becomes `rst/rast` there -/
def mergeSpace (xf xb : List Rat) (L tol : Rat) : List (Option Nat) :=
  let src := xb.map (L - ·)
  xf.map (nearest src tol)

/-- `channel_number`: the decimal digits of the identifier read as one number (`"channel 12"` ↦ 12);
    `none` when there is no digit -/
def channelNumber (s : String) : Option Nat :=
  let ds := s.toList.filter Char.isDigit
  if ds.isEmpty then none else some (ds.foldl (fun acc c => acc * 10 + (c.toNat - '0'.toNat)) 0)

/-- the channel-order assertion: refused unless the forward id is numerically smaller
    (identifiers without digits fall back to string order) -/
def swappedRefused (chFw chBw : String) : Bool :=
  match channelNumber chFw, channelNumber chBw with
  | some a, some b => !(decide (a < b))
  | _, _ => !(decide (chFw < chBw))

end DtsVerif.Merge
