import DtsVerif.Model.PyPrim
/-!
# Model of `shift_double_ended` and `suggest_cable_shift_double_ended` (`dts_accessor_utils.py`)
-/
namespace DtsVerif.Shift
open DtsVerif.Py

/-- the two Python slicings of `shift_double_ended`: forward-type arrays (`st`, `ast`, `x`) and backward-type
arrays (`rst`, `rast`), along `x`, exactly as written (`[:i]`, `[-i:]`, `[i:]`, `[:nx - i]`) -/
def shift {α} (fwd bwd : List α) (i : Int) : List α × List α :=
  if i < 0 then
    (pySlice fwd none (some i), pySlice bwd (some (-i)) none)
  else
    (pySlice fwd (some i) none, pySlice bwd none (some ((fwd.length : Int) - i)))

/-- first index of a minimal element (`np.argmin`), `0` for the empty list -/
def argminFirst : List Rat → Nat
  | [] => 0
  | [_] => 0
  | a :: b :: r =>
    let j := argminFirst (b :: r)
    if a ≤ (b :: r).getD j 0 then 0 else j + 1

def sumAbsRow (a b : List Rat) : Rat := sumRat ((a.zip b).map fun p => absRat (p.1 - p.2))

/-- `err1` for one candidate shift: Σ |att[j+1] − att[j]| over rows whose mid-point lies in (1, 150) -/
def err1 (x : List Rat) (att : List (List Rat)) : Rat :=
  sumRat <| (List.range (att.length - 1)).map fun j =>
    let xm := (1/2 : Rat) * x.getD (j+1) 0 + (1/2 : Rat) * x.getD j 0
    if 1 < xm ∧ xm < 150 then sumAbsRow (att.getD (j+1) []) (att.getD j []) else 0

/-- `err2`: Σ |att[j+2] − 2 att[j+1] + att[j]| over rows with `x[j+1]` in (1, 150)
(`np.diff(n=2)` is the difference of first differences) -/
def err2 (x : List Rat) (att : List (List Rat)) : Rat :=
  sumRat <| (List.range (att.length - 2)).map fun j =>
    let xm := x.getD (j+1) 0
    if 1 < xm ∧ xm < 150 then
      let d1 := ((att.getD (j+2) []).zip (att.getD (j+1) [])).map fun p => p.1 - p.2
      let d0 := ((att.getD (j+1) []).zip (att.getD j [])).map fun p => p.1 - p.2
      sumAbsRow d1 d0
    else 0

/-- attenuation `(I_B − I_F)/2` of the shifted pair -/
def attOf (iF iB : List (List Rat)) : List (List Rat) :=
  (iB.zip iF).map fun rows => (rows.1.zip rows.2).map fun p => (p.1 - p.2) / 2

structure Suggest where
  err1 : List Rat
  err2 : List Rat
  ishift1 : Int
  ishift2 : Int

def suggest (x : List Rat) (iF iB : List (List Rat)) (irange : List Int) : Suggest :=
  let per := irange.map fun i =>
    let (f, b) := shift iF iB i
    let (x2, _) := shift x x i
    let att := attOf f b
    (err1 x2 att, err2 x2 att)
  let e1 := per.map (·.1)
  let e2 := per.map (·.2)
  ⟨e1, e2, irange.getD (argminFirst e1) 0, irange.getD (argminFirst e2) 0⟩

end DtsVerif.Shift
