/-!
# Chunked evaluation (the value-level content of dask-backed computation)
A chunking splits an axis into consecutive blocks; element-wise expressions, label selections and reductions are evaluated
per block and the pieces are concatenated / combined in block order.
-/
namespace DtsVerif.Chunk

/-- consecutive blocks of the given sizes (the last block takes what is left of a too-short list) -/
def chunked {α} : List Nat → List α → List (List α)
  | [], _ => []
  | n :: ns, l => l.take n :: chunked ns (l.drop n)

/-- element-wise expression evaluated per block -/
def mapChunks {α β} (f : α → β) (cs : List (List α)) : List β := (cs.map (List.map f)).flatten

/-- selection evaluated per block -/
def filterChunks {α} (p : α → Bool) (cs : List (List α)) : List α := (cs.map (List.filter p)).flatten

def sumR (l : List Rat) : Rat := l.foldl (· + ·) 0

/-- reduction: partial sums per block, then the sum of the partial sums -/
def sumChunks (cs : List (List Rat)) : Rat := sumR (cs.map sumR)

end DtsVerif.Chunk
