import DtsVerif.Model.PyPrim
/-!
# Model of the section bookkeeping
`calibration/section_utils.py` (`validate_sections*`) and `dts_accessor_utils.ufunc_per_section_helper`.

A grid is a list of coordinates `xs` (strictly increasing in every dataset the package produces), a stretch is
`slice(a, b)` and selects by label, inclusive on both ends (`ds.x.sel(x=slice(a, b))`).  A sections dictionary is
the list of its values in insertion order; keys are positions.
-/
namespace DtsVerif.Sections
open DtsVerif.Py

structure Stretch where
  a : Rat
  b : Rat
deriving DecidableEq, Repr

abbrev Dict := List (List Stretch)

/-- positional indices selected by `x.sel(x=slice(a, b))` -/
def selIdx (xs : List Rat) (s : Stretch) : List Nat :=
  flatnonzero (fun x => decide (s.a ≤ x) && decide (x ≤ s.b)) xs

/-- a stretch together with (bath position, position within the bath) -/
structure Tagged where
  bath : Nat
  k : Nat
  s : Stretch
deriving Repr

def tagBath (bath : Nat) (l : List Stretch) : List Tagged :=
  l.zipIdx.map fun sk => ⟨bath, sk.2, sk.1⟩

/-- all stretches in dictionary order: `for k, v in sections.items(): for vi in v` -/
def tagged (d : Dict) : List Tagged := d.zipIdx.flatMap fun bk => tagBath bk.2 bk.1

def leStart (s t : Tagged) : Bool := decide (s.s.a ≤ t.s.a)

/-- `np.argsort(start)` then gather.  (Stable here; numpy's sort is not, so equal starts are outside the compared
    domain — they are rejected by the overlap check anyway unless a stretch is a single point.) -/
def sortByStart (l : List Tagged) : List Tagged := insSort leStart l

def flat : List Tagged → List Rat
  | [] => []
  | t :: r => t.s.a :: t.s.b :: flat r

def sortedLE : List Rat → Bool
  | a :: b :: r => decide (a ≤ b) && sortedLE (b :: r)
  | _ => true

/-- `validate_no_overlapping_sections`: starts/stops, ordered by start and flattened, must be non-decreasing -/
def validateNoOverlap (d : Dict) : Bool := sortedLE (flat (sortByStart (tagged d)))

/-- every location index selected, in dictionary order, with multiplicity -/
def selectedAll (xs : List Rat) (d : Dict) : List Nat := (tagged d).flatMap fun t => selIdx xs t.s

def nodupNat : List Nat → Bool
  | [] => true
  | a :: r => !r.contains a && nodupNat r

inductive Stage | ok | overlap | key | empty | shared deriving DecidableEq, Repr

/-- the per-key loop of `validate_sections`: key present, every stretch selects something -/
def validateKeys (xs : List Rat) : List (Bool × List Stretch) → Stage
  | [] => .ok
  | pv :: r =>
    if !pv.1 then .key
    else if pv.2.any (fun s => (selIdx xs s).isEmpty) then .empty
    else validateKeys xs r

/-- `validate_sections` (after the `fix:` commit that adds the shared-location check); `present[k]` tells whether the
    key of bath `k` is a data variable of the dataset. The stages are in the order in which the code raises. -/
def validate (xs : List Rat) (present : List Bool) (d : Dict) : Stage :=
  if !validateNoOverlap d then .overlap
  else
    match validateKeys xs (present.zip d) with
    | .ok => if nodupNat (selectedAll xs d) then .ok else .shared
    | st => st

def accept (xs : List Rat) (present : List Bool) (d : Dict) : Bool := validate xs present d == .ok

/-! ## `ufunc_per_section_helper` orders -/

/-- `calc_per="stretch"`: per bath, stretches in the order given -/
def orderStretch (d : Dict) : List (List Tagged) := d.zipIdx.map fun bk => tagBath bk.2 bk.1

/-- `calc_per="section"`: per bath, stretches sorted by start -/
def orderSection (d : Dict) : List (List Tagged) := (orderStretch d).map sortByStart

/-- `calc_per="all"`: all stretches of all baths sorted by start -/
def orderAll (d : Dict) : List Tagged := sortByStart (tagged d)

/-- the positional indices of all reference locations, as `ufunc_per_section(x_indices=True, calc_per="all")` -/
def ixSecAll (xs : List Rat) (d : Dict) : List Nat := (orderAll d).flatMap fun t => selIdx xs t.s

/-- the bath each of those rows takes its reference temperature from -/
def bathOfRow (xs : List Rat) (d : Dict) : List Nat :=
  (orderAll d).flatMap fun t => List.replicate (selIdx xs t.s).length t.bath

end DtsVerif.Sections
