/-!
# Python / numpy primitives, re-implemented with Python's semantics (core Lean only)

Everything here is total and executable.  These are the building blocks the code-faithful models
use wherever the Python uses `arange`, `repeat`, `tile`, negative-index slices, `reshape(order=F)`,
`argsort`, `flatnonzero(...)[0]`, `.sel(x=slice(a, b))`.
-/
namespace DtsVerif.Py

/-- `np.arange(lo, hi)` for naturals -/
def arange (lo hi : Nat) : List Nat := (List.range (hi - lo)).map (lo + ·)

/-- `np.repeat(l, k)` : every element `k` times, in order -/
def repeatEach {α} (l : List α) (k : Nat) : List α := l.flatMap (fun a => List.replicate k a)

/-- `np.tile(l, k)` : the whole list `k` times -/
def tile {α} (l : List α) (k : Nat) : List α := (List.replicate k l).flatten

/-- `np.arange(n, step=s)` = `0, s, 2s, … < n` -/
def arangeStep (n s : Nat) : List Nat := (List.range ((n + s - 1) / s)).map (· * s)

/-- element-wise sum of two index vectors (numpy raises unless the lengths agree: every use carries a length obligation) -/
def addL (a b : List Nat) : List Nat := List.zipWith (· + ·) a b

/-- `np.zeros(n)`, `np.ones(n)` as index vectors -/
def constL (n v : Nat) : List Nat := List.replicate n v

/-- `np.array(cond, dtype=float)` of one element -/
def ind (b : Bool) : Rat := if b then 1 else 0

/-- `np.array(l >= k, dtype=float)`, `np.array(l < k, dtype=float)` -/
def geInd (l : List Nat) (k : Nat) : List Rat := l.map fun i => ind (decide (i ≥ k))
def ltInd (l : List Nat) (k : Nat) : List Rat := l.map fun i => ind (decide (i < k))

/-- element-wise `-a`, `a + b` (equal lengths), `a / 2` on float vectors -/
def negR (l : List Rat) : List Rat := l.map (fun v => -v)
def addR (a b : List Rat) : List Rat := List.zipWith (· + ·) a b
def halfR (l : List Rat) : List Rat := l.map (fun v => v / 2)

/-- normalise a Python slice bound on a sequence of length `n` (step +1): negative counts from the end,
    everything is clipped into `[0, n]` -/
def normIdx (n : Nat) (k : Int) : Nat :=
  if k < 0 then (Int.toNat (n + k)) else min n k.toNat

/-- Python `l[start:stop]` (step 1), `none` = omitted bound -/
def pySlice {α} (l : List α) (start stop : Option Int) : List α :=
  let lo := normIdx l.length (start.getD 0)
  let hi := normIdx l.length (stop.getD l.length)
  (l.drop lo).take (hi - lo)

/-- Python `l[start:stop:-1]` with both bounds given and non-negative after normalisation:
    elements `start, start-1, …, stop+1`.  (`start` is clipped to `n-1`.) -/
def pySliceRev {α} (l : List α) (start stop : Nat) : List α :=
  let s := min start (l.length - 1)
  if l.length = 0 ∨ s ≤ stop then [] else
  ((l.drop (stop + 1)).take (s - stop)).reverse

/-- first index `i` with `p (l[i])`, or `l.length` when there is none
    (`np.flatnonzero(mask)[0]` guarded by the callers) -/
def firstIdx {α} (p : α → Bool) : List α → Nat
  | [] => 0
  | a :: r => if p a then 0 else firstIdx p r + 1

/-- indices whose element satisfies `p`, ascending (`np.flatnonzero`) -/
def flatnonzero {α} (p : α → Bool) (l : List α) : List Nat :=
  (l.zipIdx.filter (fun ai => p ai.1)).map (·.2)

/-- insertion into a sorted list, before the first element it is `le` to (so equal keys keep their order: stable) -/
def insertBy {α} (le : α → α → Bool) (a : α) : List α → List α
  | [] => [a]
  | b :: r => if le a b then a :: b :: r else b :: insertBy le a r

/-- stable insertion sort (structural recursion, so `decide` can evaluate it) -/
def insSort {α} (le : α → α → Bool) : List α → List α
  | [] => []
  | a :: r => insertBy le a (insSort le r)

/-- stable argsort by a key with a decidable total preorder given as a Bool `le` -/
def argsortBy {α} (le : α → α → Bool) (l : List α) : List Nat :=
  (insSort (fun a b => le a.1 b.1) l.zipIdx).map (·.2)

/-- flat position of multi-index `(i,j,k)` in `flat.reshape((a,b,c), order="F")` -/
def posF3 (a b : Nat) (i j k : Nat) : Nat := i + a * j + a * b * k

/-- flat position of `(i,j,k)` in C order for shape `(a,b,c)` -/
def posC3 (b c : Nat) (i j k : Nat) : Nat := (i * b + j) * c + k

def sumRat (l : List Rat) : Rat := l.foldl (· + ·) 0

def absRat (q : Rat) : Rat := if q < 0 then -q else q

def absInt (q : Int) : Int := if q < 0 then -q else q

end DtsVerif.Py
