import Lean
/-! `#audit_ns NS` prints, for every theorem whose name lies in namespace `NS`, one line
`AUDIT <name> :: <axioms>` — the harness parses these lines on every run. -/
open Lean Elab Command

elab "#audit_ns " ns:ident : command => do
  let env ← getEnv
  let pre := ns.getId
  let mut names : Array Name := #[]
  for (n, ci) in env.constants.toList do
    if pre.isPrefixOf n && !n.isInternal then
      match ci with
      | .thmInfo _ => names := names.push n
      | _ => pure ()
  let sorted := names.qsort (fun a b => a.toString < b.toString)
  for n in sorted do
    let ax ← liftCoreM (collectAxioms n)
    let axs := (ax.qsort (fun a b => a.toString < b.toString)).toList.map (·.toString)
    logInfo m!"AUDIT {n} :: {" ".intercalate axs}"
