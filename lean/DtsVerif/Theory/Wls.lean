import Mathlib.LinearAlgebra.Matrix.DotProduct
import Mathlib.Data.Matrix.Mul
import Mathlib.Data.Matrix.ColumnRowPartitioned
import Mathlib.Tactic.Ring
import Mathlib.Tactic.FieldSimp
import Mathlib.Tactic.Linarith
import Mathlib.Algebra.Order.BigOperators.Ring.Finset
/-!
# Weighted least squares over an ordered field

The facts the calibration rests on, for any linearly ordered field `K` (ℚ for the executable model, ℝ for analysis).
-/
set_option linter.unusedSectionVars false
namespace DtsVerif.Theory
open Matrix Finset

variable {K : Type} [Field K] [LinearOrder K] [IsStrictOrderedRing K]
variable {m n : Type} [Fintype m] [Fintype n]

/-- weighted sum of squared residuals -/
def wssr (X : Matrix m n K) (y w : m → K) (p : n → K) : K :=
  ∑ i, w i * (y i - (X *ᵥ p) i) ^ 2

/-- normal equations `Xᵀ W (y − X p) = 0` -/
def NormalEq (X : Matrix m n K) (y w : m → K) (p : n → K) : Prop :=
  ∀ j, ∑ i, X i j * (w i * (y i - (X *ᵥ p) i)) = 0

theorem wssr_expand (X : Matrix m n K) (y w : m → K) (p q : n → K) (h : NormalEq X y w p) :
    wssr X y w q = wssr X y w p + ∑ i, w i * ((X *ᵥ (p - q)) i) ^ 2 := by
  have key : wssr X y w q = wssr X y w p + ∑ i, w i * ((X *ᵥ (p - q)) i) ^ 2
      + 2 * ∑ i, w i * (y i - (X *ᵥ p) i) * (X *ᵥ (p - q)) i := by
    unfold wssr
    rw [Finset.mul_sum, ← Finset.sum_add_distrib, ← Finset.sum_add_distrib]
    apply Finset.sum_congr rfl
    intro i _
    have : (X *ᵥ (p - q)) i = (X *ᵥ p) i - (X *ᵥ q) i := by
      simp [Matrix.mulVec_sub]
    rw [this]; ring
  have cross : ∑ i, w i * (y i - (X *ᵥ p) i) * (X *ᵥ (p - q)) i = 0 := by
    have : ∀ i, w i * (y i - (X *ᵥ p) i) * (X *ᵥ (p - q)) i
        = ∑ j, (p - q) j * (X i j * (w i * (y i - (X *ᵥ p) i))) := by
      intro i
      simp only [Matrix.mulVec, dotProduct, Finset.mul_sum]
      apply Finset.sum_congr rfl; intro j _; ring
    simp_rw [this]
    rw [Finset.sum_comm]
    apply Finset.sum_eq_zero; intro j _
    rw [← Finset.mul_sum, h j, mul_zero]
  rw [key, cross]; ring

/-- **Normal equations ⇒ global minimiser** of the weighted sum of squared residuals (non-negative weights). -/
theorem normalEq_min (X : Matrix m n K) (y w : m → K) (p : n → K)
    (hw : ∀ i, 0 ≤ w i) (h : NormalEq X y w p) (q : n → K) : wssr X y w p ≤ wssr X y w q := by
  rw [wssr_expand X y w p q h]
  have : 0 ≤ ∑ i, w i * ((X *ᵥ (p - q)) i) ^ 2 :=
    Finset.sum_nonneg (fun i _ => mul_nonneg (hw i) (sq_nonneg _))
  linarith

/-- two solutions of the normal equations have the same fitted values (positive weights): every estimable quantity is
determined even when `XᵀWX` is singular -/
theorem normalEq_fitted_unique (X : Matrix m n K) (y w : m → K) (p q : n → K)
    (hw : ∀ i, 0 < w i) (hp : NormalEq X y w p) (hq : NormalEq X y w q) : X *ᵥ p = X *ᵥ q := by
  have e1 := wssr_expand X y w p q hp
  have e2 := wssr_expand X y w q p hq
  have hsym : ∀ i, ((X *ᵥ (q - p)) i) ^ 2 = ((X *ᵥ (p - q)) i) ^ 2 := by
    intro i
    have : (X *ᵥ (q - p)) i = - (X *ᵥ (p - q)) i := by
      simp [Matrix.mulVec_sub]
    rw [this]; ring
  simp_rw [hsym] at e2
  have hzero : ∑ i, w i * ((X *ᵥ (p - q)) i) ^ 2 = 0 := by linarith
  have hnn : ∀ i ∈ (Finset.univ : Finset m), 0 ≤ w i * ((X *ᵥ (p - q)) i) ^ 2 :=
    fun i _ => mul_nonneg (le_of_lt (hw i)) (sq_nonneg _)
  have hall := (Finset.sum_eq_zero_iff_of_nonneg hnn).mp hzero
  funext i
  have hi := hall i (Finset.mem_univ i)
  have : ((X *ᵥ (p - q)) i) ^ 2 = 0 := by
    rcases mul_eq_zero.mp hi with h | h
    · exact absurd h (ne_of_gt (hw i))
    · exact h
  have h0 : (X *ᵥ (p - q)) i = 0 := by simpa using this
  have : (X *ᵥ p) i - (X *ᵥ q) i = 0 := by
    simpa [Matrix.mulVec_sub] using h0
  linarith

/-- **Exact recovery**: data that satisfy the model exactly (`y = X p₀`) are fitted exactly; with full column rank the
parameters themselves are recovered. -/
theorem exact_recovery (X : Matrix m n K) (w : m → K) (p₀ p : n → K)
    (hw : ∀ i, 0 < w i) (h : NormalEq X (X *ᵥ p₀) w p) :
    X *ᵥ p = X *ᵥ p₀ ∧ ((∀ v, X *ᵥ v = 0 → v = 0) → p = p₀) := by
  have h0 : NormalEq X (X *ᵥ p₀) w p₀ := by
    intro j; simp
  have hfit := normalEq_fitted_unique X (X *ᵥ p₀) w p p₀ hw h h0
  refine ⟨hfit, fun hinj => ?_⟩
  have : X *ᵥ (p - p₀) = 0 := by rw [Matrix.mulVec_sub, hfit, sub_self]
  have := hinj _ this
  exact sub_eq_zero.mp this

/-- **Translation**: adding `X v` to the observations shifts the solution by `v` and leaves every residual unchanged
(e.g. a detector gain `k` adds `ln k` to every reference observation, which is `X v` for `v` supported on `c`). -/
theorem wls_translate (X : Matrix m n K) (y w : m → K) (p v : n → K) (h : NormalEq X y w p) :
    NormalEq X (y + X *ᵥ v) w (p + v) ∧ ∀ i, (y + X *ᵥ v) i - (X *ᵥ (p + v)) i = y i - (X *ᵥ p) i := by
  have hres : ∀ i, (y + X *ᵥ v) i - (X *ᵥ (p + v)) i = y i - (X *ᵥ p) i := by
    intro i; simp [Matrix.mulVec_add]
  refine ⟨?_, hres⟩
  intro j
  have := h j
  simp_rw [hres]
  exact this

/-- scaling all weights by a non-zero constant does not change the solution set -/
theorem wls_weight_scale (X : Matrix m n K) (y w : m → K) (p : n → K) (c : K) (hc : c ≠ 0) :
    NormalEq X y (fun i => c * w i) p ↔ NormalEq X y w p := by
  constructor
  · intro h j
    have := h j
    have e : ∑ i, X i j * (c * w i * (y i - (X *ᵥ p) i)) = c * ∑ i, X i j * (w i * (y i - (X *ᵥ p) i)) := by
      rw [Finset.mul_sum]; apply Finset.sum_congr rfl; intro i _; ring
    rw [e] at this
    rcases mul_eq_zero.mp this with h' | h'
    · exact absurd h' hc
    · exact h'
  · intro h j
    have e : ∑ i, X i j * (c * w i * (y i - (X *ᵥ p) i)) = c * ∑ i, X i j * (w i * (y i - (X *ᵥ p) i)) := by
      rw [Finset.mul_sum]; apply Finset.sum_congr rfl; intro i _; ring
    rw [e, h j, mul_zero]

/-- re-ordering the observations (rows) does not change the solution set -/
theorem wls_row_perm {m' : Type} [Fintype m'] (e : m' ≃ m) (X : Matrix m n K) (y w : m → K) (p : n → K) :
    NormalEq (X.submatrix e id) (y ∘ e) (w ∘ e) p ↔ NormalEq X y w p := by
  have key : ∀ j, ∑ i', (X.submatrix e id) i' j * ((w ∘ e) i' * ((y ∘ e) i' - ((X.submatrix e id) *ᵥ p) i'))
      = ∑ i, X i j * (w i * (y i - (X *ᵥ p) i)) := by
    intro j
    rw [← Equiv.sum_comp e]
    apply Finset.sum_congr rfl
    intro i' _
    simp [Matrix.mulVec, dotProduct, Matrix.submatrix]
  constructor
  · intro h j; rw [← key j]; exact h j
  · intro h j; rw [key j]; exact h j

variable {f : Type} [Fintype f]

/-- **Fixed parameters**: with the parameters `p_f` of the columns `X_f` held fixed, the objective in the remaining
parameters is the objective of the reduced problem whose observations are `y − X_f p_f`. -/
theorem wssr_fixed_reduction (X₁ : Matrix m n K) (Xf : Matrix m f K) (y w : m → K) (p₁ : n → K) (pf : f → K) :
    wssr (Matrix.fromCols X₁ Xf) y w (Sum.elim p₁ pf) = wssr X₁ (y - Xf *ᵥ pf) w p₁ := by
  unfold wssr
  apply Finset.sum_congr rfl
  intro i _
  have : ((Matrix.fromCols X₁ Xf) *ᵥ (Sum.elim p₁ pf)) i = (X₁ *ᵥ p₁) i + (Xf *ᵥ pf) i := by
    rw [Matrix.fromCols_mulVec_sumElim]; rfl
  rw [this]
  simp only [Pi.sub_apply]
  ring

/-! ## Column scaling (the conditioning step of `wls_sparse`) -/

section ColumnScaling
/-- the design matrix with column `j` multiplied by `d j` (as `wls_sparse` does with `d j = 1/‖column j‖`) -/
def scaleCols (X : Matrix m n K) (d : n → K) : Matrix m n K := Matrix.of fun i j => X i j * d j

theorem scaleCols_mulVec (X : Matrix m n K) (d q : n → K) :
    scaleCols X d *ᵥ q = X *ᵥ (fun j => d j * q j) := by
  funext i
  simp only [scaleCols, Matrix.mulVec, dotProduct, Matrix.of_apply]
  apply Finset.sum_congr rfl; intro j _; ring

/-- the weighted SSR of the column-scaled problem at `q` is that of the original problem at `d·q` -/
theorem wssr_scaleCols (X : Matrix m n K) (y w : m → K) (d q : n → K) :
    wssr (scaleCols X d) y w q = wssr X y w (fun j => d j * q j) := by
  unfold wssr; rw [scaleCols_mulVec]

/-- **Column scaling.** `q` solves the normal equations of the column-scaled problem iff `d·q` solves those of the original
problem (all scale factors non-zero): solving the well-conditioned scaled system and un-scaling gives a least-squares
solution of the system that was posed, whatever the units of the columns (metre- or kilometre-scale `x`). -/
theorem normalEq_scaleCols (X : Matrix m n K) (y w : m → K) (d q : n → K) (hd : ∀ j, d j ≠ 0) :
    NormalEq (scaleCols X d) y w q ↔ NormalEq X y w (fun j => d j * q j) := by
  unfold NormalEq
  rw [scaleCols_mulVec]
  constructor
  · intro h j
    have := h j
    simp only [scaleCols, Matrix.of_apply] at this
    have e : ∑ i, X i j * d j * (w i * (y i - (X *ᵥ fun j => d j * q j) i))
        = d j * ∑ i, X i j * (w i * (y i - (X *ᵥ fun j => d j * q j) i)) := by
      rw [Finset.mul_sum]; apply Finset.sum_congr rfl; intro i _; ring
    rw [e] at this
    exact (mul_eq_zero.mp this).resolve_left (hd j)
  · intro h j
    simp only [scaleCols, Matrix.of_apply]
    have e : ∑ i, X i j * d j * (w i * (y i - (X *ᵥ fun j => d j * q j) i))
        = d j * ∑ i, X i j * (w i * (y i - (X *ᵥ fun j => d j * q j) i)) := by
      rw [Finset.mul_sum]; apply Finset.sum_congr rfl; intro i _; ring
    rw [e, h j, mul_zero]

/-- the minimiser of the scaled problem, un-scaled, minimises the original weighted SSR -/
theorem scaleCols_min (X : Matrix m n K) (y w : m → K) (d q : n → K) (hd : ∀ j, d j ≠ 0) (hw : ∀ i, 0 ≤ w i)
    (h : NormalEq (scaleCols X d) y w q) (p : n → K) :
    wssr X y w (fun j => d j * q j) ≤ wssr X y w p :=
  normalEq_min X y w _ hw ((normalEq_scaleCols X y w d q hd).mp h) p

variable [DecidableEq n]

/-- normal matrix `Xᵀ W X` -/
def normalMat (X : Matrix m n K) (w : m → K) : Matrix n n K := Matrix.of fun j k => ∑ i, X i j * w i * X i k

theorem normalMat_scaleCols (X : Matrix m n K) (w : m → K) (d : n → K) :
    normalMat (scaleCols X d) w = Matrix.of fun j k => d j * normalMat X w j k * d k := by
  ext j k
  simp only [normalMat, scaleCols, Matrix.of_apply, Finset.mul_sum, Finset.sum_mul]
  apply Finset.sum_congr rfl; intro i _; ring

/-- **Covariance under column scaling.** If `Gs` is a generalised inverse of the scaled normal matrix (`As Gs As = As`) then
`D Gs D` is one of the original normal matrix: un-scaling the covariance of the scaled solution by `d j · d k` gives a
covariance of the posed problem. -/
theorem ginverse_scaleCols (A Gs : Matrix n n K) (d : n → K) (hd : ∀ j, d j ≠ 0)
    (hG : (Matrix.of fun j k => d j * A j k * d k) * Gs * (Matrix.of fun j k => d j * A j k * d k)
          = Matrix.of fun j k => d j * A j k * d k) :
    A * (Matrix.of fun j k => d j * Gs j k * d k) * A = A := by
  ext j k
  have h := congrFun (congrFun hG j) k
  simp only [Matrix.mul_apply, Matrix.of_apply, Finset.sum_mul] at h ⊢
  have e : ∀ a b, d j * A j a * d a * Gs a b * (d b * A b k * d k) = d j * (A j a * (d a * Gs a b * d b) * A b k) * d k := by
    intro a b; ring
  simp only [e, ← Finset.mul_sum, ← Finset.sum_mul] at h
  have hj := hd j; have hk := hd k
  have h2 : (∑ i, (∑ a, A j a * (d a * Gs a i * d i)) * A i k) = A j k := by
    have := mul_right_cancel₀ hk h
    exact mul_left_cancel₀ hj this
  simp only [Finset.sum_mul] at h2
  exact h2

end ColumnScaling

end DtsVerif.Theory
