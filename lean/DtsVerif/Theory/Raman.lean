import Mathlib.Analysis.SpecialFunctions.Log.Deriv
import Mathlib.Analysis.Calculus.Deriv.Inv
import Mathlib.Analysis.Calculus.Deriv.Mul
import Mathlib.Analysis.Calculus.Deriv.Add
/-!
# Calculus of the temperature equation `T = γ / (ln(st/ast) + offsets)` over ℝ
-/
namespace DtsVerif.Theory
open Real

/-- generic: `d/ds (g / D(s)) = −(g/D)² / g · D'` -/
theorem hasDeriv_T_of_den {D : ℝ → ℝ} {D' s g : ℝ} (hden : HasDerivAt D D' s)
    (hD : D s ≠ 0) (hg : g ≠ 0) :
    HasDerivAt (fun s => g / D s) (-(g / D s) ^ 2 / g * D') s := by
  have h := (hasDerivAt_const s g).div hden hD
  refine h.congr_deriv ?_
  field_simp
  ring

/-- `∂T/∂γ = T/γ` -/
theorem hasDeriv_T_gamma (g D : ℝ) (hg : g ≠ 0) :
    HasDerivAt (fun g' => g' / D) ((g / D) / g) g := by
  have h := (hasDerivAt_id g).div_const D
  refine h.congr_deriv ?_
  field_simp

/-- an additive term of the denominator (`c`, `df`, `db`, `α` forward, a splice loss): `∂T/∂p = −T²/γ` -/
theorem hasDeriv_T_offset (g I p : ℝ) (hD : I + p ≠ 0) (hg : g ≠ 0) :
    HasDerivAt (fun q => g / (I + q)) (-(g / (I + p)) ^ 2 / g) p := by
  have hden : HasDerivAt (fun q : ℝ => I + q) 1 p := (hasDerivAt_id p).const_add I
  have h := hasDeriv_T_of_den hden hD hg
  simpa using h

/-- a subtracted term of the denominator (`α` in the backward equation): `∂T/∂α = +T²/γ` -/
theorem hasDeriv_T_neg_offset (g I p : ℝ) (hD : I - p ≠ 0) (hg : g ≠ 0) :
    HasDerivAt (fun q => g / (I - q)) ((g / (I - p)) ^ 2 / g) p := by
  have hden : HasDerivAt (fun q : ℝ => I - q) (-1) p := (hasDerivAt_id p).const_sub I
  have h := hasDeriv_T_of_den hden hD hg
  refine h.congr_deriv ?_
  ring

/-- `Δα` enters as `Δα·x`: `∂T/∂Δα = −x·T²/γ` -/
theorem hasDeriv_T_dalpha (g I x p : ℝ) (hD : I + p * x ≠ 0) (hg : g ≠ 0) :
    HasDerivAt (fun q => g / (I + q * x)) (-x * (g / (I + p * x)) ^ 2 / g) p := by
  have hden : HasDerivAt (fun q : ℝ => I + q * x) x p := by
    have := ((hasDerivAt_id p).mul_const x).const_add I
    simpa using this
  have h := hasDeriv_T_of_den hden hD hg
  refine h.congr_deriv ?_
  ring

theorem hasDeriv_logratio_st (st ast : ℝ) (hst : 0 < st) (hast : 0 < ast) :
    HasDerivAt (fun s => Real.log (s / ast)) (1 / st) st := by
  have h1 : HasDerivAt (fun s : ℝ => s / ast) (1 / ast) st :=
    (hasDerivAt_id st).div_const ast
  have h2 := h1.log (by positivity)
  refine h2.congr_deriv ?_
  field_simp

theorem hasDeriv_logratio_ast (st ast : ℝ) (hst : 0 < st) (hast : 0 < ast) :
    HasDerivAt (fun a => Real.log (st / a)) (-(1 / ast)) ast := by
  have h1 : HasDerivAt (fun a : ℝ => st / a) ((0 * ast - st * 1) / ast ^ 2) ast :=
    (hasDerivAt_const ast st).div (hasDerivAt_id ast) hast.ne'
  have h2 := h1.log (div_pos hst hast).ne'
  refine h2.congr_deriv ?_
  field_simp
  ring

/-- `∂T/∂st = −T²/(γ·st)` through `ln(st/ast)` -/
theorem hasDeriv_T_st (g c st ast : ℝ) (hst : 0 < st) (hast : 0 < ast)
    (hD : Real.log (st / ast) + c ≠ 0) (hg : g ≠ 0) :
    HasDerivAt (fun s => g / (Real.log (s / ast) + c))
      (-(g / (Real.log (st / ast) + c)) ^ 2 / (g * st)) st := by
  have hden := (hasDeriv_logratio_st st ast hst hast).add_const c
  have h := hasDeriv_T_of_den hden hD hg
  refine h.congr_deriv ?_
  field_simp

/-- `∂T/∂ast = +T²/(γ·ast)` -/
theorem hasDeriv_T_ast (g c st ast : ℝ) (hst : 0 < st) (hast : 0 < ast)
    (hD : Real.log (st / ast) + c ≠ 0) (hg : g ≠ 0) :
    HasDerivAt (fun a => g / (Real.log (st / a) + c))
      ((g / (Real.log (st / ast) + c)) ^ 2 / (g * ast)) ast := by
  have hden := (hasDeriv_logratio_ast st ast hst hast).add_const c
  have h := hasDeriv_T_of_den hden hD hg
  refine h.congr_deriv ?_
  field_simp

end DtsVerif.Theory
