import DtsVerif.Model.MonteCarlo
import Mathlib.Algebra.Order.Floor.Ring
import Mathlib.Data.Rat.Floor
import Mathlib.Tactic.Linarith
import Mathlib.Tactic.Positivity
/-! Monotonicity of the linear-interpolation percentile (C08, C09). -/
namespace DtsVerif.MonteCarlo

theorem getD_mono (a : List Rat) (hs : a.Pairwise (· ≤ ·)) (i j : Nat) (hij : i ≤ j) (hj : j < a.length) :
    a.getD i 0 ≤ a.getD j 0 := by
  have hi : i < a.length := by omega
  rw [List.getD_eq_getElem?_getD, List.getD_eq_getElem?_getD, List.getElem?_eq_getElem hi, List.getElem?_eq_getElem hj]
  simp only [Option.getD_some]
  rcases Nat.lt_or_ge i j with h | h
  · exact (List.pairwise_iff_getElem.mp hs) i j hi hj h
  · have : i = j := by omega
    subst this; exact le_refl _

/-- the interpolant at fractional position `h` -/
def interp (a : List Rat) (h : Rat) : Rat :=
  let lo : Nat := (h.floor).toNat
  let hi : Nat := min (lo + 1) (a.length - 1)
  a.getD lo 0 + (h - (lo : Nat)) * (a.getD hi 0 - a.getD lo 0)

theorem floor_facts (h : Rat) (h0 : 0 ≤ h) :
    (((h.floor).toNat : Nat) : Rat) ≤ h ∧ h < (((h.floor).toNat : Nat) : Rat) + 1 := by
  have hf : (h.floor : Int) = ⌊h⌋ := rfl
  have hnn : 0 ≤ ⌊h⌋ := Int.floor_nonneg.mpr h0
  have hc : (((h.floor).toNat : Nat) : Rat) = ((⌊h⌋ : Int) : Rat) := by
    rw [hf]
    have : ((⌊h⌋.toNat : Nat) : Int) = ⌊h⌋ := Int.toNat_of_nonneg hnn
    exact_mod_cast congrArg (fun z : Int => (z : Rat)) this
  rw [hc]
  exact ⟨Int.floor_le h, Int.lt_floor_add_one h⟩

theorem interp_bounds (a : List Rat) (hs : a.Pairwise (· ≤ ·)) (h : Rat) (h0 : 0 ≤ h)
    (hm : h ≤ ((a.length - 1 : Nat) : Rat)) (hn : 0 < a.length) :
    a.getD ((h.floor).toNat) 0 ≤ interp a h ∧
    interp a h ≤ a.getD (min ((h.floor).toNat + 1) (a.length - 1)) 0 := by
  obtain ⟨f1, f2⟩ := floor_facts h h0
  set lo := (h.floor).toNat with hlo
  have hlo_le : lo ≤ a.length - 1 := by
    have : ((lo : Nat) : Rat) ≤ ((a.length - 1 : Nat) : Rat) := le_trans f1 hm
    exact_mod_cast this
  have hd : a.getD lo 0 ≤ a.getD (min (lo + 1) (a.length - 1)) 0 :=
    getD_mono a hs lo _ (by omega) (by omega)
  have hfrac0 : 0 ≤ h - (lo : Nat) := by linarith
  have hfrac1 : h - (lo : Nat) ≤ 1 := by linarith
  unfold interp
  simp only [← hlo]
  constructor
  · have : 0 ≤ (h - (lo : Nat)) * (a.getD (min (lo + 1) (a.length - 1)) 0 - a.getD lo 0) :=
      mul_nonneg hfrac0 (by linarith)
    linarith
  · have : (h - (lo : Nat)) * (a.getD (min (lo + 1) (a.length - 1)) 0 - a.getD lo 0)
        ≤ 1 * (a.getD (min (lo + 1) (a.length - 1)) 0 - a.getD lo 0) :=
      mul_le_mul_of_nonneg_right hfrac1 (by linarith)
    linarith

/-- the interpolant is non-decreasing in the position -/
theorem interp_mono (a : List Rat) (hs : a.Pairwise (· ≤ ·)) (h₁ h₂ : Rat) (h0 : 0 ≤ h₁) (h12 : h₁ ≤ h₂)
    (hm : h₂ ≤ ((a.length - 1 : Nat) : Rat)) (hn : 0 < a.length) : interp a h₁ ≤ interp a h₂ := by
  have h02 : 0 ≤ h₂ := le_trans h0 h12
  have hm1 : h₁ ≤ ((a.length - 1 : Nat) : Rat) := le_trans h12 hm
  obtain ⟨b1l, b1u⟩ := interp_bounds a hs h₁ h0 hm1 hn
  obtain ⟨b2l, b2u⟩ := interp_bounds a hs h₂ h02 hm hn
  obtain ⟨f1, f1'⟩ := floor_facts h₁ h0
  obtain ⟨f2, f2'⟩ := floor_facts h₂ h02
  have hfl : (h₁.floor).toNat ≤ (h₂.floor).toNat := by
    have : ((((h₁.floor).toNat : Nat) : Rat)) < (((h₂.floor).toNat : Nat) : Rat) + 1 := by linarith
    have : (((h₁.floor).toNat : Nat)) < ((h₂.floor).toNat : Nat) + 1 := by exact_mod_cast this
    omega
  have hlo2 : (h₂.floor).toNat ≤ a.length - 1 := by
    have : ((((h₂.floor).toNat : Nat)) : Rat) ≤ ((a.length - 1 : Nat) : Rat) := le_trans f2 hm
    exact_mod_cast this
  rcases Nat.lt_or_ge (h₁.floor).toNat (h₂.floor).toNat with hlt | hge
  · -- different cells: f(h₁) ≤ a[hi₁] ≤ a[lo₂] ≤ f(h₂)
    have hmid : a.getD (min ((h₁.floor).toNat + 1) (a.length - 1)) 0 ≤ a.getD ((h₂.floor).toNat) 0 :=
      getD_mono a hs _ _ (by omega) (by omega)
    linarith
  · -- same cell: linear with non-negative slope
    have heq : (h₁.floor).toNat = (h₂.floor).toNat := by omega
    unfold interp
    simp only [heq]
    have hd : a.getD ((h₂.floor).toNat) 0 ≤ a.getD (min ((h₂.floor).toNat + 1) (a.length - 1)) 0 :=
      getD_mono a hs _ _ (by omega) (by omega)
    have : (h₁ - ((h₂.floor).toNat : Nat)) * (a.getD (min ((h₂.floor).toNat + 1) (a.length - 1)) 0 - a.getD ((h₂.floor).toNat) 0)
        ≤ (h₂ - ((h₂.floor).toNat : Nat)) * (a.getD (min ((h₂.floor).toNat + 1) (a.length - 1)) 0 - a.getD ((h₂.floor).toNat) 0) :=
      mul_le_mul_of_nonneg_right (by linarith) (by linarith)
    linarith

theorem percentile_eq_interp (a : List Rat) (q : Rat) (hn : 0 < a.length) :
    percentile a q = interp a (q / 100 * ((a.length : Nat) - 1 : Int)) := by
  unfold percentile interp
  have : ¬ a.length = 0 := by omega
  simp [this]

end DtsVerif.MonteCarlo
