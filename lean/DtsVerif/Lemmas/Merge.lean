import DtsVerif.Model.Merge
import DtsVerif.Lemmas.PyPrim
/-! Helper lemmas for C15 (core Lean only). -/
namespace DtsVerif.Merge

/-- strictly increasing in time -/
def StrictSorted : List Ev → Prop
  | a :: b :: rest => a.t < b.t ∧ StrictSorted (b :: rest)
  | _ => True

/-- spec on events: `a` forward, `b` backward, `a` before `b`, nothing strictly in between -/
def Adjacent (L : List Ev) (a b : Ev) : Prop :=
  a ∈ L ∧ b ∈ L ∧ a.d = .fw ∧ b.d = .bw ∧ a.t < b.t ∧ ∀ c ∈ L, ¬ (a.t < c.t ∧ c.t < b.t)

theorem strictSorted_head_lt : ∀ {a : Ev} {L : List Ev}, StrictSorted (a :: L) → ∀ c ∈ L, a.t < c.t
  | a, [], _, c, hc => by cases hc
  | a, b :: rest, h, c, hc => by
    have hab : a.t < b.t := h.1
    have hs : StrictSorted (b :: rest) := h.2
    cases hc with
    | head => exact hab
    | tail _ hc' => exact Int.lt_trans hab (strictSorted_head_lt hs c hc')

theorem walkEv_iff : ∀ (L : List Ev), StrictSorted L → ∀ a b, (a, b) ∈ walkEv L ↔ Adjacent L a b
  | [], _, a, b => by simp [walkEv, Adjacent]
  | [x], _, a, b => by
      simp only [walkEv, List.not_mem_nil, false_iff, Adjacent, List.mem_singleton]
      rintro ⟨rfl, rfl, h1, h2, _⟩
      rw [h1] at h2; cases h2
  | x :: y :: rest, hs, a, b => by
      have hxy : x.t < y.t := hs.1
      have hs' : StrictSorted (y :: rest) := hs.2
      have ih := walkEv_iff (y :: rest) hs' a b
      have hlt := strictSorted_head_lt hs
      have hlt' := strictSorted_head_lt hs'
      simp only [walkEv, List.mem_append]
      constructor
      · rintro (h | h)
        · split at h
          · rename_i hd
            simp only [List.mem_singleton, Prod.mk.injEq] at h
            obtain ⟨rfl, rfl⟩ := h
            refine ⟨List.mem_cons_self, List.mem_cons_of_mem _ List.mem_cons_self, hd.1, hd.2, hxy, ?_⟩
            intro c hc ⟨h1, h2⟩
            cases hc with
            | head => exact absurd h1 (Int.lt_irrefl _)
            | tail _ hc =>
              cases hc with
              | head => exact absurd h2 (Int.lt_irrefl _)
              | tail _ hc => exact absurd (Int.lt_trans (hlt' c hc) h2) (Int.lt_irrefl _)
          · cases h
        · obtain ⟨ha, hb, hd1, hd2, hab, hno⟩ := ih.mp h
          refine ⟨List.mem_cons_of_mem _ ha, List.mem_cons_of_mem _ hb, hd1, hd2, hab, ?_⟩
          intro c hc hcc
          cases hc with
          | head => exact absurd (Int.lt_trans (hlt a ha) hcc.1) (Int.lt_irrefl _)
          | tail _ hc => exact hno c hc hcc
      · rintro ⟨ha, hb, hd1, hd2, hab, hno⟩
        cases ha with
        | head =>
          left
          have hbm : b ∈ y :: rest := by
            cases hb with
            | head => exact absurd hab (Int.lt_irrefl _)
            | tail _ h => exact h
          have hby : b = y := by
            cases hbm with
            | head => rfl
            | tail _ hbr =>
              exfalso
              exact hno y (List.mem_cons_of_mem _ List.mem_cons_self) ⟨hxy, hlt' b hbr⟩
          subst hby
          simp [hd1, hd2]
        | tail _ ha =>
          right
          have hbm : b ∈ y :: rest := by
            cases hb with
            | head =>
              exfalso
              exact absurd (Int.lt_trans (hlt a ha) hab) (Int.lt_irrefl _)
            | tail _ h => exact h
          exact ih.mpr ⟨ha, hbm, hd1, hd2, hab, fun c hc => hno c (List.mem_cons_of_mem _ hc)⟩

theorem strictSorted_of_pairwise : ∀ {L : List Ev}, L.Pairwise (fun a b => a.t < b.t) → StrictSorted L
  | [], _ => trivial
  | [_], _ => trivial
  | a :: b :: rest, h => by
    rw [List.pairwise_cons] at h
    exact ⟨h.1 b List.mem_cons_self, strictSorted_of_pairwise h.2⟩

/-- sorting a list whose timestamps are pairwise distinct gives a strictly sorted list -/
theorem events_strictSorted (E : List Ev) (hd : (E.map (·.t)).Nodup) :
    StrictSorted (DtsVerif.Py.insSort (fun a b => decide (a.t ≤ b.t)) E) := by
  apply strictSorted_of_pairwise
  have hle := DtsVerif.Py.insSort_pairwise (fun (a b : Ev) => decide (a.t ≤ b.t))
    (by intro a b c; simp; exact Int.le_trans) (by intro a b; simp; exact Int.le_total _ _) E
  have hnd : ((DtsVerif.Py.insSort (fun a b => decide (a.t ≤ b.t)) E).map (·.t)).Nodup :=
    ((DtsVerif.Py.insSort_perm _ E).map _).nodup_iff.mpr hd
  rw [List.Nodup, List.pairwise_map] at hnd
  have := hle.and hnd
  exact this.imp (by intro a b ⟨h1, h2⟩; simp at h1; omega)

end DtsVerif.Merge

namespace DtsVerif.Merge
/-- interleaving `f 0 < g 0 < f 1 < g 1 < …` makes both sequences and their mix monotone -/
theorem chain_g_lt_f (f g : Nat → Int) (n : Nat) (h1 : ∀ k, k < n → f k < g k)
    (h2 : ∀ k, k + 1 < n → g k < f (k + 1)) : ∀ b a, a < b → b < n → g a < f b := by
  intro b
  induction b with
  | zero => intro a h; omega
  | succ b ih =>
    intro a hab hbn
    by_cases hab' : a = b
    · subst hab'; exact h2 a hbn
    · have := ih a (by omega) (by omega)
      have h3 := h1 b (by omega)
      have h4 := h2 b hbn
      omega

theorem chain_f_le_f (f g : Nat → Int) (n : Nat) (h1 : ∀ k, k < n → f k < g k)
    (h2 : ∀ k, k + 1 < n → g k < f (k + 1)) (a b : Nat) (hab : a ≤ b) (hb : b < n) : f a ≤ f b := by
  by_cases h : a = b
  · subst h; exact Int.le_refl _
  · have := chain_g_lt_f f g n h1 h2 b a (by omega) hb
    have := h1 a (by omega)
    omega

theorem chain_g_le_g (f g : Nat → Int) (n : Nat) (h1 : ∀ k, k < n → f k < g k)
    (h2 : ∀ k, k + 1 < n → g k < f (k + 1)) (a b : Nat) (hab : a ≤ b) (hb : b < n) : g a ≤ g b := by
  by_cases h : a = b
  · subst h; exact Int.le_refl _
  · have := chain_g_lt_f f g n h1 h2 b a (by omega) hb
    have := h1 b hb
    omega
end DtsVerif.Merge

namespace DtsVerif.Merge
open DtsVerif.Py

theorem absInt_le (x c : Int) : absInt x ≤ c ↔ (-c ≤ x ∧ x ≤ c) := by
  unfold absInt; split <;> omega

theorem le_foldl_max (l : List Int) : ∀ (init : Int), init ≤ l.foldl max init ∧ ∀ x ∈ l, x ≤ l.foldl max init := by
  induction l with
  | nil => intro init; simp
  | cons a r ih =>
    intro init
    simp only [List.foldl_cons, List.mem_cons, forall_eq_or_imp]
    obtain ⟨h1, h2⟩ := ih (max init a)
    refine ⟨by omega, by omega, h2⟩

theorem foldl_min_le (l : List Int) : ∀ (init : Int), l.foldl min init ≤ init ∧ ∀ x ∈ l, l.foldl min init ≤ x := by
  induction l with
  | nil => intro init; simp
  | cons a r ih =>
    intro init
    simp only [List.foldl_cons, List.mem_cons, forall_eq_or_imp]
    obtain ⟨h1, h2⟩ := ih (min init a)
    refine ⟨by omega, by omega, h2⟩

theorem mem_le_maxL (l : List Int) (x : Int) (hx : x ∈ l) : x ≤ maxL l := (le_foldl_max l _).2 x hx
theorem minL_le_mem (l : List Int) (x : Int) (hx : x ∈ l) : minL l ≤ x := (foldl_min_le l _).2 x hx

/-- a spread of at most 1.5 s makes every two offsets "close" -/
theorem close15_of_spread (l : List Int) (h : maxL l - minL l ≤ 1500000000) (x y : Int)
    (hx : x ∈ l) (hy : y ∈ l) : close15 x y = true := by
  have := mem_le_maxL l x hx; have := mem_le_maxL l y hy
  have := minL_le_mem l x hx; have := minL_le_mem l y hy
  simp only [close15, decide_eq_true_eq, absInt_le]; omega

theorem leaveout_getElem (dt : List Int) (k : Nat) (hk : k < (leaveout dt).length) :
    (leaveout dt)[k] = (if k = 0 ∨ k + 1 ≥ dt.length then false
      else close15 (dt.getD (k-1) 0) (dt.getD (k+1) 0) && !close15 (dt.getD (k-1) 0) (dt.getD k 0)) := by
  unfold leaveout; simp

end DtsVerif.Merge

namespace DtsVerif.Merge
theorem argminLast_spec (f : Nat → Rat) : ∀ n,
    (∀ j, argminLast f n = some j → j < n ∧ ∀ k, k < n → f j ≤ f k) ∧ (argminLast f n = none ↔ n = 0)
  | 0 => by simp [argminLast]
  | n + 1 => by
    obtain ⟨ih1, ih2⟩ := argminLast_spec f n
    unfold argminLast
    cases hm : argminLast f n with
    | none =>
      have hn : n = 0 := ih2.mp hm
      subst hn
      simp only [Option.some.injEq, reduceCtorEq]
      refine ⟨?_, by simp⟩
      rintro j rfl
      refine ⟨by omega, ?_⟩
      intro k hk
      have : k = 0 := by omega
      subst this; exact Rat.le_refl
    | some j0 =>
      obtain ⟨hj0, hmin⟩ := ih1 j0 hm
      simp only
      refine ⟨?_, by split <;> simp⟩
      intro j hj
      split at hj
      · rename_i hle
        cases hj
        refine ⟨by omega, ?_⟩
        intro k hk
        by_cases hkn : k = n
        · subst hkn; exact Rat.le_refl
        · exact Rat.le_trans (Rat.le_of_lt hle) (hmin k (by omega))
      · rename_i hnle
        cases hj
        refine ⟨by omega, ?_⟩
        intro k hk
        by_cases hkn : k = n
        · subst hkn
          exact Rat.not_lt.mp hnle
        · exact hmin k (by omega)
end DtsVerif.Merge
