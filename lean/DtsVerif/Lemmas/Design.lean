import DtsVerif.Model.Design
import DtsVerif.Lemmas.NumpyIdx
/-!
# Entry formulas of the design-matrix blocks (core Lean only)

For every size: length of the row / column vectors of each COO block, and the row and column of entry `e`.
-/
namespace DtsVerif.Design
open DtsVerif.Py

theorem div_mod_of_lt (j m q : Nat) (hq : q < m) : (j * m + q) / m = j ∧ (j * m + q) % m = q := by
  have hm : 0 < m := by omega
  constructor
  · rw [Nat.add_comm, Nat.add_mul_div_right _ _ hm, Nat.div_eq_of_lt hq, Nat.zero_add]
  · rw [Nat.add_comm, Nat.add_mul_mod_self_right, Nat.mod_eq_of_lt hq]

theorem length_ravelC {α} (n m : Nat) (f : Nat → Nat → α) : (ravelC n m f).length = n * m := by
  induction n with
  | zero => simp [ravelC]
  | succ k ih =>
    simp only [ravelC, List.range_succ, List.flatMap_append, List.length_append, List.flatMap_cons, List.flatMap_nil,
      List.append_nil, List.length_map, List.length_range] at ih ⊢
    rw [ih, Nat.add_mul, Nat.one_mul]

/-- entry `a*m + b` of the C-order ravel of an `n × m` array is its element `(a, b)` -/
theorem getElem?_ravelC {α} (n m : Nat) (f : Nat → Nat → α) (a b : Nat) (ha : a < n) (hb : b < m) :
    (ravelC n m f)[a * m + b]? = some (f a b) := by
  induction n with
  | zero => omega
  | succ k ih =>
    have hsplit : ravelC (k + 1) m f = ravelC k m f ++ (List.range m).map (f k) := by
      simp [ravelC, List.range_succ, List.flatMap_append]
    rw [hsplit]
    by_cases hak : a < k
    · have hlt : a * m + b < (ravelC k m f).length := by
        rw [length_ravelC]
        calc a * m + b < a * m + m := by omega
          _ = (a + 1) * m := by rw [Nat.add_mul, Nat.one_mul]
          _ ≤ k * m := Nat.mul_le_mul_right m hak
      rw [List.getElem?_append_left hlt]
      exact ih hak
    · have hk : a = k := by omega
      subst hk
      have hge : (ravelC a m f).length ≤ a * m + b := by rw [length_ravelC]; omega
      rw [List.getElem?_append_right hge, length_ravelC]
      have : a * m + b - a * m = b := by omega
      rw [this]
      simp [hb]

/-! ## single-ended: splice block -/
theorem sTa_lengths (nt nx ix0 : Nat) (hnx : 0 < nx) :
    (sTaRow nt nx ix0).length = sTaCount nt nx ix0 ∧ (sTaCol nt nx ix0).length = sTaCount nt nx ix0 := by
  have h2 : (repeatEach (arangeStep (nx * nt) nx) (nx - ix0)).length = nt * (nx - ix0) := by
    rw [length_repeatEach, Nat.mul_comm nx nt, length_arangeStep_mul nt nx hnx]
  have h1 : (tile (arange ix0 nx) nt).length = nt * (nx - ix0) := by simp
  constructor
  · unfold sTaRow sTaCount
    rw [length_addL _ _ (h1.trans h2.symm), h1]
  · unfold sTaCol sTaCount
    simp

/-- entry `e` of the splice block: row `(e / m)·nx + ix0 + e % m`, column `e / m`, with `m = nx − ix0` -/
theorem sTa_entry (nt nx ix0 e : Nat) (hnx : 0 < nx) (he : e < sTaCount nt nx ix0) :
    (sTaRow nt nx ix0)[e]? = some (ix0 + e % (nx - ix0) + e / (nx - ix0) * nx) ∧
    (sTaCol nt nx ix0)[e]? = some (e / (nx - ix0)) := by
  unfold sTaCount at he
  have hm : 0 < nx - ix0 := by
    rcases Nat.eq_zero_or_pos (nx - ix0) with h0 | h0
    · rw [h0] at he; simp at he
    · exact h0
  have hdiv : e / (nx - ix0) < nt := by
    apply Nat.div_lt_of_lt_mul; rw [Nat.mul_comm]; exact he
  have hmod : e % (nx - ix0) < nx - ix0 := Nat.mod_lt _ hm
  constructor
  · unfold sTaRow
    apply getElem?_addL
    · rw [getElem?_tile _ _ _ (by simpa using he)]
      simp only [length_arange]
      exact getElem?_arange ix0 nx _ hmod
    · have hlen : (arangeStep (nx * nt) nx).length = nt := by
        rw [Nat.mul_comm nx nt, length_arangeStep_mul nt nx hnx]
      rw [getElem?_repeatEach _ _ _ (by rw [hlen]; exact he)]
      apply getElem?_arangeStep
      have := length_arangeStep (nx * nt) nx
      rw [hlen] at this
      rw [← this]; exact hdiv
  · unfold sTaCol
    rw [getElem?_repeatEach _ _ _ (by simpa using he)]
    have := getElem?_arange 0 nt _ (by simpa using hdiv)
    simpa using this

/-- the block holds exactly one coefficient for every time `j` and every reference row `r ≥ ix0`: in the (time-major) row of
observation `(r, j)`, in the column of the loss at time `j` -/
theorem sTa_covers (nt nx ix0 j r : Nat) (hnx : 0 < nx) (hj : j < nt) (hr0 : ix0 ≤ r) (hr : r < nx) :
    ∃ e, e < sTaCount nt nx ix0 ∧ (sTaRow nt nx ix0)[e]? = some (j * nx + r) ∧ (sTaCol nt nx ix0)[e]? = some j := by
  refine ⟨j * (nx - ix0) + (r - ix0), ?_, ?_⟩
  · unfold sTaCount
    calc j * (nx - ix0) + (r - ix0) < j * (nx - ix0) + (nx - ix0) := by omega
      _ = (j + 1) * (nx - ix0) := by rw [Nat.add_mul, Nat.one_mul]
      _ ≤ nt * (nx - ix0) := Nat.mul_le_mul_right _ hj
  · have hq : r - ix0 < nx - ix0 := by omega
    have hlt : j * (nx - ix0) + (r - ix0) < sTaCount nt nx ix0 := by
      unfold sTaCount
      calc j * (nx - ix0) + (r - ix0) < j * (nx - ix0) + (nx - ix0) := by omega
        _ = (j + 1) * (nx - ix0) := by rw [Nat.add_mul, Nat.one_mul]
        _ ≤ nt * (nx - ix0) := Nat.mul_le_mul_right _ hj
    obtain ⟨h1, h2⟩ := sTa_entry nt nx ix0 _ hnx hlt
    obtain ⟨hd, hmd⟩ := div_mod_of_lt j (nx - ix0) (r - ix0) hq
    rw [hd, hmd] at h1
    rw [hd] at h2
    refine ⟨?_, h2⟩
    rw [h1]
    congr 1
    omega

/-- and nothing else: every stored coefficient is one of those -/
theorem sTa_only (nt nx ix0 e : Nat) (hnx : 0 < nx) (he : e < sTaCount nt nx ix0) :
    ∃ j r, j < nt ∧ ix0 ≤ r ∧ r < nx ∧
      (sTaRow nt nx ix0)[e]? = some (j * nx + r) ∧ (sTaCol nt nx ix0)[e]? = some j := by
  obtain ⟨h1, h2⟩ := sTa_entry nt nx ix0 e hnx he
  unfold sTaCount at he
  have hm : 0 < nx - ix0 := by
    rcases Nat.eq_zero_or_pos (nx - ix0) with h0 | h0
    · rw [h0] at he; simp at he
    · exact h0
  have hmod : e % (nx - ix0) < nx - ix0 := Nat.mod_lt _ hm
  refine ⟨e / (nx - ix0), ix0 + e % (nx - ix0), ?_, by omega, by omega, ?_, h2⟩
  · apply Nat.div_lt_of_lt_mul; rw [Nat.mul_comm]; exact he
  · rw [h1]; congr 1; omega

/-- no observation/parameter pair is stored twice -/
theorem sTa_injective (nt nx ix0 e e' : Nat) (hnx : 0 < nx) (he : e < sTaCount nt nx ix0) (he' : e' < sTaCount nt nx ix0)
    (hrow : (sTaRow nt nx ix0)[e]? = (sTaRow nt nx ix0)[e']?) : e = e' := by
  obtain ⟨h1, _⟩ := sTa_entry nt nx ix0 e hnx he
  obtain ⟨h1', _⟩ := sTa_entry nt nx ix0 e' hnx he'
  rw [h1, h1'] at hrow
  have hEq := Option.some.inj hrow
  unfold sTaCount at he he'
  have hm : 0 < nx - ix0 := by
    rcases Nat.eq_zero_or_pos (nx - ix0) with h0 | h0
    · rw [h0] at he; simp at he
    · exact h0
  have hmod : e % (nx - ix0) < nx - ix0 := Nat.mod_lt _ hm
  have hmod' : e' % (nx - ix0) < nx - ix0 := Nat.mod_lt _ hm
  -- both sides are `q·nx + s` with `s < nx`
  have hs : ix0 + e % (nx - ix0) < nx := by omega
  have hs' : ix0 + e' % (nx - ix0) < nx := by omega
  have hd := (div_mod_of_lt (e / (nx - ix0)) nx (ix0 + e % (nx - ix0)) hs)
  have hd' := (div_mod_of_lt (e' / (nx - ix0)) nx (ix0 + e' % (nx - ix0)) hs')
  have e1 : e / (nx - ix0) * nx + (ix0 + e % (nx - ix0)) = e' / (nx - ix0) * nx + (ix0 + e' % (nx - ix0)) := by omega
  have hq : e / (nx - ix0) = e' / (nx - ix0) := by rw [← hd.1, ← hd'.1, e1]
  have hr : ix0 + e % (nx - ix0) = ix0 + e' % (nx - ix0) := by rw [← hd.2, ← hd'.2, e1]
  have := Nat.div_add_mod e (nx - ix0)
  have := Nat.div_add_mod e' (nx - ix0)
  have hr2 : e % (nx - ix0) = e' % (nx - ix0) := by omega
  rw [← Nat.div_add_mod e (nx - ix0), ← Nat.div_add_mod e' (nx - ix0), hq, hr2]

/-! ## single-ended: the `c` block, `γ`, `Δα` -/
theorem sC_entry (nt nx e : Nat) (he : e < nt * nx) :
    (sCRow nt nx)[e]? = some e ∧ (sCCol nt nx)[e]? = some (e / nx) := by
  have hnx : 0 < nx := by
    rcases Nat.eq_zero_or_pos nx with h0 | h0
    · rw [h0] at he; simp at he
    · exact h0
  constructor
  · unfold sCRow
    have := getElem?_arange 0 (nt * nx) e (by simpa using he)
    simpa using this
  · unfold sCCol
    rw [getElem?_repeatEach _ _ _ (by simpa using he)]
    have hdiv : e / nx < nt := by apply Nat.div_lt_of_lt_mul; rw [Nat.mul_comm]; exact he
    have := getElem?_arange 0 nt _ (by simpa using hdiv)
    simpa using this

/-- the coefficient of `c_j` sits in the row of observation `(r, j)`, for every `r` -/
theorem sC_at (nt nx j r : Nat) (hj : j < nt) (hr : r < nx) :
    (sCRow nt nx)[j * nx + r]? = some (j * nx + r) ∧ (sCCol nt nx)[j * nx + r]? = some j := by
  have hlt : j * nx + r < nt * nx := by
    calc j * nx + r < j * nx + nx := by omega
      _ = (j + 1) * nx := by rw [Nat.add_mul, Nat.one_mul]
      _ ≤ nt * nx := Nat.mul_le_mul_right _ hj
  obtain ⟨h1, h2⟩ := sC_entry nt nx _ hlt
  rw [(div_mod_of_lt j nx r hr).1] at h2
  exact ⟨h1, h2⟩

theorem sGamma_entry (nt nx e : Nat) (he : e < nt * nx) :
    (sGammaRow nt nx)[e]? = some e ∧ (sGammaCol nt nx)[e]? = some 0 := by
  constructor
  · have := getElem?_arange 0 (nt * nx) e (by simpa using he)
    simpa [sGammaRow] using this
  · exact getElem?_constL _ _ _ he

theorem sDalpha_entry {α} (negx : List α) (nt e : Nat) (he : e < nt * negx.length) :
    (sDalphaRow nt negx.length)[e]? = some e ∧ (sDalphaCol nt negx.length)[e]? = some 0 ∧
    (sDalphaData negx nt)[e]? = negx[e % negx.length]? := by
  refine ⟨?_, getElem?_constL _ _ _ he, getElem?_tile _ _ _ he⟩
  have := getElem?_arange 0 (nt * negx.length) e (by simpa using he)
  simpa [sDalphaRow] using this


/-! ## single-ended: matching rows (`X_ma`, `X_mt`); row `j*nm + p` is pair `p` at time `j` (`y_m = (…).T.ravel()`) -/
theorem sMa_entry {α} (dx : List α) (nt e : Nat) (he : e < nt * dx.length) :
    (sMaRow dx.length nt)[e]? = some e ∧ (sMaCol dx.length nt)[e]? = some 1 ∧
    (sMaData dx nt)[e]? = dx[e % dx.length]? := by
  refine ⟨?_, getElem?_constL _ _ _ he, getElem?_tile _ _ _ he⟩
  have := getElem?_arange 0 (dx.length * nt) e (by rw [Nat.mul_comm]; simpa using he)
  simpa [sMaRow] using this

/-- entry `e` of the splice part of the matching rows: row `e % (nm·nt)` (pair `(e % (nm·nt)) % nm` at time `(e % (nm·nt)) / nm`),
column `time + splice·nt` with splice `e / (nt·nm)` -/
theorem sMt_entry (nm nt nta e : Nat) (he : e < nta * (nm * nt)) :
    (sMtRow nm nt nta)[e]? = some (e % (nm * nt)) ∧
    (sMtCol nm nt nta)[e]? = some (e % (nm * nt) / nm + e / (nm * nt) * nt) := by
  have hpos : 0 < nm * nt := by
    rcases Nat.eq_zero_or_pos (nm * nt) with h0 | h0
    · rw [h0] at he; simp at he
    · exact h0
  have hnm : 0 < nm := Nat.pos_of_mul_pos_right hpos
  have hnt : 0 < nt := Nat.pos_of_mul_pos_left hpos
  have hq : e % (nm * nt) < nm * nt := Nat.mod_lt _ hpos
  have hdiv : e / (nm * nt) < nta := by
    apply Nat.div_lt_of_lt_mul; rw [Nat.mul_comm]; exact he
  constructor
  · unfold sMtRow
    rw [getElem?_tile _ _ _ (by simpa using he)]
    simp only [length_arange, Nat.sub_zero]
    have := getElem?_arange 0 (nm * nt) _ (by simpa using hq)
    simpa using this
  · unfold sMtCol
    have hL : (repeatEach (arange 0 nt) nm).length = nm * nt := by simp [Nat.mul_comm]
    apply getElem?_addL
    · rw [getElem?_tile _ _ _ (by rw [hL]; exact he), hL]
      rw [getElem?_repeatEach _ _ _ (by simp [Nat.mul_comm nt nm]; exact hq)]
      have hlt : e % (nm * nt) / nm < nt := by
        apply Nat.div_lt_of_lt_mul; exact hq
      have := getElem?_arange 0 nt _ (by simpa using hlt)
      simpa using this
    · have hlen : (arangeStep (nta * nt) nt).length = nta := length_arangeStep_mul nta nt hnt
      rw [Nat.mul_comm nt nm]
      rw [getElem?_repeatEach _ _ _ (by rw [hlen]; exact he)]
      apply getElem?_arangeStep
      have := length_arangeStep (nta * nt) nt
      rw [hlen] at this
      rw [← this]; exact hdiv


theorem length_flattenF {α} [Inhabited α] (rows : List (List α)) (ncols : Nat) :
    (flattenF rows ncols).length = ncols * rows.length := by
  unfold flattenF
  induction ncols with
  | zero => simp
  | succ k ih =>
    rw [List.range_succ, List.flatMap_append, List.length_append, ih]
    simp [Nat.add_mul]

/-- entry `e` of the column-major flattening is element `(e % nrows, e / nrows)` -/
theorem getElem?_flattenF {α} [Inhabited α] (rows : List (List α)) (ncols e : Nat) (he : e < ncols * rows.length) :
    (flattenF rows ncols)[e]? = (rows[e % rows.length]?).map (fun r => r.getD (e / rows.length) default) := by
  unfold flattenF
  induction ncols generalizing e with
  | zero => simp at he
  | succ k ih =>
    have hpos : 0 < rows.length := by
      rcases Nat.eq_zero_or_pos rows.length with h0 | h0
      · rw [h0] at he; simp at he
      · exact h0
    rw [List.range_succ, List.flatMap_append]
    have hlen : ((List.range k).flatMap fun c => rows.map (fun r => r.getD c default)).length = k * rows.length :=
      length_flattenF rows k
    by_cases hlt : e < k * rows.length
    · rw [List.getElem?_append_left (by rw [hlen]; exact hlt)]
      exact ih e hlt
    · have hge : k * rows.length ≤ e := Nat.le_of_not_lt hlt
      rw [List.getElem?_append_right (by rw [hlen]; exact hge), hlen]
      have hq : e - k * rows.length < rows.length := by
        rw [Nat.add_mul, Nat.one_mul] at he; omega
      have hdm := div_mod_of_lt k rows.length (e - k * rows.length) hq
      have hsum : k * rows.length + (e - k * rows.length) = e := by omega
      rw [hsum] at hdm
      simp only [List.flatMap_cons, List.flatMap_nil, List.append_nil, List.getElem?_map]
      rw [hdm.1, hdm.2]

/-- `data_mt[e]` is `M[pair][splice]` with `pair = (e % (nm·nt)) % nm`, `splice = e / (nm·nt)`: the value stored at the row and
column of `sMt_entry` -/
theorem sMtData_entry {α} [Inhabited α] (M : List (List α)) (nt nta e : Nat) (he : e < nta * (M.length * nt)) :
    (sMtData M nt nta)[e]? =
      (M[e % (M.length * nt) % M.length]?).map (fun r => r.getD (e / (M.length * nt)) default) := by
  unfold sMtData
  have hlen : (tile M nt).length = M.length * nt := by rw [length_tile, Nat.mul_comm]
  rw [getElem?_flattenF _ _ _ (by rw [hlen]; exact he), hlen]
  have hpos : 0 < M.length * nt := by
    rcases Nat.eq_zero_or_pos (M.length * nt) with h0 | h0
    · rw [h0] at he; simp at he
    · exact h0
  have hq : e % (M.length * nt) < nt * M.length := by
    have := Nat.mod_lt e hpos
    rw [Nat.mul_comm nt M.length]; exact this
  rw [getElem?_tile _ _ _ hq]

/-! ## double-ended: `Z_D`, `E`, `Z_TA_fw`, `Z_TA_bw` (rows are location-major: `r*nt + j`) -/
theorem dD_at (nt nx r j : Nat) (hr : r < nx) (hj : j < nt) :
    (dDRow nt nx)[r * nt + j]? = some (r * nt + j) ∧ (dDCol nt nx)[r * nt + j]? = some j := by
  have hlt : r * nt + j < nx * nt := by
    calc r * nt + j < r * nt + nt := by omega
      _ = (r + 1) * nt := by rw [Nat.add_mul, Nat.one_mul]
      _ ≤ nx * nt := Nat.mul_le_mul_right _ hr
  constructor
  · have := getElem?_arange 0 (nt * nx) (r * nt + j) (by rw [Nat.mul_comm nt nx]; simpa using hlt)
    simpa [dDRow] using this
  · unfold dDCol
    rw [getElem?_tile _ _ _ (by simpa using hlt)]
    simp only [length_arange, Nat.sub_zero]
    rw [(div_mod_of_lt r nt j hj).2]
    have := getElem?_arange 0 nt j (by simpa using hj)
    simpa using this

/-- `E`: the coefficient of the integrated attenuation at reference row `r ≥ 1` (parameter `r − 1`: the first row has none)
sits in the row of observation `(r, j)` -/
theorem dE_lengths (nt nx : Nat) (hnx : 0 < nx) :
    (dERow nt nx).length = dECount nt nx ∧ (dECol nt nx).length = dECount nt nx := by
  unfold dERow dECol dECount
  constructor
  · rw [length_arange]
    have : nt * nx = nt * (nx - 1) + nt := by
      have h : nx = (nx - 1) + 1 := by omega
      conv => lhs; rw [h, Nat.mul_add, Nat.mul_one]
    omega
  · simp [Nat.mul_comm]

theorem dE_at (nt nx r j : Nat) (hr1 : 1 ≤ r) (hr : r < nx) (hj : j < nt) :
    (dERow nt nx)[(r - 1) * nt + j]? = some (r * nt + j) ∧ (dECol nt nx)[(r - 1) * nt + j]? = some (r - 1) := by
  have hlt : (r - 1) * nt + j < (nx - 1) * nt := by
    calc (r - 1) * nt + j < (r - 1) * nt + nt := by omega
      _ = (r - 1 + 1) * nt := by rw [Nat.add_mul, Nat.one_mul]
      _ ≤ (nx - 1) * nt := Nat.mul_le_mul_right _ (by omega)
  have hr' : r * nt = (r - 1) * nt + nt := by
    have h : r = (r - 1) + 1 := by omega
    conv => lhs; rw [h, Nat.add_mul, Nat.one_mul]
  have hnx' : nt * nx = (nx - 1) * nt + nt := by
    have h : nx = (nx - 1) + 1 := by omega
    conv => lhs; rw [h, Nat.mul_comm, Nat.add_mul, Nat.one_mul]
  constructor
  · unfold dERow
    rw [getElem?_arange nt (nt * nx) _ (by omega)]
    congr 1; omega
  · unfold dECol
    rw [getElem?_repeatEach _ _ _ (by simpa using hlt)]
    rw [(div_mod_of_lt (r - 1) nt j hj).1]
    have := getElem?_arange 0 (nx - 1) (r - 1) (by omega)
    simpa using this

theorem dTaFw_lengths (nt nx ix0 : Nat) :
    (dTaFwRow nt nx ix0).length = dTaFwCount nt nx ix0 ∧ (dTaFwCol nt nx ix0).length = dTaFwCount nt nx ix0 := by
  unfold dTaFwRow dTaFwCol dTaFwCount
  constructor
  · rw [length_arange, Nat.mul_sub]
  · simp [Nat.mul_comm]

/-- forward splice block: one coefficient in the row of observation `(r, j)` for every reference row `r ≥ ix0`, column `j` of the
forward half of the splice's parameter block -/
theorem dTaFw_at (nt nx ix0 r j : Nat) (hr0 : ix0 ≤ r) (hr : r < nx) (hj : j < nt) :
    (dTaFwRow nt nx ix0)[(r - ix0) * nt + j]? = some (r * nt + j) ∧
    (dTaFwCol nt nx ix0)[(r - ix0) * nt + j]? = some j := by
  have hlt : (r - ix0) * nt + j < (nx - ix0) * nt := by
    calc (r - ix0) * nt + j < (r - ix0) * nt + nt := by omega
      _ = (r - ix0 + 1) * nt := by rw [Nat.add_mul, Nat.one_mul]
      _ ≤ (nx - ix0) * nt := Nat.mul_le_mul_right _ (by omega)
  have hsplit : r * nt = nt * ix0 + (r - ix0) * nt := by
    have h : r = ix0 + (r - ix0) := by omega
    conv => lhs; rw [h, Nat.add_mul, Nat.mul_comm ix0 nt]
  have hnx : nt * nx = nt * ix0 + (nx - ix0) * nt := by
    have h : nx = ix0 + (nx - ix0) := by omega
    conv => lhs; rw [h, Nat.mul_add, Nat.mul_comm nt (nx - ix0)]
  constructor
  · unfold dTaFwRow
    rw [getElem?_arange _ _ _ (by omega)]
    congr 1; omega
  · unfold dTaFwCol
    rw [getElem?_tile _ _ _ (by simpa using hlt)]
    simp only [length_arange, Nat.sub_zero]
    rw [(div_mod_of_lt (r - ix0) nt j hj).2]
    have := getElem?_arange 0 nt j (by simpa using hj)
    simpa using this

/-- … and no row upstream of the splice is touched -/
theorem dTaFw_rows_downstream (nt nx ix0 e : Nat) (he : e < dTaFwCount nt nx ix0) :
    ∃ v, (dTaFwRow nt nx ix0)[e]? = some v ∧ nt * ix0 ≤ v := by
  unfold dTaFwCount at he
  refine ⟨nt * ix0 + e, ?_, Nat.le_add_right _ _⟩
  unfold dTaFwRow
  apply getElem?_arange
  rcases Nat.lt_or_ge nx ix0 with h | h
  · have : nx - ix0 = 0 := by omega
    rw [this] at he; simp at he
  · have hnx : nt * nx = nt * ix0 + nt * (nx - ix0) := by
      rw [← Nat.mul_add]; congr 1; omega
    omega

/-- backward splice block: one coefficient for every reference row `r < ix0`, column `nt + j` (the backward half) -/
theorem dTaBw_at (nt ix0 r j : Nat) (hr : r < ix0) (hj : j < nt) :
    (dTaBwRow nt ix0)[r * nt + j]? = some (r * nt + j) ∧ (dTaBwCol nt ix0)[r * nt + j]? = some (nt + j) := by
  have hlt : r * nt + j < ix0 * nt := by
    calc r * nt + j < r * nt + nt := by omega
      _ = (r + 1) * nt := by rw [Nat.add_mul, Nat.one_mul]
      _ ≤ ix0 * nt := Nat.mul_le_mul_right _ hr
  constructor
  · unfold dTaBwRow
    have := getElem?_arange 0 (nt * ix0) (r * nt + j) (by rw [Nat.mul_comm nt ix0]; simpa using hlt)
    simpa using this
  · unfold dTaBwCol
    have hl : (arange nt (2 * nt)).length = nt := by rw [length_arange]; omega
    rw [getElem?_tile _ _ _ (by rw [hl]; exact hlt), hl]
    rw [(div_mod_of_lt r nt j hj).2]
    exact getElem?_arange nt (2 * nt) j (by omega)

theorem dTaBw_lengths (nt ix0 : Nat) :
    (dTaBwRow nt ix0).length = dTaBwCount nt ix0 ∧ (dTaBwCol nt ix0).length = dTaBwCount nt ix0 := by
  unfold dTaBwRow dTaBwCol dTaBwCount
  constructor
  · simp
  · rw [length_tile, length_arange]
    have : 2 * nt - nt = nt := by omega
    rw [this, Nat.mul_comm]


/-! ## double-ended matching sections: entry formulas of the splice coefficients -/
theorem mEq_rowcol (nt n p j : Nat) (hp : p < n) (hj : j < nt) :
    (mEqRow nt n)[p * nt + j]? = some (p * nt + j) ∧ (mEqFCol nt n)[p * nt + j]? = some j ∧
    (mEqBCol nt n)[p * nt + j]? = some (nt + j) := by
  have hlt : p * nt + j < n * nt := by
    calc p * nt + j < p * nt + nt := by omega
      _ = (p + 1) * nt := by rw [Nat.add_mul, Nat.one_mul]
      _ ≤ n * nt := Nat.mul_le_mul_right _ hp
  obtain ⟨_, hm⟩ := div_mod_of_lt p nt j hj
  refine ⟨?_, ?_, ?_⟩
  · have := getElem?_arange 0 (nt * n) (p * nt + j) (by rw [Nat.mul_comm nt n]; simpa using hlt)
    simpa [mEqRow] using this
  · unfold mEqFCol
    rw [getElem?_tile _ _ _ (by simpa using hlt)]
    simp only [length_arange, Nat.sub_zero, hm]
    have := getElem?_arange 0 nt j (by simpa using hj)
    simpa using this
  · unfold mEqBCol
    have hl : (arange nt (2 * nt)).length = nt := by rw [length_arange]; omega
    rw [getElem?_tile _ _ _ (by rw [hl]; exact hlt), hl, hm]
    exact getElem?_arange nt (2 * nt) j (by omega)

theorem getElem?_repeat_at {α} (l : List α) (nt p j : Nat) (hp : p < l.length) (hj : j < nt) :
    (repeatEach l nt)[p * nt + j]? = l[p]? := by
  have hlt : p * nt + j < l.length * nt := by
    calc p * nt + j < p * nt + nt := by omega
      _ = (p + 1) * nt := by rw [Nat.add_mul, Nat.one_mul]
      _ ≤ l.length * nt := Nat.mul_le_mul_right _ hp
  rw [getElem?_repeatEach _ _ _ hlt, (div_mod_of_lt p nt j hj).1]

/-- EQ1: the coefficient stored for (pair `p`, time `j`) is `[t_p ≥ ix0] − [h_p ≥ ix0]` -/
theorem mEq1_entry (hix tix : List Nat) (nt ix0 p j : Nat) (hlen : hix.length = tix.length) (hp : p < hix.length) (hj : j < nt) :
    (mEq1Data hix tix nt ix0)[p * nt + j]? = some (-(ind (decide (hix.getD p 0 ≥ ix0))) + ind (decide (tix.getD p 0 ≥ ix0))) := by
  unfold mEq1Data
  rw [getElem?_repeat_at _ _ _ _ (by simp [addR, negR, geInd, hlen]; omega) hj]
  have hp' : p < tix.length := by omega
  simp [addR, negR, geInd, List.getElem?_zipWith, hp, hp', List.getD]

/-- EQ2: `[t_p < ix0] − [h_p < ix0]` -/
theorem mEq2_entry (hix tix : List Nat) (nt ix0 p j : Nat) (hlen : hix.length = tix.length) (hp : p < hix.length) (hj : j < nt) :
    (mEq2Data hix tix nt ix0)[p * nt + j]? = some (-(ind (decide (hix.getD p 0 < ix0))) + ind (decide (tix.getD p 0 < ix0))) := by
  unfold mEq2Data
  rw [getElem?_repeat_at _ _ _ _ (by simp [addR, negR, ltInd, hlen]; omega) hj]
  have hp' : p < tix.length := by omega
  simp [addR, negR, ltInd, List.getElem?_zipWith, hp, hp', List.getD]

/-- EQ3: `[i ≥ ix0] / 2` for the forward loss and `−[i < ix0] / 2` for the backward loss of the matched location `i = ix3[p]` -/
theorem mEq3_entry (ix3 : List Nat) (nt ix0 p j : Nat) (hp : p < ix3.length) (hj : j < nt) :
    (mEq3FData ix3 nt ix0)[p * nt + j]? = some (ind (decide (ix3.getD p 0 ≥ ix0)) / 2) ∧
    (mEq3BData ix3 nt ix0)[p * nt + j]? = some (-(ind (decide (ix3.getD p 0 < ix0))) / 2) := by
  constructor
  · unfold mEq3FData
    rw [getElem?_repeat_at _ _ _ _ (by simp [halfR, geInd, hp]) hj]
    simp [halfR, geInd, hp, List.getD]
  · unfold mEq3BData
    rw [getElem?_repeat_at _ _ _ _ (by simp [halfR, negR, ltInd, hp]) hj]
    simp [halfR, negR, ltInd, hp, List.getD]

end DtsVerif.Design
