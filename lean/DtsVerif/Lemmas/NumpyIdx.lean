import DtsVerif.Model.PyPrim
/-!
# Entry formulas of the numpy index constructors (core Lean only)

`np.arange`, `np.repeat`, `np.tile`, `np.zeros/ones`, element-wise `+` of equally long index vectors: length and the value of
entry `e`, for every size.  These are the facts the design-matrix theorems (`Props/Design.lean`) rest on.
-/
namespace DtsVerif.Py

@[simp] theorem length_arange (lo hi : Nat) : (arange lo hi).length = hi - lo := by simp [arange]

theorem getElem?_arange (lo hi e : Nat) (h : e < hi - lo) : (arange lo hi)[e]? = some (lo + e) := by
  simp [arange, h]

@[simp] theorem length_constL (n v : Nat) : (constL n v).length = n := by simp [constL]

theorem getElem?_constL (n v e : Nat) (h : e < n) : (constL n v)[e]? = some v := by
  simp [constL, h]

@[simp] theorem length_repeatEach {α} (l : List α) (k : Nat) : (repeatEach l k).length = l.length * k := by
  induction l with
  | nil => simp [repeatEach]
  | cons a r ih =>
    simp only [repeatEach, List.flatMap_cons, List.length_append, List.length_replicate, List.length_cons] at ih ⊢
    rw [ih, Nat.add_mul, Nat.one_mul, Nat.add_comm]

theorem getElem?_repeatEach {α} (l : List α) (k e : Nat) (h : e < l.length * k) :
    (repeatEach l k)[e]? = l[e / k]? := by
  induction l generalizing e with
  | nil => simp at h
  | cons a r ih =>
    have hk : 0 < k := by
      rcases Nat.eq_zero_or_pos k with h0 | h0
      · subst h0; simp at h
      · exact h0
    have hcons : repeatEach (a :: r) k = List.replicate k a ++ repeatEach r k := by
      simp [repeatEach, List.flatMap_cons]
    rw [hcons]
    by_cases hlt : e < k
    · rw [List.getElem?_append_left (by simpa using hlt)]
      have : e / k = 0 := Nat.div_eq_of_lt hlt
      simp [this, hlt]
    · have hge : k ≤ e := Nat.le_of_not_lt hlt
      rw [List.getElem?_append_right (by simpa using hge)]
      simp only [List.length_replicate]
      have hlen : e - k < r.length * k := by
        simp only [List.length_cons, Nat.add_mul, Nat.one_mul] at h
        omega
      rw [ih (e - k) hlen]
      have hdiv : e / k = (e - k) / k + 1 := by
        have h1 := Nat.add_div_right (e - k) hk
        rw [Nat.sub_add_cancel hge] at h1
        exact h1
      rw [hdiv]
      simp

@[simp] theorem length_tile {α} (l : List α) (k : Nat) : (tile l k).length = k * l.length := by
  induction k with
  | zero => simp [tile]
  | succ n ih =>
    simp only [tile, List.replicate_succ, List.flatten_cons, List.length_append] at ih ⊢
    rw [ih, Nat.add_mul, Nat.one_mul, Nat.add_comm]

theorem getElem?_tile {α} (l : List α) (k e : Nat) (h : e < k * l.length) :
    (tile l k)[e]? = l[e % l.length]? := by
  induction k generalizing e with
  | zero => simp at h
  | succ n ih =>
    have hcons : tile l (n + 1) = l ++ tile l n := by
      simp [tile, List.replicate_succ]
    rw [hcons]
    by_cases hlt : e < l.length
    · rw [List.getElem?_append_left hlt, Nat.mod_eq_of_lt hlt]
    · have hge : l.length ≤ e := Nat.le_of_not_lt hlt
      rw [List.getElem?_append_right hge]
      have hlen : e - l.length < n * l.length := by
        rw [Nat.add_mul, Nat.one_mul] at h
        omega
      rw [ih (e - l.length) hlen]
      have hmod : (e - l.length) % l.length = e % l.length := by
        have h1 := Nat.add_mod_right (e - l.length) l.length
        rw [Nat.sub_add_cancel hge] at h1
        exact h1.symm
      rw [hmod]

theorem length_arangeStep (n s : Nat) : (arangeStep n s).length = (n + s - 1) / s := by simp [arangeStep]

/-- `np.arange(k*s, step=s)` has exactly `k` entries when `s > 0` -/
theorem length_arangeStep_mul (k s : Nat) (hs : 0 < s) : (arangeStep (k * s) s).length = k := by
  rw [length_arangeStep]
  have : k * s + s - 1 = (s - 1) + s * k := by
    rw [Nat.mul_comm]; omega
  rw [this, Nat.add_mul_div_left _ _ hs, Nat.div_eq_of_lt (by omega)]
  omega

theorem getElem?_arangeStep (n s e : Nat) (h : e < (n + s - 1) / s) : (arangeStep n s)[e]? = some (e * s) := by
  simp [arangeStep, h]

theorem length_addL (a b : List Nat) (h : a.length = b.length) : (addL a b).length = a.length := by
  simp [addL, h]

theorem getElem?_addL (a b : List Nat) (e x y : Nat) (ha : a[e]? = some x) (hb : b[e]? = some y) :
    (addL a b)[e]? = some (x + y) := by
  simp [addL, List.getElem?_zipWith, ha, hb]

end DtsVerif.Py
