import DtsVerif.Model.Shift
/-! Helper lemmas for C14 (core Lean only). -/
namespace DtsVerif.Shift
open DtsVerif.Py

theorem normIdx_nonneg (n k : Nat) : normIdx n (k : Int) = min n k := by
  unfold normIdx; simp [Int.toNat_natCast]
  omega

theorem normIdx_sub (n k : Nat) (hk : k ≤ n) : normIdx n ((n : Int) - (k : Int)) = n - k := by
  have : ((n : Int) - (k : Int)) = ((n - k : Nat) : Int) := by omega
  rw [this, normIdx_nonneg]; omega

theorem normIdx_neg (n k : Nat) (hk : 0 < k) (hk' : k ≤ n) : normIdx n (-(k : Int)) = n - k := by
  unfold normIdx
  have h : (-(k : Int)) < 0 := by omega
  simp only [h, if_true]
  omega

theorem pySlice_from {α} (l : List α) (k : Nat) : pySlice l (some (k : Int)) none = l.drop k := by
  unfold pySlice
  simp only [Option.getD_some, Option.getD_none, normIdx_nonneg]
  by_cases h : k ≤ l.length
  · rw [Nat.min_eq_right h, Nat.min_self]
    apply List.take_of_length_le; simp
  · have : l.length ≤ k := by omega
    rw [Nat.min_eq_left this, Nat.min_self]
    simp [List.drop_of_length_le this]

theorem pySlice_to_sub {α} (l : List α) (n k : Nat) (hn : n = l.length) (hk : k ≤ n) :
    pySlice l none (some ((n : Int) - (k : Int))) = l.take (n - k) := by
  unfold pySlice
  simp only [Option.getD_some, Option.getD_none]
  have h0 : normIdx l.length 0 = 0 := by
    have := normIdx_nonneg l.length 0; simpa using this
  rw [h0, ← hn, normIdx_sub n k hk]
  simp

theorem pySlice_to_neg {α} (l : List α) (k : Nat) (hk : 0 < k) (hk' : k ≤ l.length) :
    pySlice l none (some (-(k : Int))) = l.take (l.length - k) := by
  unfold pySlice
  simp only [Option.getD_some, Option.getD_none]
  have h0 : normIdx l.length 0 = 0 := by
    have := normIdx_nonneg l.length 0; simpa using this
  rw [h0, normIdx_neg l.length k hk hk']
  simp

/-- `i = k ≥ 0`: forward arrays lose their first `k` samples, backward arrays their last `k` -/
theorem shift_nonneg {α} (fwd bwd : List α) (k : Nat) (hk : k ≤ fwd.length) (hlen : bwd.length = fwd.length) :
    shift fwd bwd (k : Int) = (fwd.drop k, bwd.take (fwd.length - k)) := by
  unfold shift
  have : ¬ ((k : Int) < 0) := by omega
  simp only [this, if_false]
  rw [pySlice_from, pySlice_to_sub bwd fwd.length k hlen.symm hk]

/-- `i = −k < 0`: forward arrays lose their last `k` samples, backward arrays their first `k` -/
theorem shift_neg {α} (fwd bwd : List α) (k : Nat) (hk : 0 < k) (hk' : k ≤ fwd.length) :
    shift fwd bwd (-(k : Int)) = (fwd.take (fwd.length - k), bwd.drop k) := by
  unfold shift
  have : (-(k : Int)) < 0 := by omega
  simp only [this, if_true, Int.neg_neg]
  rw [pySlice_to_neg fwd k hk hk', pySlice_from]

theorem argminFirst_lt : ∀ (l : List Rat), l ≠ [] → argminFirst l < l.length
  | [], h => absurd rfl h
  | [_], _ => by simp [argminFirst]
  | a :: b :: r, _ => by
    have ih := argminFirst_lt (b :: r) (by simp)
    unfold argminFirst
    simp only
    split
    · simp
    · simp only [List.length_cons] at ih ⊢; omega

/-- `argminFirst` returns a minimal element, and the first such -/
theorem argminFirst_spec : ∀ (l : List Rat) (hl : l ≠ []),
    (∀ k (hk : k < l.length), l.getD (argminFirst l) 0 ≤ l[k]) ∧
    (∀ k (hk : k < argminFirst l), l.getD (argminFirst l) 0 < l.getD k 0)
  | [], h => absurd rfl h
  | [a], _ => by
    simp only [argminFirst, List.length_cons, List.length_nil]
    refine ⟨?_, by intro k hk; omega⟩
    intro k hk
    have : k = 0 := by omega
    subst this; simp [Rat.le_refl]
  | a :: b :: r, _ => by
    obtain ⟨ih1, ih2⟩ := argminFirst_spec (b :: r) (by simp)
    have hlt := argminFirst_lt (b :: r) (by simp)
    unfold argminFirst
    simp only
    split
    · rename_i hle
      refine ⟨?_, by intro k hk; omega⟩
      intro k hk
      cases k with
      | zero => simp [Rat.le_refl]
      | succ k =>
        simp only [List.getD_cons_zero, List.getElem_cons_succ]
        exact Rat.le_trans hle (ih1 k (by simpa using hk))
    · rename_i hnle
      have hlt' : (b :: r).getD (argminFirst (b :: r)) 0 < a := Rat.not_le.mp hnle
      simp only [List.getD_cons_succ]
      refine ⟨?_, ?_⟩
      · intro k hk
        cases k with
        | zero => simp only [List.getElem_cons_zero]; exact Rat.le_of_lt hlt'
        | succ k => simp only [List.getElem_cons_succ]; exact ih1 k (by simpa using hk)
      · intro k hk
        cases k with
        | zero => simp only [List.getD_cons_zero]; exact hlt'
        | succ k => simp only [List.getD_cons_succ]; exact ih2 k (by omega)

end DtsVerif.Shift
