import DtsVerif.Model.Scatter
import DtsVerif.Lemmas.Shift
/-! Lemmas about numpy slices with natural bounds and fancy assignment (core Lean only). -/
namespace DtsVerif.Scatter
open DtsVerif.Py DtsVerif.Shift

theorem pySlice_to {α} (l : List α) (k : Nat) : pySlice l none (some (k : Int)) = l.take k := by
  unfold pySlice
  simp only [Option.getD_some, Option.getD_none]
  have h0 : normIdx l.length 0 = 0 := by
    have := normIdx_nonneg l.length 0; simpa using this
  rw [h0, normIdx_nonneg]
  simp only [List.drop_zero, Nat.sub_zero]
  by_cases h : k ≤ l.length
  · rw [Nat.min_eq_right h]
  · have : l.length ≤ k := by omega
    rw [Nat.min_eq_left this, List.take_of_length_le (Nat.le_refl _), List.take_of_length_le this]

theorem pySlice_between {α} (l : List α) (a b : Nat) (hab : a ≤ b) (hb : b ≤ l.length) :
    pySlice l (some (a : Int)) (some (b : Int)) = (l.drop a).take (b - a) := by
  unfold pySlice
  simp only [Option.getD_some, normIdx_nonneg]
  rw [Nat.min_eq_right (show a ≤ l.length by omega)]
  try rw [Nat.min_eq_right hb]

theorem length_assignAt {α} (l : List α) (is : List Nat) (vs : List α) : (assignAt l is vs).length = l.length := by
  induction is generalizing l vs with
  | nil => simp [assignAt]
  | cons i is ih =>
    cases vs with
    | nil => simp [assignAt]
    | cons v vs => simp [assignAt, ih]

theorem getElem?_assignAt_not_mem {α} (l : List α) (is : List Nat) (vs : List α) (c : Nat) (h : c ∉ is) :
    (assignAt l is vs)[c]? = l[c]? := by
  induction is generalizing l vs with
  | nil => simp [assignAt]
  | cons i is ih =>
    cases vs with
    | nil => simp [assignAt]
    | cons v vs =>
      simp only [List.mem_cons, not_or] at h
      simp only [assignAt]
      rw [ih _ _ h.2]
      exact List.getElem?_set_ne (Ne.symm h.1)

theorem getElem?_assignAt_mem {α} (l : List α) (is : List Nat) (vs : List α) (hnd : is.Nodup) (hlen : is.length = vs.length)
    (hin : ∀ i ∈ is, i < l.length) (q : Nat) (hq : q < is.length) :
    (assignAt l is vs)[is[q]]? = vs[q]? := by
  induction is generalizing l vs q with
  | nil => simp at hq
  | cons i is ih =>
    cases vs with
    | nil => simp at hlen
    | cons v vs =>
      simp only [assignAt]
      rw [List.nodup_cons] at hnd
      cases q with
      | zero =>
        simp only [List.getElem_cons_zero, List.getElem?_cons_zero]
        rw [getElem?_assignAt_not_mem _ _ _ _ hnd.1]
        have := hin i (by simp)
        simp [this]
      | succ q =>
        simp only [List.getElem_cons_succ, List.getElem?_cons_succ]
        apply ih _ _ hnd.2 (by simpa using hlen)
        · intro j hj; simp only [List.length_set]; exact hin j (by simp [hj])

end DtsVerif.Scatter
