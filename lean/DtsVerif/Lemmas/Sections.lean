import DtsVerif.Model.Sections
import DtsVerif.Lemmas.PyPrim
import Mathlib.Tactic.Linarith
import Mathlib.Algebra.Order.Ring.Rat
/-! Helper lemmas for C16 / C20. -/
namespace DtsVerif.Sections
open DtsVerif.Py

theorem mem_flatnonzero {α} (p : α → Bool) (l : List α) (i : Nat) :
    i ∈ flatnonzero p l ↔ ∃ h : i < l.length, p l[i] = true := by
  unfold flatnonzero
  simp only [List.mem_map, List.mem_filter, Prod.exists, List.mem_zipIdx_iff_getElem?]
  constructor
  · rintro ⟨a, k, ⟨h1, h2⟩, rfl⟩
    obtain ⟨hk, rfl⟩ := List.getElem?_eq_some_iff.mp h1
    exact ⟨hk, h2⟩
  · rintro ⟨h, hp⟩
    exact ⟨l[i], i, ⟨by simp [h], hp⟩, rfl⟩

theorem zipIdx_pairwise_snd {α} (l : List α) (k : Nat) :
    (l.zipIdx k).Pairwise (fun a b => a.2 < b.2) := by
  induction l generalizing k with
  | nil => simp
  | cons a r ih =>
    simp only [List.zipIdx_cons, List.pairwise_cons]
    refine ⟨?_, ih (k + 1)⟩
    intro b hb
    have := List.mem_zipIdx hb
    omega

theorem flatnonzero_pairwise {α} (p : α → Bool) (l : List α) : (flatnonzero p l).Pairwise (· < ·) := by
  unfold flatnonzero
  rw [List.pairwise_map]
  exact (zipIdx_pairwise_snd l 0).filter _

theorem mem_selIdx (xs : List Rat) (s : Stretch) (i : Nat) :
    i ∈ selIdx xs s ↔ ∃ h : i < xs.length, s.a ≤ xs[i] ∧ xs[i] ≤ s.b := by
  unfold selIdx
  rw [mem_flatnonzero]
  simp

theorem selIdx_pairwise (xs : List Rat) (s : Stretch) : (selIdx xs s).Pairwise (· < ·) :=
  flatnonzero_pairwise _ _

theorem nodupNat_iff (l : List Nat) : nodupNat l = true ↔ l.Nodup := by
  induction l with
  | nil => simp [nodupNat]
  | cons a r ih => simp [nodupNat, ih]

theorem sortedLE_iff : ∀ (l : List Rat), sortedLE l = true ↔ l.Pairwise (· ≤ ·)
  | [] => by simp [sortedLE]
  | [a] => by simp [sortedLE]
  | a :: b :: r => by
    simp only [sortedLE, Bool.and_eq_true, decide_eq_true_eq, sortedLE_iff (b :: r), List.pairwise_cons]
    constructor
    · rintro ⟨hab, hb, hr⟩
      refine ⟨?_, hb, hr⟩
      intro c hc
      rcases List.mem_cons.mp hc with rfl | hc
      · exact hab
      · exact le_trans hab (hb c hc)
    · rintro ⟨ha, hb, hr⟩
      exact ⟨ha b List.mem_cons_self, hb, hr⟩

/-- bounds in a non-decreasing flattened chain: every stretch ends before the later ones start -/
theorem chain_sep : ∀ (l : List Tagged), (flat l).Pairwise (· ≤ ·) →
    l.Pairwise (fun s t => s.s.a ≤ s.s.b ∧ s.s.b ≤ t.s.a ∧ t.s.a ≤ t.s.b)
  | [], _ => List.Pairwise.nil
  | s :: r, h => by
    simp only [flat, List.pairwise_cons] at h
    obtain ⟨h1, h2, h3⟩ := h
    rw [List.pairwise_cons]
    refine ⟨?_, chain_sep r h3⟩
    intro t ht
    have hmem : ∀ (l : List Tagged), t ∈ l → t.s.a ∈ flat l ∧ t.s.b ∈ flat l := by
      intro l
      induction l with
      | nil => intro h; cases h
      | cons u r ih =>
        intro h
        rcases List.mem_cons.mp h with rfl | h
        · simp [flat]
        · have := ih h; simp [flat, this.1, this.2]
    have hta := (hmem r ht).1
    have hab : s.s.a ≤ s.s.b := h1 _ List.mem_cons_self
    refine ⟨hab, h2 _ hta, ?_⟩
    -- t.a ≤ t.b follows from the chain restricted to r
    have := chain_self r h3 t ht
    exact this
where
  chain_self : ∀ (l : List Tagged), (flat l).Pairwise (· ≤ ·) → ∀ t ∈ l, t.s.a ≤ t.s.b
    | [], _, t, ht => by cases ht
    | u :: r, h, t, ht => by
      simp only [flat, List.pairwise_cons] at h
      rcases List.mem_cons.mp ht with rfl | ht
      · exact h.1 _ List.mem_cons_self
      · exact chain_self r h.2.2 t ht

end DtsVerif.Sections
