import DtsVerif.Model.Wls
import DtsVerif.Theory.Wls
import Mathlib.Algebra.BigOperators.Fin
import Mathlib.Algebra.Order.Ring.Rat
/-!
# Bridge: the executable check of the model implies the normal equations on Mathlib matrices
-/
namespace DtsVerif.Wls
open Matrix Finset DtsVerif.Theory

/-- the model's system as a Mathlib matrix -/
def Sys.mat (s : Sys) : Matrix (Fin s.rows.size) (Fin s.n) ℚ := fun i j => (s.rows[i]).coef j
def Sys.yv (s : Sys) : Fin s.rows.size → ℚ := fun i => (s.rows[i]).y
def Sys.wv (s : Sys) : Fin s.rows.size → ℚ := fun i => (s.rows[i]).w
def Sys.pv (s : Sys) (p : Array Rat) : Fin s.n → ℚ := fun j => p.getD j 0

theorem list_sum_eq_finset_sum (n : Nat) (f : Nat → ℚ) :
    ((List.range n).map f).sum = ∑ j : Fin n, f j := by
  rw [Fin.sum_univ_eq_sum_range (fun i => f i) n]
  induction n with
  | zero => simp
  | succ k ih => rw [List.range_succ, List.map_append, List.sum_append, Finset.sum_range_succ, ih]; simp

/-- a well-formed sparse row is fitted as the dot product of its dense coefficients with `p` -/
theorem row_fit_eq (n : Nat) (p : Array Rat) : ∀ (c : List (Nat × Rat)), (∀ cv ∈ c, cv.1 < n) →
    (c.map fun cv => cv.2 * p.getD cv.1 0).sum
      = ∑ j : Fin n, (c.map fun cv => if cv.1 = (j : Nat) then cv.2 else 0).sum * p.getD j 0
  | [], _ => by simp
  | cv :: r, h => by
    have hr := row_fit_eq n p r (fun x hx => h x (List.mem_cons_of_mem _ hx))
    have hcv : cv.1 < n := h cv List.mem_cons_self
    simp only [List.map_cons, List.sum_cons, add_mul, Finset.sum_add_distrib, hr]
    congr 1
    rw [Finset.sum_eq_single (⟨cv.1, hcv⟩ : Fin n)]
    · simp
    · intro b _ hb
      have : ¬ cv.1 = (b : Nat) := fun e => hb (Fin.ext e.symm)
      simp [this]
    · intro h'; exact absurd (Finset.mem_univ _) h'

theorem sum_rows_eq (rows : Array Row) (f : Row → ℚ) :
    (rows.toList.map f).sum = ∑ i : Fin rows.size, f rows[i] := by
  have h1 : (rows.toList.map f) = List.ofFn (fun i : Fin rows.size => f rows[i]) := by
    apply List.ext_getElem
    · simp
    · intro k h1 h2; simp
  rw [h1, List.sum_ofFn]

theorem wellFormed_row (s : Sys) (h : s.wellFormed = true) (i : Fin s.rows.size) :
    ∀ cv ∈ (s.rows[i]).c, cv.1 < s.n := by
  unfold Sys.wellFormed at h
  rw [List.all_eq_true] at h
  have hm : s.rows[i] ∈ s.rows.toList := by simp [Array.mem_toList_iff]
  have := h _ hm
  rw [List.all_eq_true] at this
  intro cv hcv
  simpa using this cv hcv

theorem fit_eq_mulVec (s : Sys) (p : Array Rat) (h : s.wellFormed = true) (i : Fin s.rows.size) :
    (s.rows[i]).fit p = (s.mat *ᵥ s.pv p) i := by
  unfold Row.fit
  rw [row_fit_eq s.n p _ (wellFormed_row s h i)]
  rfl

/-- **Soundness of the exact check**: a parameter vector that passed `normalEqCheck` satisfies the normal equations of
the model's system. -/
theorem check_sound (s : Sys) (p : Array Rat) (h : s.normalEqCheck p = true) :
    NormalEq s.mat s.yv s.wv (s.pv p) := by
  unfold Sys.normalEqCheck at h
  rw [Bool.and_eq_true] at h
  obtain ⟨hwf, hall⟩ := h
  rw [List.all_eq_true] at hall
  intro j
  have hj := hall j.val (List.mem_range.mpr j.isLt)
  rw [beq_iff_eq] at hj
  unfold Sys.gradEntry at hj
  rw [sum_rows_eq] at hj
  rw [← hj]
  apply Finset.sum_congr rfl
  intro i _
  rw [fit_eq_mulVec s p hwf i]
  rfl

/-- the model's objective is the objective of the theory -/
theorem wssr_eq (s : Sys) (p : Array Rat) (h : s.wellFormed = true) :
    s.wssr p = wssr s.mat s.yv s.wv (s.pv p) := by
  unfold Sys.wssr wssr
  rw [sum_rows_eq]
  apply Finset.sum_congr rfl
  intro i _
  rw [fit_eq_mulVec s p h i]
  simp only [Sys.yv, Sys.wv]
  ring

end DtsVerif.Wls
