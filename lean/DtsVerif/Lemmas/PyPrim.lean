import DtsVerif.Model.PyPrim
/-! Lemmas about the Python primitives (core Lean only). -/
namespace DtsVerif.Py

theorem insertBy_perm {α} (le : α → α → Bool) (a : α) : ∀ l : List α, (insertBy le a l).Perm (a :: l)
  | [] => List.Perm.refl _
  | b :: r => by
    unfold insertBy
    split
    · exact List.Perm.refl _
    · exact ((insertBy_perm le a r).cons b).trans (List.Perm.swap a b r)

theorem insSort_perm {α} (le : α → α → Bool) : ∀ l : List α, (insSort le l).Perm l
  | [] => List.Perm.refl _
  | a :: r => (insertBy_perm le a _).trans ((insSort_perm le r).cons a)

@[simp] theorem mem_insSort {α} (le : α → α → Bool) (l : List α) (x : α) : x ∈ insSort le l ↔ x ∈ l :=
  (insSort_perm le l).mem_iff

@[simp] theorem length_insSort {α} (le : α → α → Bool) (l : List α) : (insSort le l).length = l.length :=
  (insSort_perm le l).length_eq

theorem insertBy_pairwise {α} (le : α → α → Bool) (tr : ∀ a b c, le a b → le b c → le a c)
    (tot : ∀ a b, le a b ∨ le b a) (a : α) :
    ∀ l : List α, l.Pairwise (fun x y => le x y) → (insertBy le a l).Pairwise (fun x y => le x y)
  | [], _ => by simp [insertBy]
  | b :: r, h => by
    rw [List.pairwise_cons] at h
    unfold insertBy
    split
    · rename_i hab
      rw [List.pairwise_cons]
      refine ⟨?_, List.pairwise_cons.mpr h⟩
      intro x hx
      rcases List.mem_cons.mp hx with rfl | hx
      · exact hab
      · exact tr a b x hab (h.1 x hx)
    · rename_i hab
      have hba : le b a = true := by
        rcases tot a b with h | h
        · exact absurd h hab
        · exact h
      rw [List.pairwise_cons]
      refine ⟨?_, insertBy_pairwise le tr tot a r h.2⟩
      intro x hx
      rcases List.mem_cons.mp ((insertBy_perm le a r).mem_iff.mp hx) with rfl | hx
      · exact hba
      · exact h.1 x hx

theorem insSort_pairwise {α} (le : α → α → Bool) (tr : ∀ a b c, le a b → le b c → le a c)
    (tot : ∀ a b, le a b ∨ le b a) : ∀ l : List α, (insSort le l).Pairwise (fun x y => le x y)
  | [] => List.Pairwise.nil
  | a :: r => insertBy_pairwise le tr tot a _ (insSort_pairwise le tr tot r)

theorem getD_mem (l : List Int) (k : Nat) (h : k < l.length) : l.getD k 0 ∈ l := by
  simp [List.getD, h]

end DtsVerif.Py
