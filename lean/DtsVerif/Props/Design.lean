import DtsVerif.Model.Calib
import DtsVerif.Lemmas.Design
/-!
# The design matrix the code assembles is the model's system, for every size (C01, C02, C03)

`Model/Design.lean` holds the row / column index vectors exactly as `calibration_single_ended_solver` and
`construct_submatrices` spell them with `arange / tile / repeat` (tied to the current source by the translator on every run).
`Model/Calib.lean` writes the system row by row.  The theorems below say that the two agree for every number of time steps, of
reference locations and of splices, and for every position of a splice among the reference locations:

* the model's reference rows are numbered as the code numbers its observations (time-major single-ended, location-major
  double-ended) — `design_model_ref_row`, `design_model_fw_row`, `design_model_bw_row`;
* the code stores a splice coefficient at (row of observation `(r, j)`, column of the loss of splice `a` at time `j`) **iff** the
  model's row of that observation contains it — `design_ta_matches_model`, `design_ta_fw_matches_model`,
  `design_ta_bw_matches_model` — and never twice (`Design.sTa_injective`);
* the `c_j` / `df_j` / `db_j`, `γ`, `Δα` and `A_r` coefficients sit in the row of their own observation.
-/
namespace DtsVerif.Calib
open DtsVerif.Design DtsVerif.Py

theorem taIx0_le (xs : Array Rat) (s : Rat) : Input.taIx0 xs s ≤ xs.size := by
  unfold Input.taIx0
  split
  · omega
  · split
    · exact Nat.le_refl _
    · split
      · omega
      · cases hf : (List.range xs.size).find? (fun k => xs.getD k 0 ≥ s) with
        | none => simp
        | some k =>
          have := List.mem_of_find?_eq_some hf
          simp at this
          simp; omega

/-- the rule the design-matrix builders use (`Design.ix0Rule`, re-read from the source by the translator) is the model's `taIx0` -/
theorem ix0Rule_eq_taIx0 (xs : Array Rat) (s : Rat) (h : xs.size ≠ 0) : ix0Rule xs s = Input.taIx0 xs s := by
  unfold ix0Rule Input.taIx0
  simp [h]

theorem mem_ta_filterMap (n : Nat) (p : Nat → Bool) (col : Nat → Nat) (c : Nat) (v : Rat) :
    (c, v) ∈ ((List.range n).filterMap fun a => if p a then some (col a, (-1 : Rat)) else none) ↔
      ∃ a, a < n ∧ p a = true ∧ col a = c ∧ v = -1 := by
  simp only [List.mem_filterMap, List.mem_range]
  constructor
  · rintro ⟨a, ha, h⟩
    by_cases hp : p a = true
    · simp [hp] at h
      exact ⟨a, ha, hp, h.1, h.2.symm⟩
    · simp [hp] at h
  · rintro ⟨a, ha, hp, hc, hv⟩
    exact ⟨a, ha, by simp [hp, hc, hv]⟩

theorem mem_aTerm (inp : Input) (i : Nat) (cf : Rat) (c : Nat) (v : Rat) :
    (c, v) ∈ inp.aTerm i cf ↔ i ≠ inp.r0 ∧ c = inp.colA i ∧ v = cf := by
  unfold Input.aTerm
  split
  · rename_i h; simp [h]
  · rename_i h; simp [h]

end DtsVerif.Calib

namespace DtsVerif.C01
open DtsVerif.Calib DtsVerif.Calib.Input DtsVerif.Design DtsVerif.Py

/-- the model numbers its reference rows as the code numbers its observations: row `j*nx + r` is reference row `r` at time `j`
(`y = np.log(ds_sec.st / ds_sec.ast).values.T.ravel()`) -/
theorem design_model_ref_row (inp : Input) (j r : Nat) (hj : j < inp.nt) (hr : r < inp.ixSec.size) :
    inp.obsSingle[j * inp.ixSec.size + r]? = some (inp.refObsS j r) := by
  have hshape : ∃ mat, inp.obsSingle = ravelC inp.nt inp.ixSec.size inp.refObsS ++ mat := ⟨_, rfl⟩
  obtain ⟨mat, hm⟩ := hshape
  rw [hm]
  have hlt : j * inp.ixSec.size + r < (ravelC inp.nt inp.ixSec.size inp.refObsS).length := by
    rw [length_ravelC]
    calc j * inp.ixSec.size + r < j * inp.ixSec.size + inp.ixSec.size := by omega
      _ = (j + 1) * inp.ixSec.size := by rw [Nat.add_mul, Nat.one_mul]
      _ ≤ inp.nt * inp.ixSec.size := Nat.mul_le_mul_right _ hj
  rw [List.getElem?_append_left hlt]
  exact getElem?_ravelC _ _ _ _ _ hj hr

/-- **Splice block = model, all sizes.**  For splice `a`, time `j`, reference row `r`: the code's COO block of that splice stores a
coefficient at (row of observation `(r, j)`, column `j` of the block) iff the model's row of that observation has the
coefficient `−1` for the loss of splice `a` at time `j`. -/
theorem design_ta_matches_model (inp : Input) (hfa : inp.fixAlpha = none)
    (a j r : Nat) (ha : a < inp.nta) (hj : j < inp.nt) (hr : r < inp.ixSec.size) :
    (∃ e, e < sTaCount inp.nt inp.ixSec.size (taIx0 inp.xSec (inp.trans.getD a 0)) ∧
        (sTaRow inp.nt inp.ixSec.size (taIx0 inp.xSec (inp.trans.getD a 0)))[e]? = some (j * inp.ixSec.size + r) ∧
        (sTaCol inp.nt inp.ixSec.size (taIx0 inp.xSec (inp.trans.getD a 0)))[e]? = some j)
      ↔ (inp.colTa a j, (-1 : Rat)) ∈ (inp.refObsS j r).c := by
  have hnx : 0 < inp.ixSec.size := by omega
  have hnt : 0 < inp.nt := by omega
  have ham : inp.alphaMode = false := by simp [alphaMode, hfa]
  have hcolTa : ∀ a', inp.colTa a' j = 2 + inp.nt + a' * inp.nt + j := by intro a'; simp [colTa, ham]
  have hmem : (inp.colTa a j, (-1 : Rat)) ∈ (inp.refObsS j r).c ↔ inp.downSec a r = true := by
    unfold refObsS
    simp only [ham, Bool.false_eq_true, if_false, List.mem_append, List.mem_cons, List.mem_nil_iff, or_false, Prod.mk.injEq,
      mem_ta_filterMap]
    constructor
    · rintro (((h | h) | h) | ⟨a', ha', hp, hc, _⟩)
      · have := h.1; rw [hcolTa] at this; simp [colGamma] at this
      · have := h.1; rw [hcolTa] at this; simp [colDalpha] at this; omega
      · have := h.1; rw [hcolTa] at this; simp [colC, ham] at this; omega
      · rw [hcolTa, hcolTa] at hc
        have : a' * inp.nt = a * inp.nt := by omega
        have : a' = a := Nat.eq_of_mul_eq_mul_right hnt this
        subst this; exact hp
    · intro hp
      exact Or.inr ⟨a, ha, hp, by simp⟩
  rw [hmem]
  unfold downSec
  simp only [decide_eq_true_eq, ge_iff_le]
  constructor
  · rintro ⟨e, he, hrow, _⟩
    obtain ⟨j', r', _, hr0', hr', hrow', _⟩ := sTa_only _ _ _ e hnx he
    rw [hrow] at hrow'
    have heq := Option.some.inj hrow'
    have h1 := div_mod_of_lt j inp.ixSec.size r hr
    have h2 := div_mod_of_lt j' inp.ixSec.size r' hr'
    have : r = r' := by rw [← h1.2, ← h2.2, heq]
    omega
  · intro h0
    exact sTa_covers _ _ _ j r hnx hj h0 hr

/-- the `c_j` coefficient: stored by the code in the row of observation `(r, j)`, column `j` of the `c` block; the model's row
has `−1` at `c_j` -/
theorem design_c_matches_model (inp : Input) (j r : Nat) (hj : j < inp.nt) (hr : r < inp.ixSec.size) :
    (sCRow inp.nt inp.ixSec.size)[j * inp.ixSec.size + r]? = some (j * inp.ixSec.size + r) ∧
    (sCCol inp.nt inp.ixSec.size)[j * inp.ixSec.size + r]? = some j ∧
    (inp.colC j, (-1 : Rat)) ∈ (inp.refObsS j r).c := by
  obtain ⟨h1, h2⟩ := sC_at inp.nt inp.ixSec.size j r hj hr
  refine ⟨h1, h2, ?_⟩
  unfold refObsS
  simp

/-- the `Δα` coefficient of the row of observation `(r, j)` is `−x_r` in the code (`np.tile(-x_sec, nt)`) and in the model -/
theorem design_dalpha_matches_model (inp : Input) (hfa : inp.fixAlpha = none)
    (j r : Nat) (hj : j < inp.nt) (hr : r < inp.ixSec.size) :
    (sDalphaData (inp.xSec.toList.map (fun x => -x)) inp.nt)[j * inp.ixSec.size + r]? = some (-(inp.xAt (inp.ixSec.getD r 0))) ∧
    (colDalpha, -(inp.xAt (inp.ixSec.getD r 0))) ∈ (inp.refObsS j r).c := by
  have ham : inp.alphaMode = false := by simp [alphaMode, hfa]
  constructor
  · have hlen : (inp.xSec.toList.map (fun x => -x)).length = inp.ixSec.size := by simp [xSec]
    have hlt : j * inp.ixSec.size + r < inp.nt * (inp.xSec.toList.map (fun x => -x)).length := by
      rw [hlen]
      calc j * inp.ixSec.size + r < j * inp.ixSec.size + inp.ixSec.size := by omega
        _ = (j + 1) * inp.ixSec.size := by rw [Nat.add_mul, Nat.one_mul]
        _ ≤ inp.nt * inp.ixSec.size := Nat.mul_le_mul_right _ hj
    unfold sDalphaData
    rw [getElem?_tile _ _ _ hlt, hlen, (div_mod_of_lt j inp.ixSec.size r hr).2]
    simp [xSec, Array.getD, hr]
  · unfold refObsS
    simp [ham]

end DtsVerif.C01

namespace DtsVerif.C02
open DtsVerif.Calib DtsVerif.Calib.Input DtsVerif.Design DtsVerif.Py

/-- forward rows of the model are numbered location-major like `y_F = ….values.ravel()`: row `r*nt + j` -/
theorem design_model_fw_row (inp : Input) (r j : Nat) (hr : r < inp.ixSec.size) (hj : j < inp.nt) :
    inp.obsDouble[r * inp.nt + j]? = some (inp.fwObsD r j) := by
  have hshape : ∃ rest, inp.obsDouble = ravelC inp.ixSec.size inp.nt inp.fwObsD ++ rest := ⟨_, by
    unfold obsDouble ravelC; simp only [List.append_assoc]; rfl⟩
  obtain ⟨rest, hm⟩ := hshape
  rw [hm]
  have hlt : r * inp.nt + j < (ravelC inp.ixSec.size inp.nt inp.fwObsD).length := by
    rw [length_ravelC]
    calc r * inp.nt + j < r * inp.nt + inp.nt := by omega
      _ = (r + 1) * inp.nt := by rw [Nat.add_mul, Nat.one_mul]
      _ ≤ inp.ixSec.size * inp.nt := Nat.mul_le_mul_right _ hr
  rw [List.getElem?_append_left hlt]
  exact getElem?_ravelC _ _ _ _ _ hr hj

/-- backward rows follow the `nx*nt` forward rows, in the same order -/
theorem design_model_bw_row (inp : Input) (r j : Nat) (hr : r < inp.ixSec.size) (hj : j < inp.nt) :
    inp.obsDouble[inp.ixSec.size * inp.nt + (r * inp.nt + j)]? = some (inp.bwObsD r j) := by
  have hshape : ∃ rest, inp.obsDouble =
      ravelC inp.ixSec.size inp.nt inp.fwObsD ++ (ravelC inp.ixSec.size inp.nt inp.bwObsD ++ rest) := ⟨_, by
    unfold obsDouble ravelC; simp only [List.append_assoc]; rfl⟩
  obtain ⟨rest, hm⟩ := hshape
  rw [hm]
  have hlt : r * inp.nt + j < (ravelC inp.ixSec.size inp.nt inp.bwObsD).length := by
    rw [length_ravelC]
    calc r * inp.nt + j < r * inp.nt + inp.nt := by omega
      _ = (r + 1) * inp.nt := by rw [Nat.add_mul, Nat.one_mul]
      _ ≤ inp.ixSec.size * inp.nt := Nat.mul_le_mul_right _ hr
  rw [List.getElem?_append_right (by rw [length_ravelC]; omega), length_ravelC]
  have : inp.ixSec.size * inp.nt + (r * inp.nt + j) - inp.ixSec.size * inp.nt = r * inp.nt + j := by omega
  rw [this, List.getElem?_append_left hlt]
  exact getElem?_ravelC _ _ _ _ _ hr hj

theorem colTaD_eq (inp : Input) (a d j : Nat) : inp.colTaD a d j = 1 + 2 * inp.nt + inp.N + j + inp.nt * d + 2 * inp.nt * a := rfl

/-- which coefficients the model's forward row has for the losses: `−1` at (splice `a`, forward, time `j`) iff `r` is downstream -/
theorem fw_row_ta_mem (inp : Input) (hd : inp.doubleEnded = true) (hix : ∀ r, r < inp.ixSec.size → inp.ixSec.getD r 0 < inp.N)
    (a j r : Nat) (ha : a < inp.nta) (hj : j < inp.nt) (hr : r < inp.ixSec.size) :
    (inp.colTaD a 0 j, (-1 : Rat)) ∈ (inp.fwObsD r j).c ↔ inp.downSec a r = true := by
  have hnt : 0 < inp.nt := by omega
  have hi := hix r hr
  unfold fwObsD
  simp only [List.mem_append, List.mem_cons, List.mem_nil_iff, or_false, Prod.mk.injEq, mem_ta_filterMap, mem_aTerm]
  constructor
  · rintro (((h | h) | h) | ⟨a', _, hp, hc, _⟩)
    · have := h.1; rw [colTaD_eq] at this; simp [colGamma] at this
    · have := h.1; rw [colTaD_eq] at this; simp [colDf] at this; omega
    · have := h.2.1; rw [colTaD_eq] at this; simp only [colA, hd, if_true] at this; omega
    · rw [colTaD_eq, colTaD_eq] at hc
      have h2 : 2 * inp.nt * a' = 2 * inp.nt * a := by omega
      have : a' = a := Nat.eq_of_mul_eq_mul_left (by omega) h2
      subst this; exact hp
  · intro hp
    exact Or.inr ⟨a, ha, hp, by simp⟩

/-- … and the backward row: `−1` at (splice `a`, backward, time `j`) iff `r` is upstream -/
theorem bw_row_ta_mem (inp : Input) (hd : inp.doubleEnded = true) (hix : ∀ r, r < inp.ixSec.size → inp.ixSec.getD r 0 < inp.N)
    (a j r : Nat) (ha : a < inp.nta) (hj : j < inp.nt) (hr : r < inp.ixSec.size) :
    (inp.colTaD a 1 j, (-1 : Rat)) ∈ (inp.bwObsD r j).c ↔ inp.downSec a r = false := by
  have hnt : 0 < inp.nt := by omega
  have hi := hix r hr
  unfold bwObsD
  simp only [List.mem_append, List.mem_cons, List.mem_nil_iff, or_false, Prod.mk.injEq, mem_aTerm]
  rw [show ((List.range inp.nta).filterMap fun a => if (!inp.downSec a r) = true then some (inp.colTaD a 1 j, (-1 : Rat)) else none)
      = ((List.range inp.nta).filterMap fun a => if (fun a => !inp.downSec a r) a then some ((fun a => inp.colTaD a 1 j) a, (-1 : Rat)) else none) from rfl]
  rw [mem_ta_filterMap]
  constructor
  · rintro (((h | h) | h) | ⟨a', _, hp, hc, _⟩)
    · have := h.1; rw [colTaD_eq] at this; simp [colGamma] at this
    · have := h.1; rw [colTaD_eq] at this; simp [colDb] at this; omega
    · have := h.2.1; rw [colTaD_eq] at this; simp only [colA, hd, if_true] at this; omega
    · simp only [colTaD_eq] at hc
      have h2 : 2 * inp.nt * a' = 2 * inp.nt * a := by omega
      have : a' = a := Nat.eq_of_mul_eq_mul_left (by omega) h2
      subst this; simpa using hp
  · intro hp
    exact Or.inr ⟨a, ha, by simpa using hp, by simp⟩

/-- **Forward splice block = model, all sizes**: the code stores a coefficient at (row of observation `(r, j)`, column `j` of the
forward half of splice `a`) iff the model's forward row of that observation has `−1` at the forward loss of splice `a`, time `j`. -/
theorem design_ta_fw_matches_model (inp : Input) (hd : inp.doubleEnded = true)
    (hix : ∀ r, r < inp.ixSec.size → inp.ixSec.getD r 0 < inp.N)
    (a j r : Nat) (ha : a < inp.nta) (hj : j < inp.nt) (hr : r < inp.ixSec.size) :
    (∃ e, e < dTaFwCount inp.nt inp.ixSec.size (taIx0 inp.xSec (inp.trans.getD a 0)) ∧
        (dTaFwRow inp.nt inp.ixSec.size (taIx0 inp.xSec (inp.trans.getD a 0)))[e]? = some (r * inp.nt + j) ∧
        (dTaFwCol inp.nt inp.ixSec.size (taIx0 inp.xSec (inp.trans.getD a 0)))[e]? = some j)
      ↔ (inp.colTaD a 0 j, (-1 : Rat)) ∈ (inp.fwObsD r j).c := by
  rw [fw_row_ta_mem inp hd hix a j r ha hj hr]
  unfold downSec
  simp only [decide_eq_true_eq, ge_iff_le]
  generalize taIx0 inp.xSec (inp.trans.getD a 0) = ix0
  constructor
  · rintro ⟨e, he, hrow, _⟩
    obtain ⟨v, hv, hge⟩ := dTaFw_rows_downstream _ _ _ e he
    rw [hrow] at hv
    have hv' := Option.some.inj hv
    subst hv'
    -- nt*ix0 ≤ r*nt + j < (r+1)*nt
    rcases Nat.lt_or_ge r ix0 with hlt | hge'
    · exfalso
      have : (r + 1) * inp.nt ≤ ix0 * inp.nt := Nat.mul_le_mul_right _ hlt
      rw [Nat.add_mul, Nat.one_mul, Nat.mul_comm ix0] at this
      omega
    · exact hge'
  · intro h0
    refine ⟨(r - ix0) * inp.nt + j, ?_, dTaFw_at _ _ _ r j h0 hr hj⟩
    unfold dTaFwCount
    calc (r - ix0) * inp.nt + j < (r - ix0) * inp.nt + inp.nt := by omega
      _ = (r - ix0 + 1) * inp.nt := by rw [Nat.add_mul, Nat.one_mul]
      _ ≤ (inp.ixSec.size - ix0) * inp.nt := Nat.mul_le_mul_right _ (by omega)
      _ = inp.nt * (inp.ixSec.size - ix0) := Nat.mul_comm _ _

/-- **Backward splice block = model, all sizes** (rows of the backward system: the code's block covers `arange(nt*ix0)`) -/
theorem design_ta_bw_matches_model (inp : Input) (hd : inp.doubleEnded = true)
    (hix : ∀ r, r < inp.ixSec.size → inp.ixSec.getD r 0 < inp.N)
    (a j r : Nat) (ha : a < inp.nta) (hj : j < inp.nt) (hr : r < inp.ixSec.size) :
    (∃ e, e < dTaBwCount inp.nt (taIx0 inp.xSec (inp.trans.getD a 0)) ∧
        (dTaBwRow inp.nt (taIx0 inp.xSec (inp.trans.getD a 0)))[e]? = some (r * inp.nt + j) ∧
        (dTaBwCol inp.nt (taIx0 inp.xSec (inp.trans.getD a 0)))[e]? = some (inp.nt + j))
      ↔ (inp.colTaD a 1 j, (-1 : Rat)) ∈ (inp.bwObsD r j).c := by
  rw [bw_row_ta_mem inp hd hix a j r ha hj hr]
  unfold downSec
  simp only [decide_eq_false_iff_not, ge_iff_le, Nat.not_le]
  generalize taIx0 inp.xSec (inp.trans.getD a 0) = ix0
  constructor
  · rintro ⟨e, he, hrow, _⟩
    unfold dTaBwCount at he
    have hrow' : (dTaBwRow inp.nt ix0)[e]? = some e := by
      have := getElem?_arange 0 (inp.nt * ix0) e (by simpa using he)
      simpa [dTaBwRow] using this
    rw [hrow] at hrow'
    have heq := Option.some.inj hrow'
    rcases Nat.lt_or_ge r ix0 with hlt | hge
    · exact hlt
    · exfalso
      have : ix0 * inp.nt ≤ r * inp.nt := Nat.mul_le_mul_right _ hge
      rw [Nat.mul_comm ix0] at this
      omega
  · intro h0
    refine ⟨r * inp.nt + j, ?_, dTaBw_at _ _ r j h0 hj⟩
    unfold dTaBwCount
    calc r * inp.nt + j < r * inp.nt + inp.nt := by omega
      _ = (r + 1) * inp.nt := by rw [Nat.add_mul, Nat.one_mul]
      _ ≤ ix0 * inp.nt := Nat.mul_le_mul_right _ h0
      _ = inp.nt * ix0 := Nat.mul_comm _ _

/-- `df_j` (forward) and `db_j` (backward): the code's `Z_D` has its entry in the row of observation `(r, j)`, column `j`; the model's
rows carry `−1` at `df_j` resp. `db_j` -/
theorem design_d_matches_model (inp : Input) (r j : Nat) (hr : r < inp.ixSec.size) (hj : j < inp.nt) :
    (dDRow inp.nt inp.ixSec.size)[r * inp.nt + j]? = some (r * inp.nt + j) ∧
    (dDCol inp.nt inp.ixSec.size)[r * inp.nt + j]? = some j ∧
    (colDf j, (-1 : Rat)) ∈ (inp.fwObsD r j).c ∧ (inp.colDb j, (-1 : Rat)) ∈ (inp.bwObsD r j).c := by
  obtain ⟨h1, h2⟩ := dD_at inp.nt inp.ixSec.size r j hr hj
  refine ⟨h1, h2, ?_, ?_⟩
  · unfold fwObsD; simp
  · unfold bwObsD; simp

/-- `E`: no coefficient for the first reference row (there `A = 0` by definition), one for every later row `r`, parameter `r − 1`
of the reduced problem, in the row of observation `(r, j)`; the model's rows carry `∓1` at `A` of that location unless it is the
first reference location -/
theorem design_E_matches_model (inp : Input) (r j : Nat) (hr1 : 1 ≤ r) (hr : r < inp.ixSec.size) (hj : j < inp.nt)
    (hne : inp.ixSec.getD r 0 ≠ inp.r0) :
    (dERow inp.nt inp.ixSec.size)[(r - 1) * inp.nt + j]? = some (r * inp.nt + j) ∧
    (dECol inp.nt inp.ixSec.size)[(r - 1) * inp.nt + j]? = some (r - 1) ∧
    (inp.colA (inp.ixSec.getD r 0), (-1 : Rat)) ∈ (inp.fwObsD r j).c ∧
    (inp.colA (inp.ixSec.getD r 0), (1 : Rat)) ∈ (inp.bwObsD r j).c := by
  obtain ⟨h1, h2⟩ := dE_at inp.nt inp.ixSec.size r j hr1 hr hj
  refine ⟨h1, h2, ?_, ?_⟩
  · unfold fwObsD
    simp only [List.mem_append, mem_aTerm]
    refine Or.inl (Or.inr ?_)
    exact ⟨hne, trivial, trivial⟩
  · unfold bwObsD
    simp only [List.mem_append, mem_aTerm]
    refine Or.inl (Or.inr ?_)
    exact ⟨hne, trivial, trivial⟩

/-- the first reference row has no `A` coefficient in the model either -/
theorem design_E_first_row (inp : Input) (j : Nat) (hj : j < inp.nt) (c : Nat) (v : Rat) (hc : inp.isAlphaCol c = true)
    (hd : inp.doubleEnded = true) (hnta : inp.nta = 0) :
    (c, v) ∉ (inp.fwObsD 0 j).c := by
  unfold fwObsD aTerm
  have h0 : inp.ixSec.getD 0 0 = inp.r0 := rfl
  simp only [h0, if_true, List.append_nil, hnta, List.range_zero, List.filterMap_nil, List.mem_cons, List.mem_nil_iff,
    or_false, Prod.mk.injEq, not_or, not_and]
  unfold isAlphaCol at hc
  simp only [hd, Bool.true_and, Bool.and_eq_true, decide_eq_true_eq, colA, if_true] at hc
  constructor
  · intro h; simp [colGamma] at h; omega
  · intro h; simp [colDf] at h; omega

end DtsVerif.C02

namespace DtsVerif.C01
open DtsVerif.Calib DtsVerif.Design

/-- non-vacuity: 3 reference rows, 2 times, one splice between rows 0 and 1: the block has 2·2 coefficients, rows 1,2,4,5 -/
example : sTaRow 2 3 1 = [1, 2, 4, 5] ∧ sTaCol 2 3 1 = [0, 0, 1, 1] ∧ sTaCount 2 3 1 = 4 := by decide

/-- … and the matching block of 2 pairs, 2 times, 2 splices: rows `e % 4`, columns `time + 2·splice` -/
example : sMtRow 2 2 2 = [0, 1, 2, 3, 0, 1, 2, 3] ∧ sMtCol 2 2 2 = [0, 0, 1, 1, 2, 2, 3, 3] := by decide

end DtsVerif.C01

namespace DtsVerif.C02
open DtsVerif.Design

example : dTaFwRow 2 3 1 = [2, 3, 4, 5] ∧ dTaFwCol 2 3 1 = [0, 1, 0, 1] ∧ dTaBwRow 2 1 = [0, 1] ∧ dTaBwCol 2 1 = [2, 3] ∧
    dERow 2 3 = [2, 3, 4, 5] ∧ dECol 2 3 = [0, 0, 1, 1] := by decide

end DtsVerif.C02

namespace DtsVerif.C03
open DtsVerif.Calib DtsVerif.Design

/-- the splice rule of the three design-matrix builders (re-read from the source on every run) is the model's rule, for which
`C03_splice_mask_consistent` shows: row `r` is treated as downstream iff `x_r ≥ s` — the mask of the temperature equation -/
theorem design_splice_rule (xs : Array Rat) (s : Rat) (h : xs.size ≠ 0) : ix0Rule xs s = Input.taIx0 xs s :=
  ix0Rule_eq_taIx0 xs s h

end DtsVerif.C03

namespace DtsVerif.C01
open DtsVerif.Calib DtsVerif.Calib.Input DtsVerif.Design DtsVerif.Py

/-- matching rows of the model follow the `nt·nx` reference rows and are numbered like `y_m = (…).T.ravel()`: row `j·nm + p` is
pair `p` at time `j` -/
theorem design_model_match_row (inp : Input) (hfa : inp.fixAlpha = none) (j pi : Nat) (hj : j < inp.nt) (hpi : pi < inp.pairs.size) :
    inp.obsSingle[inp.nt * inp.ixSec.size + (j * inp.pairs.size + pi)]? = some (inp.matObsS j pi) := by
  have ham : inp.alphaMode = false := by simp [alphaMode, hfa]
  have hshape : inp.obsSingle = ravelC inp.nt inp.ixSec.size inp.refObsS ++ ravelC inp.nt inp.pairs.size inp.matObsS := by
    unfold obsSingle ravelC; simp [ham]
  rw [hshape, List.getElem?_append_right (by rw [length_ravelC]; omega), length_ravelC]
  have : inp.nt * inp.ixSec.size + (j * inp.pairs.size + pi) - inp.nt * inp.ixSec.size = j * inp.pairs.size + pi := by omega
  rw [this]
  exact getElem?_ravelC _ _ _ _ _ hj hpi

/-- the entry of the splice part of the matching block that belongs to (pair `p`, time `j`, splice `a`): row `j·nm + p`, column
`j + a·nt` of the block, value `M[p][a]` -/
theorem design_mt_entry {α} [Inhabited α] (M : List (List α)) (nt nta j pi a : Nat) (hj : j < nt) (hpi : pi < M.length) (ha : a < nta) :
    a * (M.length * nt) + (j * M.length + pi) < nta * (M.length * nt) ∧
    (sMtRow M.length nt nta)[a * (M.length * nt) + (j * M.length + pi)]? = some (j * M.length + pi) ∧
    (sMtCol M.length nt nta)[a * (M.length * nt) + (j * M.length + pi)]? = some (j + a * nt) ∧
    (sMtData M nt nta)[a * (M.length * nt) + (j * M.length + pi)]? = (M[pi]?).map (fun r => r.getD a default) := by
  have hq : j * M.length + pi < M.length * nt := by
    calc j * M.length + pi < j * M.length + M.length := by omega
      _ = (j + 1) * M.length := by rw [Nat.add_mul, Nat.one_mul]
      _ ≤ nt * M.length := Nat.mul_le_mul_right _ hj
      _ = M.length * nt := Nat.mul_comm _ _
  have he : a * (M.length * nt) + (j * M.length + pi) < nta * (M.length * nt) := by
    calc a * (M.length * nt) + (j * M.length + pi) < a * (M.length * nt) + M.length * nt := by omega
      _ = (a + 1) * (M.length * nt) := by rw [Nat.add_mul, Nat.one_mul]
      _ ≤ nta * (M.length * nt) := Nat.mul_le_mul_right _ ha
  obtain ⟨hd1, hm1⟩ := div_mod_of_lt a (M.length * nt) (j * M.length + pi) hq
  obtain ⟨hd2, hm2⟩ := div_mod_of_lt j M.length pi hpi
  obtain ⟨hrow, hcol⟩ := sMt_entry M.length nt nta _ he
  refine ⟨he, ?_, ?_, ?_⟩
  · rw [hrow, hm1]
  · rw [hcol, hm1, hd1, hd2]
  · rw [sMtData_entry M nt nta _ he, hm1, hd1, hm2]

theorem mem_cf_filterMap (n : Nat) (cf : Nat → Rat) (col : Nat → Nat) (c : Nat) (v : Rat) :
    (c, v) ∈ ((List.range n).filterMap fun a => if cf a = 0 then none else some (col a, cf a)) ↔
      ∃ a, a < n ∧ cf a ≠ 0 ∧ col a = c ∧ cf a = v := by
  simp only [List.mem_filterMap, List.mem_range]
  constructor
  · rintro ⟨a, ha, h⟩
    by_cases hz : cf a = 0
    · simp [hz] at h
    · simp [hz] at h
      exact ⟨a, ha, hz, h.1, h.2⟩
  · rintro ⟨a, ha, hz, hc, hv⟩
    refine ⟨a, ha, ?_⟩
    rw [if_neg hz, hc, hv]

/-- which splice coefficients the model's matching row has: the loss of splice `a` at time `j` with coefficient
`matCf = [x_tail ≥ s_a] − [x_head ≥ s_a]` when that is non-zero, and nothing otherwise — the `transient_m_data[ii, jj]` of the source -/
theorem match_row_ta_mem (inp : Input) (hfa : inp.fixAlpha = none) (j pi a : Nat) (hj : j < inp.nt) (ha : a < inp.nta) (v : Rat) :
    (inp.colTa a j, v) ∈ (inp.matObsS j pi).c ↔ (v = inp.matCf pi a ∧ v ≠ 0) := by
  have hnt : 0 < inp.nt := by omega
  have ham : inp.alphaMode = false := by simp [alphaMode, hfa]
  have hcolTa : ∀ a', inp.colTa a' j = 2 + inp.nt + a' * inp.nt + j := by intro a'; simp [colTa, ham]
  unfold matObsS
  simp only [List.mem_append, List.mem_cons, List.mem_nil_iff, or_false, Prod.mk.injEq]
  rw [mem_cf_filterMap inp.nta (inp.matCf pi) (fun a => inp.colTa a j)]
  constructor
  · rintro (h | ⟨a', _, hz, hc, hv⟩)
    · have := h.1; rw [hcolTa] at this; simp [colDalpha] at this; omega
    · simp only [hcolTa] at hc
      have h2 : a' * inp.nt = a * inp.nt := by omega
      have : a' = a := Nat.eq_of_mul_eq_mul_right hnt h2
      subst this
      exact ⟨hv.symm, by rw [← hv]; exact hz⟩
  · rintro ⟨hv, hne⟩
    exact Or.inr ⟨a, ha, by rw [← hv]; exact hne, rfl, hv.symm⟩

end DtsVerif.C01

namespace DtsVerif.C01
open DtsVerif.Calib DtsVerif.Calib.Input DtsVerif.Design DtsVerif.Py

/-- what the recorded defect `C01-weights-transposed` is, for every size: the source ravels the variances location-major
(`(…).values.ravel()` of an `(nx, nt)` array) while the rows are time-major, so the weight that meets the row of observation
`(r, j)` — row `j·nx + r` — is entry `j·nx + r` of the location-major ravel, i.e. the variance of observation
`((j·nx + r) / nt, (j·nx + r) % nt)`; this is the expression the model evaluates under `codeWeightOrder` -/
theorem design_code_weight_order {α} (nx nt : Nat) (v : Nat → Nat → α) (j r : Nat) (hj : j < nt) (hr : r < nx) :
    (ravelC nx nt v)[j * nx + r]? = some (v ((j * nx + r) / nt) ((j * nx + r) % nt)) := by
  have hnt : 0 < nt := by omega
  have hlt : j * nx + r < nx * nt := by
    calc j * nx + r < j * nx + nx := by omega
      _ = (j + 1) * nx := by rw [Nat.add_mul, Nat.one_mul]
      _ ≤ nt * nx := Nat.mul_le_mul_right _ hj
      _ = nx * nt := Nat.mul_comm _ _
  have hlt' : j * nx + r < nt * nx := by rw [Nat.mul_comm nt nx]; exact hlt
  have hdiv : (j * nx + r) / nt < nx := Nat.div_lt_of_lt_mul hlt'
  have hmod : (j * nx + r) % nt < nt := Nat.mod_lt _ hnt
  have := getElem?_ravelC nx nt v _ _ hdiv hmod
  rw [Nat.div_add_mod' (j * nx + r) nt] at this
  exact this

/-- … whereas the time-major ravel (`.T.ravel()`, the order of `y` and of the rows) gives the observation's own variance -/
theorem design_own_weight_order {α} (nx nt : Nat) (v : Nat → Nat → α) (j r : Nat) (hj : j < nt) (hr : r < nx) :
    (ravelC nt nx (fun j r => v r j))[j * nx + r]? = some (v r j) :=
  getElem?_ravelC nt nx _ j r hj hr

/-- the two orders differ as soon as there are two times and two locations: row 1 (`r = 1, j = 0`) receives the variance of
observation `(0, 1)` -/
example : (ravelC 2 2 (fun r j => (r, j)))[0 * 2 + 1]? = some (0, 1) ∧ (ravelC 2 2 (fun j r => (r, j)))[0 * 2 + 1]? = some (1, 0) := by
  decide

end DtsVerif.C01

namespace DtsVerif.C02
open DtsVerif.Calib DtsVerif.Calib.Input DtsVerif.Design DtsVerif.Py

theorem ind_eq_b2r (b : Bool) : ind b = b2r b := rfl

/-- EQ1 (`F_h − F_t`): the coefficient the code stores for the forward loss of splice `a` — `−[h ≥ ix0] + [t ≥ ix0]` with `ix0` the
builders' splice rule on the whole fibre — is the model's `[t downstream] − [h downstream]` -/
theorem design_eq1_coefficient (inp : Input) (a h t : Nat) :
    -(ind (decide (h ≥ taIx0 inp.x (inp.trans.getD a 0)))) + ind (decide (t ≥ taIx0 inp.x (inp.trans.getD a 0)))
      = b2r (inp.downAll a t) - b2r (inp.downAll a h) := by
  unfold downAll
  rw [ind_eq_b2r, ind_eq_b2r, Rat.add_comm, ← Rat.sub_eq_add_neg]

/-- EQ2 (`B_h − B_t`): `−[h < ix0] + [t < ix0]` is the model's `[t upstream] − [h upstream]` -/
theorem design_eq2_coefficient (inp : Input) (a h t : Nat) :
    -(ind (decide (h < taIx0 inp.x (inp.trans.getD a 0)))) + ind (decide (t < taIx0 inp.x (inp.trans.getD a 0)))
      = b2r (!inp.downAll a t) - b2r (!inp.downAll a h) := by
  unfold downAll
  have hneg : ∀ i k : Nat, (!decide (i ≥ k)) = decide (i < k) := by
    intro i k; by_cases hik : i < k <;> simp [hik] <;> omega
  rw [hneg, hneg, ind_eq_b2r, ind_eq_b2r, Rat.add_comm, ← Rat.sub_eq_add_neg]

/-- EQ3 (`(B_i − F_i)/2` at a matched location outside the reference sections): exactly one of the two stored values is non-zero —
`+1/2` at the forward loss when the location is downstream of the splice, `−1/2` at the backward loss when it is upstream — as in
the model's row -/
theorem design_eq3_coefficient (inp : Input) (a i : Nat) :
    (inp.downAll a i = true →
      ind (decide (i ≥ taIx0 inp.x (inp.trans.getD a 0))) / 2 = (1 / 2 : Rat) ∧
      -(ind (decide (i < taIx0 inp.x (inp.trans.getD a 0)))) / 2 = (0 : Rat)) ∧
    (inp.downAll a i = false →
      ind (decide (i ≥ taIx0 inp.x (inp.trans.getD a 0))) / 2 = (0 : Rat) ∧
      -(ind (decide (i < taIx0 inp.x (inp.trans.getD a 0)))) / 2 = (-1 / 2 : Rat)) := by
  unfold downAll
  generalize taIx0 inp.x (inp.trans.getD a 0) = k
  constructor
  · intro h
    have h1 : k ≤ i := by simpa using h
    have h2 : ¬ (i < k) := by omega
    simp only [ind, ge_iff_le, h1, h2, decide_true, decide_false, if_true, Bool.false_eq_true, if_false]
    constructor <;> decide +kernel
  · intro h
    have h1 : ¬ (k ≤ i) := by simpa using h
    have h2 : i < k := by omega
    simp only [ind, ge_iff_le, h1, h2, decide_true, decide_false, if_true, Bool.false_eq_true, if_false]
    constructor <;> decide +kernel

end DtsVerif.C02
