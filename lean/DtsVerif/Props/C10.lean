import DtsVerif.Model.Resid
import DtsVerif.Props.C16
import Mathlib.Algebra.Order.Ring.Rat
import Mathlib.Algebra.BigOperators.Group.List.Basic
import Mathlib.Tactic.Ring
import Mathlib.Tactic.FieldSimp
/-!
# C10 — Stokes noise-variance estimators: residual placement, order independence, scale equivariance
-/
namespace DtsVerif.C10
open DtsVerif.Resid DtsVerif.Sections

theorem sumQ_eq_sum (l : List Rat) : sumQ l = l.sum := by
  unfold sumQ
  have : ∀ (acc : Rat), l.foldl (· + ·) acc = acc + l.sum := by
    induction l with
    | nil => intro acc; simp
    | cons a r ih => intro acc; simp [List.foldl_cons, ih, add_assoc]
  simpa using this 0

/-- **C10 (order of sections does not matter).** The estimate is a function of the multiset of residuals: any
re-ordering of the stretches (which permutes the concatenated residuals) gives the same variance. -/
theorem C10_var_order_independent (l₁ l₂ : List Rat) (h : l₁.Perm l₂) : sampleVar l₁ = sampleVar l₂ := by
  unfold sampleVar
  simp only [sumQ_eq_sum]
  have hlen : l₁.length = l₂.length := h.length_eq
  have hsum : l₁.sum = l₂.sum := h.sum_eq
  rw [hlen, hsum]
  congr 1
  exact (h.map _).sum_eq

theorem sq_dev_scale (l : List Rat) (k m : Rat) :
    (l.map fun x => (k * x - k * m) * (k * x - k * m)).sum = k ^ 2 * (l.map fun x => (x - m) * (x - m)).sum := by
  induction l with
  | nil => simp
  | cons a r ih => simp only [List.map_cons, List.sum_cons, ih]; ring

/-- **C10 (scale equivariance).** Multiplying every residual by `k` multiplies the variance by `k²`; exact minimisers scale
with the data, so this is the behaviour of the estimate under `st ↦ k·st`. -/
theorem C10_scale_equivariance (l : List Rat) (k : Rat) :
    sampleVar (l.map (k * ·)) = k ^ 2 * sampleVar l := by
  unfold sampleVar
  simp only [sumQ_eq_sum, List.length_map, List.map_map]
  have h1 : (l.map (k * ·)).sum = k * l.sum := by
    induction l with
    | nil => simp
    | cons a r ih => simp [List.sum_cons, ih, mul_add]
  rw [h1]
  have hm : k * l.sum / ((l.length : Nat) : Rat) = k * (l.sum / ((l.length : Nat) : Rat)) := by ring
  rw [hm]
  have h2 := sq_dev_scale l k (l.sum / ((l.length : Nat) : Rat))
  have h3 : ((fun x => (x - k * (l.sum / ((l.length : Nat) : Rat))) * (x - k * (l.sum / ((l.length : Nat) : Rat)))) ∘ fun x => k * x)
      = fun x => (k * x - k * (l.sum / ((l.length : Nat) : Rat))) * (k * x - k * (l.sum / ((l.length : Nat) : Rat))) := rfl
  rw [h3, h2]; ring

/-- **C10 (every reference location gets exactly one residual row).** For an accepted definition the rows are written to
pairwise different grid indices, and these are exactly the reference locations; all other locations keep NaN. -/
theorem C10_residual_placement (xs : List Rat) (present : List Bool) (d : Dict)
    (hlen : present.length = d.length) (h : accept xs present d = true) :
    (placement xs d).Nodup ∧ (placement xs d).Perm (ixSecAll xs d) := by
  have hu := DtsVerif.C16.C16_accept_imp_usable xs present d hlen h
  exact ⟨hu.2.2, (DtsVerif.C16.ixSecAll_perm xs d).symm⟩

/-- row `r` lands on a location that its own stretch selects -/
theorem C10_row_location (xs : List Rat) (d : Dict) (r : Nat) (hr : r < (placement xs d).length) :
    ∃ t ∈ tagged d, (placement xs d)[r] ∈ selIdx xs t.s := by
  have hm : (placement xs d)[r] ∈ placement xs d := List.getElem_mem _
  unfold placement selectedAll at hm
  obtain ⟨t, ht, hin⟩ := List.mem_flatMap.mp hm
  exact ⟨t, ht, hin⟩

/-! ### Non-vacuity: warm bath listed before the cold one -/
example : placement [0, 1, 2, 3, 4, 5] [[⟨4, 5⟩], [⟨0, 1⟩]] = [4, 5, 0, 1] := by decide +kernel
example : reshaped [0, 1, 2, 3, 4, 5] [[⟨4, 5⟩], [⟨0, 1⟩]] = [some 2, some 3, none, none, some 0, some 1] := by decide +kernel
example : sampleVar [1, 2, 3, 6] = 14 / 3 := by decide +kernel

end DtsVerif.C10
