import DtsVerif.Props.C16
/-!
# C20 — per-section statistics see exactly the data of the sections, in fibre order
-/
namespace DtsVerif.C20
open DtsVerif.Sections DtsVerif.Py

/-- **C20 (what a stretch selects).** The locations handed to `func` for a stretch are exactly the grid
positions whose coordinate lies inside the stretch (both ends included), in ascending order, each once. -/
theorem C20_stretch_selects (xs : List Rat) (s : Stretch) :
    (∀ i, i ∈ selIdx xs s ↔ ∃ h : i < xs.length, s.a ≤ xs[i] ∧ xs[i] ≤ s.b) ∧
    (selIdx xs s).Pairwise (· < ·) :=
  ⟨mem_selIdx xs s, selIdx_pairwise xs s⟩

theorem tagBath_map_s (b : Nat) (l : List Stretch) : (tagBath b l).map (·.s) = l := by
  unfold tagBath
  rw [List.map_map]
  have : ((fun (t : Tagged) => t.s) ∘ fun (sk : Stretch × Nat) => (⟨b, sk.2, sk.1⟩ : Tagged)) = Prod.fst := rfl
  rw [this, List.zipIdx_map_fst]

/-- **C20 (per stretch).** `calc_per="stretch"` keeps the baths and their stretches in the order given. -/
theorem C20_stretch_order (d : Dict) : (orderStretch d).map (·.map (·.s)) = d := by
  unfold orderStretch
  rw [List.map_map]
  have : ((fun (l : List Tagged) => l.map (·.s)) ∘ fun (bk : List Stretch × Nat) => tagBath bk.2 bk.1) = Prod.fst := by
    funext bk; simp [tagBath_map_s]
  rw [this, List.zipIdx_map_fst]

theorem leStart_trans : ∀ a b c : Tagged, leStart a b = true → leStart b c = true → leStart a c = true := by
  intro a b c; simp only [leStart, decide_eq_true_eq]; exact le_trans
theorem leStart_total : ∀ a b : Tagged, leStart a b = true ∨ leStart b a = true := by
  intro a b; simp only [leStart, decide_eq_true_eq]; exact le_total _ _

/-- **C20 (per bath).** `calc_per="section"`: each bath's stretches, re-ordered by ascending start, nothing lost. -/
theorem C20_section_order (d : Dict) (k : Nat) (hk : k < (orderSection d).length) :
    ∃ hk' : k < (orderStretch d).length,
      ((orderSection d)[k]).Perm ((orderStretch d)[k]) ∧
      ((orderSection d)[k]).Pairwise (fun s t => s.s.a ≤ t.s.a) := by
  unfold orderSection at hk ⊢
  have hk' : k < (orderStretch d).length := by simpa using hk
  refine ⟨hk', ?_, ?_⟩
  · simp only [List.getElem_map]; exact insSort_perm _ _
  · simp only [List.getElem_map]
    have := insSort_pairwise leStart leStart_trans leStart_total ((orderStretch d)[k])
    exact this.imp (by intro a b h; simpa [leStart] using h)

/-- **C20 (all baths).** `calc_per="all"`: all stretches of all baths, re-ordered by ascending start. -/
theorem C20_all_order (d : Dict) :
    (orderAll d).Perm (tagged d) ∧ (orderAll d).Pairwise (fun s t => s.s.a ≤ t.s.a) := by
  refine ⟨insSort_perm _ _, ?_⟩
  have := insSort_pairwise leStart leStart_trans leStart_total (tagged d)
  exact this.imp (by intro a b h; simpa [leStart] using h)

/-- **C20 (`x_indices=True`).** For valid sections the returned positional indices are strictly ascending. -/
theorem C20_x_indices_ascending (xs : List Rat) (present : List Bool) (d : Dict)
    (hx : xs.Pairwise (· < ·)) (hlen : present.length = d.length) (h : accept xs present d = true) :
    (ixSecAll xs d).Pairwise (· < ·) :=
  DtsVerif.C16.C16_ixSecAll_strictly_increasing xs present d hx hlen h

/-- rows of the `calc_per="all"` result: (location index, bath it belongs to) -/
def rowsAll (xs : List Rat) (d : Dict) : List (Nat × Nat) :=
  (orderAll d).flatMap fun t => (selIdx xs t.s).map fun i => (i, t.bath)

theorem rowsAll_fst (xs : List Rat) (d : Dict) : (rowsAll xs d).map (·.1) = ixSecAll xs d := by
  unfold rowsAll ixSecAll
  induction orderAll d with
  | nil => rfl
  | cons t r ih => simp [List.flatMap_cons, ih, Function.comp_def]

theorem rowsAll_snd (xs : List Rat) (d : Dict) : (rowsAll xs d).map (·.2) = bathOfRow xs d := by
  unfold rowsAll bathOfRow
  induction orderAll d with
  | nil => rfl
  | cons t r ih =>
    simp only [List.flatMap_cons, List.map_append, ih, List.map_map, Function.comp_def]
    congr 1
    exact List.map_const'

/-- **C20 (`temp_err`, `ref_temp_broadcasted`).** Row `r` of the `calc_per="all"` result belongs to location
`ixSecAll[r]`, and the reference series subtracted from it / broadcast into it is the one of a bath that has a
stretch selecting that location. -/
theorem C20_row_bath (xs : List Rat) (d : Dict) (r : Nat) (hr : r < (ixSecAll xs d).length) :
    ∃ hb : r < (bathOfRow xs d).length, ∃ t ∈ tagged d,
      t.bath = (bathOfRow xs d)[r] ∧ (ixSecAll xs d)[r] ∈ selIdx xs t.s := by
  have hlen : r < (rowsAll xs d).length := by
    have := congrArg List.length (rowsAll_fst xs d); simp at this; omega
  have hb : r < (bathOfRow xs d).length := by
    have := congrArg List.length (rowsAll_snd xs d); simp at this; omega
  refine ⟨hb, ?_⟩
  have hmem : (rowsAll xs d)[r] ∈ rowsAll xs d := List.getElem_mem _
  unfold rowsAll at hmem
  obtain ⟨t, ht, hin⟩ := List.mem_flatMap.mp hmem
  obtain ⟨i, hi, heq⟩ := List.mem_map.mp hin
  refine ⟨t, ((C20_all_order d).1.mem_iff).mp ht, ?_, ?_⟩
  · have : (bathOfRow xs d)[r] = ((rowsAll xs d)[r]).2 := by
      simp [← rowsAll_snd]
    rw [this]; unfold rowsAll; rw [← heq]
  · have : (ixSecAll xs d)[r] = ((rowsAll xs d)[r]).1 := by
      simp [← rowsAll_fst]
    rw [this]; unfold rowsAll; rw [← heq]; exact hi

/-! ### Non-vacuity: three stretches of two baths listed out of fibre order -/
example : ixSecAll [0, 1, 2, 3, 4, 5, 6] [[⟨5, 6⟩, ⟨0, 1⟩], [⟨3, 4⟩]] = [0, 1, 3, 4, 5, 6] := by decide +kernel
example : bathOfRow [0, 1, 2, 3, 4, 5, 6] [[⟨5, 6⟩, ⟨0, 1⟩], [⟨3, 4⟩]] = [0, 0, 1, 1, 0, 0] := by decide +kernel

end DtsVerif.C20
