import DtsVerif.Props.Scatter
import Mathlib.Data.List.Sort
/-!
# The solver's column order IS the model's order of unknowns (C02)

`scatter_solver_mem_activeCols` says that the scatter vector and the model's `activeCols` have the same members.  Both are strictly
increasing, hence they are the same list: the `k`-th unknown of the code's reduced problem is the `k`-th unknown of the model's, for
every size — which is what allows the captured solution / covariance to be compared entry by entry.
-/
namespace DtsVerif.C02
open DtsVerif.Scatter DtsVerif.Calib DtsVerif.Calib.Input DtsVerif.Py

theorem arange_pairwise_lt (lo hi : Nat) : (arange lo hi).Pairwise (· < ·) := by
  unfold arange
  exact List.Pairwise.map (fun i => lo + i) (fun a b hab => by omega) List.pairwise_lt_range

theorem calMatch_pairwise_lt (inp : Input) : inp.calMatch.Pairwise (· < ·) := by
  unfold calMatch
  exact (List.Pairwise.filter _ (List.Pairwise.filter _ List.pairwise_lt_range))

theorem activeCols_pairwise_lt (inp : Input) : inp.activeCols.Pairwise (· < ·) := by
  unfold activeCols
  exact List.Pairwise.filter _ List.pairwise_lt_range

theorem fromISolver_pairwise_lt (nt N nta : Nat) (ixE : List Nat) (hs : ixE.Pairwise (· < ·)) (hlt : ∀ i ∈ ixE, i < N) :
    (fromISolver nt N nta ixE).Pairwise (· < ·) := by
  unfold fromISolver
  rw [List.pairwise_append, List.pairwise_append]
  refine ⟨⟨arange_pairwise_lt _ _, List.Pairwise.map _ (fun a b hab => by omega) hs, ?_⟩, arange_pairwise_lt _ _, ?_⟩
  · intro a ha b hb
    rw [C07.mem_arange] at ha
    simp only [List.mem_map] at hb
    obtain ⟨i, _, rfl⟩ := hb
    omega
  · intro a ha b hb
    rw [C07.mem_arange] at hb
    rcases List.mem_append.mp ha with ha | ha
    · rw [C07.mem_arange] at ha; omega
    · simp only [List.mem_map] at ha
      obtain ⟨i, hi, rfl⟩ := ha
      have := hlt i hi
      omega

/-- **the scatter vector of the solver is the model's list of unknowns, in the same order** (double-ended, nothing fixed) -/
theorem scatter_solver_eq_activeCols (inp : Input) (hd : inp.doubleEnded = true) (hg : inp.fixGamma = none)
    (ha : inp.fixAlpha = none) :
    fromISolver inp.nt inp.N inp.nta inp.calMatch = inp.activeCols :=
  List.Pairwise.eq_of_mem_iff
    (fromISolver_pairwise_lt _ _ _ _ (calMatch_pairwise_lt inp) (fun i hi => calMatch_lt inp i hi))
    (activeCols_pairwise_lt inp)
    (fun c => scatter_solver_mem_activeCols inp hd hg ha c)

/-- the same for `fix_alpha` + `fix_gamma` -/
theorem scatter_fix_both_eq_activeCols (inp : Input) (hd : inp.doubleEnded = true) (g : Rat × Rat) (hg : inp.fixGamma = some g)
    (av : Array Rat × Array Rat) (ha : inp.fixAlpha = some av) :
    fromIFixBoth inp.nt inp.N inp.nta = inp.activeCols := by
  apply List.Pairwise.eq_of_mem_iff _ (activeCols_pairwise_lt inp) (fun c => scatter_fix_both_mem_activeCols inp hd g hg av ha c)
  unfold fromIFixBoth
  rw [List.pairwise_append]
  refine ⟨arange_pairwise_lt _ _, arange_pairwise_lt _ _, ?_⟩
  intro a ha' b hb
  rw [C07.mem_arange] at ha' hb
  omega

end DtsVerif.C02

namespace DtsVerif.C07
open DtsVerif.Scatter DtsVerif.Calib DtsVerif.Calib.Input DtsVerif.Py

theorem ipUseS_pairwise_lt (am fg fa fd : Bool) (nt nx nta : Nat) : (ipUseS am fg fa fd nt nx nta).Pairwise (· < ·) := by
  unfold ipUseS
  cases am <;> cases fg <;> cases fa <;> cases fd <;>
    simp only [if_true, if_false, Bool.false_eq_true] <;>
    first
      | exact List.pairwise_lt_range
      | exact List.Pairwise.filter _ List.pairwise_lt_range
      | exact List.Pairwise.filter _ (List.Pairwise.filter _ List.pairwise_lt_range)
      | exact List.Pairwise.filter _ (List.Pairwise.filter _ (List.Pairwise.filter _ List.pairwise_lt_range))

/-- single-ended: `ip_use` of the helper is the model's list of unknowns, in the same order, for every flag combination -/
theorem scatter_single_eq_activeCols (inp : Input) (hd : inp.doubleEnded = false)
    (hex : inp.fixAlpha.isSome = true → inp.fixDalpha = none) :
    ipUseS inp.fixAlpha.isSome inp.fixGamma.isSome inp.fixAlpha.isSome inp.fixDalpha.isSome inp.nt inp.N inp.nta = inp.activeCols :=
  List.Pairwise.eq_of_mem_iff (ipUseS_pairwise_lt _ _ _ _ _ _ _) (C02.activeCols_pairwise_lt inp)
    (fun c => scatter_single_mem_activeCols inp hd hex c)

end DtsVerif.C07

namespace DtsVerif.C02
open DtsVerif.Scatter DtsVerif.Calib DtsVerif.Calib.Input DtsVerif.Py

/-- design and scatter compose: column `r − 1` of the code's `E` block (the attenuation unknown of reference row `r ≥ 1`,
`design_E_matches_model`) is solver unknown `1 + 2nt + (r − 1)`, and the scatter vector sends that unknown to the documented slot of
`A` at the location of reference row `r` -/
theorem design_E_column_scatters_to_alpha (inp : Input) (hd : inp.doubleEnded = true) (r : Nat) (hr1 : 1 ≤ r) (hr : r < inp.ixSec.size) :
    (fromISolver inp.nt inp.N inp.nta inp.ixSec.toList.tail)[1 + 2 * inp.nt + (r - 1)]? = some (inp.colA (inp.ixSec.getD r 0)) := by
  have hlen : r - 1 < inp.ixSec.toList.tail.length := by simp; omega
  rw [scatter_solver_alpha _ _ _ _ (r - 1) hlen]
  have hcolA : inp.colA (inp.ixSec.getD r 0) = 1 + 2 * inp.nt + inp.ixSec.getD r 0 := by simp [colA, hd]
  rw [hcolA]
  congr 2
  have : inp.ixSec.toList.tail[r - 1] = inp.ixSec.toList[r - 1 + 1]'(by simp; omega) := by
    simp [List.getElem_tail]
  rw [this]
  have hr' : r - 1 + 1 = r := by omega
  simp [hr', Array.getD, hr]

end DtsVerif.C02
