import DtsVerif.Props.C01
import Mathlib.Tactic.FieldSimp
import Mathlib.Data.Real.Basic
/-!
# C03 — model-consistent measurements calibrate back to the true temperature
-/
namespace DtsVerif.C03
open DtsVerif.Wls DtsVerif.Calib DtsVerif.Theory

/-- **C03 (exact data are fitted exactly).** If the observations of a system are produced by the model itself at some
parameter vector `p₀` (`y = X p₀`), every solution of the normal equations reproduces all fitted values, and with full
column rank it IS `p₀` — for any positive weights. -/
theorem C03_recovery (s : Sys) (sol : Solution) (h : s.solve = some sol) (hw : ∀ i, 0 < s.wv i)
    (p₀ : Fin s.n → ℚ) (hy : s.yv = s.mat.mulVec p₀) :
    s.mat.mulVec (s.pv sol.p) = s.mat.mulVec p₀ ∧
    ((∀ v, s.mat.mulVec v = 0 → v = 0) → s.pv sol.p = p₀) := by
  have hne := check_sound s sol.p (DtsVerif.C01.solve_checked s sol h).1
  rw [hy] at hne
  exact exact_recovery s.mat s.wv p₀ (s.pv sol.p) hw hne

/-- **C03 (temperature from fitted values).** At an observation that the fit reproduces exactly, the temperature equation
returns the reference temperature: if `I = γ/K − o` (the model row with `o` the sum of all offsets) then `γ/(I + o) = K`. -/
theorem C03_temperature_at_fitted_row (γ K o I : ℚ) (hK : K ≠ 0) (hγ : γ ≠ 0) (hrow : I = γ / K - o) :
    γ / (I + o) = K := by
  rw [hrow]
  have : γ / K - o + o = γ / K := by ring
  rw [this]; field_simp

/-- the same over the reals (what the floating-point code approximates) -/
theorem C03_temperature_at_fitted_row_real (γ K o I : ℝ) (hK : K ≠ 0) (hγ : γ ≠ 0) (hrow : I = γ / K - o) :
    γ / (I + o) = K := by
  rw [hrow]
  have : γ / K - o + o = γ / K := by ring
  rw [this]; field_simp

/-- **C03 (matching rows are consistent with equal temperatures).** For two locations at the same temperature the
difference of their model rows does not contain `γ`: `I_h − I_t = o_t − o_h`. -/
theorem C03_matching_row (γ K oh ot : ℚ) : (γ / K - oh) - (γ / K - ot) = ot - oh := by ring

/-- **C03 (pairing).** `zip` of a head list with a tail list pairs the i-th head with the i-th tail; reversing the tail
(J-configuration) pairs the i-th head with the (n−1−i)-th tail. -/
theorem C03_match_pairing (h t : List Nat) (hl : h.length = t.length) (i : Nat) (hi : i < h.length) :
    (h.zip t)[i]'(by simp [hl]; omega) = (h[i], t[i]'(hl ▸ hi)) ∧
    (h.zip t.reverse)[i]'(by simp [hl]; omega) = (h[i], t[t.length - 1 - i]'(by omega)) := by
  constructor
  · simp
  · simp [List.getElem_reverse]

end DtsVerif.C03
