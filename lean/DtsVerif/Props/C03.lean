import Mathlib.Data.List.Basic
import Mathlib.Algebra.Order.Ring.Rat
import Mathlib.Tactic.Linarith
import DtsVerif.Props.C01
import Mathlib.Tactic.FieldSimp
import Mathlib.Data.Real.Basic
/-!
# C03 — model-consistent measurements calibrate back to the true temperature
-/
namespace DtsVerif.C03
open DtsVerif.Wls DtsVerif.Calib DtsVerif.Theory

/-- **C03 (exact data are fitted exactly).** If the observations of a system are produced by the model itself at some
parameter vector `p₀` (`y = X p₀`), every solution of the normal equations reproduces all fitted values, and with full
column rank it IS `p₀` — for any positive weights. -/
theorem C03_recovery (s : Sys) (sol : Solution) (h : s.solve = some sol) (hw : ∀ i, 0 < s.wv i)
    (p₀ : Fin s.n → ℚ) (hy : s.yv = s.mat.mulVec p₀) :
    s.mat.mulVec (s.pv sol.p) = s.mat.mulVec p₀ ∧
    ((∀ v, s.mat.mulVec v = 0 → v = 0) → s.pv sol.p = p₀) := by
  have hne := check_sound s sol.p (DtsVerif.C01.solve_checked s sol h).1
  rw [hy] at hne
  exact exact_recovery s.mat s.wv p₀ (s.pv sol.p) hw hne

/-- **C03 (temperature from fitted values).** At an observation that the fit reproduces exactly, the temperature equation
returns the reference temperature: if `I = γ/K − o` (the model row with `o` the sum of all offsets) then `γ/(I + o) = K`. -/
theorem C03_temperature_at_fitted_row (γ K o I : ℚ) (hK : K ≠ 0) (hγ : γ ≠ 0) (hrow : I = γ / K - o) :
    γ / (I + o) = K := by
  rw [hrow]
  have : γ / K - o + o = γ / K := by ring
  rw [this]; field_simp

/-- the same over the reals (what the floating-point code approximates) -/
theorem C03_temperature_at_fitted_row_real (γ K o I : ℝ) (hK : K ≠ 0) (hγ : γ ≠ 0) (hrow : I = γ / K - o) :
    γ / (I + o) = K := by
  rw [hrow]
  have : γ / K - o + o = γ / K := by ring
  rw [this]; field_simp

/-- **C03 (matching rows are consistent with equal temperatures).** For two locations at the same temperature the
difference of their model rows does not contain `γ`: `I_h − I_t = o_t − o_h`. -/
theorem C03_matching_row (γ K oh ot : ℚ) : (γ / K - oh) - (γ / K - ot) = ot - oh := by ring

/-- **C03 (pairing).** `zip` of a head list with a tail list pairs the i-th head with the i-th tail; reversing the tail
(J-configuration) pairs the i-th head with the (n−1−i)-th tail. -/
theorem C03_match_pairing (h t : List Nat) (hl : h.length = t.length) (i : Nat) (hi : i < h.length) :
    (h.zip t)[i]'(by simp [hl]; omega) = (h[i], t[i]'(hl ▸ hi)) ∧
    (h.zip t.reverse)[i]'(by simp [hl]; omega) = (h[i], t[t.length - 1 - i]'(by omega)) := by
  constructor
  · simp
  · simp [List.getElem_reverse]

/-! ## The splice acts on the same locations everywhere -/

/-- first index of `range n` satisfying `p`, characterised -/
theorem find_range_spec (n : Nat) (p : Nat → Bool) (k : Nat) (h : (List.range n).find? p = some k) :
    k < n ∧ p k = true ∧ ∀ j, j < k → p j = false := by
  induction n with
  | zero => simp at h
  | succ n ih =>
    rw [List.range_succ, List.find?_append] at h
    cases hf : (List.range n).find? p with
    | some k' =>
      rw [hf] at h
      simp at h
      subst h
      obtain ⟨h1, h2, h3⟩ := ih hf
      exact ⟨by omega, h2, h3⟩
    | none =>
      rw [hf] at h
      simp at h
      obtain ⟨hp, rfl⟩ := h
      refine ⟨by omega, hp, ?_⟩
      intro j hj
      have := List.find?_eq_none.mp hf j (List.mem_range.mpr hj)
      simpa using this

theorem find_range_none (n : Nat) (p : Nat → Bool) (h : (List.range n).find? p = none) : ∀ j, j < n → p j = false := by
  intro j hj
  have := List.find?_eq_none.mp h j (List.mem_range.mpr hj)
  simpa using this

/-- **C03 (the splice acts on the same locations in the design matrix and in the temperature equation).** For strictly increasing
positions the code's index rule `ix_sec_ta_ix0` marks row `r` as downstream of the splice exactly when `x_r ≥ s` — the rule of the
temperature equation (`C04_splice_mask`), of the matching rows and of `calc_alpha_double`. (False for the rule before commit
0c4e4ae, which sent `s = x_last` to "behind every location".) -/
theorem C03_splice_mask_consistent (xs : Array Rat) (s : Rat)
    (hmono : ∀ i j, i < j → j < xs.size → xs.getD i 0 < xs.getD j 0) (r : Nat) (hr : r < xs.size) :
    r ≥ Input.taIx0 xs s ↔ xs.getD r 0 ≥ s := by
  unfold Input.taIx0
  have hpos : xs.size ≠ 0 := by omega
  simp only [hpos, if_false]
  have hle_last : xs.getD r 0 ≤ xs.getD (xs.size - 1) 0 := by
    rcases Nat.lt_or_ge r (xs.size - 1) with h | h
    · exact le_of_lt (hmono r (xs.size - 1) h (by omega))
    · have : r = xs.size - 1 := by omega
      rw [this]
  have hge_first : xs.getD 0 0 ≤ xs.getD r 0 := by
    rcases Nat.eq_zero_or_pos r with h | h
    · rw [h]
    · exact le_of_lt (hmono 0 r h hr)
  by_cases h1 : s > xs.getD (xs.size - 1) 0
  · simp only [h1, if_true]
    constructor
    · intro h; omega
    · intro h; exfalso; linarith
  · simp only [h1, if_false]
    by_cases h2 : s ≤ xs.getD 0 0
    · simp only [h2, if_true]
      constructor
      · intro _; linarith
      · intro _; omega
    · simp only [h2, if_false]
      cases hf : (List.range xs.size).find? (fun k => decide (xs.getD k 0 ≥ s)) with
      | none =>
        have := of_decide_eq_false (find_range_none _ _ hf (xs.size - 1) (by omega))
        exfalso; push Not at h1; exact this h1
      | some k =>
        obtain ⟨hk, hpk, hmin⟩ := find_range_spec _ _ k hf
        simp only [Option.getD_some]
        have hpk' : xs.getD k 0 ≥ s := of_decide_eq_true hpk
        constructor
        · intro hrk
          rcases Nat.lt_or_ge k r with h | h
          · have := hmono k r h hr; linarith
          · have : r = k := by omega
            rw [this]; exact hpk'
        · intro hge
          by_contra hlt
          exact (of_decide_eq_false (hmin r (by omega))) hge

/-- the rule before commit 0c4e4ae: a splice AT the last location counted as behind every location -/
def taIx0Old (xs : Array Rat) (s : Rat) : Nat :=
  if xs.size = 0 then 0
  else if s ≥ xs.getD (xs.size - 1) 0 then xs.size
  else if s ≤ xs.getD 0 0 then 0
  else ((List.range xs.size).find? (fun k => xs.getD k 0 ≥ s)).getD xs.size

/-- **Refutation of the old rule (regression guard).** Two locations at 0 and 1, a splice at 1: location 1 is downstream by the
temperature equation but the old index rule put it upstream. -/
theorem C03_old_rule_inconsistent : ¬ ((1 : Nat) ≥ taIx0Old #[0, 1] 1 ↔ (#[0, 1] : Array Rat).getD 1 0 ≥ 1) := by decide +kernel

example : (1 : Nat) ≥ Input.taIx0 #[0, 1] 1 ↔ (#[0, 1] : Array Rat).getD 1 0 ≥ 1 := by decide +kernel

end DtsVerif.C03
