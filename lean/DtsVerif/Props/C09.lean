import DtsVerif.Model.Average
import DtsVerif.Model.Sections
import DtsVerif.Lemmas.Sections
import Mathlib.Algebra.Order.Ring.Rat
import Mathlib.Algebra.Order.Field.Basic
import Mathlib.Tactic.Positivity
import Mathlib.Tactic.Linarith
import Mathlib.Tactic.FieldSimp
/-!
# C09 — averaged temperatures and their uncertainties are what their names say
-/
namespace DtsVerif.C09
open DtsVerif.Average

/-- **C09 (no Monte Carlo dimension).** For every mode, single- or double-ended, with or without confidence intervals, no
output of the model is indexed by `mc` and none by the dimension that was averaged; each is indexed by the remaining
dimension (plus `CI` for the bounds). -/
theorem C09_no_mc_dim : ∀ double ∈ [true, false], ∀ m ∈ [Mode.avg1, .avg2, .avgx1, .avgx2], ∀ ci ∈ [true, false],
    ∀ o ∈ allOutputs double m ci, ¬ "mc" ∈ o.2 ∧ ¬ m.avgDim ∈ o.2 ∧ m.keptDim ∈ o.2 := by
  decide

theorem sumR_eq_sum (l : List Rat) : sumR l = l.sum := by
  unfold sumR
  have : ∀ (acc : Rat), l.foldl (· + ·) acc = acc + l.sum := by
    induction l with
    | nil => intro acc; simp
    | cons a r ih => intro acc; simp [List.foldl_cons, ih, add_assoc]
  simpa using this 0

theorem sum_inv_pos (v : List Rat) (hv : ∀ x ∈ v, 0 < x) (hne : v ≠ []) : 0 < (v.map (1 / ·)).sum := by
  induction v with
  | nil => exact absurd rfl hne
  | cons a r ih =>
    simp only [List.map_cons, List.sum_cons]
    have ha : 0 < 1 / a := by have := hv a List.mem_cons_self; positivity
    by_cases hr : r = []
    · subst hr; simpa using ha
    · have := ih (fun x hx => hv x (List.mem_cons_of_mem _ hx)) hr
      linarith

theorem inv_le_sum_inv (v : List Rat) (hv : ∀ x ∈ v, 0 < x) (a : Rat) (ha : a ∈ v) : 1 / a ≤ (v.map (1 / ·)).sum := by
  induction v with
  | nil => cases ha
  | cons b r ih =>
    simp only [List.map_cons, List.sum_cons]
    have hb : 0 < 1 / b := by have := hv b List.mem_cons_self; positivity
    rcases List.mem_cons.mp ha with rfl | har
    · by_cases hr : r = []
      · subst hr; simp
      · have := sum_inv_pos r (fun x hx => hv x (List.mem_cons_of_mem _ hx)) hr
        linarith
    · have := ih (fun x hx => hv x (List.mem_cons_of_mem _ hx)) har
      linarith

/-- **C09 (variance of the weighted average).** `1/Σ(1/var_i)` is positive and not larger than any of the `var_i`:
averaging never makes the uncertainty worse than the best single element. -/
theorem C09_avg2_var (v : List Rat) (hv : ∀ x ∈ v, 0 < x) (hne : v ≠ []) :
    0 < ivwVar v ∧ ∀ a ∈ v, ivwVar v ≤ a := by
  have hs := sum_inv_pos v hv hne
  unfold ivwVar
  rw [sumR_eq_sum]
  refine ⟨by positivity, ?_⟩
  intro a ha
  have h1 := inv_le_sum_inv v hv a ha
  have hapos := hv a ha
  rw [div_le_iff₀ hs]
  have : 1 = a * (1 / a) := by field_simp
  calc (1 : Rat) = a * (1 / a) := this
    _ ≤ a * (v.map (1 / ·)).sum := mul_le_mul_of_nonneg_left h1 hapos.le

/-- **C09 (label selection = index selection).** Selecting a coordinate range by label picks exactly the elements whose
positional indices `selIdx` returns, in the same (ascending) order — so `ci_avg_*_sel` and `ci_avg_*_isel` of the same elements
address the same data. -/
theorem C09_sel_eq_isel (xs : List Rat) (s : DtsVerif.Sections.Stretch) (i : Nat) :
    i ∈ DtsVerif.Sections.selIdx xs s ↔ ∃ h : i < xs.length, s.a ≤ xs[i] ∧ xs[i] ≤ s.b :=
  DtsVerif.Sections.mem_selIdx xs s i

/-- non-vacuity -/
example : mean [1, 2, 6] = 3 ∧ ivwVar [2, 2] = 1 ∧ ivwMean [10, 20] [1, 3] = 25 / 2 := by
  refine ⟨?_, ?_, ?_⟩ <;> decide +kernel

end DtsVerif.C09
