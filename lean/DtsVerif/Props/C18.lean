import DtsVerif.Props.C16
import DtsVerif.Theory.Wls
import Mathlib.Tactic.FieldSimp
/-!
# C18 — results do not depend on representation choices that carry no information
-/
namespace DtsVerif.C18
open DtsVerif.Sections DtsVerif.Theory

/-- **C18 (order of dictionary entries and of stretches).** Two accepted definitions that consist of the same stretches
(in any dictionary / list order) hand the calibration exactly the same list of reference locations. -/
theorem C18_dict_order (xs : List Rat) (p₁ p₂ : List Bool) (d₁ d₂ : Dict)
    (hx : xs.Pairwise (· < ·)) (hl₁ : p₁.length = d₁.length) (hl₂ : p₂.length = d₂.length)
    (h₁ : accept xs p₁ d₁ = true) (h₂ : accept xs p₂ d₂ = true)
    (hperm : ((tagged d₁).map (·.s)).Perm ((tagged d₂).map (·.s))) :
    ixSecAll xs d₁ = ixSecAll xs d₂ := by
  have s₁ := DtsVerif.C16.C16_ixSecAll_strictly_increasing xs p₁ d₁ hx hl₁ h₁
  have s₂ := DtsVerif.C16.C16_ixSecAll_strictly_increasing xs p₂ d₂ hx hl₂ h₂
  have e₁ : selectedAll xs d₁ = ((tagged d₁).map (·.s)).flatMap (selIdx xs) := by
    unfold selectedAll; rw [List.flatMap_map]
  have e₂ : selectedAll xs d₂ = ((tagged d₂).map (·.s)).flatMap (selIdx xs) := by
    unfold selectedAll; rw [List.flatMap_map]
  have hp : (ixSecAll xs d₁).Perm (ixSecAll xs d₂) :=
    ((DtsVerif.C16.ixSecAll_perm xs d₁).trans (by rw [e₁, e₂]; exact List.Perm.flatMap_right _ hperm)).trans
      (DtsVerif.C16.ixSecAll_perm xs d₂).symm
  exact List.Perm.eq_of_pairwise (le := (· < ·)) (fun a b _ _ hab hba => absurd hab (Nat.lt_asymm hba)) s₁ s₂ hp

variable {K : Type} [Field K] [LinearOrder K] [IsStrictOrderedRing K]

/-- **C18 (detector gain, weights).** Multiplying an intensity by `k` and its noise variance by `k²` leaves the variance of
`ln(st/ast)` — hence every weight and every `(∂T/∂st)²σ²_st` term — unchanged. -/
theorem C18_gain_weight (st v k : K) (hst : st ≠ 0) (hk : k ≠ 0) :
    (k ^ 2 * v) / (k * st) ^ 2 = v / st ^ 2 := by
  field_simp

/-- sensitivities times variances: `(T²/(γ·k·st))²·k²·v = (T²/(γ·st))²·v` -/
theorem C18_gain_measurement_term (T g st v k : K) (hst : st ≠ 0) (hk : k ≠ 0) (hg : g ≠ 0) :
    (-(T * T) / (g * (k * st))) ^ 2 * (k ^ 2 * v) = (-(T * T) / (g * st)) ^ 2 * v := by
  field_simp

/-- **C18 (detector gain, parameters).** A gain adds the constant `ln k` to every observation of that channel; when this
shift is `X v` for a vector `v` supported on the offset parameters (`c(t)` resp. `df(t)`/`db(t)`), the solution moves by `v`
only and every residual, hence the residual variance and the covariance, is unchanged. -/
theorem C18_gain_parameters {m n : Type} [Fintype m] [Fintype n] (X : Matrix m n K) (y w : m → K) (p v : n → K)
    (h : NormalEq X y w p) :
    NormalEq X (y + X.mulVec v) w (p + v) ∧ ∀ i, (y + X.mulVec v) i - (X.mulVec (p + v)) i = y i - (X.mulVec p) i :=
  wls_translate X y w p v h

/-- **C18 (order of observations, e.g. a permutation of the time steps).** Re-ordering the rows of the system does not
change its solutions. -/
theorem C18_row_order {m m' n : Type} [Fintype m] [Fintype m'] [Fintype n] (e : m' ≃ m) (X : Matrix m n K)
    (y w : m → K) (p : n → K) :
    NormalEq (X.submatrix e id) (y ∘ e) (w ∘ e) p ↔ NormalEq X y w p :=
  wls_row_perm e X y w p

/-- **C18 (re-labelling the unknowns, e.g. permuting the `c(t)` columns with the time steps).** -/
theorem C18_column_order {m n n' : Type} [Fintype m] [Fintype n] [Fintype n'] (e : n' ≃ n) (X : Matrix m n K)
    (y w : m → K) (p : n → K) (h : NormalEq X y w p) :
    NormalEq (X.submatrix id e) y w (p ∘ e) := by
  have hmv : ∀ i, ((X.submatrix id e).mulVec (p ∘ e)) i = (X.mulVec p) i := by
    intro i
    simp only [Matrix.mulVec, dotProduct, Matrix.submatrix_apply, id, Function.comp]
    exact Equiv.sum_comp e (fun j => X i j * p j)
  intro j
  simp_rw [hmv]
  exact h (e j)

end DtsVerif.C18
