import DtsVerif.Lemmas.WlsBridge
import DtsVerif.Model.Calib
import DtsVerif.Props.Design
/-!
# C01 — single-ended calibration is the weighted least-squares fit, with its covariance
(the theorems about `Wls.Sys` and `Calib.calibrate` hold for the double-ended model as well and are re-used by C02)
-/
namespace DtsVerif.C01
open DtsVerif.Wls DtsVerif.Calib DtsVerif.Theory

theorem solve_checked (s : Sys) (sol : Solution) (h : s.solve = some sol) :
    s.normalEqCheck sol.p = true ∧ matEq (matMul (matMul s.normal.1 sol.G) s.normal.1) s.normal.1 = true := by
  unfold Sys.solve at h
  simp only at h
  split at h
  · rename_i hc
    simp only [Option.some.injEq] at h
    subst h
    simpa [Bool.and_eq_true] using hc
  · cases h

/-- **C01 (optimality).** Whatever `Wls.solve` returns minimises the weighted sum of squared residuals of the system
over *all* parameter vectors, provided no weight is negative. -/
theorem C01_solution_minimises (s : Sys) (sol : Solution) (h : s.solve = some sol)
    (hw : ∀ i, 0 ≤ s.wv i) (q : Fin s.n → ℚ) :
    wssr s.mat s.yv s.wv (s.pv sol.p) ≤ wssr s.mat s.yv s.wv q :=
  normalEq_min _ _ _ _ hw (check_sound s sol.p (solve_checked s sol h).1) q

/-- any other solution of the normal equations gives the same fitted values (strictly positive weights) -/
theorem C01_fitted_unique (s : Sys) (sol : Solution) (h : s.solve = some sol)
    (hw : ∀ i, 0 < s.wv i) (q : Fin s.n → ℚ) (hq : NormalEq s.mat s.yv s.wv q) :
    s.mat.mulVec (s.pv sol.p) = s.mat.mulVec q :=
  normalEq_fitted_unique _ _ _ _ _ hw (check_sound s sol.p (solve_checked s sol h).1) hq

/-- **C01 (covariance).** The matrix behind the reported covariance is a generalised inverse of `XᵀWX`
(`A·G·A = A`, the inverse whenever `A` is regular); the reported covariance is `G` times the weighted residual variance
with `n_obs − n_columns` degrees of freedom. -/
theorem C01_cov_is_ginverse (s : Sys) (sol : Solution) (h : s.solve = some sol) :
    matEq (matMul (matMul s.normal.1 sol.G) s.normal.1) s.normal.1 = true :=
  (solve_checked s sol h).2

theorem calibrate_some (inp : Input) (res : Result) (h : calibrate inp = some res) :
    ∃ sol, inp.system.solve = some sol ∧
      res.dof = (inp.system.rows.size : Int) - (inp.activeCols.length : Int) ∧
      res.errVar = (if res.dof > 0 then sol.wssr / (res.dof : Rat) else 0) ∧
      res.active = inp.activeCols ∧
      (∀ c, c < inp.npar → res.pCov.getD c #[] = (Array.range inp.npar).map fun d =>
          pCovAt inp inp.activeCols sol.G res.errVar res.pVar c d) ∧
      res.pVal = (Array.range inp.npar).map (pValAt inp inp.activeCols sol.p
        ((Array.range inp.npar).map fun c => if inp.activeCols.contains c then G_diag sol.G c * res.errVar else 0)) ∧
      res.pVar = (Array.range inp.npar).map (pVarAt inp inp.activeCols sol.p
        ((Array.range inp.npar).map fun c => if inp.activeCols.contains c then G_diag sol.G c * res.errVar else 0)) := by
  unfold calibrate at h
  simp only at h
  split at h
  · cases h
  · rename_i sol hs
    simp only [Option.some.injEq] at h
    subst h
    refine ⟨sol, hs, rfl, rfl, rfl, ?_, rfl, rfl⟩
    intro c hc
    simp [hc]

/-- **C01 (degrees of freedom).** The residual variance uses `n_obs − n_unknowns`. -/
theorem C01_dof (inp : Input) (res : Result) (h : calibrate inp = some res) :
    res.dof = (inp.system.rows.size : Int) - (inp.activeCols.length : Int) := by
  obtain ⟨_, _, hd, _⟩ := calibrate_some inp res h
  exact hd

/-- **C01/C07 (fixed parameters are honoured).** A parameter the user fixed is reported with exactly the supplied value
and variance, and with zero covariance to every other parameter. -/
theorem C01_fixed_reported (inp : Input) (res : Result) (h : calibrate inp = some res)
    (c : Nat) (hc : c < inp.npar) (a va : Rat) (hf : inp.fixedCol c = some (a, va)) :
    res.pVal.getD c 0 = a ∧ res.pVar.getD c 0 = va ∧
    ∀ d, d < inp.npar → d ≠ c → (res.pCov.getD c #[]).getD d 0 = 0 := by
  obtain ⟨sol, _, _, _, _, hcov, hval, hvar⟩ := calibrate_some inp res h
  have hna : inp.activeCols.contains c = false := by
    unfold Input.activeCols
    simp [hf]
  refine ⟨?_, ?_, ?_⟩
  · rw [hval]; simp [hc, pValAt, hf]
  · rw [hvar]; simp [hc, pVarAt, hf]
  · intro d hd hdc
    rw [hcov c hc]
    have hna' : ¬ c ∈ inp.activeCols := by simpa using hna
    simp [hd, pCovAt, Ne.symm hdc]
    intro h1; exact absurd h1 hna'

/-! ### Weight alignment (known finding C01-weights-transposed) -/

/-- observation `(reference row, time)` whose variance the code attaches to the row of observation `(r, j)`:
rows are time-major (`j·nx + r`) but the weights are raveled location-major -/
def codeObs (nxs nt r j : Nat) : Nat × Nat := ((j * nxs + r) / nt, (j * nxs + r) % nt)

/-- the property: every observation is weighted by its OWN variance -/
def WeightsAligned : Prop := ∀ nxs nt r j, r < nxs → j < nt → codeObs nxs nt r j = (r, j)

/-- **Refutation (known finding).** With 2 reference locations and 3 times, the row of observation (location 1, time 0)
carries the variance of observation (location 0, time 1). -/
theorem C01_w_aligned_refuted : ¬ WeightsAligned := by
  intro h
  have := h 2 3 1 0 (by decide) (by decide)
  revert this; decide

/-- **Partial.** With a single time step or a single reference location the order is immaterial. -/
theorem C01_w_aligned_partial (nxs nt r j : Nat) (hr : r < nxs) (hj : j < nt) (h : nt = 1 ∨ nxs = 1) :
    codeObs nxs nt r j = (r, j) := by
  unfold codeObs
  rcases h with h | h
  · subst h
    have : j = 0 := by omega
    subst this; simp [Nat.mod_one]
  · subst h
    have : r = 0 := by omega
    subst this
    simp [Nat.div_eq_of_lt hj, Nat.mod_eq_of_lt hj]

/-- **C01 (metre- and kilometre-scale fibres alike).** `wls_sparse` conditions the problem by scaling every column of the
design matrix (`d j = 1/‖column j‖`), solves the scaled system and un-scales. Whatever non-zero factors are used, a solution
`q` of the scaled normal equations gives, un-scaled, a global minimiser of the weighted SSR of the system that was posed; and a
generalised inverse of the scaled normal matrix, un-scaled by `d j · d k`, is one of the posed normal matrix — so the returned
parameters and covariance do not depend on the units of `x` (`Theory.normalEq_scaleCols`, `Theory.ginverse_scaleCols`). -/
theorem C01_column_scaling {K : Type} [Field K] [LinearOrder K] [IsStrictOrderedRing K] {m n : Type} [Fintype m] [Fintype n]
    [DecidableEq n] (X : Matrix m n K) (y w : m → K) (d q : n → K) (hd : ∀ j, d j ≠ 0) (hw : ∀ i, 0 ≤ w i)
    (h : NormalEq (scaleCols X d) y w q) :
    (∀ p, wssr X y w (fun j => d j * q j) ≤ wssr X y w p) ∧
    (∀ Gs : Matrix n n K, normalMat (scaleCols X d) w * Gs * normalMat (scaleCols X d) w = normalMat (scaleCols X d) w →
      normalMat X w * (Matrix.of fun j k => d j * Gs j k * d k) * normalMat X w = normalMat X w) := by
  refine ⟨scaleCols_min X y w d q hd hw h, ?_⟩
  intro Gs hG
  rw [normalMat_scaleCols] at hG
  exact ginverse_scaleCols (normalMat X w) Gs d hd hG

/-! ### Non-vacuity: a 4-observation straight-line fit solved and checked by the model -/
def exampleSys : Sys := ⟨2, #[⟨[(0, 1), (1, 0)], 1, 1⟩, ⟨[(0, 1), (1, 1)], 3, 2⟩, ⟨[(0, 1), (1, 2)], 2, 1⟩, ⟨[(0, 1), (1, 3)], 5, 1/2⟩]⟩
example : (exampleSys.solve).isSome = true := by decide +kernel
example : ∀ i, 0 ≤ exampleSys.wv i := by decide +kernel

end DtsVerif.C01
