import DtsVerif.Model.Chunk
import Mathlib.Algebra.Order.Ring.Rat
import Mathlib.Algebra.BigOperators.Group.List.Basic
/-!
# C13 — lazy, chunked and in-memory data give the same numbers
In exact arithmetic nothing but the values matters: for EVERY chunking, per-block evaluation followed by concatenation
(or combination of partial reductions) in block order equals whole-array evaluation.  What remains outside the theorem is the
runtime: dask's graph execution, thread scheduling and floating-point re-association — exercised by the correspondence check.
-/
namespace DtsVerif.C13
open DtsVerif.Chunk

theorem flatten_chunked {α} : ∀ (sizes : List Nat) (l : List α), l.length ≤ sizes.sum → (chunked sizes l).flatten = l
  | [], l, h => by
    have : l = [] := List.eq_nil_of_length_eq_zero (by simpa using h)
    simp [chunked, this]
  | n :: ns, l, h => by
    simp only [chunked, List.flatten_cons]
    rw [flatten_chunked ns (l.drop n) (by simp only [List.sum_cons] at h; simp; omega)]
    exact List.take_append_drop n l

/-- **C13 (element-wise expressions).** -/
theorem C13_map_chunk_invariant {α β} (f : α → β) (sizes : List Nat) (l : List α) (h : l.length ≤ sizes.sum) :
    mapChunks f (chunked sizes l) = l.map f := by
  unfold mapChunks
  rw [← List.map_flatten, flatten_chunked sizes l h]

/-- **C13 (label selection).** Selecting the reference locations block by block and concatenating gives the selection on
the whole axis. -/
theorem C13_filter_chunk_invariant {α} (p : α → Bool) (sizes : List Nat) (l : List α) (h : l.length ≤ sizes.sum) :
    filterChunks p (chunked sizes l) = l.filter p := by
  unfold filterChunks
  rw [← List.filter_flatten, flatten_chunked sizes l h]

theorem sumR_eq_sum (l : List Rat) : sumR l = l.sum := by
  unfold sumR
  have : ∀ (acc : Rat), l.foldl (· + ·) acc = acc + l.sum := by
    induction l with
    | nil => intro acc; simp
    | cons a r ih => intro acc; simp [List.foldl_cons, ih, add_assoc]
  simpa using this 0

/-- **C13 (reductions, e.g. the sums over time in the α estimate outside the sections).** -/
theorem C13_sum_chunk_invariant (sizes : List Nat) (l : List Rat) (h : l.length ≤ sizes.sum) :
    sumChunks (chunked sizes l) = sumR l := by
  unfold sumChunks
  rw [sumR_eq_sum, sumR_eq_sum]
  have : (chunked sizes l).map sumR = (chunked sizes l).map List.sum := by
    apply List.map_congr_left; intro a _; exact sumR_eq_sum a
  rw [this, ← List.sum_flatten, flatten_chunked sizes l h]

/-- non-vacuity: seven values in chunks of 3, 3, 1 -/
example : chunked [3, 3, 1] [1, 2, 3, 4, 5, 6, 7] = [[1, 2, 3], [4, 5, 6], [7]] := by decide
example : sumChunks (chunked [3, 3, 1] [1, 2, 3, 4, 5, 6, 7]) = 28 := by decide +kernel

end DtsVerif.C13
