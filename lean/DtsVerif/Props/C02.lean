import DtsVerif.Props.C01
/-!
# C02 — double-ended calibration is the weighted least-squares fit, with its covariance
The optimality, fitted-value uniqueness, g-inverse and fixed-parameter theorems of `Props/C01.lean` are stated for any
`Wls.Sys` / `Calib.Input`; here they are instantiated for double-ended inputs, and the statements that are specific to the
double-ended result are added.
-/
namespace DtsVerif.C02
open DtsVerif.Wls DtsVerif.Calib DtsVerif.Theory

/-- **C02 (optimality).** The parameters behind a double-ended result minimise the weighted SSR of its system
(forward, backward and matching-section rows), over all parameter vectors. -/
theorem C02_solution_minimises (inp : Input) (_hd : inp.doubleEnded = true) (sol : Solution)
    (h : inp.system.solve = some sol) (hw : ∀ i, 0 ≤ inp.system.wv i) (q : Fin inp.system.n → ℚ) :
    wssr inp.system.mat inp.system.yv inp.system.wv (inp.system.pv sol.p) ≤ wssr inp.system.mat inp.system.yv inp.system.wv q :=
  DtsVerif.C01.C01_solution_minimises _ sol h hw q

/-- **C02 (estimable quantities).** With splices `XᵀWX` is singular (a gauge between `db`, `α`, `τ_F`, `τ_B`), but every
solution of the normal equations has the same fitted values, hence the same calibrated temperatures at the reference
locations. -/
theorem C02_estimable_invariant (inp : Input) (sol : Solution) (h : inp.system.solve = some sol)
    (hw : ∀ i, 0 < inp.system.wv i) (q : Fin inp.system.n → ℚ)
    (hq : NormalEq inp.system.mat inp.system.yv inp.system.wv q) :
    inp.system.mat.mulVec (inp.system.pv sol.p) = inp.system.mat.mulVec q :=
  DtsVerif.C01.C01_fitted_unique _ sol h hw q hq

/-- columns of `A(x)` that are unknowns of the fit never include the first reference location -/
theorem calMatch_excludes_first (inp : Input) : ¬ inp.r0 ∈ inp.calMatch := by
  unfold Input.calMatch
  simp

/-- **C02 (α is 0 with zero variance at the first reference location).** -/
theorem C02_alpha_zero_at_first (inp : Input) (res : Result) (h : calibrate inp = some res)
    (hd : inp.doubleEnded = true) (hfa : inp.fixAlpha = none) (hfg : True)
    (hr0 : inp.r0 < inp.N) :
    res.pVal.getD (inp.colA (inp.r0)) 0 = 0 ∧ res.pVar.getD (inp.colA (inp.r0)) 0 = 0 := by
  obtain ⟨sol, _, _, _, _, _, hval, hvar⟩ := DtsVerif.C01.calibrate_some inp res h
  have hc : inp.colA (inp.r0) < inp.npar := by
    unfold Input.colA Input.npar; simp [hd]; omega
  have hcol : inp.colA (inp.r0) = 1 + 2 * inp.nt + inp.r0 := by
    unfold Input.colA; simp [hd]
  have hnf : inp.fixedCol (inp.colA (inp.r0)) = none := by
    unfold Input.fixedCol Input.colGamma
    rw [hcol]
    simp [hd, hfa]
  have hna : inp.activeCols.contains (inp.colA (inp.r0)) = false := by
    have hx := calMatch_excludes_first inp
    unfold Input.activeCols
    rw [hcol]
    simp only [List.contains_eq_mem, List.mem_filter, List.mem_range, decide_eq_false_iff_not, not_and]
    intro _ h2
    simp only [hd, if_true, Input.colA, Nat.add_zero] at h2
    have h3 : (1 + 2 * inp.nt ≤ 1 + 2 * inp.nt + inp.r0) := by omega
    have h4 : (1 + 2 * inp.nt + inp.r0 < 1 + 2 * inp.nt + inp.N) := by omega
    simp only [Bool.and_eq_true, decide_eq_true_eq, h3, h4, and_self, if_true, Nat.add_sub_cancel_left] at h2
    exact absurd (by simpa using h2.2) hx
  have halpha : inp.isAlphaCol (inp.colA (inp.r0)) = true := by
    unfold Input.isAlphaCol
    rw [hcol]
    simp [hd, Input.colA]; omega
  have hidx : inp.colA (inp.r0) - inp.colA 0 = inp.r0 := by
    unfold Input.colA; simp [hd]
  have hna' : ¬ inp.colA inp.r0 ∈ inp.activeCols := by simpa using hna
  constructor
  · rw [hval]; simp [hc, pValAt, hnf, hna', halpha, hidx]
  · rw [hvar]; simp [hc, pVarAt, hnf, hna', halpha, hidx]

/-- **C02 (positions in p_cov).** Off the diagonal, the full-layout covariance is non-zero only between two parameters
that were unknowns of the fit, and there it is the solver's covariance of exactly those two parameters. -/
theorem C02_cov_positions (inp : Input) (res : Result) (h : calibrate inp = some res)
    (c d : Nat) (hc : c < inp.npar) (hd : d < inp.npar) (hcd : c ≠ d) :
    ∃ sol, inp.system.solve = some sol ∧
      (res.pCov.getD c #[]).getD d 0 =
        (if inp.activeCols.contains c && inp.activeCols.contains d then Mat.at sol.G c d * res.errVar else 0) := by
  obtain ⟨sol, hs, _, _, _, hcov, _, _⟩ := DtsVerif.C01.calibrate_some inp res h
  refine ⟨sol, hs, ?_⟩
  rw [hcov c hc]
  simp [hd, pCovAt, hcd]

/-- the documented double-ended layout: index of `τ^{d}_{a,j}` -/
theorem C02_ta_index (inp : Input) (a d j : Nat) :
    inp.colTaD a d j = 1 + 2 * inp.nt + inp.N + j + inp.nt * d + 2 * inp.nt * a := rfl

end DtsVerif.C02
