import DtsVerif.Props.C01
import DtsVerif.Props.ScatterOrder
import DtsVerif.Props.C05
import Mathlib.Tactic.FieldSimp
/-!
# C02 — double-ended calibration is the weighted least-squares fit, with its covariance
The optimality, fitted-value uniqueness, g-inverse and fixed-parameter theorems of `Props/C01.lean` are stated for any
`Wls.Sys` / `Calib.Input`; here they are instantiated for double-ended inputs, and the statements that are specific to the
double-ended result are added.
-/
namespace DtsVerif.C02
open DtsVerif.Wls DtsVerif.Calib DtsVerif.Theory

/-- **C02 (optimality).** The parameters behind a double-ended result minimise the weighted SSR of its system
(forward, backward and matching-section rows), over all parameter vectors. -/
theorem C02_solution_minimises (inp : Input) (_hd : inp.doubleEnded = true) (sol : Solution)
    (h : inp.system.solve = some sol) (hw : ∀ i, 0 ≤ inp.system.wv i) (q : Fin inp.system.n → ℚ) :
    wssr inp.system.mat inp.system.yv inp.system.wv (inp.system.pv sol.p) ≤ wssr inp.system.mat inp.system.yv inp.system.wv q :=
  DtsVerif.C01.C01_solution_minimises _ sol h hw q

/-- **C02 (estimable quantities).** With splices `XᵀWX` is singular (a gauge between `db`, `α`, `τ_F`, `τ_B`), but every
solution of the normal equations has the same fitted values, hence the same calibrated temperatures at the reference
locations. -/
theorem C02_estimable_invariant (inp : Input) (sol : Solution) (h : inp.system.solve = some sol)
    (hw : ∀ i, 0 < inp.system.wv i) (q : Fin inp.system.n → ℚ)
    (hq : NormalEq inp.system.mat inp.system.yv inp.system.wv q) :
    inp.system.mat.mulVec (inp.system.pv sol.p) = inp.system.mat.mulVec q :=
  DtsVerif.C01.C01_fitted_unique _ sol h hw q hq

/-- columns of `A(x)` that are unknowns of the fit never include the first reference location -/
theorem calMatch_excludes_first (inp : Input) : ¬ inp.r0 ∈ inp.calMatch := by
  unfold Input.calMatch
  simp

/-- **C02 (α is 0 with zero variance at the first reference location).** -/
theorem C02_alpha_zero_at_first (inp : Input) (res : Result) (h : calibrate inp = some res)
    (hd : inp.doubleEnded = true) (hfa : inp.fixAlpha = none) (hfg : True)
    (hr0 : inp.r0 < inp.N) :
    res.pVal.getD (inp.colA (inp.r0)) 0 = 0 ∧ res.pVar.getD (inp.colA (inp.r0)) 0 = 0 := by
  obtain ⟨sol, _, _, _, _, _, hval, hvar⟩ := DtsVerif.C01.calibrate_some inp res h
  have hc : inp.colA (inp.r0) < inp.npar := by
    unfold Input.colA Input.npar; simp [hd]; omega
  have hcol : inp.colA (inp.r0) = 1 + 2 * inp.nt + inp.r0 := by
    unfold Input.colA; simp [hd]
  have hnf : inp.fixedCol (inp.colA (inp.r0)) = none := by
    unfold Input.fixedCol Input.colGamma
    rw [hcol]
    simp [hd, hfa]
  have hna : inp.activeCols.contains (inp.colA (inp.r0)) = false := by
    have hx := calMatch_excludes_first inp
    unfold Input.activeCols
    rw [hcol]
    simp only [List.contains_eq_mem, List.mem_filter, List.mem_range, decide_eq_false_iff_not, not_and]
    intro _ h2
    simp only [hd, if_true, Input.colA, Nat.add_zero] at h2
    have h3 : (1 + 2 * inp.nt ≤ 1 + 2 * inp.nt + inp.r0) := by omega
    have h4 : (1 + 2 * inp.nt + inp.r0 < 1 + 2 * inp.nt + inp.N) := by omega
    simp only [Bool.and_eq_true, decide_eq_true_eq, h3, h4, and_self, if_true, Nat.add_sub_cancel_left] at h2
    exact absurd (by simpa using h2.2) hx
  have halpha : inp.isAlphaCol (inp.colA (inp.r0)) = true := by
    unfold Input.isAlphaCol
    rw [hcol]
    simp [hd, Input.colA]; omega
  have hidx : inp.colA (inp.r0) - inp.colA 0 = inp.r0 := by
    unfold Input.colA; simp [hd]
  have hna' : ¬ inp.colA inp.r0 ∈ inp.activeCols := by simpa using hna
  constructor
  · rw [hval]; simp [hc, pValAt, hnf, hna', halpha, hidx]
  · rw [hvar]; simp [hc, pVarAt, hnf, hna', halpha, hidx]

/-- **C02 (positions in p_cov).** Off the diagonal, the full-layout covariance is non-zero only between two parameters
that were unknowns of the fit, and there it is the solver's covariance of exactly those two parameters. -/
theorem C02_cov_positions (inp : Input) (res : Result) (h : calibrate inp = some res)
    (c d : Nat) (hc : c < inp.npar) (hd : d < inp.npar) (hcd : c ≠ d) :
    ∃ sol, inp.system.solve = some sol ∧
      (res.pCov.getD c #[]).getD d 0 =
        (if inp.activeCols.contains c && inp.activeCols.contains d then Mat.at sol.G c d * res.errVar else 0) := by
  obtain ⟨sol, hs, _, _, _, hcov, _, _⟩ := DtsVerif.C01.calibrate_some inp res h
  refine ⟨sol, hs, ?_⟩
  rw [hcov c hc]
  simp [hd, pCovAt, hcd]

/-- the documented double-ended layout: index of `τ^{d}_{a,j}` -/
theorem C02_ta_index (inp : Input) (a d j : Nat) :
    inp.colTaD a d j = 1 + 2 * inp.nt + inp.N + j + inp.nt * d + 2 * inp.nt * a := rfl

/-! ## The splice gauge: what a double-ended fit with a splice cannot determine, and why the temperatures do not care -/

/-- the code's weighted time average: `Σ(a/v) · (1/Σ(1/v))` -/
def wmean (terms : List (Rat × Rat)) : Rat :=
  terms.foldl (fun acc t => acc + t.1 / t.2) 0 * (1 / terms.foldl (fun acc t => acc + 1 / t.2) 0)

theorem foldl_add_eq_sum {α} (f : α → Rat) (l : List α) (acc : Rat) :
    l.foldl (fun acc t => acc + f t) acc = acc + (l.map f).sum := by
  induction l generalizing acc with
  | nil => simp
  | cons a l ih => simp only [List.foldl_cons, List.map_cons, List.sum_cons]; rw [ih]; ring

theorem sum_map_add_div (terms : List (Rat × Rat)) (δ : Rat) :
    ((terms.map fun t => (t.1 + δ, t.2)).map fun t => t.1 / t.2).sum
      = (terms.map fun t => t.1 / t.2).sum + δ * (terms.map fun t => 1 / t.2).sum := by
  induction terms with
  | nil => simp
  | cons a l ih =>
    simp only [List.map_cons, List.sum_cons] at ih ⊢
    rw [ih]; ring

theorem sum_map_inv_shift (terms : List (Rat × Rat)) (δ : Rat) :
    ((terms.map fun t => (t.1 + δ, t.2)).map fun t => 1 / t.2).sum = (terms.map fun t => 1 / t.2).sum := by
  induction terms with
  | nil => simp
  | cons a l ih => simp only [List.map_cons, List.sum_cons] at ih ⊢; rw [ih]

/-- shifting every per-time estimate by `δ` (variances unchanged) shifts the weighted time average by `δ` -/
theorem wmean_shift (terms : List (Rat × Rat)) (δ : Rat)
    (h : (terms.map fun t => 1 / t.2).sum ≠ 0) :
    wmean (terms.map fun t => (t.1 + δ, t.2)) = wmean terms + δ := by
  unfold wmean
  rw [foldl_add_eq_sum (fun t : Rat × Rat => t.1 / t.2), foldl_add_eq_sum (fun t : Rat × Rat => 1 / t.2),
    foldl_add_eq_sum (fun t : Rat × Rat => t.1 / t.2), foldl_add_eq_sum (fun t : Rat × Rat => 1 / t.2)]
  rw [sum_map_add_div, sum_map_inv_shift]
  simp only [zero_add]
  field_simp

/-- the per-time estimate of `alpha` at location `i` and the variance the code assigns to it (the summands of `alphaOutside`) -/
def alphaTerm (inp : Input) (p v : Array Rat) (i j : Nat) : Rat × Rat :=
  ((inp.iB.at i j - inp.iF.at i j) / 2 + (p.getD (inp.colDb j) 0 - p.getD (Input.colDf j) 0) / 2
      + (upstreamSum inp i (fun a => p.getD (inp.colTaD a 1 j) 0) false
          - upstreamSum inp i (fun a => p.getD (inp.colTaD a 0 j) 0) true) / 2,
   (inp.vF.at i j + inp.vB.at i j + v.getD (inp.colDb j) 0 + v.getD (Input.colDf j) 0
      + upstreamSum inp i (fun a => v.getD (inp.colTaD a 0 j) 0) true
      + upstreamSum inp i (fun a => v.getD (inp.colTaD a 1 j) 0) false) / 2)

theorem alphaOutside_fst (inp : Input) (p v : Array Rat) (i : Nat) :
    (alphaOutside inp p v i).1 = wmean ((List.range inp.nt).map (alphaTerm inp p v i)) := rfl

/-- **C02 (alpha outside the reference sections follows the gauge).** If two parameter vectors give per-time estimates that differ
by the same `δ` at location `i` (same variances), the weighted time averages differ by `δ`. -/
theorem C02_alpha_outside_shift (inp : Input) (p p' v : Array Rat) (i : Nat) (δ : Rat)
    (hterm : ∀ j, j < inp.nt → alphaTerm inp p' v i j = ((alphaTerm inp p v i j).1 + δ, (alphaTerm inp p v i j).2))
    (hw : (((List.range inp.nt).map (alphaTerm inp p v i)).map fun t => 1 / t.2).sum ≠ 0) :
    (alphaOutside inp p' v i).1 = (alphaOutside inp p v i).1 + δ := by
  rw [alphaOutside_fst, alphaOutside_fst, ← wmean_shift _ δ hw]
  congr 1
  rw [List.map_map]
  apply List.map_congr_left
  intro j hj
  exact hterm j (List.mem_range.mp hj)

/-- **C02 (temperatures do not see the gauge), forward.** Adding `δ` to `alpha` at a location and removing it from the summed
forward splice loss there leaves `tmpf` unchanged. -/
theorem C02_tmpf_gauge_invariant (inp : Input) (hd : inp.doubleEnded = true) (p p' : Array Rat) (i j : Nat) (δ : Rat)
    (hγ : p'.getD Input.colGamma 0 = p.getD Input.colGamma 0)
    (hdf : p'.getD (Input.colDf j) 0 = p.getD (Input.colDf j) 0)
    (hα : p'.getD (inp.colA i) 0 = p.getD (inp.colA i) 0 + δ)
    (hτ : upstreamSum inp i (fun a => p'.getD (inp.colTaD a 0 j) 0) true
          = upstreamSum inp i (fun a => p.getD (inp.colTaD a 0 j) 0) true - δ) :
    tmpf inp p' i j = tmpf inp p i j := by
  unfold tmpf
  simp only [hd, if_true, hγ, hdf, hα, hτ]
  congr 2
  ring

/-- backward: `db` grows by `δ` everywhere, `alpha` by `δα` and the summed backward splice loss shrinks by `δ − δα`
(`δα = δ` downstream of the splice, `0` upstream) -/
theorem C02_tmpb_gauge_invariant (inp : Input) (p p' : Array Rat) (i j : Nat) (δ δα : Rat)
    (hγ : p'.getD Input.colGamma 0 = p.getD Input.colGamma 0)
    (hdb : p'.getD (inp.colDb j) 0 = p.getD (inp.colDb j) 0 + δ)
    (hα : p'.getD (inp.colA i) 0 = p.getD (inp.colA i) 0 + δα)
    (hτ : upstreamSum inp i (fun a => p'.getD (inp.colTaD a 1 j) 0) false
          = upstreamSum inp i (fun a => p.getD (inp.colTaD a 1 j) 0) false - (δ - δα)) :
    tmpb inp p' i j = tmpb inp p i j := by
  unfold tmpb
  simp only [hγ, hdb, hα, hτ]
  congr 2
  ring

theorem list_sum_map_sub {α} (l : List α) (g h : α → Rat) :
    (l.map fun a => g a - h a).sum = (l.map g).sum - (l.map h).sum := by
  induction l with
  | nil => simp
  | cons a l ih => simp only [List.map_cons, List.sum_cons]; rw [ih]; ring

theorem sum_range_single (n s : Nat) (hs : s < n) (g : Nat → Rat) :
    ((List.range n).map fun a => if a = s then g a else 0).sum = g s := by
  induction n with
  | zero => omega
  | succ n ih =>
    rw [List.range_succ, List.map_append, List.sum_append]
    by_cases h : s < n
    · rw [ih h]; simp; omega
    · have : s = n := by omega
      subst this
      have h0 : ((List.range s).map fun a => if a = s then g a else 0).sum = 0 := by
        apply List.sum_eq_zero
        intro x hx
        obtain ⟨a, ha, rfl⟩ := List.mem_map.mp hx
        have := List.mem_range.mp ha
        simp; omega
      rw [h0]; simp

/-- changing the loss of one splice `s` by `−δ` changes the summed loss at a location by `−δ` exactly when `s` acts there -/
theorem upstreamSum_sub_single (inp : Input) (i : Nat) (f : Nat → Rat) (down : Bool) (s : Nat) (δ : Rat) (hs : s < inp.nta) :
    upstreamSum inp i (fun a => f a - (if a = s then δ else 0)) down
      = upstreamSum inp i f down - (if (decide (inp.xAt i ≥ inp.trans.getD s 0)) == down then δ else 0) := by
  rw [C05.upstreamSum_eq, C05.upstreamSum_eq]
  have key : ∀ a, (if (decide (inp.xAt i ≥ inp.trans.getD a 0)) == down then f a - (if a = s then δ else 0) else 0)
      = (if (decide (inp.xAt i ≥ inp.trans.getD a 0)) == down then f a else 0)
        - (if a = s then (if (decide (inp.xAt i ≥ inp.trans.getD a 0)) == down then δ else 0) else 0) := by
    intro a; split <;> split <;> simp
  simp only [key]
  rw [list_sum_map_sub]
  congr 1
  exact sum_range_single inp.nta s hs (fun a => if (decide (inp.xAt i ≥ inp.trans.getD a 0)) == down then δ else 0)

theorem upstreamSum_congr (inp : Input) (i : Nat) (f g : Nat → Rat) (down : Bool) (h : ∀ a, a < inp.nta → f a = g a) :
    upstreamSum inp i f down = upstreamSum inp i g down := by
  rw [C05.upstreamSum_eq, C05.upstreamSum_eq]
  congr 1
  apply List.map_congr_left
  intro a ha
  rw [h a (List.mem_range.mp ha)]

/-- the gauge direction of one splice `s`: `db += δ`, both losses of `s` `−= δ` (at every time), `alpha += δ` downstream of `s` -/
structure SpliceGauge (inp : Input) (s : Nat) (δ : Rat) (p p' : Array Rat) : Prop where
  gamma : p'.getD Input.colGamma 0 = p.getD Input.colGamma 0
  df : ∀ j, j < inp.nt → p'.getD (Input.colDf j) 0 = p.getD (Input.colDf j) 0
  db : ∀ j, j < inp.nt → p'.getD (inp.colDb j) 0 = p.getD (inp.colDb j) 0 + δ
  taf : ∀ a j, a < inp.nta → j < inp.nt → p'.getD (inp.colTaD a 0 j) 0 = p.getD (inp.colTaD a 0 j) 0 - (if a = s then δ else 0)
  tab : ∀ a j, a < inp.nta → j < inp.nt → p'.getD (inp.colTaD a 1 j) 0 = p.getD (inp.colTaD a 1 j) 0 - (if a = s then δ else 0)

/-- the shift of `alpha` at location `i` that belongs to the gauge: `δ` downstream of the splice, `0` upstream -/
def gaugeAlpha (inp : Input) (s i : Nat) (δ : Rat) : Rat := if inp.xAt i ≥ inp.trans.getD s 0 then δ else 0

theorem gauge_taf_sum (inp : Input) (s : Nat) (δ : Rat) (p p' : Array Rat) (g : SpliceGauge inp s δ p p') (hs : s < inp.nta)
    (i j : Nat) (hj : j < inp.nt) :
    upstreamSum inp i (fun a => p'.getD (inp.colTaD a 0 j) 0) true
      = upstreamSum inp i (fun a => p.getD (inp.colTaD a 0 j) 0) true - gaugeAlpha inp s i δ := by
  rw [upstreamSum_congr inp i _ (fun a => p.getD (inp.colTaD a 0 j) 0 - (if a = s then δ else 0)) true (fun a ha => g.taf a j ha hj),
    upstreamSum_sub_single inp i _ true s δ hs]
  unfold gaugeAlpha
  by_cases h : inp.xAt i ≥ inp.trans.getD s 0
  · rw [if_pos h, decide_eq_true h]; simp
  · rw [if_neg h, decide_eq_false h]; simp

theorem gauge_tab_sum (inp : Input) (s : Nat) (δ : Rat) (p p' : Array Rat) (g : SpliceGauge inp s δ p p') (hs : s < inp.nta)
    (i j : Nat) (hj : j < inp.nt) :
    upstreamSum inp i (fun a => p'.getD (inp.colTaD a 1 j) 0) false
      = upstreamSum inp i (fun a => p.getD (inp.colTaD a 1 j) 0) false - (δ - gaugeAlpha inp s i δ) := by
  rw [upstreamSum_congr inp i _ (fun a => p.getD (inp.colTaD a 1 j) 0 - (if a = s then δ else 0)) false (fun a ha => g.tab a j ha hj),
    upstreamSum_sub_single inp i _ false s δ hs]
  unfold gaugeAlpha
  by_cases h : inp.xAt i ≥ inp.trans.getD s 0
  · rw [if_pos h, decide_eq_true h]; simp
  · rw [if_neg h, decide_eq_false h]; simp

/-- **C02 (the splice gauge is invisible in the temperatures).** A double-ended fit with a splice does not determine
`db`, the two losses of the splice and `alpha` downstream of it separately: moving along the gauge direction changes neither
`tmpf` nor `tmpb` at any location whose `alpha` moves with it — which is why only estimable quantities are compared (and why
`C02_estimable_invariant` is the statement for rank-deficient fits). -/
theorem C02_splice_gauge_temperatures (inp : Input) (hd : inp.doubleEnded = true) (s : Nat) (hs : s < inp.nta) (δ : Rat)
    (p p' : Array Rat) (g : SpliceGauge inp s δ p p') (i j : Nat) (hj : j < inp.nt)
    (hα : p'.getD (inp.colA i) 0 = p.getD (inp.colA i) 0 + gaugeAlpha inp s i δ) :
    tmpf inp p' i j = tmpf inp p i j ∧ tmpb inp p' i j = tmpb inp p i j :=
  ⟨C02_tmpf_gauge_invariant inp hd p p' i j _ g.gamma (g.df j hj) hα (gauge_taf_sum inp s δ p p' g hs i j hj),
   C02_tmpb_gauge_invariant inp p p' i j δ _ g.gamma (g.db j hj) hα (gauge_tab_sum inp s δ p p' g hs i j hj)⟩

/-- **C02 (alpha outside the reference sections moves with the gauge).** The weighted time average that defines `alpha` at a
location outside the reference sections shifts by exactly the gauge's `alpha` shift there, so the hypothesis `hα` of
`C02_splice_gauge_temperatures` holds at those locations too: the temperatures are determined everywhere. -/
theorem C02_splice_gauge_alpha_outside (inp : Input) (s : Nat) (hs : s < inp.nta) (δ : Rat)
    (p p' v : Array Rat) (g : SpliceGauge inp s δ p p') (i : Nat)
    (hw : (((List.range inp.nt).map (alphaTerm inp p v i)).map fun t => 1 / t.2).sum ≠ 0) :
    (alphaOutside inp p' v i).1 = (alphaOutside inp p v i).1 + gaugeAlpha inp s i δ := by
  apply C02_alpha_outside_shift inp p p' v i _ _ hw
  intro j hj
  unfold alphaTerm
  rw [g.db j hj, g.df j hj, gauge_taf_sum inp s δ p p' g hs i j hj, gauge_tab_sum inp s δ p p' g hs i j hj]
  ext
  · simp only; ring
  · rfl

/-! ### Non-vacuity: a concrete gauge pair (three locations, one time, one splice between the 2nd and 3rd location) -/
def exInp : Input :=
  { doubleEnded := true, x := #[0, 1, 2], nt := 1, ixSec := #[0, 2], K := #[], trans := #[3/2], pairs := #[], iF := #[], iB := #[],
    vF := #[], vB := #[], fixGamma := none, fixDalpha := none, fixAlpha := none, c273 := 27315/100, wbits := 128, codeWeightOrder := false }
def exP : Array Rat := #[480, 1, 1, 0, 0, 0, 1/10, 1/5]
def exP' : Array Rat := #[480, 1, 3/2, 0, 0, 1/2, -2/5, -3/10]

example : SpliceGauge exInp 0 (1/2) exP exP' := by
  refine ⟨by decide +kernel, ?_, ?_, ?_, ?_⟩
  · intro j hj; have : j = 0 := by simp [exInp] at hj; omega
    subst this; decide +kernel
  · intro j hj; have : j = 0 := by simp [exInp] at hj; omega
    subst this; decide +kernel
  · intro a j ha hj
    have h1 : a = 0 := by simp [exInp, Input.nta] at ha; omega
    have h2 : j = 0 := by simp [exInp] at hj; omega
    subst h1; subst h2; decide +kernel
  · intro a j ha hj
    have h1 : a = 0 := by simp [exInp, Input.nta] at ha; omega
    have h2 : j = 0 := by simp [exInp] at hj; omega
    subst h1; subst h2; decide +kernel

example : exP'.getD (exInp.colA 2) 0 = exP.getD (exInp.colA 2) 0 + gaugeAlpha exInp 0 2 (1/2) := by decide +kernel
example : exP'.getD (exInp.colA 1) 0 = exP.getD (exInp.colA 1) 0 + gaugeAlpha exInp 0 1 (1/2) := by decide +kernel


end DtsVerif.C02
