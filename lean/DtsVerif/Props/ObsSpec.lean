import Mathlib.Algebra.Field.Basic
import Mathlib.Tactic.Ring
import Mathlib.Tactic.FieldSimp
/-!
# Specification of the observations and weights handed to the solver (C01, C02)

`varI` is the noise variance of one observation `ln(st/ast)` (first-order): `st_var/st² + ast_var/ast²` — the quantity the
harness feeds to the model as `vF` / `vB`. The weights the property demands are the inverses of the observation's OWN variance;
a matching-pair difference has the sum of the two variances, the half-difference `(I_B − I_F)/2` a quarter of the sum.
The translator (`harness/translate.py`, section `obs`) proves on every run that the expressions in
`calibration_single_ended_solver` / `calibrate_double_ended_solver` are these.
-/
namespace DtsVerif.ObsSpec
variable {K : Type} [Field K]

def varI (st ast vst vast : K) : K := vst / st ^ 2 + vast / ast ^ 2
/-- weight of a reference observation -/
def wRef (st ast vst vast : K) : K := 1 / varI st ast vst vast
/-- weight of a matching-pair difference `I(head) − I(tail)` -/
def wPair (sth asth vsth vasth stt astt vstt vastt : K) : K := 1 / (varI sth asth vsth vasth + varI stt astt vstt vastt)
/-- weight of the half-difference `(I_B − I_F)/2` at one location -/
def wHalf (st ast vst vast rst rast vrst vrast : K) : K := 1 / ((varI st ast vst vast + varI rst rast vrst vrast) / 4)
def yPair (Ih It : K) : K := Ih - It
def yHalf (IF IB : K) : K := (IB - IF) / 2

end DtsVerif.ObsSpec

namespace DtsVerif.ObsSpec
variable {K : Type} [Field K]

/-- moving fixed parameters to the observation: `(coefficient, value)` pairs -/
def redY (y : K) (terms : List (K × K)) : K := y - (terms.map fun t => t.1 * t.2).sum
/-- … and to its variance: `(coefficient, variance)` pairs; the weight is the inverse of the inflated variance -/
def redW (w : K) (terms : List (K × K)) : K := 1 / (1 / w + (terms.map fun t => t.1 ^ 2 * t.2).sum)

/-- `redW` is the inverse of "own variance + Σ coefficient² · variance of the fixed parameter" (what `Calib.reduceObs` adds) -/
theorem redW_eq_inv_inflated (v : K) (terms : List (K × K)) (_hv : v ≠ 0) :
    redW (1 / v) terms = 1 / (v + (terms.map fun t => t.1 ^ 2 * t.2).sum) := by
  unfold redW; rw [one_div_one_div]

end DtsVerif.ObsSpec
