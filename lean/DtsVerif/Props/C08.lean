import DtsVerif.Model.MonteCarlo
import DtsVerif.Lemmas.PyPrim
import DtsVerif.Lemmas.Percentile
/-!
# C08 — Monte Carlo samples the reported solution
-/
namespace DtsVerif.C08
open DtsVerif.MonteCarlo DtsVerif.Calib DtsVerif.Py

theorem arange_getElem? (lo hi k : Nat) (h : k < hi - lo) : (arange lo hi)[k]? = some (lo + k) := by
  unfold arange; simp [h]

/-- **C08 (what is sampled jointly, parameters).** Entry `k ≤ 2nt` of the sampled vector is `p_val[k]` (γ, df, db). -/
theorem C08_fromI_head (nt no nta : Nat) (ixSec : List Nat) (k : Nat) (hk : k < 1 + 2 * nt) :
    (fromI nt no nta ixSec)[k]? = some k := by
  unfold fromI
  rw [List.append_assoc, List.getElem?_append_left (by simpa using hk)]
  simp [hk]

/-- entry `1+2nt+r` is `α` at the `r`-th reference location -/
theorem C08_fromI_alpha (nt no nta : Nat) (ixSec : List Nat) (r : Nat) (hr : r < ixSec.length) :
    (fromI nt no nta ixSec)[1 + 2 * nt + r]? = some (1 + 2 * nt + ixSec[r]) := by
  unfold fromI
  rw [List.getElem?_append_left (by simp; omega)]
  rw [List.getElem?_append_right (by simp)]
  simp [hr]

/-- **C08 (splice losses are unpacked from their documented slots).** The cell `ta[t, d, a]` that the double-ended sampler
reads (Fortran-order reshape of the tail of the sampled vector) is drawn around `p_val[colTaD a d t]`, the documented slot
of `τ^d_{a,t}`. -/
theorem C08_unpack_matches_layout_double (inp : Input) (hd : inp.doubleEnded = true) (ixSec : List Nat)
    (t d a : Nat) (ht : t < inp.nt) (hdd : d < 2) (ha : a < inp.nta) :
    (fromI inp.nt inp.N inp.nta ixSec)[taPos inp.nt ixSec.length t d a]? = some (inp.colTaD a d t) := by
  unfold fromI taPos posF3 Input.colTaD
  have hlt : t + inp.nt * d + inp.nt * 2 * a < inp.nt * 2 * inp.nta := by
    have h1 : inp.nt * d ≤ inp.nt := by
      have : d ≤ 1 := by omega
      calc inp.nt * d ≤ inp.nt * 1 := Nat.mul_le_mul_left _ this
        _ = inp.nt := Nat.mul_one _
    have h2 : inp.nt * 2 * (a + 1) ≤ inp.nt * 2 * inp.nta := Nat.mul_le_mul_left _ (by omega)
    have h3 : inp.nt * 2 * (a + 1) = inp.nt * 2 * a + inp.nt * 2 := by rw [Nat.mul_add, Nat.mul_one]
    omega
  rw [List.getElem?_append_right (by simp; omega)]
  have hidx : 2 * inp.nt + 1 + ixSec.length + (t + inp.nt * d + inp.nt * 2 * a)
      - (List.range (1 + 2 * inp.nt) ++ List.map (fun x => 1 + 2 * inp.nt + x) ixSec).length
      = t + inp.nt * d + inp.nt * 2 * a := by simp; omega
  rw [hidx, arange_getElem? _ _ _ (by omega)]
  have e : 2 * inp.nt * a = inp.nt * 2 * a := by rw [Nat.mul_comm 2 inp.nt]
  simp only [Option.some.injEq]
  omega

/-- single-ended: the `(nta, nt)` C-order reshape of the last `nt·nta` samples reads the documented slot of `τ_{a,t}` -/
theorem C08_unpack_matches_layout_single (inp : Input) (hd : inp.doubleEnded = false) (hf : inp.fixAlpha = none)
    (a t : Nat) (ht : t < inp.nt) (ha : a < inp.nta) :
    taPosSingle inp.npar inp.nt inp.nta a t = inp.colTa a t := by
  have hm : inp.alphaMode = false := by simp [Input.alphaMode, hd, hf]
  unfold taPosSingle Input.colTa Input.npar
  simp only [hd, hm, Bool.false_eq_true, if_false]
  omega

/-- **C08 (confidence bounds are ordered).** For any sample, the linear-interpolation percentile is non-decreasing in the
requested level: bounds are non-decreasing along `CI`. -/
theorem C08_percentile_monotone (a : List Rat) (hs : a.Pairwise (· ≤ ·)) (q₁ q₂ : Rat)
    (h0 : 0 ≤ q₁) (h12 : q₁ ≤ q₂) (h2 : q₂ ≤ 100) : percentile a q₁ ≤ percentile a q₂ := by
  by_cases hn : a.length = 0
  · simp [percentile, hn]
  have hpos : 0 < a.length := Nat.pos_of_ne_zero hn
  rw [percentile_eq_interp a q₁ hpos, percentile_eq_interp a q₂ hpos]
  have hc : (((a.length : Nat) - 1 : Int) : Rat) = ((a.length - 1 : Nat) : Rat) := by
    have : ((a.length : Nat) : Int) - 1 = ((a.length - 1 : Nat) : Int) := by omega
    rw [this]; simp
  rw [hc]
  have hm : (0 : Rat) ≤ ((a.length - 1 : Nat) : Rat) := by positivity
  apply interp_mono a hs _ _ _ _ _ hpos
  · exact mul_nonneg (div_nonneg h0 (by norm_num)) hm
  · exact mul_le_mul_of_nonneg_right (div_le_div_of_nonneg_right h12 (by norm_num)) hm
  · calc q₂ / 100 * ((a.length - 1 : Nat) : Rat) ≤ 1 * ((a.length - 1 : Nat) : Rat) :=
        mul_le_mul_of_nonneg_right (by rw [div_le_one (by norm_num)]; exact h2) hm
      _ = _ := one_mul _

/-- non-vacuity: the median and the 97.5th percentile of five values -/
example : percentile [1, 2, 4, 8, 16] 50 = 4 ∧ percentile [1, 2, 4, 8, 16] (195/2) = 76/5 := by
  constructor <;> decide +kernel

end DtsVerif.C08
