import DtsVerif.Model.Guards
import DtsVerif.Model.Calib
import Mathlib.Algebra.Order.Ring.Rat
import Mathlib.Tactic.Positivity
/-!
# C19 — unusable inputs are refused instead of producing numbers
-/
namespace DtsVerif.C19
open DtsVerif.Guards

/-- **C19 (refusal table).** Every corruption the property lists — a zero, negative, NaN or infinite intensity inside a
reference section; a NaN or infinite reference temperature; a NaN, infinite or negative noise variance; a short `fix_alpha`;
transposed intensities; an unknown method or solver — is refused by the guard chain. (A finite table over the six IEEE
classes; before the `fix:` commits the rows `variance × {+inf, neg}` and `tref × {±inf}` returned.) -/
theorem C19_refusal_table : ∀ site : Site, ∀ c ∈ listed site, verdict site c = .raises := by
  intro site; cases site <;> decide

/-- valid values pass every guard (the table does not refuse everything) -/
theorem C19_valid_passes : verdict .numer .pos = .returns ∧ verdict .denom .pos = .returns ∧
    verdict .tref .pos = .returns ∧ verdict .tref .neg = .returns ∧ verdict .variance .pos = .returns := by decide

/-- **C19 (what returns is finite).** In exact arithmetic the temperature equation at finite parameters is a finite number
wherever its denominator does not vanish; the only sources of non-finite output are therefore non-finite inputs (classes
`nan`, `±inf`) at that location — which is what the correspondence check observes on the float implementation. -/
theorem C19_finite_temperature (γ I o c273 : ℚ) (hD : I + o ≠ 0) :
    ∃ q : ℚ, γ / (I + o) - c273 = q ∧ (γ ≠ 0 → γ / (I + o) ≠ 0) := by
  refine ⟨_, rfl, fun hγ => div_ne_zero hγ hD⟩

end DtsVerif.C19
