import DtsVerif.Lemmas.Sections
/-!
# C16 — sections are accepted exactly when usable, and no location is used twice
Property theorems only (helpers in `Lemmas/Sections.lean`).
-/
namespace DtsVerif.C16
open DtsVerif.Sections DtsVerif.Py

/-- Spec: every key names a series of the dataset, every stretch selects at least one location,
no location is selected by more than one stretch (counted with multiplicity). -/
def Usable (xs : List Rat) (present : List Bool) (d : Dict) : Prop :=
  (∀ p ∈ present, p = true) ∧ (∀ v ∈ d, ∀ s ∈ v, selIdx xs s ≠ []) ∧ (selectedAll xs d).Nodup

theorem go_ok_iff (xs : List Rat) : ∀ (l : List (Bool × List Stretch)),
    validateKeys xs l = .ok ↔ ∀ pv ∈ l, pv.1 = true ∧ ∀ s ∈ pv.2, selIdx xs s ≠ []
  | [] => by simp [validateKeys]
  | (p, v) :: r => by
    unfold validateKeys
    by_cases hp : p = true
    · by_cases he : v.any (fun s => (selIdx xs s).isEmpty) = true
      · simp only [hp, Bool.not_true, Bool.false_eq_true, if_false, he, if_true, reduceCtorEq,
          List.mem_cons, forall_eq_or_imp, true_and, false_iff, not_and]
        intro h
        obtain ⟨s, hs, hse⟩ := List.any_eq_true.mp he
        exact absurd (List.isEmpty_iff.mp hse) (h s hs)
      · simp only [hp, Bool.not_true, Bool.false_eq_true, if_false, he, go_ok_iff xs r,
          List.mem_cons, forall_eq_or_imp, true_and]
        constructor
        · intro h
          refine ⟨?_, h⟩
          intro s hs hse
          exact he (List.any_eq_true.mpr ⟨s, hs, List.isEmpty_iff.mpr hse⟩)
        · exact fun h => h.2
    · simp [hp]

/-- **C16 (accept ⇒ usable).** Whatever `validate_sections` lets through is usable. -/
theorem C16_accept_imp_usable (xs : List Rat) (present : List Bool) (d : Dict)
    (hlen : present.length = d.length) (h : accept xs present d = true) : Usable xs present d := by
  unfold accept validate at h
  split at h
  · simp at h
  · split at h
    · rename_i hgo
      split at h
      · rename_i hnd
        have := (go_ok_iff xs _).mp hgo
        refine ⟨?_, ?_, (nodupNat_iff _).mp hnd⟩
        · intro p hp
          obtain ⟨k, hk, rfl⟩ := List.getElem_of_mem hp
          have hm : (present[k], d[k]'(hlen ▸ hk)) ∈ present.zip d := by
            rw [List.mem_iff_getElem]; exact ⟨k, by simp [hlen ▸ hk, hk], by simp⟩
          exact (this _ hm).1
        · intro v hv
          obtain ⟨k, hk, rfl⟩ := List.getElem_of_mem hv
          have hm : (present[k]'(hlen ▸ hk), d[k]) ∈ present.zip d := by
            rw [List.mem_iff_getElem]; exact ⟨k, by simp [hlen ▸ hk, hk], by simp⟩
          exact (this _ hm).2
      · simp at h
    · rename_i st hne
      cases st <;> simp_all

/-- **C16 (usable ∧ ordered bounds ⇒ accept).** A usable definition whose bounds, ordered by start, form a
non-decreasing chain is accepted. -/
theorem C16_usable_chain_imp_accept (xs : List Rat) (present : List Bool) (d : Dict)
    (hu : Usable xs present d) (hc : validateNoOverlap d = true) : accept xs present d = true := by
  obtain ⟨hp, hne, hnd⟩ := hu
  have hgo : validateKeys xs (present.zip d) = .ok := by
    apply (go_ok_iff xs _).mpr
    rintro ⟨p, v⟩ hm
    have := List.of_mem_zip hm
    exact ⟨hp p this.1, hne v this.2⟩
  unfold accept validate
  simp [hc, hgo, (nodupNat_iff _).mpr hnd]

/-- the full "if and only if" of the property statement -/
def AcceptIffUsable : Prop :=
  ∀ (xs : List Rat) (present : List Bool) (d : Dict), present.length = d.length →
    (accept xs present d = true ↔ Usable xs present d)

/-- **Refutation (known finding C16-bounds-overlap-refused).** The bounds-based overlap check also refuses
definitions that are usable: on the grid 0,1,2,3 the stretches [0, 1.4] and [1.2, 3] select {0,1} and {2,3}. -/
theorem C16_accept_iff_usable_refuted : ¬ AcceptIffUsable := by
  intro h
  have := (h [0, 1, 2, 3] [true] [[⟨0, 7/5⟩, ⟨6/5, 3⟩]] rfl).mpr
    ⟨by decide, by decide +kernel, by decide +kernel⟩
  revert this
  decide +kernel

/-- what the bounds check alone guarantees: ordered by start, every stretch ends before the next begins -/
theorem C16_chain_sep (d : Dict) (h : validateNoOverlap d = true) :
    (orderAll d).Pairwise (fun s t => s.s.a ≤ s.s.b ∧ s.s.b ≤ t.s.a ∧ t.s.a ≤ t.s.b) :=
  chain_sep _ ((sortedLE_iff _).mp h)

theorem ixSecAll_perm (xs : List Rat) (d : Dict) : (ixSecAll xs d).Perm (selectedAll xs d) :=
  List.Perm.flatMap_right _ (insSort_perm _ _)

/-- **C16 (one observation per location, in fibre order).** For an accepted definition on a strictly increasing
grid, the reference locations handed to the calibration are strictly ascending: every selected location occurs
exactly once. -/
theorem C16_ixSecAll_strictly_increasing (xs : List Rat) (present : List Bool) (d : Dict)
    (hx : xs.Pairwise (· < ·)) (hlen : present.length = d.length) (h : accept xs present d = true) :
    (ixSecAll xs d).Pairwise (· < ·) := by
  have hu := C16_accept_imp_usable xs present d hlen h
  have hc : validateNoOverlap d = true := by
    unfold accept validate at h
    split at h
    · simp at h
    · rename_i hh; simpa using hh
  have hnd : (ixSecAll xs d).Nodup := (ixSecAll_perm xs d).nodup_iff.mpr hu.2.2
  have hsep := C16_chain_sep d hc
  unfold ixSecAll at hnd ⊢
  rw [List.Nodup, List.pairwise_flatMap] at hnd
  rw [List.pairwise_flatMap]
  refine ⟨fun t _ => selIdx_pairwise xs t.s, ?_⟩
  refine (hsep.and hnd.2).imp ?_
  rintro s t ⟨⟨_, hst, _⟩, hne⟩ i hi j hj
  obtain ⟨hi', _, hib⟩ := (mem_selIdx xs s.s i).mp hi
  obtain ⟨hj', hja, _⟩ := (mem_selIdx xs t.s j).mp hj
  have hle : xs[i] ≤ xs[j] := le_trans hib (le_trans hst hja)
  rcases Nat.lt_trichotomy i j with hlt | heq | hgt
  · exact hlt
  · exact absurd heq (hne i hi j hj)
  · have := (List.pairwise_iff_getElem.mp hx) j i hj' hi' hgt
    exact absurd hle (not_le.mpr this)

/-- every row takes its reference temperature from the bath whose stretch selected it -/
theorem C16_bathOfRow_length (xs : List Rat) (d : Dict) :
    (bathOfRow xs d).length = (ixSecAll xs d).length := by
  unfold bathOfRow ixSecAll
  induction orderAll d with
  | nil => rfl
  | cons t r ih => simp [List.flatMap_cons, ih]

/-! ### Non-vacuity -/
example : accept [0, 1, 2, 3, 4, 5] [true, true] [[⟨0, 1⟩], [⟨3, 9/2⟩, ⟨9/5, 5/2⟩]] = true := by decide +kernel
/-- touching stretches that share the grid point 2 are refused (this was accepted before the `fix:` commit) -/
example : validate [0, 1, 2, 3, 4] [true, true] [[⟨0, 2⟩], [⟨2, 4⟩]] = .shared := by decide +kernel
/-- touching at a point between grid points is fine -/
example : accept [0, 1, 2, 3, 4] [true, true] [[⟨0, 5/2⟩], [⟨5/2, 4⟩]] = true := by decide +kernel

end DtsVerif.C16
