import DtsVerif.Model.TimeCoords
import Mathlib.Algebra.Order.Floor.Ring
import Mathlib.Data.Rat.Floor
import Mathlib.Tactic.Linarith
/-!
# C12 — time coordinates denote the recorded instants, independent of the host
-/
namespace DtsVerif.C12
open DtsVerif.TimeCoords

theorem truncSec_nonneg (q : Rat) (h : 0 ≤ q) : 0 ≤ truncSec q := by
  unfold truncSec
  have : ¬ q < 0 := not_lt.mpr h
  simp only [this, if_false]
  have : q.floor = ⌊q⌋ := rfl
  rw [this]; exact Int.floor_nonneg.mpr h

theorem halfSec_bounds (s : Int) (h : 0 ≤ s) : 0 ≤ halfSec s ∧ 2 * halfSec s ≤ s ∧ s ≤ 2 * halfSec s + 1 := by
  unfold halfSec
  have := Int.tdiv_eq_ediv_of_nonneg h (b := 2)
  omega

/-- **C12 (order).** `timestart ≤ time ≤ timeend` for non-negative acquisition times. -/
theorem C12_order (double : Bool) (e : Int) (F B : Rat) (hF : 0 ≤ F) (hB : 0 ≤ B) :
    (coords double e F B).timestart ≤ (coords double e F B).time ∧
    (coords double e F B).time ≤ (coords double e F B).timeend := by
  have hf := truncSec_nonneg F hF
  have hb := truncSec_nonneg B hB
  obtain ⟨h1, h2, _⟩ := halfSec_bounds (truncSec F) hf
  unfold coords NS
  cases double <;> simp only [Bool.false_eq_true, if_false, if_true] <;> constructor <;> nlinarith

/-- **C12 (span).** `timeend − timestart` is the acquisition time of the measurement in whole seconds: forward only for
single-ended, forward plus backward for double-ended data. -/
theorem C12_span (e : Int) (F B : Rat) :
    (coords false e F B).timeend - (coords false e F B).timestart = truncSec F * NS ∧
    (coords true e F B).timeend - (coords true e F B).timestart = (truncSec F + truncSec B) * NS := by
  unfold coords; simp only [Bool.false_eq_true, if_false, if_true]
  constructor <;> ring

/-- **C12 (position of `time`).** Single-ended: `time` is the midpoint of the measurement to within one second
(acquisition times are stored in whole seconds). Double-ended: `time` is the end of the forward measurement, the forward
measurement starts `F` earlier and the backward measurement ends `B` later. -/
theorem C12_midpoint (e : Int) (F B : Rat) (hF : 0 ≤ F) :
    (let c := coords false e F B
     0 ≤ 2 * c.time - (c.timestart + c.timeend) ∧ 2 * c.time - (c.timestart + c.timeend) ≤ NS) ∧
    (let c := coords true e F B
     c.time = e ∧ c.time = c.timeFWend ∧ c.timestart = e - truncSec F * NS ∧ c.timeend = e + truncSec B * NS) := by
  have hf := truncSec_nonneg F hF
  obtain ⟨h1, h2, h3⟩ := halfSec_bounds (truncSec F) hf
  unfold coords NS
  simp only [Bool.false_eq_true, if_false, if_true]
  refine ⟨⟨?_, ?_⟩, ?_⟩
  · nlinarith
  · nlinarith
  · simp

/-- **C12 (same instant).** The reported coordinate, read in the output zone, is the instant of the stored time stamp read in
the input zone: `reported − offOut = stored − offIn`. -/
theorem C12_same_instant (v offIn offOut : Int) : convert v offIn offOut - offOut = v - offIn := by
  unfold convert; ring

/-- reading a file in its own zone and writing it in the same zone changes nothing -/
theorem C12_same_zone (v off : Int) : convert v off off = v := by unfold convert; ring

/-- non-vacuity: a 31 s single-ended and a 30 s + 20 s double-ended measurement ending at 1000 s -/
example : (coords false (1000 * NS) 31 0).timestart = 969 * NS ∧ (coords false (1000 * NS) 31 0).time = 985 * NS := by decide +kernel
example : (coords true (1000 * NS) 30 20).timeend = 1020 * NS ∧ (coords true (1000 * NS) (61/2) 20).timestart = 970 * NS := by decide +kernel

end DtsVerif.C12
