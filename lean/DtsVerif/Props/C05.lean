import DtsVerif.Model.Propagate
import DtsVerif.Theory.Raman
import Mathlib.LinearAlgebra.Matrix.Notation
import Mathlib.Algebra.BigOperators.Fin
import Mathlib.Tactic.Ring
import Mathlib.Tactic.Linarith
import Mathlib.Tactic.NormNum
/-!
# C05 — reported temperature variance is the first-order propagation of all its inputs
-/
namespace DtsVerif.C05
open DtsVerif.Propagate DtsVerif.Theory
open scoped Matrix

/-! ## The derivative dictionary is the derivative of the temperature equation (over ℝ) -/

/-- **C05 (sensitivities, forward).** With `T = γ/(ln(st/ast) + o)`, `o` collecting `df + α + TA`:
the entries of `derivsFw` are the partial derivatives w.r.t. `γ`, `st`, `ast` and any additive term. -/
theorem C05_derivs_fw (g o st ast : ℝ) (hst : 0 < st) (hast : 0 < ast) (hg : g ≠ 0)
    (hD : Real.log (st / ast) + o ≠ 0) :
    let T := g / (Real.log (st / ast) + o)
    HasDerivAt (fun g' => g' / (Real.log (st / ast) + o)) (derivsFw T g st ast).g g ∧
    HasDerivAt (fun s => g / (Real.log (s / ast) + o)) (derivsFw T g st ast).st st ∧
    HasDerivAt (fun a => g / (Real.log (st / a) + o)) (derivsFw T g st ast).ast ast ∧
    HasDerivAt (fun q => g / (Real.log (st / ast) + q)) (derivsFw T g st ast).d o := by
  intro T
  refine ⟨?_, ?_, ?_, ?_⟩
  · exact hasDeriv_T_gamma g _ hg
  · have := hasDeriv_T_st g o st ast hst hast hD hg
    refine this.congr_deriv ?_; simp only [derivsFw, T]; ring
  · have := hasDeriv_T_ast g o st ast hst hast hD hg
    refine this.congr_deriv ?_; simp only [derivsFw, T]; ring
  · have := hasDeriv_T_offset g (Real.log (st / ast)) o hD hg
    refine this.congr_deriv ?_; simp only [derivsFw, T]; ring

/-- **C05 (sensitivity to α, backward).** `T_B = γ/(I_B + db − α + TA_B)`: `∂T_B/∂α = +T_B²/γ` — the entry `a` of `derivsBw`. -/
theorem C05_deriv_alpha_bw (g I a rst rast : ℝ) (hg : g ≠ 0) (hD : I - a ≠ 0) :
    HasDerivAt (fun q => g / (I - q)) (derivsBw (g / (I - a)) g rst rast).a a := by
  have := hasDeriv_T_neg_offset g I a hD hg
  refine this.congr_deriv ?_; simp only [derivsBw]; ring

/-- **C05 (sensitivity to Δα, single-ended).** `α = Δα·x`, so `∂T/∂Δα = x·∂T/∂α`. -/
theorem C05_deriv_dalpha (g I x p st ast : ℝ) (hg : g ≠ 0) (hD : I + p * x ≠ 0) :
    HasDerivAt (fun q => g / (I + q * x)) (x * (derivsFw (g / (I + p * x)) g st ast).a) p := by
  have := hasDeriv_T_dalpha g I x p hD hg
  refine this.congr_deriv ?_; simp only [derivsFw]; ring

/-! ## Completeness of the term lists -/

variable {K : Type} [Field K]

/-- symmetric 4×4 covariance of `(γ, d, α, τ)` assembled from the per-cell covariances -/
def cov4 (c : Covs K) : Matrix (Fin 4) (Fin 4) K :=
  !![c.gg, c.gd, c.ga, c.tg; c.gd, c.dd, c.ad, c.td; c.ga, c.ad, c.aa, c.ta; c.tg, c.td, c.ta, c.tt]

def jac4 (J : Derivs K) : Fin 4 → K := ![J.g, J.d, J.a, J.ta]

/-- `Jᵀ Σ J` -/
def quad {n : Nat} (J : Fin n → K) (S : Matrix (Fin n) (Fin n) K) : K := ∑ i, ∑ j, J i * S i j * J j

/-- **C05 (tmpf_var / tmpb_var are the full propagation).** The twelve terms the code adds are the squared sensitivities
to the two measurements times their variances plus `Jᵀ Σ J` over the four (groups of) parameters the temperature depends
on, with all six cross-covariances. -/
theorem C05_channel_is_propagation (J : Derivs K) (vst vast : K) (c : Covs K) :
    (termsChannel J vst vast c).sum = J.st ^ 2 * vst + J.ast ^ 2 * vast + quad (jac4 J) (cov4 c) := by
  simp only [termsChannel, List.sum_cons, List.sum_nil, quad, jac4, cov4, Fin.sum_univ_four,
    Matrix.of_apply, Matrix.cons_val', Matrix.cons_val_zero, Matrix.cons_val_one, Matrix.cons_val_two,
    Matrix.cons_val_three, Matrix.head_cons, Matrix.empty_val', Matrix.cons_val_fin_one]
  simp
  ring

/-- single-ended: the same with `∂T/∂Δα = x·∂T/∂α` -/
theorem C05_single_is_propagation (J : Derivs K) (x vst vast : K) (c : Covs K) :
    (termsSingle J x vst vast c).sum =
      J.st ^ 2 * vst + J.ast ^ 2 * vast + quad (![J.g, J.d, x * J.a, J.ta]) (cov4 c) := by
  simp only [termsSingle, List.sum_cons, List.sum_nil, quad, cov4, Fin.sum_univ_four,
    Matrix.of_apply, Matrix.cons_val', Matrix.cons_val_zero, Matrix.cons_val_one, Matrix.cons_val_two,
    Matrix.cons_val_three, Matrix.head_cons, Matrix.empty_val', Matrix.cons_val_fin_one]
  simp
  ring

/-- the six parameter groups of `tmpw`: `(γ, df, db, α, τF, τB)` with all fifteen cross-covariances -/
def cov6 (c : CovsW K) : Matrix (Fin 6) (Fin 6) K :=
  !![c.gg, c.gf, c.gb, c.ga, c.gtf, c.gtb;
     c.gf, c.ff, c.fb, c.fa, c.ftf, c.ftb;
     c.gb, c.fb, c.bb, c.ba, c.btf, c.btb;
     c.ga, c.fa, c.ba, c.aa, c.atf, c.atb;
     c.gtf, c.ftf, c.btf, c.atf, c.tff, c.tftb;
     c.gtb, c.ftb, c.btb, c.atb, c.tftb, c.tbb]

def jacW (wf wb : K) (F B : Derivs K) : Fin 6 → K :=
  ![wf * F.g + wb * B.g, wf * F.d, wb * B.d, wf * F.a + wb * B.a, wf * F.ta, wb * B.ta]

theorem sum_univ_six (f : Fin 6 → K) : ∑ i, f i = f 0 + f 1 + f 2 + f 3 + f 4 + f 5 := by
  simp [Fin.sum_univ_succ]; ring

/-- **C05 (tmpw_var is the full propagation).** The 25 terms the code adds are the squared sensitivities to the four
measurements times their variances plus `Jᵀ Σ J` over the six parameter groups with all fifteen cross-covariances
(since the repair recorded as `fixed: C05-tmpw-cross-terms`; before it the `α–τF`, `α–τB`, `τF–τB` terms were absent). -/
theorem C05_tmpw_is_propagation (wf wb : K) (F B : Derivs K) (vst vast vrst vrast : K) (c : CovsW K) :
    (termsW wf wb F B vst vast vrst vrast c).sum
    = (wf * F.st) ^ 2 * vst + (wf * F.ast) ^ 2 * vast + (wb * B.st) ^ 2 * vrst + (wb * B.ast) ^ 2 * vrast
      + quad (jacW wf wb F B) (cov6 c) := by
  simp only [termsW, List.sum_cons, List.sum_nil, quad, jacW, cov6, sum_univ_six,
    Matrix.of_apply, Matrix.cons_val', Matrix.cons_val_zero, Matrix.cons_val_one, Matrix.head_cons,
    Matrix.empty_val', Matrix.cons_val_fin_one]
  simp
  ring

/-- the statement is sensitive to each of the three cross terms: dropping the `α–τF` term changes the sum whenever that
covariance and both sensitivities are non-zero (regression guard for the repaired defect) -/
theorem C05_tmpw_cross_term_needed :
    ∃ (wf wb : ℚ) (F B : Derivs ℚ) (c : CovsW ℚ),
      ((termsW wf wb F B 0 0 0 0 c).take 22).sum ≠ quad (jacW wf wb F B) (cov6 c) := by
  refine ⟨1, 0, ⟨0, 0, 0, 0, 1, 1⟩, ⟨0, 0, 0, 0, 0, 0⟩,
    { gg := 0, ff := 0, bb := 0, aa := 1, tff := 1, tbb := 0, gf := 0, gb := 0, ga := 0, gtf := 0, gtb := 0, fb := 0,
      fa := 0, ftf := 0, ftb := 0, ba := 0, btf := 0, btb := 0, atf := 1, atb := 0, tftb := 0 }, ?_⟩
  intro heq
  have h := C05_tmpw_is_propagation (1 : ℚ) 0 ⟨0, 0, 0, 0, 1, 1⟩ ⟨0, 0, 0, 0, 0, 0⟩ 0 0 0 0
    { gg := 0, ff := 0, bb := 0, aa := 1, tff := 1, tbb := 0, gf := 0, gb := 0, ga := 0, gtf := 0, gtb := 0, fb := 0,
      fa := 0, ftf := 0, ftb := 0, ba := 0, btf := 0, btb := 0, atf := 1, atb := 0, tftb := 0 }
  rw [← heq] at h
  norm_num [termsW] at h

/-! ## Several splices acting on one location: the variance of their summed loss -/

theorem quad_eq_dot {n : Nat} (J : Fin n → K) (S : Matrix (Fin n) (Fin n) K) : quad J S = J ⬝ᵥ (S *ᵥ J) := by
  simp only [quad, dotProduct, Matrix.mulVec, Finset.mul_sum, mul_assoc]

/-- **Grouping.** Propagating through the individual parameters with sensitivities `J ᵥ* G` (each row of `G` says which
individual parameters a group sums) is the propagation through the groups with the grouped covariance `G Σ Gᵀ`. -/
theorem quad_group {m n : Nat} (G : Matrix (Fin m) (Fin n) K) (J : Fin m → K) (S : Matrix (Fin n) (Fin n) K) :
    quad (J ᵥ* G) S = quad J (G * S * G.transpose) := by
  rw [quad_eq_dot, quad_eq_dot, ← Matrix.mulVec_mulVec, ← Matrix.mulVec_mulVec, Matrix.mulVec_transpose]
  simp only [Matrix.dotProduct_mulVec]

/-- entry of the grouped covariance: the sum over ALL pairs of members of the two groups -/
theorem group_cov_entry {m n : Nat} (G : Matrix (Fin m) (Fin n) K) (S : Matrix (Fin n) (Fin n) K) (r r' : Fin m) :
    (G * S * G.transpose) r r' = ∑ a, ∑ b, G r a * S a b * G r' b := by
  simp only [Matrix.mul_apply, Matrix.transpose_apply, Finset.sum_mul]
  rw [Finset.sum_comm]

/-- the model's sum over the acting splices is the indicator-weighted sum -/
theorem upstreamSum_eq (inp : Calib.Input) (i : Nat) (f : Nat → Rat) (down : Bool) :
    Calib.upstreamSum inp i f down
      = ((List.range inp.nta).map fun a =>
          if (decide (inp.xAt i ≥ inp.trans.getD a 0)) == down then f a else 0).sum := by
  unfold Calib.upstreamSum
  suffices h : ∀ (l : List Nat) (acc : Rat),
      l.foldl (fun acc a => if (decide (inp.xAt i ≥ inp.trans.getD a 0)) == down then acc + f a else acc) acc
        = acc + (l.map fun a => if (decide (inp.xAt i ≥ inp.trans.getD a 0)) == down then f a else 0).sum by
    simpa using h (List.range inp.nta) 0
  intro l
  induction l with
  | nil => intro acc; simp
  | cons a l ih =>
    intro acc
    simp only [List.foldl_cons, List.map_cons, List.sum_cons]
    rw [ih]
    split <;> ring

/-- **C05 (two or more splices).** The (co)variance the model — and, by the correspondence, the code's
`splice_loss_covariance` — assigns to the summed losses is the sum of `cov(τ_a, τ_b)` over all pairs of splices acting on
the location, i.e. the grouped-covariance entry of `group_cov_entry` (since the repair recorded as
`fixed: C05-two-splice-covariance`; before it only the `a = b` terms were added). -/
theorem C05_splice_pairs (inp : Calib.Input) (i : Nat) (dA dB : Bool) (f : Nat → Nat → Rat) :
    overSplicePairs inp i dA dB f
      = ((List.range inp.nta).map fun a => ((List.range inp.nta).map fun b =>
          (if (decide (inp.xAt i ≥ inp.trans.getD a 0)) == dA then (1 : Rat) else 0)
          * (if (decide (inp.xAt i ≥ inp.trans.getD b 0)) == dB then (1 : Rat) else 0) * f a b).sum).sum := by
  unfold overSplicePairs overSplices
  rw [upstreamSum_eq]
  congr 1
  apply List.map_congr_left
  intro a _
  rw [upstreamSum_eq]
  split
  · congr 1
    apply List.map_congr_left
    intro b _
    split <;> simp
  · simp

/-- the diagonal-only sum the code used before the repair is NOT the variance of a sum (regression guard) -/
theorem C05_two_splices_diagonal_insufficient : ¬ ∀ v₁ v₂ c₁₂ : ℚ, v₁ + v₂ = v₁ + v₂ + 2 * c₁₂ := by
  intro h; have := h 1 1 1; norm_num at this

end DtsVerif.C05
