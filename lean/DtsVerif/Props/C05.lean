import DtsVerif.Model.Propagate
import DtsVerif.Theory.Raman
import Mathlib.LinearAlgebra.Matrix.Notation
import Mathlib.Algebra.BigOperators.Fin
import Mathlib.Tactic.Ring
import Mathlib.Tactic.Linarith
import Mathlib.Tactic.NormNum
/-!
# C05 — reported temperature variance is the first-order propagation of all its inputs
-/
namespace DtsVerif.C05
open DtsVerif.Propagate DtsVerif.Theory

/-! ## The derivative dictionary is the derivative of the temperature equation (over ℝ) -/

/-- **C05 (sensitivities, forward).** With `T = γ/(ln(st/ast) + o)`, `o` collecting `df + α + TA`:
the entries of `derivsFw` are the partial derivatives w.r.t. `γ`, `st`, `ast` and any additive term. -/
theorem C05_derivs_fw (g o st ast : ℝ) (hst : 0 < st) (hast : 0 < ast) (hg : g ≠ 0)
    (hD : Real.log (st / ast) + o ≠ 0) :
    let T := g / (Real.log (st / ast) + o)
    HasDerivAt (fun g' => g' / (Real.log (st / ast) + o)) (derivsFw T g st ast).g g ∧
    HasDerivAt (fun s => g / (Real.log (s / ast) + o)) (derivsFw T g st ast).st st ∧
    HasDerivAt (fun a => g / (Real.log (st / a) + o)) (derivsFw T g st ast).ast ast ∧
    HasDerivAt (fun q => g / (Real.log (st / ast) + q)) (derivsFw T g st ast).d o := by
  intro T
  refine ⟨?_, ?_, ?_, ?_⟩
  · exact hasDeriv_T_gamma g _ hg
  · have := hasDeriv_T_st g o st ast hst hast hD hg
    refine this.congr_deriv ?_; simp only [derivsFw, T]; ring
  · have := hasDeriv_T_ast g o st ast hst hast hD hg
    refine this.congr_deriv ?_; simp only [derivsFw, T]; ring
  · have := hasDeriv_T_offset g (Real.log (st / ast)) o hD hg
    refine this.congr_deriv ?_; simp only [derivsFw, T]; ring

/-- **C05 (sensitivity to α, backward).** `T_B = γ/(I_B + db − α + TA_B)`: `∂T_B/∂α = +T_B²/γ` — the entry `a` of `derivsBw`. -/
theorem C05_deriv_alpha_bw (g I a rst rast : ℝ) (hg : g ≠ 0) (hD : I - a ≠ 0) :
    HasDerivAt (fun q => g / (I - q)) (derivsBw (g / (I - a)) g rst rast).a a := by
  have := hasDeriv_T_neg_offset g I a hD hg
  refine this.congr_deriv ?_; simp only [derivsBw]; ring

/-- **C05 (sensitivity to Δα, single-ended).** `α = Δα·x`, so `∂T/∂Δα = x·∂T/∂α`. -/
theorem C05_deriv_dalpha (g I x p st ast : ℝ) (hg : g ≠ 0) (hD : I + p * x ≠ 0) :
    HasDerivAt (fun q => g / (I + q * x)) (x * (derivsFw (g / (I + p * x)) g st ast).a) p := by
  have := hasDeriv_T_dalpha g I x p hD hg
  refine this.congr_deriv ?_; simp only [derivsFw]; ring

/-! ## Completeness of the term lists -/

variable {K : Type} [Field K]

/-- symmetric 4×4 covariance of `(γ, d, α, τ)` assembled from the per-cell covariances -/
def cov4 (c : Covs K) : Matrix (Fin 4) (Fin 4) K :=
  !![c.gg, c.gd, c.ga, c.tg; c.gd, c.dd, c.ad, c.td; c.ga, c.ad, c.aa, c.ta; c.tg, c.td, c.ta, c.tt]

def jac4 (J : Derivs K) : Fin 4 → K := ![J.g, J.d, J.a, J.ta]

/-- `Jᵀ Σ J` -/
def quad {n : Nat} (J : Fin n → K) (S : Matrix (Fin n) (Fin n) K) : K := ∑ i, ∑ j, J i * S i j * J j

/-- **C05 (tmpf_var / tmpb_var are the full propagation).** The twelve terms the code adds are the squared sensitivities
to the two measurements times their variances plus `Jᵀ Σ J` over the four (groups of) parameters the temperature depends
on, with all six cross-covariances. -/
theorem C05_channel_is_propagation (J : Derivs K) (vst vast : K) (c : Covs K) :
    (termsChannel J vst vast c).sum = J.st ^ 2 * vst + J.ast ^ 2 * vast + quad (jac4 J) (cov4 c) := by
  simp only [termsChannel, List.sum_cons, List.sum_nil, quad, jac4, cov4, Fin.sum_univ_four,
    Matrix.of_apply, Matrix.cons_val', Matrix.cons_val_zero, Matrix.cons_val_one, Matrix.cons_val_two,
    Matrix.cons_val_three, Matrix.head_cons, Matrix.empty_val', Matrix.cons_val_fin_one]
  simp
  ring

/-- single-ended: the same with `∂T/∂Δα = x·∂T/∂α` -/
theorem C05_single_is_propagation (J : Derivs K) (x vst vast : K) (c : Covs K) :
    (termsSingle J x vst vast c).sum =
      J.st ^ 2 * vst + J.ast ^ 2 * vast + quad (![J.g, J.d, x * J.a, J.ta]) (cov4 c) := by
  simp only [termsSingle, List.sum_cons, List.sum_nil, quad, cov4, Fin.sum_univ_four,
    Matrix.of_apply, Matrix.cons_val', Matrix.cons_val_zero, Matrix.cons_val_one, Matrix.cons_val_two,
    Matrix.cons_val_three, Matrix.head_cons, Matrix.empty_val', Matrix.cons_val_fin_one]
  simp
  ring

/-- the six parameter groups of `tmpw`: `(γ, df, db, α, τF, τB)`; `atf, atb, tftb` are the three covariances the code's
list does not use -/
def cov6 (c : CovsW K) (atf atb tftb : K) : Matrix (Fin 6) (Fin 6) K :=
  !![c.gg, c.gf, c.gb, c.ga, c.gtf, c.gtb;
     c.gf, c.ff, c.fb, c.fa, c.ftf, c.ftb;
     c.gb, c.fb, c.bb, c.ba, c.btf, c.btb;
     c.ga, c.fa, c.ba, c.aa, atf, atb;
     c.gtf, c.ftf, c.btf, atf, c.tff, tftb;
     c.gtb, c.ftb, c.btb, atb, tftb, c.tbb]

def jacW (wf wb : K) (F B : Derivs K) : Fin 6 → K :=
  ![wf * F.g + wb * B.g, wf * F.d, wb * B.d, wf * F.a + wb * B.a, wf * F.ta, wb * B.ta]

theorem sum_univ_six (f : Fin 6 → K) : ∑ i, f i = f 0 + f 1 + f 2 + f 3 + f 4 + f 5 := by
  simp [Fin.sum_univ_succ]; ring

/-- **C05 (tmpw_var), exact accounting.** The code's 22 terms plus the three cross terms it leaves out
(`α–τF`, `α–τB`, `τF–τB`) are the full first-order propagation with constant weights. -/
theorem C05_tmpw_accounting (wf wb : K) (F B : Derivs K) (vst vast vrst vrast : K) (c : CovsW K) (atf atb tftb : K) :
    (termsW wf wb F B vst vast vrst vrast c).sum
      + 2 * (jacW wf wb F B 3) * (jacW wf wb F B 4) * atf
      + 2 * (jacW wf wb F B 3) * (jacW wf wb F B 5) * atb
      + 2 * (jacW wf wb F B 4) * (jacW wf wb F B 5) * tftb
    = (wf * F.st) ^ 2 * vst + (wf * F.ast) ^ 2 * vast + (wb * B.st) ^ 2 * vrst + (wb * B.ast) ^ 2 * vrast
      + quad (jacW wf wb F B) (cov6 c atf atb tftb) := by
  simp only [termsW, List.sum_cons, List.sum_nil, quad, jacW, cov6, sum_univ_six,
    Matrix.of_apply, Matrix.cons_val', Matrix.cons_val_zero, Matrix.cons_val_one, Matrix.head_cons,
    Matrix.empty_val', Matrix.cons_val_fin_one]
  simp
  ring

/-- **C05 (tmpw_var), partial.** Without splices (or whenever the three unused covariances vanish) the reported
`tmpw_var` IS the full propagation. -/
theorem C05_tmpw_is_propagation_partial (wf wb : K) (F B : Derivs K) (vst vast vrst vrast : K) (c : CovsW K) :
    (termsW wf wb F B vst vast vrst vrast c).sum
    = (wf * F.st) ^ 2 * vst + (wf * F.ast) ^ 2 * vast + (wb * B.st) ^ 2 * vrst + (wb * B.ast) ^ 2 * vrast
      + quad (jacW wf wb F B) (cov6 c 0 0 0) := by
  have := C05_tmpw_accounting wf wb F B vst vast vrst vrast c 0 0 0
  simpa using this

/-- the full statement for `tmpw_var` -/
def TmpwIsPropagation : Prop :=
  ∀ (wf wb : ℚ) (F B : Derivs ℚ) (vst vast vrst vrast : ℚ) (c : CovsW ℚ) (atf atb tftb : ℚ),
    (termsW wf wb F B vst vast vrst vrast c).sum
    = (wf * F.st) ^ 2 * vst + (wf * F.ast) ^ 2 * vast + (wb * B.st) ^ 2 * vrst + (wb * B.ast) ^ 2 * vrast
      + quad (jacW wf wb F B) (cov6 c atf atb tftb)

/-- **Refutation (known finding C05-tmpw-cross-terms).** With a non-zero covariance between `α` and a forward splice loss
the reported `tmpw_var` differs from the propagation. -/
theorem C05_tmpw_is_propagation_refuted : ¬ TmpwIsPropagation := by
  intro h
  have h1 := h 1 0 ⟨0, 0, 0, 0, 1, 1⟩ ⟨0, 0, 0, 0, 0, 0⟩ 0 0 0 0 ⟨0, 0, 0, 0, 0, 0, 0, 0, 0, 0, 0, 0, 0, 0, 0, 0, 0, 0⟩ 1 0 0
  have h2 := C05_tmpw_accounting (1 : ℚ) 0 ⟨0, 0, 0, 0, 1, 1⟩ ⟨0, 0, 0, 0, 0, 0⟩ 0 0 0 0
    ⟨0, 0, 0, 0, 0, 0, 0, 0, 0, 0, 0, 0, 0, 0, 0, 0, 0, 0⟩ 1 0 0
  rw [← h2] at h1
  norm_num [jacW] at h1
  rcases h1 with h | h
  · have : (![0, 0, 0, 1, 1, 0] : Fin 6 → ℚ) 3 = 1 := rfl
    rw [this] at h; norm_num at h
  · have : (![0, 0, 0, 1, 1, 0] : Fin 6 → ℚ) 4 = 1 := rfl
    rw [this] at h; norm_num at h

/-- the variance of the sum of two splice losses that both act on a location -/
def varOfSum2 (v₁ v₂ c₁₂ : K) : K := v₁ + v₂ + 2 * c₁₂

/-- **Refutation (known finding C05-two-splice-covariance).** The code takes `Σ var(τ_a)` for the variance of the summed
splice losses; with two splices upstream of a location this misses `2·cov(τ₁, τ₂)`. -/
theorem C05_two_splices_refuted : ¬ ∀ v₁ v₂ c₁₂ : ℚ, v₁ + v₂ = varOfSum2 v₁ v₂ c₁₂ := by
  intro h; have := h 1 1 1; norm_num [varOfSum2] at this

theorem C05_two_splices_partial (v₁ v₂ : K) : v₁ + v₂ = varOfSum2 v₁ v₂ 0 := by simp [varOfSum2]

end DtsVerif.C05
