import DtsVerif.Props.C05
import Mathlib.Tactic.Positivity
import Mathlib.Tactic.FieldSimp
import Mathlib.Algebra.Order.Field.Basic
/-!
# C06 — tmpw is the inverse-variance weighted mean of tmpf and tmpb; bounds are ordered
-/
namespace DtsVerif.C06
open DtsVerif.Propagate DtsVerif.C05

variable {K : Type} [Field K] [LinearOrder K] [IsStrictOrderedRing K]

/-- `tmpw_var_approx` -/
def approx (vf vb : K) : K := 1 / (1 / vf + 1 / vb)
/-- `tmpw` (in kelvin) as the code forms it -/
def tmpw (tf tb vf vb : K) : K := (tf / vf + tb / vb) * approx vf vb
def weightF (vf vb : K) : K := approx vf vb / vf
def weightB (vf vb : K) : K := approx vf vb / vb

theorem approx_eq (vf vb : K) (hf : 0 < vf) (hb : 0 < vb) : approx vf vb = vf * vb / (vf + vb) := by
  unfold approx; field_simp; ring

theorem weights_sum_one (vf vb : K) (hf : 0 < vf) (hb : 0 < vb) : weightF vf vb + weightB vf vb = 1 := by
  unfold weightF weightB; rw [approx_eq vf vb hf hb]; field_simp; ring

theorem weights_nonneg (vf vb : K) (hf : 0 < vf) (hb : 0 < vb) : 0 < weightF vf vb ∧ 0 < weightB vf vb := by
  unfold weightF weightB; rw [approx_eq vf vb hf hb]
  constructor <;> positivity

/-- **C06 (formula).** `tmpw` is the convex combination `wf·tmpf + wb·tmpb` with `wf = v_b/(v_f+v_b)`. -/
theorem C06_tmpw_formula (tf tb vf vb : K) (hf : 0 < vf) (hb : 0 < vb) :
    tmpw tf tb vf vb = weightF vf vb * tf + weightB vf vb * tb ∧ weightF vf vb = vb / (vf + vb) := by
  unfold tmpw weightF weightB; rw [approx_eq vf vb hf hb]
  constructor <;> field_simp

/-- **C06 (tmpw lies between tmpf and tmpb).** -/
theorem C06_tmpw_between (tf tb vf vb : K) (hf : 0 < vf) (hb : 0 < vb) :
    min tf tb ≤ tmpw tf tb vf vb ∧ tmpw tf tb vf vb ≤ max tf tb := by
  obtain ⟨hform, _⟩ := C06_tmpw_formula tf tb vf vb hf hb
  have hs := weights_sum_one vf vb hf hb
  obtain ⟨hwf, hwb⟩ := weights_nonneg vf vb hf hb
  rw [hform]
  constructor
  · have h1 : min tf tb ≤ tf := min_le_left _ _
    have h2 : min tf tb ≤ tb := min_le_right _ _
    calc min tf tb = weightF vf vb * min tf tb + weightB vf vb * min tf tb := by rw [← add_mul, hs, one_mul]
      _ ≤ weightF vf vb * tf + weightB vf vb * tb :=
        add_le_add (mul_le_mul_of_nonneg_left h1 hwf.le) (mul_le_mul_of_nonneg_left h2 hwb.le)
  · have h1 : tf ≤ max tf tb := le_max_left _ _
    have h2 : tb ≤ max tf tb := le_max_right _ _
    calc weightF vf vb * tf + weightB vf vb * tb
        ≤ weightF vf vb * max tf tb + weightB vf vb * max tf tb :=
        add_le_add (mul_le_mul_of_nonneg_left h1 hwf.le) (mul_le_mul_of_nonneg_left h2 hwb.le)
      _ = max tf tb := by rw [← add_mul, hs, one_mul]

/-- **C06 (`tmpw_var_approx ≤ min(tmpf_var, tmpb_var)`).** -/
theorem C06_approx_le_min (vf vb : K) (hf : 0 < vf) (hb : 0 < vb) : approx vf vb ≤ min vf vb := by
  rw [approx_eq vf vb hf hb]
  have hs : 0 < vf + vb := by linarith
  apply le_min
  · rw [div_le_iff₀ hs]; nlinarith
  · rw [div_le_iff₀ hs]; nlinarith

/-- for weights that sum to one, `1/(1/a+1/b) ≤ wf²·a + wb²·b` (equality at the inverse-variance weights) -/
theorem convex_combo_lower (a b wf wb : K) (ha : 0 < a) (hb : 0 < b) (h : wf + wb = 1) :
    approx a b ≤ wf ^ 2 * a + wb ^ 2 * b := by
  rw [approx_eq a b ha hb]
  have hs : 0 < a + b := by linarith
  rw [div_le_iff₀ hs]
  have hw : wb = 1 - wf := by linarith
  subst hw
  nlinarith [sq_nonneg (a * wf - b * (1 - wf))]

/-- **C06 (`tmpw_var_lower ≤ tmpw_var`).** `a`, `b`: the parts of `tmpf_var`, `tmpb_var` that come from the intensity
noise only; `P`: the parameter part of `tmpw_var`, which is a quadratic form of the positive semi-definite `p_cov`
(`C05_tmpw_is_propagation`). -/
theorem C06_lower_le_var (a b vf vb P : K) (ha : 0 < a) (hb : 0 < b) (hf : 0 < vf) (hvb : 0 < vb) (hP : 0 ≤ P) :
    approx a b ≤ (weightF vf vb) ^ 2 * a + (weightB vf vb) ^ 2 * b + P := by
  have := convex_combo_lower a b (weightF vf vb) (weightB vf vb) ha hb (weights_sum_one vf vb hf hvb)
  linarith

/-- **C06 (positivity).** A channel's variance is strictly positive when the intensities and their noise variances are
positive, the temperature is not zero and the parameter covariance is positive semi-definite. -/
theorem C06_channel_var_positive (J : Derivs K) (vst vast : K) (c : Covs K)
    (hvst : 0 < vst) (hvast : 0 ≤ vast) (hJ : J.st ≠ 0)
    (hpsd : 0 ≤ quad (jac4 J) (cov4 c)) :
    0 < (termsChannel J vst vast c).sum := by
  rw [C05_channel_is_propagation]
  have h1 : 0 < J.st ^ 2 * vst := mul_pos (by positivity) hvst
  have h2 : 0 ≤ J.ast ^ 2 * vast := mul_nonneg (sq_nonneg _) hvast
  linarith

/-- **C06 (`tmpw_var_lower ≤ tmpw_var`, on the code's term list).** With the inverse-variance weights of any positive
`tmpf_var`, `tmpb_var`, the 25-term `tmpw_var` is at least the noise-only bound, provided the parameter covariance is
positive semi-definite on the six parameter groups. -/
theorem C06_lower_le_tmpw_var (vf vb : K) (F B : Derivs K) (vst vast vrst vrast : K) (c : CovsW K)
    (hf : 0 < vf) (hb : 0 < vb) (hst : 0 < vst) (hast : 0 ≤ vast) (hrst : 0 < vrst) (hrast : 0 ≤ vrast)
    (hF : F.st ≠ 0) (hB : B.st ≠ 0)
    (hpsd : 0 ≤ quad (jacW (weightF vf vb) (weightB vf vb) F B) (cov6 c)) :
    approx (F.st ^ 2 * vst + F.ast ^ 2 * vast) (B.st ^ 2 * vrst + B.ast ^ 2 * vrast)
      ≤ (termsW (weightF vf vb) (weightB vf vb) F B vst vast vrst vrast c).sum := by
  rw [C05_tmpw_is_propagation]
  have ha : 0 < F.st ^ 2 * vst + F.ast ^ 2 * vast := by
    have h1 : 0 < F.st ^ 2 * vst := mul_pos (by positivity) hst
    have h2 : 0 ≤ F.ast ^ 2 * vast := mul_nonneg (sq_nonneg _) hast
    linarith
  have hb' : 0 < B.st ^ 2 * vrst + B.ast ^ 2 * vrast := by
    have h1 : 0 < B.st ^ 2 * vrst := mul_pos (by positivity) hrst
    have h2 : 0 ≤ B.ast ^ 2 * vrast := mul_nonneg (sq_nonneg _) hrast
    linarith
  have := C06_lower_le_var _ _ vf vb _ ha hb' hf hb hpsd
  calc _ ≤ _ := this
    _ = _ := by ring

/-! ### Non-vacuity -/
example : approx (2 : ℚ) 3 = 6 / 5 ∧ approx (2 : ℚ) 3 ≤ min 2 3 := by norm_num [approx]
example : min (10 : ℚ) 20 ≤ tmpw 10 20 2 3 ∧ tmpw (10 : ℚ) 20 2 3 ≤ max 10 20 := by norm_num [tmpw, approx]

end DtsVerif.C06
