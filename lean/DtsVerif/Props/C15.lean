import DtsVerif.Lemmas.Merge
/-!
# C15 — merging two channels pairs only adjacent forward/backward measurements

Property theorems only (helper lemmas are in `Lemmas/Merge.lean`).
-/
namespace DtsVerif.C15
open DtsVerif.Merge DtsVerif.Py

/-- Spec: forward measurement `i` and backward measurement `j` belong together iff `bw[j]` is the very
next measurement after `fw[i]` (no forward or backward timestamp strictly in between). -/
def AdjIdx (fw bw : List Int) (i j : Nat) : Prop :=
  ∃ (hi : i < fw.length) (hj : j < bw.length), fw[i] < bw[j] ∧
    (∀ t ∈ fw, ¬ (fw[i] < t ∧ t < bw[j])) ∧ (∀ t ∈ bw, ¬ (fw[i] < t ∧ t < bw[j]))

theorem mem_eventsUnsorted (fw bw : List Int) (hdis : ∀ t ∈ fw, t ∉ bw) (e : Ev) :
    e ∈ eventsUnsorted fw bw ↔
      (e.d = .fw ∧ fw[e.i]? = some e.t) ∨ (e.d = .bw ∧ bw[e.i]? = some e.t) := by
  unfold eventsUnsorted
  simp only [List.mem_append, List.mem_map, List.mem_filter, Prod.exists,
    List.mem_zipIdx_iff_getElem?]
  constructor
  · rintro (⟨t, k, ⟨h1, _⟩, rfl⟩ | ⟨t, k, h1, rfl⟩)
    · exact Or.inl ⟨rfl, h1⟩
    · exact Or.inr ⟨rfl, h1⟩
  · rintro (⟨hd, h⟩ | ⟨hd, h⟩)
    · left
      refine ⟨e.t, e.i, ⟨h, ?_⟩, ?_⟩
      · have : e.t ∈ fw := List.mem_of_getElem? h
        simpa using hdis _ this
      · cases e; simp_all
    · right
      refine ⟨e.t, e.i, h, ?_⟩
      cases e; simp_all

theorem eventsUnsorted_times (fw bw : List Int) (hdis : ∀ t ∈ fw, t ∉ bw) :
    (eventsUnsorted fw bw).map (·.t) = fw ++ bw := by
  unfold eventsUnsorted
  have hfil : fw.zipIdx.filter (fun ti => !bw.contains ti.1) = fw.zipIdx := by
    apply List.filter_eq_self.mpr
    intro a ha
    have : a.1 ∈ fw := by
      have := List.mem_zipIdx_iff_getElem?.mp ha
      exact List.mem_of_getElem? this
    simpa using hdis _ this
  rw [hfil, List.map_append, List.map_map, List.map_map]
  have e1 : ((fun (x : Ev) => x.t) ∘ fun (ti : Int × Nat) => (⟨ti.1, Dir.fw, ti.2⟩ : Ev)) = Prod.fst := rfl
  have e2 : ((fun (x : Ev) => x.t) ∘ fun (ti : Int × Nat) => (⟨ti.1, Dir.bw, ti.2⟩ : Ev)) = Prod.fst := rfl
  rw [e1, e2, List.zipIdx_map_fst, List.zipIdx_map_fst]

/-- **C15 (walk).** For distinct timestamps the chronological walk keeps the pair `(i, j)` exactly when
backward measurement `j` is the very next measurement after forward measurement `i`. -/
theorem C15_walk_iff_adjacent (fw bw : List Int) (hf : fw.Nodup) (hb : bw.Nodup)
    (hdis : ∀ t ∈ fw, t ∉ bw) (i j : Nat) :
    (i, j) ∈ walk (events fw bw) ↔ AdjIdx fw bw i j := by
  have hnd : ((eventsUnsorted fw bw).map (·.t)).Nodup := by
    rw [eventsUnsorted_times fw bw hdis]
    exact List.nodup_append.mpr ⟨hf, hb, fun a ha b hb' hab => hdis a ha (hab ▸ hb')⟩
  have hss : StrictSorted (events fw bw) := events_strictSorted _ hnd
  have hmem : ∀ e, e ∈ events fw bw ↔ e ∈ eventsUnsorted fw bw := fun e => DtsVerif.Py.mem_insSort _ _ e
  have hmemT : ∀ t, (∃ e ∈ events fw bw, e.t = t) ↔ (t ∈ fw ∨ t ∈ bw) := by
    intro t
    have : (∃ e ∈ events fw bw, e.t = t) ↔ t ∈ (eventsUnsorted fw bw).map (·.t) := by
      simp only [List.mem_map, hmem]
    rw [this, eventsUnsorted_times fw bw hdis, List.mem_append]
  unfold walk
  simp only [List.mem_map, Prod.mk.injEq, Prod.exists]
  constructor
  · rintro ⟨a, b, hab, rfl, rfl⟩
    obtain ⟨ha, hb', hda, hdb, hlt, hno⟩ := (walkEv_iff _ hss a b).mp hab
    rw [hmem, mem_eventsUnsorted fw bw hdis] at ha hb'
    have ha' : fw[a.i]? = some a.t := by
      rcases ha with ⟨_, h⟩ | ⟨h, _⟩
      · exact h
      · rw [hda] at h; cases h
    have hb'' : bw[b.i]? = some b.t := by
      rcases hb' with ⟨h, _⟩ | ⟨_, h⟩
      · rw [hdb] at h; cases h
      · exact h
    obtain ⟨hi, hai⟩ := List.getElem?_eq_some_iff.mp ha'
    obtain ⟨hj, hbj⟩ := List.getElem?_eq_some_iff.mp hb''
    refine ⟨hi, hj, by rw [hai, hbj]; exact hlt, ?_, ?_⟩
    · intro t ht
      obtain ⟨c, hc, rfl⟩ := (hmemT t).mpr (Or.inl ht)
      rw [hai, hbj]; exact hno c hc
    · intro t ht
      obtain ⟨c, hc, rfl⟩ := (hmemT t).mpr (Or.inr ht)
      rw [hai, hbj]; exact hno c hc
  · rintro ⟨hi, hj, hlt, hnf, hnb⟩
    refine ⟨⟨fw[i], .fw, i⟩, ⟨bw[j], .bw, j⟩, ?_, rfl, rfl⟩
    apply (walkEv_iff _ hss _ _).mpr
    refine ⟨?_, ?_, rfl, rfl, hlt, ?_⟩
    · rw [hmem, mem_eventsUnsorted fw bw hdis]; left; exact ⟨rfl, by simp [hi]⟩
    · rw [hmem, mem_eventsUnsorted fw bw hdis]; right; exact ⟨rfl, by simp [hj]⟩
    · intro c hc
      rcases (hmemT c.t).mp ⟨c, hc, rfl⟩ with h | h
      · exact hnf _ h
      · exact hnb _ h

end DtsVerif.C15

namespace DtsVerif.C15
open DtsVerif.Merge DtsVerif.Py

theorem shortcut_facts {verify : Bool} {fw bw : List Int} (h : shortcut verify fw bw = true) :
    fw.length = bw.length ∧ (∀ k, k < fw.length → fw.getD k 0 < bw.getD k 0) ∧
    (∀ k, k + 1 < fw.length → bw.getD k 0 < fw.getD (k + 1) 0) := by
  unfold shortcut allLater interleaved at h
  simp only [Bool.and_eq_true, decide_eq_true_eq, List.all_eq_true, List.mem_range] at h
  obtain ⟨⟨⟨h0, h1⟩, h2⟩, _⟩ := h
  exact ⟨h0, h1, fun k hk => h2 k (by omega)⟩

/-- **C15 (shortcut).** Whenever the code takes its early return (equal sizes, every backward later than
its forward partner, channels interleaved), the positional pairs it returns are exactly the adjacent
pairs of the Spec. -/
theorem C15_shortcut_iff_adjacent (verify : Bool) (fw bw : List Int)
    (h : shortcut verify fw bw = true) (i j : Nat) :
    (i, j) ∈ positional fw.length ↔ AdjIdx fw bw i j := by
  obtain ⟨hlen, h1, h2⟩ := shortcut_facts h
  have mono := chain_g_lt_f (fun k => fw.getD k 0) (fun k => bw.getD k 0) fw.length h1 h2
  have monof := chain_f_le_f (fun k => fw.getD k 0) (fun k => bw.getD k 0) fw.length h1 h2
  have monog := chain_g_le_g (fun k => fw.getD k 0) (fun k => bw.getD k 0) fw.length h1 h2
  have gf : ∀ k (hk : k < fw.length), fw[k] = fw.getD k 0 := fun k hk => by simp [hk]
  have gb : ∀ k (hk : k < bw.length), bw[k] = bw.getD k 0 := fun k hk => by simp [hk]
  unfold positional
  simp only [List.mem_map, List.mem_range, Prod.mk.injEq]
  constructor
  · rintro ⟨k, hk, rfl, rfl⟩
    refine ⟨hk, hlen ▸ hk, ?_, ?_, ?_⟩
    · rw [gf k hk, gb k (hlen ▸ hk)]; exact h1 k hk
    · intro t ht
      obtain ⟨m, hm, rfl⟩ := List.getElem_of_mem ht
      rw [gf k hk, gb k (hlen ▸ hk), gf m hm]
      intro ⟨ha, hb⟩
      by_cases hmk : m ≤ k
      · have := monof m k hmk hk; omega
      · have := mono m k (by omega) hm; omega
    · intro t ht
      obtain ⟨m, hm, rfl⟩ := List.getElem_of_mem ht
      rw [gf k hk, gb k (hlen ▸ hk), gb m hm]
      intro ⟨ha, hb⟩
      by_cases hmk : k ≤ m
      · have := monog k m hmk (hlen ▸ hm); omega
      · have := mono k m (by omega) hk; omega
  · rintro ⟨hi, hj, hlt, hnf, hnb⟩
    rw [gf i hi, gb j hj] at hlt hnb
    by_cases hij : i = j
    · exact ⟨i, hi, rfl, hij⟩
    · exfalso
      by_cases hlt' : i < j
      · -- bw[i] lies strictly between fw[i] and bw[j]
        have hbi : i < bw.length := by omega
        apply hnb (bw[i]) (List.getElem_mem hbi)
        rw [gb i hbi]
        have a1 := h1 i hi
        have a2 := mono j i hlt' (hlen ▸ hj)
        have a3 := h1 j (hlen ▸ hj)
        omega
      · have a2 := mono i j (by omega) hi
        omega

end DtsVerif.C15

namespace DtsVerif.C15
open DtsVerif.Merge DtsVerif.Py

/-- **C15 (time-offset filter).** With `verify_timedeltas`, kept pair number `k` is thrown out exactly when
it is interior, its two neighbours' offsets agree within 1.5 s, and its own offset differs from the
previous neighbour's by more than 1.5 s. -/
theorem C15_dt_filter (dt : List Int) (k : Nat) (hk : k < dt.length) :
    (leaveout dt)[k]? = some true ↔
      (0 < k ∧ k + 1 < dt.length ∧ absInt (dt.getD (k-1) 0 - dt.getD (k+1) 0) ≤ 1500000000 ∧
        ¬ absInt (dt.getD (k-1) 0 - dt.getD k 0) ≤ 1500000000) := by
  have hl : k < (leaveout dt).length := by simp [leaveout, hk]
  rw [List.getElem?_eq_getElem hl, leaveout_getElem]
  by_cases h0 : k = 0 ∨ k + 1 ≥ dt.length
  · simp only [h0, if_true]; constructor
    · intro h; cases h
    · rintro ⟨a, b, _⟩; omega
  · simp only [h0, if_false, close15, Option.some.injEq, Bool.and_eq_true, decide_eq_true_eq,
      Bool.not_eq_true', decide_eq_false_iff_not]
    constructor
    · rintro ⟨a, b⟩; exact ⟨by omega, by omega, a, b⟩
    · rintro ⟨_, _, a, b⟩; exact ⟨a, b⟩

/-- a pair whose offset differs by more than 1.5 s from two agreeing neighbours is always thrown out -/
theorem C15_must_drop (dt : List Int) (k : Nat) (h0 : 0 < k) (h1 : k + 1 < dt.length)
    (hagree : absInt (dt.getD (k-1) 0 - dt.getD (k+1) 0) ≤ 1500000000)
    (hprev : ¬ absInt (dt.getD k 0 - dt.getD (k-1) 0) ≤ 1500000000) :
    (leaveout dt)[k]? = some true := by
  apply (C15_dt_filter dt k (by omega)).mpr
  refine ⟨h0, h1, hagree, ?_⟩
  rw [absInt_le] at *; omega

/-- when the early return is taken with `verify_timedeltas`, the filter would not have dropped anything
(all offsets lie within 1.5 s of each other) — so the early return equals the general path. -/
theorem C15_shortcut_filter_noop (fw bw : List Int) (h : shortcut true fw bw = true) (k : Nat) :
    (leaveout ((fw.zip bw).map (fun p => p.2 - p.1)))[k]? ≠ some true := by
  intro hk
  have hlt : k < ((fw.zip bw).map (fun p => p.2 - p.1)).length := by
    have := (List.getElem?_eq_some_iff.mp hk).1
    simpa [leaveout] using this
  obtain ⟨_, _, _, hnc⟩ := (C15_dt_filter _ k hlt).mp hk
  unfold shortcut at h
  simp only [Bool.and_eq_true, Bool.not_true, Bool.false_or, decide_eq_true_eq] at h
  have hsp := h.2
  apply hnc
  have key := close15_of_spread _ hsp
    (((fw.zip bw).map (fun p => p.2 - p.1)).getD (k-1) 0) (((fw.zip bw).map (fun p => p.2 - p.1)).getD k 0)
    (getD_mem _ _ (by omega))
    (getD_mem _ _ hlt)
  simpa [close15] using key

/-- the filter only removes pairs -/
theorem dtFilter_subset (fw bw : List Int) (p : List (Nat × Nat)) (x : Nat × Nat)
    (hx : x ∈ dtFilter fw bw p) : x ∈ p := by
  unfold dtFilter at hx
  simp only [List.mem_map, List.mem_filter] at hx
  obtain ⟨⟨a, b⟩, ⟨hm, _⟩, rfl⟩ := hx
  exact (List.of_mem_zip hm).1

/-- **C15 (merge, no verification).** Distinct timestamps: the kept pairs are exactly the adjacent ones. -/
theorem C15_merge_iff_adjacent (fw bw : List Int) (hf : fw.Nodup) (hb : bw.Nodup)
    (hdis : ∀ t ∈ fw, t ∉ bw) (i j : Nat) :
    (i, j) ∈ mergeTimes false fw bw ↔ AdjIdx fw bw i j := by
  unfold mergeTimes
  split
  · rename_i h; exact C15_shortcut_iff_adjacent false fw bw h i j
  · simpa using C15_walk_iff_adjacent fw bw hf hb hdis i j

/-- **C15 (merge, with verification).** Every kept pair is adjacent (nothing but adjacent pairs survives). -/
theorem C15_merge_verify_adjacent (fw bw : List Int) (hf : fw.Nodup) (hb : bw.Nodup)
    (hdis : ∀ t ∈ fw, t ∉ bw) (i j : Nat) (h : (i, j) ∈ mergeTimes true fw bw) : AdjIdx fw bw i j := by
  unfold mergeTimes at h
  split at h
  · rename_i hs; exact (C15_shortcut_iff_adjacent true fw bw hs i j).mp h
  · simp only [if_true] at h
    exact (C15_walk_iff_adjacent fw bw hf hb hdis i j).mp (dtFilter_subset fw bw _ _ h)

/-! ### Non-vacuity and the history that used to fail (fixed by a `fix:` commit, see known_findings) -/

/-- the history `fw=[0,20,40] s`, `bw=[30,50,70] s`: forward 0 is followed by forward 1, so it has no partner -/
example : mergeTimes false [0, 20, 40] [30, 50, 70] = [(1, 0), (2, 1)] := by decide
example : ¬ AdjIdx [0, 20, 40] [30, 50, 70] 0 0 := by
  rintro ⟨_, _, _, h, _⟩
  exact h 20 (by decide) (by decide +revert)
example : AdjIdx [0, 20, 40] [30, 50, 70] 1 0 := by
  refine ⟨by decide, by decide, by decide, ?_, ?_⟩ <;> decide
/-- a complete history takes the early return -/
example : shortcut true [0, 20, 40] [10, 30, 50] = true := by decide
/-- a history with a missing backward measurement takes the walk -/
example : mergeTimes true [0, 20, 40, 60] [10, 50, 70] = [(0, 0), (2, 1), (3, 2)] := by decide

/-! ### Spatial part -/

/-- **C15 (spatial).** The backward sample placed at a forward location is a nearest one and lies within the
tolerance; when none is placed, no backward sample lies within the tolerance. -/
theorem C15_nearest_spec (src : List Rat) (tol x : Rat) :
    (∀ j, nearest src tol x = some j →
        j < src.length ∧ absRat (src.getD j 0 - x) ≤ tol ∧
        ∀ k, k < src.length → absRat (src.getD j 0 - x) ≤ absRat (src.getD k 0 - x)) ∧
    (nearest src tol x = none → ∀ k, k < src.length → ¬ absRat (src.getD k 0 - x) ≤ tol) := by
  unfold nearest
  have hs := argminLast_spec (fun k => absRat (src.getD k 0 - x)) src.length
  cases hm : argminLast (fun k => absRat (src.getD k 0 - x)) src.length with
  | none =>
    have := (hs.2).mp hm
    simp only [reduceCtorEq, false_imp_iff, implies_true, true_and, forall_const]
    intro k hk; omega
  | some j =>
    obtain ⟨hj, hmin⟩ := hs.1 j hm
    simp only
    constructor
    · intro j' h
      split at h
      · rename_i hle
        cases h
        exact ⟨hj, hle, hmin⟩
      · cases h
    · intro h k hk hle
      split at h
      · cases h
      · rename_i hn
        exact hn (Rat.le_trans (hmin k hk) hle)

end DtsVerif.C15

namespace DtsVerif.C15
open DtsVerif.Merge

/-- **C15 (swapped channels).** For every pair of channel numbers up to 32, written as the readers store them
(`"7"`, `"channel 7"`), the merge is refused exactly when the forward id is not the smaller one.
(A finite table, checked by kernel evaluation; the historical string comparison failed at `"10" < "2"`.) -/
theorem C15_swapped_refused_table :
    ∀ a ∈ List.range 33, ∀ b ∈ List.range 33,
      swappedRefused (toString a) (toString b) = decide (b ≤ a) ∧
      swappedRefused ("channel " ++ toString a) ("channel " ++ toString b) = decide (b ≤ a) := by
  decide +kernel

end DtsVerif.C15
