import DtsVerif.Model.Readers
import DtsVerif.Lemmas.PyPrim
import Mathlib.Tactic.Linarith
/-!
# C11 — readers place every recorded value at the coordinate where it was recorded
-/
namespace DtsVerif.C11
open DtsVerif.Readers DtsVerif.Py

/-! ## Order of the time axis -/

theorem leName_trans : ∀ a b c : List Nat × Nat, leName a.1 b.1 = true → leName b.1 c.1 = true → leName a.1 c.1 = true := by
  intro a b c; simp only [leName, decide_eq_true_eq]; exact List.le_trans
theorem leName_total : ∀ a b : List Nat × Nat, leName a.1 b.1 = true ∨ leName b.1 a.1 = true := by
  intro a b; simp only [leName, decide_eq_true_eq]; exact List.le_total _ _

/-- **C11 (every file exactly once, in name order).** The time axis is a permutation of the files, sorted by file name. -/
theorem C11_order_is_sorted_permutation (names : List (List Nat)) :
    (orderByName names).Perm (List.range names.length) ∧
    ((orderByName names).map fun i => names.getD i []).Pairwise (· ≤ ·) := by
  unfold orderByName argsortBy
  have hp := insSort_perm (fun (a b : List Nat × Nat) => leName a.1 b.1) names.zipIdx
  have hs := insSort_pairwise (fun (a b : List Nat × Nat) => leName a.1 b.1) leName_trans leName_total names.zipIdx
  constructor
  · have := hp.map (·.2)
    rw [List.zipIdx_map_snd] at this
    simpa [List.range_eq_range'] using this
  · rw [List.map_map, List.pairwise_map]
    have hmem : ∀ x ∈ insSort (fun (a b : List Nat × Nat) => leName a.1 b.1) names.zipIdx, names.getD x.2 [] = x.1 := by
      intro x hx
      have hx' : x ∈ names.zipIdx := (mem_insSort _ _ x).mp hx
      have := List.mem_zipIdx_iff_getElem?.mp hx'
      simp [List.getD_eq_getElem?_getD, this]
    refine List.Pairwise.imp_of_mem ?_ hs
    intro a b ha hb hab
    simp only [Function.comp, hmem a ha, hmem b hb]
    simpa [leName] using hab

/-- **C11 (Sensortran order).** Ordered by the header's time stamp: a permutation of the files with non-decreasing stamps. -/
theorem C11_order_by_time (stamps : List Int) :
    (orderByTime stamps).Perm (List.range stamps.length) ∧
    ((orderByTime stamps).map fun i => stamps.getD i 0).Pairwise (· ≤ ·) := by
  unfold orderByTime argsortBy
  have hp := insSort_perm (fun (a b : Int × Nat) => decide (a.1 ≤ b.1)) stamps.zipIdx
  have hs := insSort_pairwise (fun (a b : Int × Nat) => decide (a.1 ≤ b.1))
    (by intro a b c; simp only [decide_eq_true_eq]; exact Int.le_trans)
    (by intro a b; simp only [decide_eq_true_eq]; exact Int.le_total _ _) stamps.zipIdx
  constructor
  · have := hp.map (·.2)
    rw [List.zipIdx_map_snd] at this
    simpa [List.range_eq_range'] using this
  · rw [List.map_map, List.pairwise_map]
    have hmem : ∀ x ∈ insSort (fun (a b : Int × Nat) => decide (a.1 ≤ b.1)) stamps.zipIdx, stamps.getD x.2 0 = x.1 := by
      intro x hx
      have hx' : x ∈ stamps.zipIdx := (mem_insSort _ _ x).mp hx
      have := List.mem_zipIdx_iff_getElem?.mp hx'
      simp [List.getD_eq_getElem?_getD, this]
    refine List.Pairwise.imp_of_mem ?_ hs
    intro a b ha hb hab
    simp only [Function.comp, hmem a ha, hmem b hb]
    simpa using hab

/-- lexicographic comparison of equal-length digit lists agrees with the comparison of the numbers they denote -/
theorem lex_lt_iff_val_lt : ∀ (a b : List Nat), a.length = b.length → (∀ d ∈ a, d < 10) → (∀ d ∈ b, d < 10) →
    (a < b ↔ digitsVal a < digitsVal b) := by
  have key : ∀ (a b : List Nat) (x y : Nat), a.length = b.length → (∀ d ∈ a, d < 10) → (∀ d ∈ b, d < 10) →
      (a.foldl (fun acc d => acc * 10 + d) x < b.foldl (fun acc d => acc * 10 + d) y ↔ (x < y ∨ (x = y ∧ a < b))) := by
    intro a
    induction a with
    | nil =>
      intro b x y hl _ _
      have : b = [] := List.eq_nil_of_length_eq_zero (by simpa using hl.symm)
      subst this; simp
    | cons p r ih =>
      intro b x y hl ha hb
      cases b with
      | nil => simp at hl
      | cons q s =>
        have hp : p < 10 := ha p List.mem_cons_self
        have hq : q < 10 := hb q List.mem_cons_self
        simp only [List.foldl_cons]
        rw [ih s (x * 10 + p) (y * 10 + q) (by simpa using hl) (fun d hd => ha d (List.mem_cons_of_mem _ hd))
          (fun d hd => hb d (List.mem_cons_of_mem _ hd))]
        rw [List.cons_lt_cons_iff]
        constructor
        · rintro (h | ⟨h1, h2⟩)
          · by_cases hxy : x < y
            · exact Or.inl hxy
            · have : x = y ∧ p < q := by omega
              exact Or.inr ⟨this.1, Or.inl this.2⟩
          · have : x = y ∧ p = q := by omega
            exact Or.inr ⟨this.1, Or.inr ⟨this.2, h2⟩⟩
        · rintro (h | ⟨h1, h2 | ⟨h2, h3⟩⟩)
          · left; omega
          · left; omega
          · right; exact ⟨by omega, h3⟩
  intro a b hl ha hb
  have := key a b 0 0 hl ha hb
  unfold digitsVal
  rw [this]; simp

theorem append_lt_iff : ∀ (a b post : List Nat), a.length = b.length → (a ++ post < b ++ post ↔ a < b)
  | [], [], post, _ => by simp [List.lt_irrefl]
  | [], _ :: _, _, h => by simp at h
  | _ :: _, [], _, h => by simp at h
  | x :: a, y :: b, post, h => by
    simp only [List.cons_append, List.cons_lt_cons_iff]
    rw [append_lt_iff a b post (by simpa using h)]

theorem prefix_lt_iff : ∀ (pre u v : List Nat), (pre ++ u < pre ++ v ↔ u < v)
  | [], u, v => by simp
  | c :: r, u, v => by
    simp only [List.cons_append, List.cons_lt_cons_iff, Nat.lt_irrefl, true_and, false_or]
    exact prefix_lt_iff r u v

/-- **C11 (chronological).** File names that differ only in a fixed-width decimal time stamp sort in the order of the
time stamps: a directory listing in any order ends up chronological. -/
theorem C11_chronological (pre post a b : List Nat) (hl : a.length = b.length)
    (ha : ∀ d ∈ a, d < 10) (hb : ∀ d ∈ b, d < 10) :
    (pre ++ a ++ post < pre ++ b ++ post) ↔ digitsVal a < digitsVal b := by
  rw [← lex_lt_iff_val_lt a b hl ha hb, List.append_assoc, List.append_assoc, prefix_lt_iff, append_lt_iff a b post hl]

/-- **C11 (length mismatch is rejected).** A file set is stacked only if every file has the number of points of the first. -/
theorem C11_length_mismatch_rejected (n : Nat) (r : List Nat) :
    stackAccept (n :: r) = true ↔ ∀ m ∈ r, m = n := by
  simp [stackAccept]

/-- **C11 (placement).** Column `k` of every stacked variable is taken from the file at position `k` of the time axis, row `i`
from its row `i`, item by item. -/
theorem C11_stack_placement (order : List Nat) (nx nitem : Nat) (item i k : Nat)
    (hit : item < nitem) (hi : i < nx) (hk : k < order.length) :
    (((stackSource order nx nitem).getD item []).getD i []).getD k (0, 0, 0) = (order[k], i, item) := by
  unfold stackSource
  simp [hit, hi, hk]

/-! ## Sensortran byte layout -/

/-- **C11 (Sensortran fields).** Little-endian decoding inverts little-endian encoding for every value that fits the field. -/
theorem C11_sensortran_roundtrip : ∀ (k v : Nat), v < 256 ^ k → decodeLE (encodeLE k v) = v
  | 0, v, h => by simp at h; simp [encodeLE, decodeLE, h]
  | k + 1, v, h => by
    simp only [encodeLE, decodeLE]
    have hk : v / 256 < 256 ^ k := by
      rw [Nat.div_lt_iff_lt_mul (by norm_num)]; rw [pow_succ] at h; linarith
    rw [C11_sensortran_roundtrip k (v / 256) hk]
    omega

/-! ## Sensornet: the reversed channel -/

/-- **C11 (Sensornet reverse map).** `REV[end:start:-1]` of the raw rows `0 … n−1` is row `end − j` at output position `j`
(for `start < end < n`), `end − start` rows in total — the same number as the forward window `raw[start:end]`. -/
theorem C11_sensornet_reverse_map (n s e j : Nat) (hse : s < e) (hen : e < n) (hj : j < e - s) :
    (pySliceRev (List.range n) e s).length = e - s ∧ (pySliceRev (List.range n) e s)[j]? = some (e - j) := by
  unfold pySliceRev
  have hmin : min e ((List.range n).length - 1) = e := by simp; omega
  have hcond : ¬ ((List.range n).length = 0 ∨ e ≤ s) := by
    simp; omega
  simp only [hmin, hcond, if_false]
  constructor
  · simp; omega
  · rw [List.getElem?_reverse (by simp; omega)]
    simp only [List.length_take, List.length_drop, List.length_range]
    rw [List.getElem?_take_of_lt (by omega), List.getElem?_drop]
    have : s + 1 + (min (e - s) (n - (s + 1)) - 1 - j) = e - j := by omega
    rw [this]; exact List.getElem?_range (by omega)

/-- non-vacuity -/
example : pySliceRev (List.range 10) 7 3 = [7, 6, 5, 4] := by decide
example : orderByName [[50, 48], [49, 57], [49, 48]] = [2, 1, 0] := by decide
example : decodeLE (encodeLE 4 1700000000) = 1700000000 := by decide +kernel

end DtsVerif.C11
