import DtsVerif.Model.Attrs
/-!
# C17 — section and splice definitions travel with the result and survive storage
-/
namespace DtsVerif.C17
open DtsVerif.Attrs

variable {V S C : Type}

theorem attr_setAttr_same (d : Dataset S C) (k : AKey) (v : S) : (d.setAttr k v).attr k = some v := by
  simp [Dataset.attr, Dataset.setAttr]

theorem attr_setAttr_other (d : Dataset S C) (k k' : AKey) (v : S) (h : k' ≠ k) :
    (d.setAttr k' v).attr k = d.attr k := by
  unfold Dataset.attr Dataset.setAttr
  have h1 : ((k', v).1 == k) = false := by simpa using h
  simp only [List.find?_cons, h1]
  congr 1
  induction d.attrs with
  | nil => rfl
  | cons a r ih =>
    by_cases ha : a.1 = k'
    · have : (a.1 != k') = false := by simp [ha]
      have h2 : (a.1 == k) = false := by rw [ha]; simpa using h
      simp [List.filter_cons, this, List.find?_cons, h2, ih]
    · have : (a.1 != k') = true := by simpa using ha
      simp only [List.filter_cons, this, if_true, List.find?_cons]
      split <;> simp_all

/-- **C17 (travel).** For every codec that round-trips the definitions (`load (dump v) = v` — the assumption about PyYAML
that the correspondence check exercises), the result of a calibration reports exactly the sections and matching sections
that were passed in, and carries `trans_att` as a coordinate. -/
theorem C17_travel_calibrate (cd : Codec V S) (hc : ∀ v, cd.load (cd.dump v) = v) (inp : Dataset S C)
    (sections matching : V) (ta : C) :
    getSections cd (calibrate cd inp sections matching ta) = some sections ∧
    getMatching cd (calibrate cd inp sections matching ta) = some matching ∧
    (calibrate cd inp sections matching ta).coord .transAtt = some ta := by
  refine ⟨?_, ?_, ?_⟩
  · unfold getSections calibrate
    rw [attr_setAttr_other _ _ _ _ (by decide), attr_setAttr_same]; simp [hc]
  · unfold getMatching calibrate
    rw [attr_setAttr_same]; simp [hc]
  · simp [calibrate, Dataset.coord, Dataset.setAttr]

/-- **C17 (travel through Monte Carlo).** The Monte Carlo result fed with a calibration result reports the same
definitions again. -/
theorem C17_travel_monte_carlo (cd : Codec V S) (hc : ∀ v, cd.load (cd.dump v) = v) (inp inp2 : Dataset S C)
    (sections matching dflt : V) (ta dfltC : C) :
    getSections cd (monteCarlo cd inp2 (calibrate cd inp sections matching ta) dflt dfltC) = some sections ∧
    getMatching cd (monteCarlo cd inp2 (calibrate cd inp sections matching ta) dflt dfltC) = some matching ∧
    (monteCarlo cd inp2 (calibrate cd inp sections matching ta) dflt dfltC).coord .transAtt = some ta := by
  obtain ⟨h1, h2, h3⟩ := C17_travel_calibrate cd hc inp sections matching ta
  refine ⟨?_, ?_, ?_⟩
  · unfold getSections monteCarlo
    rw [attr_setAttr_other _ _ _ _ (by decide), attr_setAttr_same, h1]; simp [hc]
  · unfold getMatching monteCarlo
    rw [attr_setAttr_same, h2]; simp [hc]
  · unfold monteCarlo
    simp only [Dataset.setAttr]
    rw [h3]
    simp [Dataset.coord]

/-- **C17 (storage).** Writing and re-opening keeps the definitions. -/
theorem C17_storage_roundtrip (cd : Codec V S) (d : Dataset S C) :
    getSections cd (store d) = getSections cd d ∧ getMatching cd (store d) = getMatching cd d ∧
    ∀ k, (store d).coord k = d.coord k := ⟨rfl, rfl, fun _ => rfl⟩

end DtsVerif.C17
