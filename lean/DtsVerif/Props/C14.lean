import DtsVerif.Lemmas.Shift
/-!
# C14 — cable shift moves only the backward channel, by exactly the requested samples
-/
namespace DtsVerif.C14
open DtsVerif.Shift DtsVerif.Py

variable {α : Type}

/-- **C14 (length).** `nx − |i|` locations remain in both kinds of arrays. -/
theorem C14_length (fwd bwd : List α) (hlen : bwd.length = fwd.length) (i : Int)
    (hi : i.natAbs ≤ fwd.length) :
    (shift fwd bwd i).1.length = fwd.length - i.natAbs ∧ (shift fwd bwd i).2.length = fwd.length - i.natAbs := by
  by_cases hneg : i < 0
  · obtain ⟨k, rfl⟩ : ∃ k : Nat, i = -(k : Int) := ⟨i.natAbs, by omega⟩
    have hk : 0 < k := by omega
    have hk' : k ≤ fwd.length := by simpa using hi
    rw [shift_neg fwd bwd k hk hk']
    simp only [List.length_take, List.length_drop, Int.natAbs_neg, Int.natAbs_natCast]
    omega
  · obtain ⟨k, rfl⟩ : ∃ k : Nat, i = (k : Int) := ⟨i.toNat, by omega⟩
    have hk' : k ≤ fwd.length := by simpa using hi
    rw [shift_nonneg fwd bwd k hk' hlen]
    simp only [List.length_take, List.length_drop, Int.natAbs_natCast]
    constructor
    · trivial
    · omega

/-- **C14 (pairing, i ≥ 0).** Output location `j` pairs forward sample `j + i` (which keeps its own `x`) with backward
sample `j`. -/
theorem C14_pairing_nonneg (fwd bwd : List α) (hlen : bwd.length = fwd.length) (k : Nat) (hk : k ≤ fwd.length)
    (j : Nat) (hj : j < fwd.length - k) :
    (shift fwd bwd (k : Int)).1[j]? = fwd[j + k]? ∧ (shift fwd bwd (k : Int)).2[j]? = bwd[j]? := by
  rw [shift_nonneg fwd bwd k hk hlen]
  simp only [List.getElem?_drop, List.getElem?_take]
  constructor
  · rw [Nat.add_comm]
  · simp [hj]

/-- **C14 (pairing, i < 0).** Output location `j` pairs forward sample `j` with backward sample `j − i`. -/
theorem C14_pairing_neg (fwd bwd : List α) (k : Nat) (hk : 0 < k) (hk' : k ≤ fwd.length)
    (j : Nat) (hj : j < fwd.length - k) :
    (shift fwd bwd (-(k : Int))).1[j]? = fwd[j]? ∧ (shift fwd bwd (-(k : Int))).2[j]? = bwd[j + k]? := by
  rw [shift_neg fwd bwd k hk hk']
  simp only [List.getElem?_drop, List.getElem?_take]
  constructor
  · simp [hj]
  · rw [Nat.add_comm]

/-- **C14 (identity).** A zero shift changes nothing. -/
theorem C14_zero_identity (fwd bwd : List α) (hlen : bwd.length = fwd.length) :
    shift fwd bwd 0 = (fwd, bwd) := by
  have := shift_nonneg fwd bwd 0 (Nat.zero_le _) hlen
  simp only [Int.natCast_zero, List.drop_zero, Nat.sub_zero] at this
  rw [this, ← hlen, List.take_length]

/-- **C14 (composition, positive shifts).** Shifting by `a` and then by `b` equals shifting by `a + b`. -/
theorem C14_compose_nonneg (fwd bwd : List α) (hlen : bwd.length = fwd.length) (a b : Nat)
    (hab : a + b ≤ fwd.length) :
    shift (shift fwd bwd (a : Int)).1 (shift fwd bwd (a : Int)).2 (b : Int) = shift fwd bwd ((a + b : Nat) : Int) := by
  rw [shift_nonneg fwd bwd a (by omega) hlen, shift_nonneg fwd bwd (a + b) hab hlen]
  rw [shift_nonneg _ _ b (by simp; omega) (by simp; omega)]
  simp only [List.drop_drop, List.length_drop, List.take_take]
  congr 2
  omega

/-- **C14 (composition, negative shifts).** -/
theorem C14_compose_neg (fwd bwd : List α) (hlen : bwd.length = fwd.length) (a b : Nat) (ha : 0 < a) (hb : 0 < b)
    (hab : a + b ≤ fwd.length) :
    shift (shift fwd bwd (-(a : Int))).1 (shift fwd bwd (-(a : Int))).2 (-(b : Int))
      = shift fwd bwd (-((a + b : Nat) : Int)) := by
  rw [shift_neg fwd bwd a ha (by omega), shift_neg fwd bwd (a + b) (by omega) hab]
  rw [shift_neg _ _ b hb (by simp; omega)]
  simp only [List.drop_drop, List.length_take, List.take_take]
  congr 2
  omega

/-- **C14 (inverse on the interior).** Shifting by `k` and then by `−k` returns the original samples `k … nx−k−1` of
every array. -/
theorem C14_inverse_interior (fwd bwd : List α) (hlen : bwd.length = fwd.length) (k : Nat) (hk : 0 < k)
    (h2k : 2 * k ≤ fwd.length) :
    shift (shift fwd bwd (k : Int)).1 (shift fwd bwd (k : Int)).2 (-(k : Int))
      = ((fwd.drop k).take (fwd.length - 2 * k), (bwd.drop k).take (fwd.length - 2 * k)) := by
  rw [shift_nonneg fwd bwd k (by omega) hlen]
  rw [shift_neg _ _ k hk (by simp; omega)]
  simp only [List.length_drop]
  congr 1
  · congr 1; omega
  · rw [List.drop_take]; congr 1; omega

/-- **C14 (suggestion is a candidate).** Both suggested shifts are members of `irange`. -/
theorem C14_suggest_member (x : List Rat) (iF iB : List (List Rat)) (irange : List Int) (hne : irange ≠ []) :
    (suggest x iF iB irange).ishift1 ∈ irange ∧ (suggest x iF iB irange).ishift2 ∈ irange := by
  have key : ∀ (e : List Rat), e.length = irange.length → irange.getD (argminFirst e) 0 ∈ irange := by
    intro e hl
    have h := argminFirst_lt e (by intro h; subst h; simp at hl; exact hne (List.eq_nil_of_length_eq_zero hl.symm))
    rw [hl] at h
    rw [List.getD_eq_getElem?_getD, List.getElem?_eq_getElem h]
    exact List.getElem_mem _
  unfold suggest
  exact ⟨key _ (by simp), key _ (by simp)⟩

/-- **C14 (planted shift, conditional).** If the objective of candidate number `p` is strictly below that of every other
candidate, the suggestion is candidate `p`. (That a planted misalignment makes the objective strictly minimal at `−i` is
a numerical fact about the data, observed by the correspondence check.) -/
theorem C14_argmin_unique (e : List Rat) (p : Nat) (hp : p < e.length)
    (hmin : ∀ k (hk : k < e.length), k ≠ p → e[p] < e[k]) : argminFirst e = p := by
  have hne : e ≠ [] := by intro h; subst h; simp at hp
  have hlt := argminFirst_lt e hne
  obtain ⟨h1, _⟩ := argminFirst_spec e hne
  by_cases h : argminFirst e = p
  · exact h
  · exfalso
    have a := hmin (argminFirst e) hlt h
    have b := h1 p hp
    rw [List.getD_eq_getElem?_getD, List.getElem?_eq_getElem hlt] at b
    simp only [Option.getD_some] at b
    exact absurd a (Rat.not_lt.mpr b)

/-! ### Non-vacuity -/
example : shift [10, 11, 12, 13, 14] [20, 21, 22, 23, 24] 2 = ([12, 13, 14], [20, 21, 22]) := by decide
example : shift [10, 11, 12, 13, 14] [20, 21, 22, 23, 24] (-2) = ([10, 11, 12], [22, 23, 24]) := by decide
example : argminFirst [3, 1, 2, 1] = 1 := by decide +kernel

end DtsVerif.C14
