import DtsVerif.Model.Calib
import Mathlib.Data.Fintype.Sum
import Mathlib.Data.Fintype.Prod
import Mathlib.Data.Fintype.Card
import Mathlib.Data.Fintype.BigOperators
import Mathlib.Tactic.Ring
import Mathlib.Tactic.Linarith
/-!
# C04 — temperature, named parameters, p_val and p_cov of a result agree with each other
Layout part: the documented index blocks are disjoint, in the documented order and cover `[0, npar)`, for **all**
`nt, nx, nta`.
-/
namespace DtsVerif.C04
open DtsVerif.Calib

/-! ## Double-ended layout `[γ | df | db | A | τF_0 τB_0 | τF_1 τB_1 | …]` -/

/-- the parameters of a double-ended calibration -/
abbrev ParamD (nt N nta : Nat) := Unit ⊕ Fin nt ⊕ Fin nt ⊕ Fin N ⊕ (Fin nta × Fin 2 × Fin nt)

def nparD (nt N nta : Nat) : Nat := 1 + 2 * nt + N + 2 * nt * nta

/-- documented position of each parameter (same closed forms as `Calib.Input.col*`) -/
def indexD (nt N nta : Nat) : ParamD nt N nta → Nat
  | .inl _ => 0
  | .inr (.inl j) => 1 + j
  | .inr (.inr (.inl j)) => 1 + nt + j
  | .inr (.inr (.inr (.inl i))) => 1 + 2 * nt + i
  | .inr (.inr (.inr (.inr (a, d, j)))) => 1 + 2 * nt + N + j + nt * d + 2 * nt * a

theorem ta_lt (nt nta : Nat) (a : Fin nta) (d : Fin 2) (j : Fin nt) :
    (j : Nat) + nt * d + 2 * nt * a < 2 * nt * nta := by
  have hd : (d : Nat) ≤ 1 := by omega
  have h1 : nt * (d : Nat) ≤ nt := by nlinarith
  have h2 : 2 * nt * ((a : Nat) + 1) ≤ 2 * nt * nta := Nat.mul_le_mul_left _ (by omega)
  have h3 : 2 * nt * ((a : Nat) + 1) = 2 * nt * a + 2 * nt := by ring
  omega

theorem indexD_lt (nt N nta : Nat) (p : ParamD nt N nta) : indexD nt N nta p < nparD nt N nta := by
  unfold nparD
  rcases p with _ | j | j | i | ⟨a, d, j⟩ <;> simp only [indexD]
  · omega
  · omega
  · omega
  · omega
  · have := ta_lt nt nta a d j; omega

theorem ta_inj (nt : Nat) (a a' d d' j j' : Nat) (hd : d < 2) (hd' : d' < 2) (hj : j < nt) (hj' : j' < nt)
    (h : j + nt * d + 2 * nt * a = j' + nt * d' + 2 * nt * a') : a = a' ∧ d = d' ∧ j = j' := by
  have hu : j + nt * d < 2 * nt := by
    have : nt * d ≤ nt := by nlinarith
    omega
  have hu' : j' + nt * d' < 2 * nt := by
    have : nt * d' ≤ nt := by nlinarith
    omega
  have hpos : 0 < 2 * nt := by omega
  have ha : a = a' := by
    have e1 : (j + nt * d + 2 * nt * a) / (2 * nt) = a := by
      rw [Nat.add_mul_div_left _ _ hpos, Nat.div_eq_of_lt hu]; simp
    have e2 : (j' + nt * d' + 2 * nt * a') / (2 * nt) = a' := by
      rw [Nat.add_mul_div_left _ _ hpos, Nat.div_eq_of_lt hu']; simp
    rw [h] at e1; omega
  subst ha
  have h' : j + nt * d = j' + nt * d' := by omega
  have hdd : d = d' := by
    rcases Nat.lt_or_ge d d' with hlt | hge
    · have : d = 0 ∧ d' = 1 := by omega
      obtain ⟨rfl, rfl⟩ := this; simp at h'; omega
    · rcases Nat.lt_or_ge d' d with hlt | hge'
      · have : d' = 0 ∧ d = 1 := by omega
        obtain ⟨rfl, rfl⟩ := this; simp at h'; omega
      · omega
  subst hdd
  exact ⟨rfl, rfl, by omega⟩

theorem indexD_injective (nt N nta : Nat) : Function.Injective (indexD nt N nta) := by
  intro p q h
  rcases p with _ | j | j | i | ⟨a, d, j⟩ <;> rcases q with _ | j' | j' | i' | ⟨a', d', j'⟩ <;>
    simp only [indexD] at h
  all_goals first
    | rfl
    | (exfalso; omega)
    | (congr 1; ext; omega)
    | (congr 2; ext; omega)
    | (congr 3; ext; omega)
    | (congr 4; ext; omega)
    | skip
  have := ta_inj nt a a' d d' j j' d.isLt d'.isLt j.isLt j'.isLt (by omega)
  obtain ⟨h1, h2, h3⟩ := this
  have ea : a = a' := Fin.ext h1
  have ed : d = d' := Fin.ext h2
  have ej : j = j' := Fin.ext h3
  subst ea; subst ed; subst ej; rfl

theorem card_ParamD (nt N nta : Nat) : Fintype.card (ParamD nt N nta) = nparD nt N nta := by
  simp only [Fintype.card_sum, Fintype.card_prod, Fintype.card_fin, Fintype.card_unit, nparD]
  ring

/-- **C04 (double-ended layout).** Every parameter has exactly one slot and every slot `0 … npar−1` holds exactly one
parameter, in the documented order `γ | df | db | α | splice losses`, for all `nt`, `nx`, `nta`. -/
theorem C04_layout_partition_double (nt N nta : Nat) :
    Function.Bijective (fun p : ParamD nt N nta => (⟨indexD nt N nta p, indexD_lt nt N nta p⟩ : Fin (nparD nt N nta))) := by
  rw [Fintype.bijective_iff_injective_and_card]
  refine ⟨?_, by rw [card_ParamD, Fintype.card_fin]⟩
  intro p q h
  exact indexD_injective nt N nta (by simpa using congrArg Fin.val h)

/-- the model's column functions are these documented positions -/
theorem C04_model_columns_double (inp : Input) (hd : inp.doubleEnded = true) (a d j i : Nat) :
    Input.colGamma = 0 ∧ Input.colDf j = 1 + j ∧ inp.colDb j = 1 + inp.nt + j ∧ inp.colA i = 1 + 2 * inp.nt + i ∧
    inp.colTaD a d j = 1 + 2 * inp.nt + inp.N + DtsVerif.Py.posF3 inp.nt 2 j d a ∧ inp.npar = nparD inp.nt inp.N inp.nta := by
  refine ⟨rfl, rfl, rfl, by simp [Input.colA, hd], ?_, by simp [Input.npar, hd, nparD]⟩
  unfold Input.colTaD DtsVerif.Py.posF3; ring

/-! ## Single-ended layout `[γ | Δα | c | τ_0 | τ_1 | …]` -/

abbrev ParamS (nt nta : Nat) := Unit ⊕ Unit ⊕ Fin nt ⊕ (Fin nta × Fin nt)
def nparS (nt nta : Nat) : Nat := 2 + nt + nt * nta

def indexS (nt nta : Nat) : ParamS nt nta → Nat
  | .inl _ => 0
  | .inr (.inl _) => 1
  | .inr (.inr (.inl j)) => 2 + j
  | .inr (.inr (.inr (a, j))) => 2 + nt + a * nt + j

theorem indexS_lt (nt nta : Nat) (p : ParamS nt nta) : indexS nt nta p < nparS nt nta := by
  unfold nparS
  rcases p with _ | _ | j | ⟨a, j⟩ <;> simp only [indexS]
  · omega
  · omega
  · omega
  · have h2 : ((a : Nat) + 1) * nt ≤ nta * nt := Nat.mul_le_mul_right _ (by omega)
    have h3 : ((a : Nat) + 1) * nt = a * nt + nt := by ring
    have h4 : nta * nt = nt * nta := Nat.mul_comm _ _
    omega

theorem indexS_injective (nt nta : Nat) : Function.Injective (indexS nt nta) := by
  intro p q h
  rcases p with _ | _ | j | ⟨a, j⟩ <;> rcases q with _ | _ | j' | ⟨a', j'⟩ <;>
    simp only [indexS] at h
  all_goals first
    | rfl
    | (exfalso; omega)
    | (congr 1; ext; omega)
    | (congr 2; ext; omega)
    | (congr 3; ext; omega)
    | skip
  have hj := j.isLt; have hj' := j'.isLt
  have hpos : 0 < nt := by omega
  have h' : (j : Nat) + nt * a = j' + nt * a' := by
    have e1 : (a : Nat) * nt = nt * a := Nat.mul_comm _ _
    have e2 : (a' : Nat) * nt = nt * a' := Nat.mul_comm _ _
    omega
  have ha : (a : Nat) = a' := by
    have e1 : ((j : Nat) + nt * a) / nt = a := by
      rw [Nat.add_mul_div_left _ _ hpos, Nat.div_eq_of_lt hj]; simp
    have e2 : ((j' : Nat) + nt * a') / nt = a' := by
      rw [Nat.add_mul_div_left _ _ hpos, Nat.div_eq_of_lt hj']; simp
    rw [h'] at e1; omega
  have ea : a = a' := Fin.ext ha
  subst ea
  have ej : j = j' := Fin.ext (by omega)
  subst ej; rfl

/-- **C04 (single-ended layout).** `γ | Δα | c(t) | splice losses` is a bijection onto `0 … npar−1` for all sizes. -/
theorem C04_layout_partition_single (nt nta : Nat) :
    Function.Bijective (fun p : ParamS nt nta => (⟨indexS nt nta p, indexS_lt nt nta p⟩ : Fin (nparS nt nta))) := by
  rw [Fintype.bijective_iff_injective_and_card]
  refine ⟨?_, ?_⟩
  · intro p q h
    exact indexS_injective nt nta (by simpa using congrArg Fin.val h)
  · have hc : Fintype.card (ParamS nt nta) = nparS nt nta := by
      simp only [Fintype.card_sum, Fintype.card_prod, Fintype.card_fin, Fintype.card_unit, nparS]; ring
    rw [hc, Fintype.card_fin]

theorem C04_model_columns_single (inp : Input) (hd : inp.doubleEnded = false) (hf : inp.fixAlpha = none) (a j : Nat) :
    Input.colGamma = 0 ∧ Input.colDalpha = 1 ∧ inp.colC j = 2 + j ∧ inp.colTa a j = 2 + inp.nt + a * inp.nt + j ∧
    inp.npar = nparS inp.nt inp.nta := by
  have hm : inp.alphaMode = false := by simp [Input.alphaMode, hd, hf]
  refine ⟨rfl, rfl, by simp [Input.colC, hm], by simp [Input.colTa, hm], by simp [Input.npar, hd, hm, nparS]⟩

/-! ## Temperature equation -/

/-- **C04 (tmpf is the model equation at the reported parameters)**, double-ended: `γ / (I_F + df + α + TA_F) − 273.15`
with the forward splice losses acting on `x ≥ splice`. -/
theorem C04_tmpf_equation_double (inp : Input) (hd : inp.doubleEnded = true) (p : Array Rat) (i j : Nat) :
    tmpf inp p i j =
      p.getD 0 0 / (inp.iF.at i j + (p.getD (1 + j) 0 + p.getD (1 + 2 * inp.nt + i) 0)
        + upstreamSum inp i (fun a => p.getD (inp.colTaD a 0 j) 0) true) - inp.c273 := by
  simp [tmpf, hd, Input.colGamma, Input.colDf, Input.colA]

theorem C04_tmpb_equation (inp : Input) (hd : inp.doubleEnded = true) (p : Array Rat) (i j : Nat) :
    tmpb inp p i j =
      p.getD 0 0 / (inp.iB.at i j + p.getD (1 + inp.nt + j) 0 - p.getD (1 + 2 * inp.nt + i) 0
        + upstreamSum inp i (fun a => p.getD (inp.colTaD a 1 j) 0) false) - inp.c273 := by
  simp [tmpb, hd, Input.colGamma, Input.colDb, Input.colA]

/-- the forward loss of splice `a` applies exactly to the locations with `x ≥ s_a`, the backward loss to `x < s_a` -/
theorem C04_splice_mask (inp : Input) (i : Nat) (f : Nat → Rat) (down : Bool) :
    upstreamSum inp i f down =
      (List.range inp.nta).foldl (fun acc a =>
        if decide (inp.xAt i ≥ inp.trans.getD a 0) == down then acc + f a else acc) 0 := rfl

end DtsVerif.C04
