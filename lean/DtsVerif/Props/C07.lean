import DtsVerif.Props.C01
import DtsVerif.Props.ScatterOrder
import DtsVerif.Props.ObsSpec
import Mathlib.Tactic.Positivity
import Mathlib.Tactic.FieldSimp
/-!
# C07 — fixed parameters are honoured and their uncertainty enters the fit correctly
-/
namespace DtsVerif.C07
open DtsVerif.Wls DtsVerif.Calib DtsVerif.Theory DtsVerif.ObsSpec
set_option linter.unusedSimpArgs false

/-- **C07 (reported as supplied).** value, variance and zero covariances of a fixed parameter -/
theorem C07_fixed_reported (inp : Input) (res : Result) (h : calibrate inp = some res)
    (c : Nat) (hc : c < inp.npar) (a va : Rat) (hf : inp.fixedCol c = some (a, va)) :
    res.pVal.getD c 0 = a ∧ res.pVar.getD c 0 = va ∧
    ∀ d, d < inp.npar → d ≠ c → (res.pCov.getD c #[]).getD d 0 = 0 :=
  DtsVerif.C01.C01_fixed_reported inp res h c hc a va hf

/-- **C07 (reduced problem).** Holding parameters fixed, the objective in the remaining ones is the objective of the
problem whose observations are `y − X_f p_f`. -/
theorem C07_reduction {K m n f : Type} [Field K] [LinearOrder K] [IsStrictOrderedRing K] [Fintype m] [Fintype n] [Fintype f]
    (X₁ : Matrix m n K) (Xf : Matrix m f K) (y w : m → K) (p₁ : n → K) (pf : f → K) :
    wssr (Matrix.fromCols X₁ Xf) y w (Sum.elim p₁ pf) = wssr X₁ (y - Xf.mulVec pf) w p₁ :=
  wssr_fixed_reduction X₁ Xf y w p₁ pf

/-- a fixed parameter never stays an unknown of the fit -/
theorem C07_fixed_not_active (inp : Input) (c : Nat) (a va : Rat) (hf : inp.fixedCol c = some (a, va)) :
    ¬ c ∈ inp.activeCols := by
  unfold Input.activeCols
  simp [hf]

/-- the Spec's inflated variance `v + x² · v_f` and weight -/
def inflatedVar (v x vf : ℚ) : ℚ := v + x * x * vf

/-- **C07 (weights stay positive and finite).** For a positive measurement variance and ANY non-negative variance of the
fixed parameter the inflated variance is positive, so the weight `1/variance` is positive, finite and not larger than
the original weight. (The code's former update `1/(1/w + v_f·x)` could be negative or infinite for `x < 0`.) -/
theorem C07_weights_positive_spec (v x vf : ℚ) (hv : 0 < v) (hvf : 0 ≤ vf) :
    0 < inflatedVar v x vf ∧ 0 < 1 / inflatedVar v x vf ∧ 1 / inflatedVar v x vf ≤ 1 / v := by
  have hx : 0 ≤ x * x * vf := mul_nonneg (mul_self_nonneg x) hvf
  have hpos : 0 < inflatedVar v x vf := by unfold inflatedVar; linarith
  refine ⟨hpos, by positivity, ?_⟩
  apply one_div_le_one_div_of_le hv
  unfold inflatedVar; linarith

/-- `reduceObs` implements exactly that rule: one fixed coefficient -/
theorem C07_reduceObs_single (inp : Input) (col : Nat) (cf y v a va : Rat) (hf : inp.fixedCol col = some (a, va)) :
    (inp.reduceObs ⟨[(col, cf)], y, v⟩).c = [] ∧ (inp.reduceObs ⟨[(col, cf)], y, v⟩).y = y - cf * a ∧
    (inp.reduceObs ⟨[(col, cf)], y, v⟩).w = roundDyadic inp.wbits (1 / inflatedVar v cf va) := by
  unfold Input.reduceObs inflatedVar
  simp [hf]

/-- non-vacuity: the sign for which the old update failed -/
example : 0 < 1 / inflatedVar 1 (-3) 2 := by norm_num [inflatedVar]

/-! ## The model's reduction of an observation is the Spec's `redY` / `redW` -/

/-- the fixed part of an observation: (coefficient, supplied value, supplied variance) of every fixed parameter it involves -/
def fixedPart (inp : Input) (o : Input.Obs) : List (Rat × Rat × Rat) :=
  o.c.filterMap fun cv => (inp.fixedCol cv.1).map fun av => (cv.2, av.1, av.2)

/-- the free part: the coefficients that stay unknowns -/
def freePart (inp : Input) (o : Input.Obs) : List (Nat × Rat) :=
  o.c.filter fun cv => (inp.fixedCol cv.1).isNone

theorem reduce_fold (inp : Input) (f : List (Nat × Rat) × Rat × Rat → Nat × Rat → List (Nat × Rat) × Rat × Rat)
    (hsome : ∀ acc cv a va, inp.fixedCol cv.1 = some (a, va) → f acc cv = (acc.1, acc.2.1 - cv.2 * a, acc.2.2 + cv.2 * cv.2 * va))
    (hnone : ∀ acc cv, inp.fixedCol cv.1 = none → f acc cv = (acc.1 ++ [cv], acc.2.1, acc.2.2))
    (l : List (Nat × Rat)) (acc : List (Nat × Rat) × Rat × Rat) :
    l.foldl f acc
    = (acc.1 ++ l.filter (fun cv => (inp.fixedCol cv.1).isNone),
       acc.2.1 - ((l.filterMap fun cv => (inp.fixedCol cv.1).map fun av => (cv.2, av.1, av.2)).map fun t => t.1 * t.2.1).sum,
       acc.2.2 + ((l.filterMap fun cv => (inp.fixedCol cv.1).map fun av => (cv.2, av.1, av.2)).map fun t => t.1 ^ 2 * t.2.2).sum) := by
  induction l generalizing acc with
  | nil => simp
  | cons cv l ih =>
    rw [List.foldl_cons, ih]
    cases h : inp.fixedCol cv.1 with
    | none =>
      rw [hnone acc cv h]
      simp [h, List.filter_cons, List.filterMap_cons]
    | some av =>
      obtain ⟨a, va⟩ := av
      rw [hsome acc cv a va h]
      simp only [h, List.filter_cons, List.filterMap_cons, Option.isNone_some, Option.map_some, List.map_cons, List.sum_cons]
      refine Prod.ext (by simp) (Prod.ext ?_ ?_)
      · simp only; ring
      · simp only; ring

/-- **C07 (the model's reduction is the Spec's).** Moving the fixed parameters of an observation over gives: the free coefficients
unchanged and in order, the value `ObsSpec.redY`, and the weight `ObsSpec.redW` of the observation's own weight `1/v` (rounded to
the model's working precision) — the same `redY` / `redW` that the translator proves the source's statements to be. -/
theorem C07_reduceObs_is_spec (inp : Input) (o : Input.Obs) (hv : o.v ≠ 0) :
    (inp.reduceObs o).c = freePart inp o ∧
    (inp.reduceObs o).y = redY o.y ((fixedPart inp o).map fun t => (t.1, t.2.1)) ∧
    (inp.reduceObs o).w = roundDyadic inp.wbits (redW (1 / o.v) ((fixedPart inp o).map fun t => (t.1, t.2.2))) := by
  unfold Input.reduceObs
  rw [reduce_fold inp _ (by intro acc cv a va h; simp [h]) (by intro acc cv h; simp [h])]
  refine ⟨by simp [freePart], ?_, ?_⟩
  · simp only [redY, fixedPart, List.map_map]
    congr 2
  · simp only [fixedPart, List.map_map]
    rw [redW_eq_inv_inflated o.v _ hv]
    simp only [List.map_map]
    congr 4

end DtsVerif.C07
