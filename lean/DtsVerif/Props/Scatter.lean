import DtsVerif.Model.Scatter
import DtsVerif.Model.Calib
import DtsVerif.Lemmas.NumpyIdx
import DtsVerif.Lemmas.Scatter
/-!
# Every unknown of the double-ended fit lands at the documented position of the parameter it is (C02, C04), for every size

`from_i` of `calibrate_double_ended_solver` and of the fixed-parameter branches of the helper (`Model/Scatter.lean`, tied to the
source by the translator section `scatter`).  The solver's column order is `[γ | df | db | A at ixE | per splice: forward losses,
backward losses]` (`sp.hstack((Z_gamma, -Z_D, Zero_d, -E, Z_TA_fw))`, `Props/Design.lean`).
-/
namespace DtsVerif.C02
open DtsVerif.Scatter DtsVerif.Calib DtsVerif.Calib.Input DtsVerif.Py

theorem scatter_solver_length (nt N nta : Nat) (ixE : List Nat) :
    (fromISolver nt N nta ixE).length = 1 + 2 * nt + ixE.length + nta * nt * 2 := by
  simp [fromISolver]; omega

/-- γ, df, db keep their positions -/
theorem scatter_solver_head (nt N nta : Nat) (ixE : List Nat) (k : Nat) (h : k < 1 + 2 * nt) :
    (fromISolver nt N nta ixE)[k]? = some k := by
  unfold fromISolver
  rw [List.append_assoc, List.getElem?_append_left (by simpa using h)]
  have := getElem?_arange 0 (1 + 2 * nt) k (by simpa using h)
  simpa using this

/-- the `q`-th attenuation unknown is `A` at location `ixE[q]`: position `1 + 2nt + ixE[q]` -/
theorem scatter_solver_alpha (nt N nta : Nat) (ixE : List Nat) (q : Nat) (h : q < ixE.length) :
    (fromISolver nt N nta ixE)[1 + 2 * nt + q]? = some (1 + 2 * nt + ixE[q]) := by
  unfold fromISolver
  rw [List.append_assoc, List.getElem?_append_right (by simp)]
  simp only [length_arange, Nat.sub_zero, Nat.add_sub_cancel_left]
  rw [List.getElem?_append_left (by simpa using h)]
  simp [h]

/-- the `t`-th splice unknown (`t = a·2nt + d·nt + j`) goes to position `1 + 2nt + N + t` -/
theorem scatter_solver_ta (nt N nta : Nat) (ixE : List Nat) (t : Nat) (h : t < nta * nt * 2) :
    (fromISolver nt N nta ixE)[1 + 2 * nt + ixE.length + t]? = some (1 + 2 * nt + N + t) := by
  unfold fromISolver
  rw [List.getElem?_append_right (by simp)]
  simp only [List.length_append, length_arange, List.length_map, Nat.sub_zero]
  have : 1 + 2 * nt + ixE.length + t - (1 + 2 * nt + ixE.length) = t := by omega
  rw [this]
  exact getElem?_arange _ _ t (by omega)

/-- those positions are the documented slots of the model's layout -/
theorem scatter_positions_are_layout (inp : Input) (hd : inp.doubleEnded = true) (i a d j : Nat) :
    colGamma = 0 ∧ colDf j = 1 + j ∧ inp.colDb j = 1 + inp.nt + j ∧ inp.colA i = 1 + 2 * inp.nt + i ∧
    inp.colTaD a d j = 1 + 2 * inp.nt + inp.N + (a * (2 * inp.nt) + d * inp.nt + j) := by
  refine ⟨rfl, rfl, rfl, by simp [colA, hd], ?_⟩
  unfold colTaD
  rw [Nat.mul_comm a, Nat.mul_comm d]
  omega

theorem mem_fromISolver (nt N nta : Nat) (ixE : List Nat) (c : Nat) :
    c ∈ fromISolver nt N nta ixE ↔
      c < 1 + 2 * nt ∨ (∃ i ∈ ixE, c = 1 + 2 * nt + i) ∨ (1 + 2 * nt + N ≤ c ∧ c < 1 + 2 * nt + N + nta * nt * 2) := by
  unfold fromISolver arange
  simp only [List.mem_append, List.mem_map, List.mem_range]
  constructor
  · rintro ((⟨k, hk, rfl⟩ | ⟨i, hi, rfl⟩) | ⟨k, hk, rfl⟩)
    · left; omega
    · right; left; exact ⟨i, hi, rfl⟩
    · right; right; omega
  · rintro (h | ⟨i, hi, rfl⟩ | ⟨h1, h2⟩)
    · left; left; exact ⟨c, by omega, by omega⟩
    · left; right; exact ⟨i, hi, rfl⟩
    · right; exact ⟨c - (1 + 2 * nt + N), by omega, by omega⟩

theorem calMatch_lt (inp : Input) (i : Nat) (h : i ∈ inp.calMatch) : i < inp.N := by
  unfold calMatch at h
  simp only [List.mem_filter, List.mem_range] at h
  exact h.1.1

/-- **the solver scatters onto exactly the model's unknowns**: with nothing fixed, a full-layout position receives an entry of the
reduced covariance iff the model counts that parameter among the unknowns of the fit (`activeCols`) — γ, every `df_j`, `db_j`, `A` at
the reference/matched locations except the first reference location, every splice loss -/
theorem scatter_solver_mem_activeCols (inp : Input) (hd : inp.doubleEnded = true) (hg : inp.fixGamma = none)
    (ha : inp.fixAlpha = none) (c : Nat) :
    c ∈ fromISolver inp.nt inp.N inp.nta inp.calMatch ↔ c ∈ inp.activeCols := by
  rw [mem_fromISolver]
  unfold activeCols
  have hfix : ∀ col, inp.fixedCol col = none := by
    intro col
    unfold fixedCol
    simp [hg, ha, hd]
  have hnpar : inp.npar = 1 + 2 * inp.nt + inp.N + 2 * inp.nt * inp.nta := by simp [npar, hd]
  have hcolA : inp.colA 0 = 1 + 2 * inp.nt := by simp [colA, hd]
  simp only [List.mem_filter, List.mem_range, hfix, Option.isNone_none, Bool.true_and, hd, if_true, hcolA, hnpar]
  have hmul : inp.nta * inp.nt * 2 = 2 * inp.nt * inp.nta := by
    rw [Nat.mul_comm inp.nta, Nat.mul_comm (inp.nt * inp.nta), Nat.mul_assoc]
  rw [hmul]
  constructor
  · rintro (h | ⟨i, hi, rfl⟩ | ⟨h1, h2⟩)
    · refine ⟨by omega, ?_⟩
      have : ¬ (1 + 2 * inp.nt ≤ c) := by omega
      simp [this]
    · have hiN := calMatch_lt inp i hi
      refine ⟨by omega, ?_⟩
      have h1 : 1 + 2 * inp.nt ≤ 1 + 2 * inp.nt + i := by omega
      have h2 : 1 + 2 * inp.nt + i < 1 + 2 * inp.nt + inp.N := by omega
      simp [h1, h2, hi]
    · refine ⟨h2, ?_⟩
      have : ¬ (c < 1 + 2 * inp.nt + inp.N) := by omega
      simp [this]
  · rintro ⟨hlt, hcond⟩
    by_cases h1 : c < 1 + 2 * inp.nt
    · left; exact h1
    · by_cases h2 : c < 1 + 2 * inp.nt + inp.N
      · right; left
        have h1' : 1 + 2 * inp.nt ≤ c := by omega
        simp [h1', h2] at hcond
        exact ⟨c - (1 + 2 * inp.nt), hcond, by omega⟩
      · right; right; omega

/-! ### the fixed-parameter branches of the helper -/
theorem mem_fromIFixGamma (nt N nta : Nat) (ixE : List Nat) (c : Nat) :
    c ∈ fromIFixGamma nt N nta ixE ↔
      (1 ≤ c ∧ c < 1 + 2 * nt) ∨ (∃ i ∈ ixE, c = 1 + 2 * nt + i) ∨ (1 + 2 * nt + N ≤ c ∧ c < 1 + 2 * nt + N + nta * nt * 2) := by
  unfold fromIFixGamma arange
  simp only [List.mem_append, List.mem_map, List.mem_range]
  constructor
  · rintro ((⟨k, hk, rfl⟩ | ⟨i, hi, rfl⟩) | ⟨k, hk, rfl⟩)
    · left; omega
    · right; left; exact ⟨i, hi, by omega⟩
    · right; right; omega
  · rintro (h | ⟨i, hi, rfl⟩ | ⟨h1, h2⟩)
    · left; left; exact ⟨c - 1, by omega, by omega⟩
    · left; right; exact ⟨i, hi, by omega⟩
    · right; exact ⟨c - (1 + 2 * nt + N), by omega, by omega⟩

/-- with `fix_gamma` the scatter vector is the solver's without position 0 (γ keeps the supplied variance, zero covariance) -/
theorem scatter_fix_gamma_skips_gamma (nt N nta : Nat) (ixE : List Nat) (c : Nat) :
    c ∈ fromIFixGamma nt N nta ixE ↔ (c ∈ fromISolver nt N nta ixE ∧ c ≠ 0) := by
  rw [mem_fromIFixGamma, mem_fromISolver]
  constructor
  · rintro (h | ⟨i, hi, rfl⟩ | h)
    · exact ⟨Or.inl h.2, by omega⟩
    · exact ⟨Or.inr (Or.inl ⟨i, hi, rfl⟩), by omega⟩
    · exact ⟨Or.inr (Or.inr h), by omega⟩
  · rintro ⟨(h | ⟨i, hi, rfl⟩ | h), h0⟩
    · exact Or.inl ⟨by omega, h⟩
    · exact Or.inr (Or.inl ⟨i, hi, rfl⟩)
    · exact Or.inr (Or.inr h)

/-- with `fix_alpha` no `A` position is written (every `A` keeps the supplied variance, zero covariance) … -/
theorem scatter_fix_alpha_skips_alpha (nt N nta : Nat) (c : Nat) :
    c ∈ fromIFixAlpha nt N nta ↔ (c < 1 + 2 * nt ∨ (1 + 2 * nt + N ≤ c ∧ c < 1 + 2 * nt + N + nta * nt * 2)) := by
  unfold fromIFixAlpha arange
  simp only [List.mem_append, List.mem_map, List.mem_range]
  constructor
  · rintro (⟨k, hk, rfl⟩ | ⟨k, hk, rfl⟩)
    · left; omega
    · right; omega
  · rintro (h | ⟨h1, h2⟩)
    · left; exact ⟨c, by omega, by omega⟩
    · right; exact ⟨c - (1 + 2 * nt + N), by omega, by omega⟩

/-- … and with both fixed neither γ nor any `A` -/
theorem scatter_fix_both (nt N nta : Nat) (c : Nat) :
    c ∈ fromIFixBoth nt N nta ↔ ((1 ≤ c ∧ c < 1 + 2 * nt) ∨ (1 + 2 * nt + N ≤ c ∧ c < 1 + 2 * nt + N + nta * nt * 2)) := by
  unfold fromIFixBoth arange
  simp only [List.mem_append, List.mem_map, List.mem_range]
  constructor
  · rintro (⟨k, hk, rfl⟩ | ⟨k, hk, rfl⟩)
    · left; omega
    · right; omega
  · rintro (h | ⟨h1, h2⟩)
    · left; exact ⟨c - 1, by omega, by omega⟩
    · right; exact ⟨c - (1 + 2 * nt + N), by omega, by omega⟩

/-- the fixed-parameter branches agree with the model's unknowns as well: `fix_alpha` + `fix_gamma` -/
theorem scatter_fix_both_mem_activeCols (inp : Input) (hd : inp.doubleEnded = true) (g : Rat × Rat) (hg : inp.fixGamma = some g)
    (av : Array Rat × Array Rat) (ha : inp.fixAlpha = some av) (c : Nat) :
    c ∈ fromIFixBoth inp.nt inp.N inp.nta ↔ c ∈ inp.activeCols := by
  rw [scatter_fix_both]
  unfold activeCols
  have hnpar : inp.npar = 1 + 2 * inp.nt + inp.N + 2 * inp.nt * inp.nta := by simp [npar, hd]
  have hcolA : inp.colA 0 = 1 + 2 * inp.nt := by simp [colA, hd]
  have hmul : inp.nta * inp.nt * 2 = 2 * inp.nt * inp.nta := by
    rw [Nat.mul_comm inp.nta, Nat.mul_comm (inp.nt * inp.nta), Nat.mul_assoc]
  rw [hmul]
  simp only [List.mem_filter, List.mem_range, hnpar, hd, if_true, hcolA]
  have hfix : ∀ col, (inp.fixedCol col).isNone = true ↔ (col ≠ 0 ∧ ¬ (1 + 2 * inp.nt ≤ col ∧ col < 1 + 2 * inp.nt + inp.N)) := by
    intro col
    unfold fixedCol
    by_cases h0 : col = 0
    · simp [h0, colGamma, hg]
    · simp only [colGamma, h0, if_false, hd, Bool.not_true, Bool.false_and, ha, hcolA]
      by_cases hr : 1 + 2 * inp.nt ≤ col ∧ col < 1 + 2 * inp.nt + inp.N
      · simp [hr.1, hr.2, h0]
      · have : ¬ ((decide (1 + 2 * inp.nt ≤ col) && decide (col < 1 + 2 * inp.nt + inp.N)) = true) := by simpa using hr
        simp [this, h0, hr]
  constructor
  · rintro (h | h)
    · refine ⟨by omega, ?_⟩
      rw [Bool.and_eq_true, hfix]
      refine ⟨⟨by omega, by omega⟩, ?_⟩
      have : ¬ (1 + 2 * inp.nt ≤ c) := by omega
      simp [this]
    · refine ⟨h.2, ?_⟩
      rw [Bool.and_eq_true, hfix]
      refine ⟨⟨by omega, by omega⟩, ?_⟩
      have : ¬ (c < 1 + 2 * inp.nt + inp.N) := by omega
      simp [this]
  · rintro ⟨hlt, hcond⟩
    rw [Bool.and_eq_true, hfix] at hcond
    obtain ⟨⟨h0, hr⟩, _⟩ := hcond
    by_cases h1 : c < 1 + 2 * inp.nt
    · left; omega
    · right; omega

end DtsVerif.C02

namespace DtsVerif.C07
open DtsVerif.Scatter DtsVerif.Calib DtsVerif.Calib.Input DtsVerif.Py

theorem mem_arange (lo hi c : Nat) : c ∈ arange lo hi ↔ lo ≤ c ∧ c < hi := by
  unfold arange
  simp only [List.mem_map, List.mem_range]
  constructor
  · rintro ⟨k, hk, rfl⟩; omega
  · rintro ⟨h1, h2⟩; exact ⟨c - lo, by omega, by omega⟩

theorem mem_ipUseS (am fg fa fd : Bool) (nt nx nta c : Nat) :
    c ∈ ipUseS am fg fa fd nt nx nta ↔
      c < (if am then 1 + nx + nt + nta * nt else 1 + 1 + nt + nta * nt) ∧
      ¬ (fg = true ∧ c = 0) ∧ ¬ (fa = true ∧ 1 ≤ c ∧ c < nx + 1) ∧ ¬ (fd = true ∧ c = 1) := by
  unfold ipUseS
  cases am <;> cases fg <;> cases fa <;> cases fd <;>
    simp [List.mem_filter, List.mem_range, mem_arange] <;> omega

/-- **single-ended: the solver's result is scattered onto exactly the model's unknowns**, for every combination of `fix_gamma`,
`fix_dalpha`, `fix_alpha` the API accepts and every size: a full-layout position receives the solved value / covariance iff the
model counts that parameter among the unknowns; every other position keeps the supplied value with its variance on the diagonal
and zero covariance (`C07_fixed_reported`) -/
theorem scatter_single_mem_activeCols (inp : Input) (hd : inp.doubleEnded = false)
    (hex : inp.fixAlpha.isSome = true → inp.fixDalpha = none) (c : Nat) :
    c ∈ ipUseS inp.fixAlpha.isSome inp.fixGamma.isSome inp.fixAlpha.isSome inp.fixDalpha.isSome inp.nt inp.N inp.nta
      ↔ c ∈ inp.activeCols := by
  rw [mem_ipUseS]
  unfold activeCols
  simp only [List.mem_filter, List.mem_range, hd, Bool.false_eq_true, if_false, Bool.and_true]
  have ham : inp.alphaMode = inp.fixAlpha.isSome := by simp [alphaMode, hd]
  have hnpar : inp.npar = if inp.fixAlpha.isSome then 1 + inp.N + inp.nt + inp.nt * inp.nta else 2 + inp.nt + inp.nt * inp.nta := by
    simp [npar, hd, ham]
  rw [hnpar]
  have hmul : inp.nta * inp.nt = inp.nt * inp.nta := Nat.mul_comm _ _
  rw [hmul]
  cases hfa : inp.fixAlpha with
  | none =>
    have hfix : (inp.fixedCol c).isNone = true ↔ ¬ (inp.fixGamma.isSome = true ∧ c = 0) ∧ ¬ (inp.fixDalpha.isSome = true ∧ c = 1) := by
      unfold fixedCol
      simp only [colGamma, colDalpha, hd, ham, hfa, Option.isSome_none, Bool.not_false, Bool.true_and]
      by_cases h0 : c = 0
      · subst h0; cases inp.fixGamma <;> simp
      · by_cases h1 : c = 1
        · subst h1; cases inp.fixDalpha <;> simp
        · simp [h0, h1]
    rw [hfix]
    simp
  | some av =>
    have hdal : inp.fixDalpha = none := hex (by simp [hfa])
    have hcolA : inp.colA 0 = 1 := by simp [colA, hd]
    have hfix : (inp.fixedCol c).isNone = true ↔ ¬ (inp.fixGamma.isSome = true ∧ c = 0) ∧ ¬ (1 ≤ c ∧ c < inp.N + 1) := by
      unfold fixedCol
      simp only [colGamma, hd, ham, hfa, Option.isSome_some, Bool.not_true, Bool.and_false, Bool.false_and, hcolA]
      by_cases h0 : c = 0
      · subst h0; cases inp.fixGamma <;> simp
      · by_cases hr : 1 ≤ c ∧ c < 1 + inp.N
        · simp [h0, hr.1, hr.2]; omega
        · have : ¬ ((decide (1 ≤ c) && decide (c < 1 + inp.N)) = true) := by simpa using hr
          simp [h0, this]; omega
    rw [hfix]
    simp [hdal]

end DtsVerif.C07

namespace DtsVerif.C02
open DtsVerif.Scatter DtsVerif.Py

/-! ### values are scattered like covariances: `po_sol` / `po_var` -/
section PoSol
variable {α : Type} (p E : List α) (zero : α) (nt nxs N T : Nat) (ixSec : List Nat)

theorem poSol_eq (hp : p.length = 1 + 2 * nt + (nxs - 1) + T) (hpos : 0 < nxs) :
    poSol p E zero nt nxs ixSec =
      (assignAt (p.take (1 + 2 * nt) ++ E ++ p.drop (2 * nt + nxs)) (ixSec.tail.map (fun i => 1 + 2 * nt + i))
        ((p.drop (1 + 2 * nt)).take (nxs - 1))).set (1 + 2 * nt + ixSec.headD 0) zero := by
  unfold poSol
  rw [pySlice_to, Shift.pySlice_from, pySlice_between _ _ _ (by omega) (by omega)]
  have : 2 * nt + nxs - (1 + 2 * nt) = nxs - 1 := by omega
  rw [this]

private theorem idx_props (hsz : ixSec.length = nxs) (hnd : ixSec.Nodup) (hlt : ∀ i ∈ ixSec, i < N) :
    (ixSec.tail.map (fun i => 1 + 2 * nt + i)).Nodup ∧
    (∀ j ∈ ixSec.tail.map (fun i => 1 + 2 * nt + i), 1 + 2 * nt ≤ j ∧ j < 1 + 2 * nt + N) ∧
    (1 + 2 * nt + ixSec.headD 0) ∉ ixSec.tail.map (fun i => 1 + 2 * nt + i) := by
  cases ixSec with
  | nil => simp
  | cons h t =>
    rw [List.nodup_cons] at hnd
    refine ⟨?_, ?_, ?_⟩
    · simp only [List.tail_cons]
      exact List.Pairwise.map (fun i => 1 + 2 * nt + i) (fun a b hab heq => hab (by omega)) hnd.2
    · intro j hj
      simp only [List.tail_cons, List.mem_map] at hj
      obtain ⟨i, hi, rfl⟩ := hj
      have := hlt i (by simp [hi])
      omega
    · simp only [List.tail_cons, List.headD_cons, List.mem_map, not_exists, not_and]
      intro i hi heq
      have : i = h := by omega
      exact hnd.1 (this ▸ hi)

/-- γ, df, db: `po_sol[c] = p_sol[c]` -/
theorem poSol_head (hp : p.length = 1 + 2 * nt + (nxs - 1) + T) (hE : E.length = N) (hsz : ixSec.length = nxs) (hpos : 0 < nxs)
    (hnd : ixSec.Nodup) (hlt : ∀ i ∈ ixSec, i < N) (c : Nat) (hc : c < 1 + 2 * nt) :
    (poSol p E zero nt nxs ixSec)[c]? = p[c]? := by
  obtain ⟨_, hrange, _⟩ := idx_props nt nxs N ixSec hsz hnd hlt
  rw [poSol_eq p E zero nt nxs T ixSec hp hpos, List.getElem?_set_ne (by omega)]
  rw [getElem?_assignAt_not_mem _ _ _ _ (fun hmem => by have := (hrange c hmem).1; omega)]
  rw [List.append_assoc, List.getElem?_append_left (by simp; omega)]
  simp [List.getElem?_take, hc]

/-- the first reference location: exactly `0` -/
theorem poSol_first (hp : p.length = 1 + 2 * nt + (nxs - 1) + T) (hE : E.length = N) (hsz : ixSec.length = nxs) (hpos : 0 < nxs)
    (hlt : ∀ i ∈ ixSec, i < N) :
    (poSol p E zero nt nxs ixSec)[1 + 2 * nt + ixSec.headD 0]? = some zero := by
  rw [poSol_eq p E zero nt nxs T ixSec hp hpos]
  have hh : ixSec.headD 0 < N := by
    cases ixSec with
    | nil => simp at hsz; omega
    | cons h t => exact hlt h (by simp)
  rw [List.getElem?_set_self (by rw [length_assignAt]; simp only [List.length_append, List.length_take, List.length_drop, hE]; omega)]

/-- reference row `q ≥ 1`: the `q−1`-th attenuation unknown of the solver -/
theorem poSol_ref (hp : p.length = 1 + 2 * nt + (nxs - 1) + T) (hE : E.length = N) (hsz : ixSec.length = nxs) (hpos : 0 < nxs)
    (hnd : ixSec.Nodup) (hlt : ∀ i ∈ ixSec, i < N) (q : Nat) (hq1 : 1 ≤ q) (hq : q < nxs) :
    (poSol p E zero nt nxs ixSec)[1 + 2 * nt + ixSec.getD q 0]? = p[1 + 2 * nt + (q - 1)]? := by
  obtain ⟨hndI, hrange, hfirst⟩ := idx_props nt nxs N ixSec hsz hnd hlt
  rw [poSol_eq p E zero nt nxs T ixSec hp hpos]
  have hlenI : (ixSec.tail.map (fun i => 1 + 2 * nt + i)).length = nxs - 1 := by simp [hsz]
  have hq' : q - 1 < (ixSec.tail.map (fun i => 1 + 2 * nt + i)).length := by omega
  have hidx : (ixSec.tail.map (fun i => 1 + 2 * nt + i))[q - 1] = 1 + 2 * nt + ixSec.getD q 0 := by
    cases ixSec with
    | nil => simp at hsz; omega
    | cons h t =>
      simp only [List.tail_cons, List.getElem_map]
      have hlt' : q - 1 < t.length := by simp at hsz; omega
      obtain ⟨q', rfl⟩ : ∃ q', q = q' + 1 := ⟨q - 1, by omega⟩
      simp only [Nat.add_sub_cancel] at hlt' ⊢
      simp [List.getD, hlt']
  have hne : 1 + 2 * nt + ixSec.headD 0 ≠ 1 + 2 * nt + ixSec.getD q 0 := by
    intro heq
    apply hfirst
    rw [heq, ← hidx]
    exact List.getElem_mem _
  rw [List.getElem?_set_ne hne, ← hidx]
  rw [getElem?_assignAt_mem _ _ _ hndI (by simp [hsz]; omega) (by
    intro j hj
    have := (hrange j hj).2
    simp [hE]; omega) (q - 1) hq']
  simp [List.getElem?_take, List.getElem?_drop]
  omega

/-- a location that is no reference location: the value of `calc_alpha_double(mode="exact")` there -/
theorem poSol_outside (hp : p.length = 1 + 2 * nt + (nxs - 1) + T) (hE : E.length = N) (hsz : ixSec.length = nxs) (hpos : 0 < nxs)
    (i : Nat) (hi : i < N) (hout : i ∉ ixSec) :
    (poSol p E zero nt nxs ixSec)[1 + 2 * nt + i]? = E[i]? := by
  rw [poSol_eq p E zero nt nxs T ixSec hp hpos]
  have hne : 1 + 2 * nt + ixSec.headD 0 ≠ 1 + 2 * nt + i := by
    intro heq
    have : ixSec.headD 0 = i := by omega
    cases ixSec with
    | nil => simp at hsz; omega
    | cons h t => simp at this; exact hout (by simp [this])
  rw [List.getElem?_set_ne hne]
  rw [getElem?_assignAt_not_mem _ _ _ _ (by
    simp only [List.mem_map, not_exists, not_and]
    intro j hj heq
    have : j = i := by omega
    exact hout (this ▸ List.mem_of_mem_tail hj))]
  rw [List.getElem?_append_left (by simp [hE]; omega), List.getElem?_append_right (by simp; omega)]
  simp
  congr 1
  omega

/-- the splice losses: `po_sol[1 + 2nt + N + t] = p_sol[1 + 2nt + (nxs − 1) + t]` -/
theorem poSol_ta (hp : p.length = 1 + 2 * nt + (nxs - 1) + T) (hE : E.length = N) (hsz : ixSec.length = nxs) (hpos : 0 < nxs)
    (hnd : ixSec.Nodup) (hlt : ∀ i ∈ ixSec, i < N) (t : Nat) (ht : t < T) :
    (poSol p E zero nt nxs ixSec)[1 + 2 * nt + N + t]? = p[1 + 2 * nt + (nxs - 1) + t]? := by
  obtain ⟨_, hrange, _⟩ := idx_props nt nxs N ixSec hsz hnd hlt
  rw [poSol_eq p E zero nt nxs T ixSec hp hpos]
  have hh : ixSec.headD 0 < N := by
    cases ixSec with
    | nil => simp at hsz; omega
    | cons h t => exact hlt h (by simp)
  rw [List.getElem?_set_ne (by omega)]
  rw [getElem?_assignAt_not_mem _ _ _ _ (fun hmem => by have := (hrange _ hmem).2; omega)]
  rw [List.getElem?_append_right (by simp [hE]; omega)]
  simp [hE, List.getElem?_drop]
  congr 1
  omega

/-- **values and covariances use one map**: every unknown `k` of the solver is reported in `po_sol` (and its variance in `po_var`) at
exactly the position `from_i[k]` at which its covariances are stored in `po_cov` -/
theorem poSol_follows_fromI (nta : Nat) (hp : p.length = 1 + 2 * nt + (nxs - 1) + nta * nt * 2) (hE : E.length = N)
    (hsz : ixSec.length = nxs) (hpos : 0 < nxs) (hnd : ixSec.Nodup) (hlt : ∀ i ∈ ixSec, i < N) (k : Nat) (hk : k < p.length) :
    ∃ pos, (fromISolver nt N nta ixSec.tail)[k]? = some pos ∧ (poSol p E zero nt nxs ixSec)[pos]? = p[k]? := by
  have htl : ixSec.tail.length = nxs - 1 := by simp [hsz]
  by_cases h1 : k < 1 + 2 * nt
  · exact ⟨k, scatter_solver_head nt N nta _ k h1, poSol_head p E zero nt nxs N _ ixSec hp hE hsz hpos hnd hlt k h1⟩
  · by_cases h2 : k < 1 + 2 * nt + (nxs - 1)
    · have hq : k - (1 + 2 * nt) < ixSec.tail.length := by omega
      refine ⟨1 + 2 * nt + ixSec.tail[k - (1 + 2 * nt)], ?_, ?_⟩
      · have := scatter_solver_alpha nt N nta ixSec.tail (k - (1 + 2 * nt)) hq
        have hk' : 1 + 2 * nt + (k - (1 + 2 * nt)) = k := by omega
        rw [hk'] at this; exact this
      · have hget : ixSec.tail[k - (1 + 2 * nt)] = ixSec.getD (k - (1 + 2 * nt) + 1) 0 := by
          cases ixSec with
          | nil => simp at hsz; omega
          | cons h t =>
            simp only [List.tail_cons, List.getD_cons_succ]
            have : k - (1 + 2 * nt) < t.length := by simpa using hq
            simp [List.getD, this]
        rw [hget]
        have := poSol_ref p E zero nt nxs N _ ixSec hp hE hsz hpos hnd hlt (k - (1 + 2 * nt) + 1) (by omega) (by omega)
        rw [this]
        congr 1; omega
    · have ht : k - (1 + 2 * nt + (nxs - 1)) < nta * nt * 2 := by omega
      refine ⟨1 + 2 * nt + N + (k - (1 + 2 * nt + (nxs - 1))), ?_, ?_⟩
      · have := scatter_solver_ta nt N nta ixSec.tail _ ht
        rw [htl] at this
        have hk' : 1 + 2 * nt + (nxs - 1) + (k - (1 + 2 * nt + (nxs - 1))) = k := by omega
        rw [hk'] at this; exact this
      · have := poSol_ta p E zero nt nxs N _ ixSec hp hE hsz hpos hnd hlt _ ht
        rw [this]; congr 1; omega

end PoSol

end DtsVerif.C02
