import DtsVerif.Drv.Common
import DtsVerif.Model.Merge
namespace DtsVerif.Drv
open Lean DtsVerif.Merge

def opMergeTimes (j : Json) : R Json := do
  let fw ← listOf getInt (← field j "fw")
  let bw ← listOf getInt (← field j "bw")
  let verify ← getBool (← field j "verify")
  let pairs := mergeTimes verify fw bw
  pure <| Json.mkObj [("pairs", listJ pairJ pairs),
                      ("branch", Json.str (if shortcut verify fw bw then "shortcut" else "walk"))]

def opMergeSpace (j : Json) : R Json := do
  let xf ← listOf getRat (← field j "xf")
  let xb ← listOf getRat (← field j "xb")
  let L ← getRat (← field j "L")
  let tol ← getRat (← field j "tol")
  pure <| Json.mkObj [("src", listJ (optJ natJ) (mergeSpace xf xb L tol))]

def opMergeSwapped (j : Json) : R Json := do
  let a ← getStr (← field j "fw")
  let b ← getStr (← field j "bw")
  pure <| Json.mkObj [("refused", Json.bool (swappedRefused a b))]

end DtsVerif.Drv
