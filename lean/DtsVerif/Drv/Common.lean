import Lean.Data.Json
/-! JSON helpers for the line-protocol driver (core `Lean` only, no Mathlib). -/
namespace DtsVerif.Drv
open Lean

abbrev R := Except String

def getInt (j : Json) : R Int := j.getInt?
def getNat (j : Json) : R Nat := j.getNat?
def getBool (j : Json) : R Bool := j.getBool?
def getStr (j : Json) : R String := j.getStr?
def getArr (j : Json) : R (Array Json) := j.getArr?

def field (j : Json) (k : String) : R Json := j.getObjVal? k

def fieldOpt (j : Json) (k : String) : Option Json :=
  match j.getObjVal? k with
  | .ok .null => none
  | .ok v => some v
  | .error _ => none

def listOf {α} (f : Json → R α) (j : Json) : R (List α) := do
  let a ← getArr j
  a.toList.mapM f

/-- a rational is sent as `[num, den]` (arbitrary-precision integers), or as a bare integer -/
def getRat (j : Json) : R Rat :=
  match j with
  | .arr a =>
    if a.size = 2 then do
      let n ← getInt a[0]!
      let d ← getInt a[1]!
      if d = 0 then throw "zero denominator" else pure (mkRat n d.toNat * (if d < 0 then -1 else 1))
    else throw "rat: expected [num, den]"
  | _ => do let n ← getInt j; pure (n : Rat)

def ratJ (q : Rat) : Json := Json.arr #[Json.num (JsonNumber.fromInt q.num), Json.num (JsonNumber.fromNat q.den)]
def natJ (n : Nat) : Json := Json.num (JsonNumber.fromNat n)
def intJ (n : Int) : Json := Json.num (JsonNumber.fromInt n)
def listJ {α} (f : α → Json) (l : List α) : Json := Json.arr (l.map f).toArray
def optJ {α} (f : α → Json) : Option α → Json | none => Json.null | some a => f a
def pairJ (p : Nat × Nat) : Json := Json.arr #[natJ p.1, natJ p.2]

end DtsVerif.Drv
