import DtsVerif.Drv.Common
import DtsVerif.Model.Scatter
/-! driver op `scatter`: the scatter vectors and the assembled `po_sol` of `Model/Scatter.lean` for given sizes -/
namespace DtsVerif.Drv
open Lean DtsVerif.Scatter

def opScatter (j : Json) : R Json := do
  let nt ← getNat (← field j "nt")
  let n ← getNat (← field j "N")
  let nta ← getNat (← field j "nta")
  let ixSec ← listOf getNat (← field j "ix_sec")
  let ixE ← listOf getNat (← field j "ixE")
  let p ← listOf getInt (← field j "p")
  let e ← listOf getInt (← field j "E")
  let fg ← getBool (← field j "fg")
  let fa ← getBool (← field j "fa")
  let fd ← getBool (← field j "fd")
  pure <| Json.mkObj [
    ("solver", listJ natJ (fromISolver nt n nta ixE)),
    ("fix_gamma", listJ natJ (fromIFixGamma nt n nta ixE)),
    ("fix_alpha", listJ natJ (fromIFixAlpha nt n nta)),
    ("fix_both", listJ natJ (fromIFixBoth nt n nta)),
    ("ip_use", listJ natJ (ipUseS fa fg fa fd nt n nta)),
    ("po_sol", listJ intJ (poSol p e 0 nt ixSec.length ixSec)),
    ("po_sol_match", listJ intJ (poSolMatch p e 0 nt ixE.length ixE (ixSec.headD 0)))]

end DtsVerif.Drv
