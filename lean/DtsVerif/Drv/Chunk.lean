import DtsVerif.Drv.Common
import DtsVerif.Model.Chunk
namespace DtsVerif.Drv
open Lean DtsVerif.Chunk

def opChunk (j : Json) : R Json := do
  let l ← listOf getRat (← field j "values")
  let sizes ← listOf getNat (← field j "sizes")
  let lo ← getRat (← field j "lo")
  let hi ← getRat (← field j "hi")
  let cs := chunked sizes l
  let p := fun (x : Rat) => decide (lo ≤ x) && decide (x ≤ hi)
  pure <| Json.mkObj [("chunks", listJ (listJ ratJ) cs), ("sum_chunked", ratJ (sumChunks cs)), ("sum_whole", ratJ (sumR l)),
    ("sel_chunked", listJ ratJ (filterChunks p cs)), ("sel_whole", listJ ratJ (l.filter p)),
    ("sq_chunked", listJ ratJ (mapChunks (fun x => x * x) cs))]

end DtsVerif.Drv
