import DtsVerif.Drv.Common
import DtsVerif.Model.Attrs
namespace DtsVerif.Drv
open Lean DtsVerif.Attrs

/-- payloads are opaque ids; the codec is the identity (the codec law is the assumption the harness exercises on PyYAML) -/
def idCodec : Codec Nat Nat := ⟨id, id⟩

def opAttrs (j : Json) : R Json := do
  let s ← getNat (← field j "sections")
  let m ← getNat (← field j "matching")
  let ta ← getNat (← field j "trans_att")
  let inp : Dataset Nat Nat := ⟨[(.other 0, 99)], [(.x, 1), (.time, 2)]⟩
  let res := calibrate idCodec inp s m ta
  let mc := monteCarlo idCodec inp res 0 0
  let st := store res
  let rep := fun (d : Dataset Nat Nat) => Json.mkObj [
    ("sections", optJ natJ (getSections idCodec d)), ("matching", optJ natJ (getMatching idCodec d)),
    ("trans_att", optJ natJ (d.coord .transAtt)), ("x", optJ natJ (d.coord .x)), ("time", optJ natJ (d.coord .time))]
  pure <| Json.mkObj [("calibrate", rep res), ("monte_carlo", rep mc), ("stored", rep st)]

end DtsVerif.Drv
