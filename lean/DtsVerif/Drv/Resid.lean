import DtsVerif.Drv.Common
import DtsVerif.Drv.Sections
import DtsVerif.Model.Resid
namespace DtsVerif.Drv
open Lean DtsVerif.Resid

def opResidPlace (j : Json) : R Json := do
  let xs ← listOf getRat (← field j "xs")
  let d ← getDict (← field j "dict")
  pure <| Json.mkObj [("placement", listJ natJ (placement xs d)), ("reshaped", listJ (optJ natJ) (reshaped xs d))]

def opSampleVar (j : Json) : R Json := do
  let l ← listOf getRat (← field j "values")
  pure <| Json.mkObj [("var", ratJ (sampleVar l))]

end DtsVerif.Drv
