import DtsVerif.Drv.Common
import DtsVerif.Drv.Sections
import DtsVerif.Model.Calib
import DtsVerif.Model.Propagate
namespace DtsVerif.Drv
open Lean DtsVerif.Calib DtsVerif.Wls

def getMat (j : Json) : R Mat := do
  let rows ← listOf (listOf getRat) j
  pure (rows.map List.toArray).toArray

def getRatArr (j : Json) : R (Array Rat) := do pure (← listOf getRat j).toArray

def optPair (j : Json) (k : String) : R (Option (Rat × Rat)) :=
  match fieldOpt j k with
  | none => pure none
  | some v => do
    let a ← getArr v
    if a.size ≠ 2 then throw s!"{k}: expected [value, variance]"
    pure (some (← getRat a[0]!, ← getRat a[1]!))

/-- numbers in replies: `[m, e]` meaning `m·2^e`, 96 significant bits -/
def dyJ (q : Rat) : Json :=
  let (m, e) := dyadicParts 96 q
  Json.arr #[intJ m, intJ e]

def getInput (j : Json) : R Input := do
  let de ← getBool (← field j "double")
  let x ← getRatArr (← field j "x")
  let nt ← getNat (← field j "nt")
  let c273 ← getRat (← field j "c273")
  -- reference rows from the sections model: ascending locations and the bath of every row
  let d ← getDict (← field j "dict")
  let tref ← getMat (← field j "tref")            -- per bath: series in °C
  let ixSec := (Sections.ixSecAll x.toList d).toArray
  let baths := (Sections.bathOfRow x.toList d).toArray
  let K : Mat := baths.map fun b => (Array.range nt).map fun t => tref.at b t + c273
  let trans ← getRatArr (← field j "trans")
  let pairs ← listOf (fun p => do let a ← getArr p; pure (← getNat a[0]!, ← getNat a[1]!)) (← field j "pairs")
  let st ← getMat (← field j "st")
  let ast ← getMat (← field j "ast")
  let stv ← getMat (← field j "st_var")
  let astv ← getMat (← field j "ast_var")
  let iF ← getMat (← field j "iF")
  let var2 := fun (a av b bv : Mat) => (Array.range x.size).map fun i => (Array.range nt).map fun t =>
    av.at i t / (a.at i t * a.at i t) + bv.at i t / (b.at i t * b.at i t)
  let vF := var2 st stv ast astv
  let (iB, vB) ← if de then do
      let rst ← getMat (← field j "rst")
      let rast ← getMat (← field j "rast")
      let rstv ← getMat (← field j "rst_var")
      let rastv ← getMat (← field j "rast_var")
      pure (← getMat (← field j "iB"), var2 rst rstv rast rastv)
    else pure (#[], #[])
  let fixAlpha ← match fieldOpt j "fix_alpha" with
    | none => pure none
    | some v => do
      let a ← getArr v
      pure (some (← getRatArr a[0]!, ← getRatArr a[1]!))
  let wbits := match fieldOpt j "wbits" with
    | some v => (v.getNat?).toOption.getD 128
    | none => 128
  pure { doubleEnded := de, x, nt, ixSec, K, trans, pairs := pairs.toArray, iF, iB, vF, vB,
         fixGamma := ← optPair j "fix_gamma", fixDalpha := ← optPair j "fix_dalpha", fixAlpha, c273, wbits,
         codeWeightOrder := (fieldOpt j "code_weight_order").isSome }

def rowJ (r : Row) : Json :=
  Json.arr #[listJ (fun cv => Json.arr #[natJ cv.1, dyJ cv.2]) r.c, dyJ r.y, dyJ r.w]

def opCalib (j : Json) : R Json := do
  let inp ← getInput j
  let wantCov := (fieldOpt j "want_cov").isSome
  match calibrate inp with
  | none => throw "singular"
  | some res =>
    let tf := (Array.range inp.N).map fun i => (Array.range inp.nt).map fun t => tmpf inp res.pVal i t
    let tb := if inp.doubleEnded then
        (Array.range inp.N).map fun i => (Array.range inp.nt).map fun t => tmpb inp res.pVal i t else #[]
    pure <| Json.mkObj [
      ("npar", natJ inp.npar), ("ixSec", listJ natJ inp.ixSec.toList), ("active", listJ natJ res.active),
      ("rank", natJ res.rank), ("dof", intJ res.dof), ("errVar", dyJ res.errVar),
      ("rows", Json.arr (res.rows.map rowJ)),
      ("p_val", Json.arr (res.pVal.map dyJ)), ("p_var", Json.arr (res.pVar.map dyJ)),
      ("p_cov", if wantCov then Json.arr (res.pCov.map fun row => Json.arr (row.map dyJ)) else Json.null),
      ("fitted", Json.arr (res.fitted.map dyJ)), ("fittedVar", Json.arr (res.fittedVar.map dyJ)),
      ("tmpf", Json.arr (tf.map fun row => Json.arr (row.map dyJ))),
      ("tmpb", Json.arr (tb.map fun row => Json.arr (row.map dyJ)))]

end DtsVerif.Drv

namespace DtsVerif.Drv
open Lean DtsVerif.Calib DtsVerif.Wls

/-- the documented layouts as the model uses them: every index table -/
def opLayout (j : Json) : R Json := do
  let de ← getBool (← field j "double")
  let nt ← getNat (← field j "nt")
  let n ← getNat (← field j "nx")
  let nta ← getNat (← field j "nta")
  let am ← getBool (← field j "alpha_mode")
  let inp : Input := { doubleEnded := de, x := Array.replicate n 0, nt, ixSec := #[], K := #[], trans := Array.replicate nta 0,
                       pairs := #[], iF := #[], iB := #[], vF := #[], vB := #[], fixGamma := none, fixDalpha := none,
                       fixAlpha := if am then some (#[], #[]) else none, c273 := 0, wbits := 64, codeWeightOrder := false }
  let rng := fun k => List.range k
  if de then
    pure <| Json.mkObj [("npar", natJ inp.npar), ("gamma", natJ Input.colGamma),
      ("df", listJ natJ ((rng nt).map Input.colDf)), ("db", listJ natJ ((rng nt).map inp.colDb)),
      ("alpha", listJ natJ ((rng n).map inp.colA)),
      ("ta", listJ (fun t => listJ (fun d => listJ (fun a => natJ (inp.colTaD a d t)) (rng nta)) (rng 2)) (rng nt))]
  else
    pure <| Json.mkObj [("npar", natJ inp.npar), ("gamma", natJ Input.colGamma),
      ("dalpha", if am then Json.null else natJ Input.colDalpha),
      ("alpha", if am then listJ natJ ((rng n).map inp.colA) else Json.null),
      ("c", listJ natJ ((rng nt).map inp.colC)),
      ("ta", listJ (fun t => listJ (fun a => natJ (inp.colTa a t)) (rng nta)) (rng nt))]

/-- temperatures of the model equation at given parameters -/
def opTemps (j : Json) : R Json := do
  let inp ← getInput j
  let p ← getRatArr (← field j "p_val")
  let tf := (Array.range inp.N).map fun i => (Array.range inp.nt).map fun t => tmpf inp p i t
  let tb := if inp.doubleEnded then
      (Array.range inp.N).map fun i => (Array.range inp.nt).map fun t => tmpb inp p i t else #[]
  pure <| Json.mkObj [("tmpf", Json.arr (tf.map fun row => Json.arr (row.map dyJ))),
                      ("tmpb", Json.arr (tb.map fun row => Json.arr (row.map dyJ)))]

end DtsVerif.Drv

namespace DtsVerif.Drv
open Lean DtsVerif.Calib DtsVerif.Wls DtsVerif.Propagate

def cubeJ (c : Array (Array (List Rat))) (k : Nat) : Json :=
  Json.arr (c.map fun row => Json.arr (row.map fun l => dyJ (l.getD k 0)))

/-- term-by-term variance propagation of the model at given `p_val, p_var, p_cov` -/
def opPropagate (j : Json) : R Json := do
  let inp ← getInput j
  let p ← getRatArr (← field j "p_val")
  let pv ← getRatArr (← field j "p_var")
  let C ← getMat (← field j "p_cov")
  let st ← getMat (← field j "st")
  let ast ← getMat (← field j "ast")
  let stv ← getMat (← field j "st_var")
  let astv ← getMat (← field j "ast_var")
  let cells := fun (f : Nat → Nat → List Rat) => (Array.range inp.N).map fun i => (Array.range inp.nt).map fun t => f i t
  let g := p.getD Input.colGamma 0
  if inp.doubleEnded then
    let rst ← getMat (← field j "rst")
    let rast ← getMat (← field j "rast")
    let rstv ← getMat (← field j "rst_var")
    let rastv ← getMat (← field j "rast_var")
    let JF := fun i t => derivsFw (tmpf inp p i t + inp.c273) g (st.at i t) (ast.at i t)
    let JB := fun i t => derivsBw (tmpb inp p i t + inp.c273) g (rst.at i t) (rast.at i t)
    let fw := cells fun i t => termsChannel (JF i t) (stv.at i t) (astv.at i t) (covsFwDouble inp pv C i t)
    let bw := cells fun i t => termsChannel (JB i t) (rstv.at i t) (rastv.at i t) (covsBwDouble inp pv C i t)
    let w := cells fun i t =>
      let vf := sumList (termsChannel (JF i t) (stv.at i t) (astv.at i t) (covsFwDouble inp pv C i t))
      let vb := sumList (termsChannel (JB i t) (rstv.at i t) (rastv.at i t) (covsBwDouble inp pv C i t))
      let approx := 1 / (1 / vf + 1 / vb)
      termsW (approx / vf) (approx / vb) (JF i t) (JB i t) (stv.at i t) (astv.at i t) (rstv.at i t) (rastv.at i t)
        (covsW inp pv C i t)
    -- tmpw, tmpw_var_approx, tmpw_var_lower as the code forms them
    let extra := cells fun i t =>
      let tF := termsChannel (JF i t) (stv.at i t) (astv.at i t) (covsFwDouble inp pv C i t)
      let tB := termsChannel (JB i t) (rstv.at i t) (rastv.at i t) (covsBwDouble inp pv C i t)
      let vf := sumList tF
      let vb := sumList tB
      let approx := 1 / (1 / vf + 1 / vb)
      let tw := ((tmpf inp p i t + inp.c273) / vf + (tmpb inp p i t + inp.c273) / vb) * approx - inp.c273
      let mf := tF.getD 0 0 + tF.getD 1 0
      let mb := tB.getD 0 0 + tB.getD 1 0
      [tw, approx, 1 / (1 / mf + 1 / mb)]
    pure <| Json.mkObj [("fw", Json.arr ((Array.range 12).map (cubeJ fw))), ("bw", Json.arr ((Array.range 12).map (cubeJ bw))),
                        ("w", Json.arr ((Array.range 25).map (cubeJ w))),
                        ("tmpw", cubeJ extra 0), ("approx", cubeJ extra 1), ("lower", cubeJ extra 2)]
  else
    let JF := fun i t => derivsFw (tmpf inp p i t + inp.c273) g (st.at i t) (ast.at i t)
    let fw := cells fun i t =>
      if inp.alphaMode then termsSingleFixAlpha (JF i t) (stv.at i t) (astv.at i t) (covsSingle inp pv C i t)
      else termsSingle (JF i t) (inp.xAt i) (stv.at i t) (astv.at i t) (covsSingle inp pv C i t)
    pure <| Json.mkObj [("fw", Json.arr ((Array.range (if inp.alphaMode then 9 else 12)).map (cubeJ fw)))]

end DtsVerif.Drv
