import DtsVerif.Drv.Common
import DtsVerif.Drv.Sections
import DtsVerif.Model.Calib
namespace DtsVerif.Drv
open Lean DtsVerif.Calib DtsVerif.Wls

def getMat (j : Json) : R Mat := do
  let rows ← listOf (listOf getRat) j
  pure (rows.map List.toArray).toArray

def getRatArr (j : Json) : R (Array Rat) := do pure (← listOf getRat j).toArray

def optPair (j : Json) (k : String) : R (Option (Rat × Rat)) :=
  match fieldOpt j k with
  | none => pure none
  | some v => do
    let a ← getArr v
    if a.size ≠ 2 then throw s!"{k}: expected [value, variance]"
    pure (some (← getRat a[0]!, ← getRat a[1]!))

/-- numbers in replies: `[m, e]` meaning `m·2^e`, 96 significant bits -/
def dyJ (q : Rat) : Json :=
  let (m, e) := dyadicParts 96 q
  Json.arr #[intJ m, intJ e]

def getInput (j : Json) : R Input := do
  let de ← getBool (← field j "double")
  let x ← getRatArr (← field j "x")
  let nt ← getNat (← field j "nt")
  let c273 ← getRat (← field j "c273")
  -- reference rows from the sections model: ascending locations and the bath of every row
  let d ← getDict (← field j "dict")
  let tref ← getMat (← field j "tref")            -- per bath: series in °C
  let ixSec := (Sections.ixSecAll x.toList d).toArray
  let baths := (Sections.bathOfRow x.toList d).toArray
  let K : Mat := baths.map fun b => (Array.range nt).map fun t => tref.at b t + c273
  let trans ← getRatArr (← field j "trans")
  let pairs ← listOf (fun p => do let a ← getArr p; pure (← getNat a[0]!, ← getNat a[1]!)) (← field j "pairs")
  let st ← getMat (← field j "st")
  let ast ← getMat (← field j "ast")
  let stv ← getMat (← field j "st_var")
  let astv ← getMat (← field j "ast_var")
  let iF ← getMat (← field j "iF")
  let var2 := fun (a av b bv : Mat) => (Array.range x.size).map fun i => (Array.range nt).map fun t =>
    av.at i t / (a.at i t * a.at i t) + bv.at i t / (b.at i t * b.at i t)
  let vF := var2 st stv ast astv
  let (iB, vB) ← if de then do
      let rst ← getMat (← field j "rst")
      let rast ← getMat (← field j "rast")
      let rstv ← getMat (← field j "rst_var")
      let rastv ← getMat (← field j "rast_var")
      pure (← getMat (← field j "iB"), var2 rst rstv rast rastv)
    else pure (#[], #[])
  let fixAlpha ← match fieldOpt j "fix_alpha" with
    | none => pure none
    | some v => do
      let a ← getArr v
      pure (some (← getRatArr a[0]!, ← getRatArr a[1]!))
  let wbits := match fieldOpt j "wbits" with
    | some v => (v.getNat?).toOption.getD 128
    | none => 128
  pure { doubleEnded := de, x, nt, ixSec, K, trans, pairs := pairs.toArray, iF, iB, vF, vB,
         fixGamma := ← optPair j "fix_gamma", fixDalpha := ← optPair j "fix_dalpha", fixAlpha, c273, wbits,
         codeWeightOrder := (fieldOpt j "code_weight_order").isSome }

def rowJ (r : Row) : Json :=
  Json.arr #[listJ (fun cv => Json.arr #[natJ cv.1, dyJ cv.2]) r.c, dyJ r.y, dyJ r.w]

def opCalib (j : Json) : R Json := do
  let inp ← getInput j
  let wantCov := (fieldOpt j "want_cov").isSome
  match calibrate inp with
  | none => throw "singular"
  | some res =>
    let tf := (Array.range inp.N).map fun i => (Array.range inp.nt).map fun t => tmpf inp res.pVal i t
    let tb := if inp.doubleEnded then
        (Array.range inp.N).map fun i => (Array.range inp.nt).map fun t => tmpb inp res.pVal i t else #[]
    pure <| Json.mkObj [
      ("npar", natJ inp.npar), ("ixSec", listJ natJ inp.ixSec.toList), ("active", listJ natJ res.active),
      ("rank", natJ res.rank), ("dof", intJ res.dof), ("errVar", dyJ res.errVar),
      ("rows", Json.arr (res.rows.map rowJ)),
      ("p_val", Json.arr (res.pVal.map dyJ)), ("p_var", Json.arr (res.pVar.map dyJ)),
      ("p_cov", if wantCov then Json.arr (res.pCov.map fun row => Json.arr (row.map dyJ)) else Json.null),
      ("fitted", Json.arr (res.fitted.map dyJ)), ("fittedVar", Json.arr (res.fittedVar.map dyJ)),
      ("tmpf", Json.arr (tf.map fun row => Json.arr (row.map dyJ))),
      ("tmpb", Json.arr (tb.map fun row => Json.arr (row.map dyJ)))]

end DtsVerif.Drv
