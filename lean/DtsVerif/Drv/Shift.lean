import DtsVerif.Drv.Common
import DtsVerif.Model.Shift
namespace DtsVerif.Drv
open Lean DtsVerif.Shift

def opShift (j : Json) : R Json := do
  let nx ← getNat (← field j "nx")
  let i ← getInt (← field j "i")
  let (f, b) := shift (List.range nx) (List.range nx) i
  pure <| Json.mkObj [("fwd", listJ natJ f), ("bwd", listJ natJ b)]

def opSuggest (j : Json) : R Json := do
  let x ← listOf getRat (← field j "x")
  let iF ← listOf (listOf getRat) (← field j "iF")
  let iB ← listOf (listOf getRat) (← field j "iB")
  let irange ← listOf getInt (← field j "irange")
  let s := suggest x iF iB irange
  pure <| Json.mkObj [("err1", listJ ratJ s.err1), ("err2", listJ ratJ s.err2),
                      ("ishift1", intJ s.ishift1), ("ishift2", intJ s.ishift2)]

end DtsVerif.Drv
