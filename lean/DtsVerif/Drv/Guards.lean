import DtsVerif.Drv.Common
import DtsVerif.Model.Guards
namespace DtsVerif.Drv
open Lean DtsVerif.Guards

def clsOf : String → R Cls
  | "-inf" => pure .negInf | "neg" => pure .neg | "zero" => pure .zero | "pos" => pure .pos
  | "inf" => pure .posInf | "nan" => pure .nan | s => throw s!"bad class {s}"

def siteOf : String → R Site
  | "numer" => pure .numer | "denom" => pure .denom | "tref" => pure .tref | "variance" => pure .variance
  | "fix_alpha_short" => pure .fixAlphaShort | "transposed" => pure .transposed
  | "bad_method" => pure .badMethod | "bad_solver" => pure .badSolver | s => throw s!"bad site {s}"

def opGuard (j : Json) : R Json := do
  let site ← siteOf (← getStr (← field j "site"))
  let c ← clsOf (← getStr (← field j "cls"))
  pure <| Json.mkObj [("verdict", Json.str (match verdict site c with | .raises => "raises" | .returns => "returns"))]

end DtsVerif.Drv
