import DtsVerif.Drv.Common
import DtsVerif.Model.Readers
namespace DtsVerif.Drv
open Lean DtsVerif.Readers

def opReaderStack (j : Json) : R Json := do
  let names ← listOf (listOf getNat) (← field j "names")
  let npoints ← listOf getNat (← field j "npoints")
  let order := orderByName names
  let sortedPts := order.map fun i => npoints.getD i 0
  pure <| Json.mkObj [("order", listJ natJ order), ("accept", Json.bool (stackAccept sortedPts))]

def opReaderOrderTime (j : Json) : R Json := do
  let st ← listOf getInt (← field j "stamps")
  pure <| Json.mkObj [("order", listJ natJ (orderByTime st))]

def opSensornetCut (j : Json) : R Json := do
  let xraw ← listOf getRat (← field j "xraw")
  let addInt ← getRat (← field j "add_internal")
  let fl ← match fieldOpt j "fiber_length" with
    | some v => do pure (some (← getRat v))
    | none => pure none
  let double ← getBool (← field j "double")
  let flip ← getBool (← field j "flip")
  let fe ← getRat (← field j "fibre_end")
  let c := sensornetCut xraw addInt fl double flip fe
  pure <| Json.mkObj [("start", natJ c.start), ("stop", natJ c.stop), ("rev", listJ natJ c.rev)]

def opSensortran (j : Json) : R Json := do
  let b ← listOf getNat (← field j "bytes")
  let h := decodeHeader b
  let npts := h.numPoints.toNat
  let (a1, a2) := decodeArrays b npts
  pure <| Json.mkObj [("survey_type", intJ h.surveyType), ("hdr_version", intJ h.hdrVersion), ("x_units", intJ h.xUnits),
    ("y_units", intJ h.yUnits), ("num_points", intJ h.numPoints), ("num_pulses", intJ h.numPulses), ("channel_id", intJ h.channelId),
    ("num_subtraces", intJ h.numSubtraces), ("num_skipped", intJ h.numSkipped), ("ref_temp_bits", natJ h.refTempBits),
    ("time", intJ h.time), ("data1", listJ natJ a1), ("data2", listJ natJ a2)]

end DtsVerif.Drv
