import DtsVerif.Drv.Common
import DtsVerif.Model.TimeCoords
namespace DtsVerif.Drv
open Lean DtsVerif.TimeCoords

def opTimeCoords (j : Json) : R Json := do
  let de ← getBool (← field j "double")
  let e ← getInt (← field j "e")
  let F ← getRat (← field j "F")
  let B ← getRat (← field j "B")
  let c := coords de e F B
  pure <| Json.mkObj [("timestart", intJ c.timestart), ("time", intJ c.time), ("timeend", intJ c.timeend),
    ("timeFWstart", intJ c.timeFWstart), ("timeFWend", intJ c.timeFWend), ("timeFW", intJ c.timeFW),
    ("timeBWstart", intJ c.timeBWstart), ("timeBWend", intJ c.timeBWend), ("timeBW", intJ c.timeBW)]

def opTimeConvert (j : Json) : R Json := do
  let v ← getInt (← field j "v")
  let a ← getInt (← field j "off_in")
  let b ← getInt (← field j "off_out")
  pure <| Json.mkObj [("v", intJ (convert v a b))]

end DtsVerif.Drv
