import DtsVerif.Drv.Common
import DtsVerif.Model.Design
/-! driver op `design`: the COO index vectors of `Model/Design.lean` for given sizes -/
namespace DtsVerif.Drv
open Lean DtsVerif.Design

def cooJ (row col : List Nat) : Json := Json.mkObj [("row", listJ natJ row), ("col", listJ natJ col)]

def opDesign (j : Json) : R Json := do
  let nt ← getNat (← field j "nt")
  let nx ← getNat (← field j "nx")
  let nm ← getNat (← field j "nm")
  let ix0s ← listOf getNat (← field j "ix0")
  let nta := ix0s.length
  let M ← match fieldOpt j "M" with
    | some m => listOf (listOf getInt) m
    | none => pure []
  pure <| Json.mkObj [
    ("s_gamma", cooJ (sGammaRow nt nx) (sGammaCol nt nx)),
    ("s_dalpha", cooJ (sDalphaRow nt nx) (sDalphaCol nt nx)),
    ("s_c", cooJ (sCRow nt nx) (sCCol nt nx)),
    ("s_ta", listJ (fun ix0 => cooJ (sTaRow nt nx ix0) (sTaCol nt nx ix0)) ix0s),
    ("s_ma", cooJ (sMaRow nm nt) (sMaCol nm nt)),
    ("s_mt", cooJ (sMtRow nm nt nta) (sMtCol nm nt nta)),
    ("s_mt_data", listJ intJ (sMtData M nt nta)),
    ("d_gamma", cooJ (dGammaRow nt nx) (dGammaCol nt nx)),
    ("d_d", cooJ (dDRow nt nx) (dDCol nt nx)),
    ("d_e", cooJ (dERow nt nx) (dECol nt nx)),
    ("d_ta_fw", listJ (fun ix0 => cooJ (dTaFwRow nt nx ix0) (dTaFwCol nt nx ix0)) ix0s),
    ("d_ta_bw", listJ (fun ix0 => cooJ (dTaBwRow nt ix0) (dTaBwCol nt ix0)) ix0s)]

end DtsVerif.Drv
