import DtsVerif.Drv.Common
import DtsVerif.Model.MonteCarlo
namespace DtsVerif.Drv
open Lean DtsVerif.MonteCarlo DtsVerif.Py

def opPercentile (j : Json) : R Json := do
  let a ← listOf getRat (← field j "samples")
  let qs ← listOf getRat (← field j "q")
  let sorted := insSort (fun x y => decide (x ≤ y)) a
  pure <| Json.mkObj [("values", listJ ratJ (qs.map (percentile sorted)))]

def opMcUnpack (j : Json) : R Json := do
  let nt ← getNat (← field j "nt")
  let no ← getNat (← field j "no")
  let nta ← getNat (← field j "nta")
  let ixSec ← listOf getNat (← field j "ixSec")
  let fi := fromI nt no nta ixSec
  pure <| Json.mkObj [("from_i", listJ natJ fi),
    ("ta", listJ (fun t => listJ (fun d => listJ (fun a => natJ (fi.getD (taPos nt ixSec.length t d a) 0)) (List.range nta)) (List.range 2)) (List.range nt))]

end DtsVerif.Drv
