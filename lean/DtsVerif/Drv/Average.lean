import DtsVerif.Drv.Common
import DtsVerif.Model.Average
namespace DtsVerif.Drv
open Lean DtsVerif.Average

def modeOf : String → R Mode
  | "avg1" => pure .avg1 | "avg2" => pure .avg2 | "avgx1" => pure .avgx1 | "avgx2" => pure .avgx2
  | s => throw s!"bad mode {s}"

def opAvgTable (j : Json) : R Json := do
  let de ← getBool (← field j "double")
  let m ← modeOf (← getStr (← field j "mode"))
  let ci ← getBool (← field j "ci")
  pure <| Json.mkObj [("outputs", listJ (fun o => Json.arr #[Json.str o.1, listJ Json.str o.2]) (allOutputs de m ci))]

def opAvgValues (j : Json) : R Json := do
  let t ← listOf getRat (← field j "t")
  let v ← listOf getRat (← field j "v")
  pure <| Json.mkObj [("mean", ratJ (mean t)), ("ivw_var", ratJ (ivwVar v)), ("ivw_mean", ratJ (ivwMean t v))]

end DtsVerif.Drv
