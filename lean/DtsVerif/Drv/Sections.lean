import DtsVerif.Drv.Common
import DtsVerif.Model.Sections
namespace DtsVerif.Drv
open Lean DtsVerif.Sections

def getStretch (j : Json) : R Stretch := do
  let a ← getArr j
  if a.size ≠ 2 then throw "stretch: expected [a, b]"
  pure ⟨← getRat a[0]!, ← getRat a[1]!⟩

def getDict (j : Json) : R Dict := listOf (listOf getStretch) j

def stageStr : Stage → String
  | .ok => "ok" | .overlap => "overlap" | .key => "key" | .empty => "empty" | .shared => "shared"

def taggedJ (xs : List Rat) (t : Tagged) : Json :=
  Json.arr #[natJ t.bath, natJ t.k, listJ natJ (selIdx xs t.s)]

def opSectionsEval (j : Json) : R Json := do
  let xs ← listOf getRat (← field j "xs")
  let d ← getDict (← field j "dict")
  let present ← listOf getBool (← field j "present")
  pure <| Json.mkObj [
    ("stage", Json.str (stageStr (validate xs present d))),
    ("overlap_ok", Json.bool (validateNoOverlap d)),
    ("stretch", listJ (listJ (taggedJ xs)) (orderStretch d)),
    ("section", listJ (listJ (taggedJ xs)) (orderSection d)),
    ("all", listJ (taggedJ xs) (orderAll d)),
    ("ixSecAll", listJ natJ (ixSecAll xs d)),
    ("bathOfRow", listJ natJ (bathOfRow xs d))]

end DtsVerif.Drv
