import DtsVerif.Drv.Merge
import DtsVerif.Drv.Sections
import DtsVerif.Drv.Shift
import DtsVerif.Drv.Calib
import DtsVerif.Drv.Guards
import DtsVerif.Drv.MonteCarlo
import DtsVerif.Drv.Average
import DtsVerif.Drv.Resid
import DtsVerif.Drv.Attrs
import DtsVerif.Drv.TimeCoords
import DtsVerif.Drv.Chunk
import DtsVerif.Drv.Readers
import DtsVerif.Drv.Design
import DtsVerif.Drv.Scatter
/-! Line-protocol driver: one JSON request per line on stdin, one JSON reply per line on stdout. -/
open Lean DtsVerif.Drv

def dispatch (op : String) (j : Json) : R Json :=
  match op with
  | "merge.times" => opMergeTimes j
  | "merge.space" => opMergeSpace j
  | "merge.swapped" => opMergeSwapped j
  | "sections.eval" => opSectionsEval j
  | "shift" => opShift j
  | "suggest" => opSuggest j
  | "calib" => opCalib j
  | "layout" => opLayout j
  | "design" => opDesign j
  | "scatter" => opScatter j
  | "calib.temps" => opTemps j
  | "propagate" => opPropagate j
  | "guard" => opGuard j
  | "mc.percentile" => opPercentile j
  | "mc.unpack" => opMcUnpack j
  | "avg.table" => opAvgTable j
  | "avg.values" => opAvgValues j
  | "resid.place" => opResidPlace j
  | "resid.var" => opSampleVar j
  | "attrs" => opAttrs j
  | "time.coords" => opTimeCoords j
  | "time.convert" => opTimeConvert j
  | "chunk" => opChunk j
  | "reader.stack" => opReaderStack j
  | "reader.order_by_time" => opReaderOrderTime j
  | "reader.sensornet_cut" => opSensornetCut j
  | "reader.sensortran" => opSensortran j
  | _ => throw "bad-op"

def handle (line : String) : String :=
  match Json.parse line with
  | .error e => (Json.mkObj [("err", Json.str ("bad-json: " ++ e))]).compress
  | .ok j =>
    let id := (j.getObjVal? "id").toOption.getD Json.null
    match (do let op ← getStr (← field j "op"); dispatch op j) with
    | .ok r => (Json.mkObj [("id", id), ("ok", r)]).compress
    | .error e => (Json.mkObj [("id", id), ("err", Json.str e)]).compress

partial def loop (hin : IO.FS.Stream) (hout : IO.FS.Stream) : IO Unit := do
  let line ← hin.getLine
  if line.isEmpty then return ()
  if line.trimAscii.isEmpty then loop hin hout else
  hout.putStrLn (handle line)
  hout.flush
  loop hin hout

def main : IO Unit := do loop (← IO.getStdin) (← IO.getStdout)
