import DtsVerif.AuditCmd
import DtsVerif.Props.C15
