import DtsVerif.AuditCmd
import DtsVerif.Props.C01
import DtsVerif.Props.C02
import DtsVerif.Props.C07
import DtsVerif.Props.C14
import DtsVerif.Props.C15
import DtsVerif.Props.C16
import DtsVerif.Props.C20
