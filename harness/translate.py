"""Translator: the arithmetic of the temperature / variance-propagation block of `calibrate_single_ended` and
`calibrate_double_ended` (src/dtscalibration/dts_accessor.py), read from the CURRENT source with `ast`, is emitted as Lean
definitions over an arbitrary field together with theorems stating that they are the hand-written model's definitions
(`Propagate.derivsFw/derivsBw/termsChannel/termsSingle/termsSingleFixAlpha/termsW`, `C06.approx/tmpw/weightF/weightB`, the
temperature equations).  The generated file is compiled by `lean` on every run of C04/C05/C06: if the source's formulas change,
either the translation stops (an atom outside the table below) or a `gen = model` theorem no longer checks — a broken tie that
sends the check into its failing-input search.

What is trusted here (DESIGN §6): the atom table (which Python sub-expression denotes which model quantity), the structural
walk that finds the assignments, and Python's own `ast`.  Whether e.g. `param_covs["tafw_gamma"]` really IS cov(τ_F, γ) is not
taken from the table but established by the correspondence check (term-by-term comparison with the model's extraction from p_cov).
"""
import ast
import os
from pathlib import Path


class Untranslatable(Exception):
    pass


def _const_str(node):
    """a string constant, or a '+' of string constants (the code writes "tmpw_var" + "_approx")"""
    if isinstance(node, ast.Constant) and isinstance(node.value, str):
        return node.value
    if isinstance(node, ast.BinOp) and isinstance(node.op, ast.Add):
        a, b = _const_str(node.left), _const_str(node.right)
        if a is not None and b is not None:
            return a + b
    return None


def _key(node):
    """canonical textual key of an atom candidate"""
    if isinstance(node, ast.Name):
        return node.id
    if isinstance(node, ast.Attribute):
        b = _key(node.value)
        return None if b is None else f"{b}.{node.attr}"
    if isinstance(node, ast.Subscript):
        b, s = _key(node.value), _const_str(node.slice)
        return None if b is None or s is None else f'{b}["{s}"]'
    if isinstance(node, ast.Call):
        f = _key(node.func)
        args = [_key(a) for a in node.args]
        if f is None or None in args or node.keywords:
            return None
        return f"{f}({', '.join(args)})"
    if isinstance(node, ast.BinOp) and isinstance(node.op, (ast.Div, ast.Sub)):
        a, b = _key(node.left), _key(node.right)
        return None if a is None or b is None else f"{a} {'/' if isinstance(node.op, ast.Div) else '-'} {b}"
    return None


class Tr:
    """expression translator with an atom table `atoms: key -> Lean text` and local definitions `local: key -> Lean text`"""

    def __init__(self, atoms):
        self.atoms = dict(atoms)

    def tr(self, n):
        k = _key(n)
        if k is not None and k in self.atoms:
            return self.atoms[k]
        if isinstance(n, ast.Constant) and isinstance(n.value, (int, float)) and not isinstance(n.value, bool):
            if n.value == 273.15:
                return "c273"
            if float(n.value) == int(n.value) and 0 <= int(n.value) < 1000:
                return f"({int(n.value)} : K)"
            raise Untranslatable(f"numeric constant {n.value!r}")
        if isinstance(n, ast.UnaryOp) and isinstance(n.op, ast.USub):
            return f"(-{self.tr(n.operand)})"
        if isinstance(n, ast.BinOp):
            if isinstance(n.op, ast.Pow):
                if isinstance(n.right, ast.Constant) and n.right.value == 2:
                    return f"({self.tr(n.left)} ^ 2)"
                raise Untranslatable("power other than 2")
            op = {ast.Add: "+", ast.Sub: "-", ast.Mult: "*", ast.Div: "/"}.get(type(n.op))
            if op is None:
                raise Untranslatable(f"operator {type(n.op).__name__}")
            return f"({self.tr(n.left)} {op} {self.tr(n.right)})"
        raise Untranslatable(f"atom outside the table: {ast.unparse(n)[:80]}")


def _dict_items(node):
    """dict(k=v, ...) call -> [(k, v)]"""
    if isinstance(node, ast.Call) and isinstance(node.func, ast.Name) and node.func.id == "dict" and not node.args:
        return [(kw.arg, kw.value) for kw in node.keywords]
    raise Untranslatable(f"not a dict(...) literal: {ast.unparse(node)[:60]}")


class Block:
    """the assignments of one method, in source order, including those nested in if/else bodies"""

    def __init__(self, fn):
        self.assign = {}     # name or out["key"] -> value node (last assignment wins; all are kept in .all)
        self.all = []
        self.updates = []    # (target name, dict node, enclosing if-test source)
        self._walk(fn.body, None)

    def _walk(self, body, test):
        for st in body:
            if isinstance(st, ast.Assign) and len(st.targets) == 1:
                k = _key(st.targets[0])
                if k is not None:
                    self.assign[k] = st.value
                    self.all.append((k, st.value))
            elif isinstance(st, ast.Expr) and isinstance(st.value, ast.Call) and isinstance(st.value.func, ast.Attribute) \
                    and st.value.func.attr == "update" and isinstance(st.value.func.value, ast.Name) and len(st.value.args) == 1:
                self.updates.append((st.value.func.value.id, st.value.args[0], test))
            elif isinstance(st, ast.If):
                self._walk(st.body, ast.unparse(st.test))
                self._walk(st.orelse, "not (" + ast.unparse(st.test) + ")")
            elif isinstance(st, (ast.For, ast.With, ast.Try)):
                self._walk(st.body, test)

    def get(self, key):
        if key not in self.assign:
            raise Untranslatable(f"assignment to {key} not found")
        return self.assign[key]


def _methods(src_root):
    path = Path(src_root) / "dtscalibration" / "dts_accessor.py"
    tree = ast.parse(path.read_text())
    out = {}
    for node in ast.walk(tree):
        if isinstance(node, ast.FunctionDef) and node.name in ("calibrate_single_ended", "calibrate_double_ended",
                                                               "monte_carlo_single_ended", "monte_carlo_double_ended"):
            out[node.name] = node
    utils = ast.parse((Path(src_root) / "dtscalibration" / "dts_accessor_utils.py").read_text())
    for node in ast.walk(utils):
        if isinstance(node, ast.FunctionDef) and node.name == "get_params_from_pval_single_ended":
            out[node.name] = node
    for need in ("calibrate_single_ended", "calibrate_double_ended", "get_params_from_pval_single_ended",
                 "monte_carlo_single_ended", "monte_carlo_double_ended"):
        if need not in out:
            raise Untranslatable(f"method {need} not found")
    return out


def _lean_list(items):
    return "[" + ",\n   ".join(items) + "]"


def _struct(fields, vals):
    return "{ " + ", ".join(f"{f} := {v}" for f, v in zip(fields, vals)) + " }"


DERIV_FIELDS = ["g", "st", "ast", "d", "a", "ta"]
COV_FW_D = {"gamma": "c.gg", "df": "c.dd", "alpha": "c.aa", "talpha_fw_full": "c.tt", "gamma_df": "c.gd", "gamma_alpha": "c.ga",
            "alpha_df": "c.ad", "tafw_gamma": "c.tg", "tafw_df": "c.td", "tafw_alpha": "c.ta"}
COV_BW_D = {"gamma": "c.gg", "db": "c.dd", "alpha": "c.aa", "talpha_bw_full": "c.tt", "gamma_db": "c.gd", "gamma_alpha": "c.ga",
            "alpha_db": "c.ad", "tabw_gamma": "c.tg", "tabw_db": "c.td", "tabw_alpha": "c.ta"}
COV_W = {"gamma": "c.gg", "df": "c.ff", "db": "c.bb", "alpha": "c.aa", "talpha_fw_full": "c.tff", "talpha_bw_full": "c.tbb",
         "gamma_df": "c.gf", "gamma_db": "c.gb", "gamma_alpha": "c.ga", "tafw_gamma": "c.gtf", "tabw_gamma": "c.gtb", "df_db": "c.fb",
         "alpha_df": "c.fa", "tafw_df": "c.ftf", "tabw_df": "c.ftb", "alpha_db": "c.ba", "tafw_db": "c.btf", "tabw_db": "c.btb",
         "tafw_alpha": "c.atf", "tabw_alpha": "c.atb", "tafw_tabw": "c.tftb"}
COV_S = {"gamma": "c.gg", "c": "c.dd", "talpha_fw_full": "c.tt", "gamma_c": "c.gd", "tafw_gamma": "c.tg", "tafw_c": "c.td",
         "gamma_dalpha": "c.ga", "dalpha_c": "c.ad", "tafw_dalpha": "c.ta"}
MEAS = {"parse_st_var(self.st, st_var)": "vst", "parse_st_var(self.ast, ast_var)": "vast",
        "parse_st_var(self.rst, rst_var)": "vrst", "parse_st_var(self.rast, rast_var)": "vrast"}


def _covs(table):
    return {f'param_covs["{k}"]': v for k, v in table.items()}


FORMULA_PARTS = ("temps", "derivs", "terms", "weighted", "mc")


def translate(src_root, want=FORMULA_PARTS):
    """returns the text of the generated Lean file (only the parts in `want`); raises Untranslatable with the reason when the
    source has left the fragment"""
    M = _methods(src_root)
    D = Block(M["calibrate_double_ended"])
    S = Block(M["calibrate_single_ended"])
    P = Block(M["get_params_from_pval_single_ended"])
    L = []
    emit = L.append
    emit("""import DtsVerif.Props.C06
import DtsVerif.Props.C04
import DtsVerif.Model.TimeCoords
import DtsVerif.Model.Guards
import DtsVerif.Model.Shift
import DtsVerif.Props.ObsSpec
import DtsVerif.Model.Design
import DtsVerif.Model.Scatter
import Mathlib.Tactic.Ring
import Mathlib.Tactic.FieldSimp
/-! GENERATED by harness/translate.py from the current dts_accessor.py — do not edit. -/
set_option linter.unusedSimpArgs false
set_option linter.unusedVariables false
set_option linter.unusedTactic false
set_option linter.unreachableTactic false
set_option linter.unnecessarySeqFocus false
namespace DtsVerif.Gen
open DtsVerif.Propagate
variable {K : Type} [Field K]
""")
    # ---------------------------------------------------------------------------------------- temperature equations
    if "temps" in want:
        base = {'params["gamma"]': "γ", "np.log(self.st / self.ast)": "IF", "np.log(self.rst / self.rast)": "IB"}
        t = Tr({**base, 'params["df"]': "df", 'params["alpha"]': "α", 'params["talpha_fw_full"]': "τF"})
        emit(f"def tmpfD (γ IF df α τF : K) : K := {t.tr(D.get('tmpf'))}")
        emit("theorem tmpfD_eq (γ IF df α τF : K) : tmpfD γ IF df α τF = γ / (IF + df + α + τF) := by unfold tmpfD; ring\n")
        t = Tr({**base, 'params["db"]': "db", 'params["alpha"]': "α", 'params["talpha_bw_full"]': "τB"})
        emit(f"def tmpbD (γ IB db α τB : K) : K := {t.tr(D.get('tmpb'))}")
        emit("theorem tmpbD_eq (γ IB db α τB : K) : tmpbD γ IB db α τB = γ / (IB + db - α + τB) := by unfold tmpbD; ring\n")
        t = Tr({**base, 'params["c"]': "cc", 'params["alpha"]': "α", 'params["talpha_fw_full"]': "τF"})
        emit(f"def tmpfS (γ IF cc α τF : K) : K := {t.tr(S.get('tmpf'))}")
        emit("theorem tmpfS_eq (γ IF cc α τF : K) : tmpfS γ IF cc α τF = γ / (IF + cc + α + τF) := by unfold tmpfS; ring\n")
        for blk, nm in ((D, "D"), (S, "S")):
            t = Tr({"tmpf": "TF", "tmpb": "TB"})
            emit(f"def outTmpf{nm} (TF c273 : K) : K := {t.tr(blk.get('out[\"tmpf\"]'))}")
            emit(f"theorem outTmpf{nm}_eq (TF c273 : K) : outTmpf{nm} TF c273 = TF - c273 := rfl")
        t = Tr({"tmpf": "TF", "tmpb": "TB"})
        emit(f"def outTmpbD (TB c273 : K) : K := {t.tr(D.get('out[\"tmpb\"]'))}")
        emit("theorem outTmpbD_eq (TB c273 : K) : outTmpbD TB c273 = TB - c273 := rfl\n")
    # ---------------------------------------------------------------------------------------- derivative dictionaries
    if "derivs" in want:
        dd = dict(_dict_items(D.get("deriv_dict")))
        fw_keys = ["T_gamma_fw", "T_st_fw", "T_ast_fw", "T_df_fw", "T_alpha_fw", "T_ta_fw"]
        bw_keys = ["T_gamma_bw", "T_rst_bw", "T_rast_bw", "T_db_bw", "T_alpha_bw", "T_ta_bw"]
        if sorted(dd) != sorted(fw_keys + bw_keys):
            raise Untranslatable(f"deriv_dict (double) has entries {sorted(dd)}")
        t = Tr({"tmpf": "T", 'params["gamma"]': "γ", "self.st": "st", "self.ast": "ast"})
        emit(f"def derivsFwD (T γ st ast : K) : Derivs K :=\n  {_struct(DERIV_FIELDS, [t.tr(dd[k]) for k in fw_keys])}")
        emit("theorem derivsFwD_eq (T γ st ast : K) : derivsFwD T γ st ast = derivsFw T γ st ast := by\n"
             "  simp only [derivsFwD, derivsFw, Derivs.mk.injEq, true_and, and_true]\n  repeat' apply And.intro\n  all_goals (first | rfl | ring)\n")
        t = Tr({"tmpb": "T", 'params["gamma"]': "γ", "self.rst": "rst", "self.rast": "rast"})
        emit(f"def derivsBwD (T γ rst rast : K) : Derivs K :=\n  {_struct(DERIV_FIELDS, [t.tr(dd[k]) for k in bw_keys])}")
        emit("theorem derivsBwD_eq (T γ rst rast : K) : derivsBwD T γ rst rast = derivsBw T γ rst rast := by\n"
             "  simp only [derivsBwD, derivsBw, Derivs.mk.injEq, true_and, and_true]\n  repeat' apply And.intro\n  all_goals (first | rfl | ring)\n")
        ds = dict(_dict_items(S.get("deriv_dict")))
        s_keys = ["T_gamma_fw", "T_st_fw", "T_ast_fw", "T_c_fw", "T_alpha_fw", "T_ta_fw"]
        if sorted(ds) != sorted(s_keys + ["T_dalpha_fw"]):
            raise Untranslatable(f"deriv_dict (single) has entries {sorted(ds)}")
        t = Tr({"tmpf": "T", 'params["gamma"]': "γ", "self.st": "st", "self.ast": "ast", "self.x": "x"})
        emit(f"def derivsFwS (T γ st ast : K) : Derivs K :=\n  {_struct(DERIV_FIELDS, [t.tr(ds[k]) for k in s_keys])}")
        emit("theorem derivsFwS_eq (T γ st ast : K) : derivsFwS T γ st ast = derivsFw T γ st ast := by\n"
             "  simp only [derivsFwS, derivsFw, Derivs.mk.injEq, true_and, and_true]\n  repeat' apply And.intro\n  all_goals (first | rfl | ring)\n")
        emit(f"def dalphaDerivS (T γ x : K) : K := {t.tr(ds['T_dalpha_fw'])}")
        emit("theorem dalphaDerivS_eq (T γ x st ast : K) : dalphaDerivS T γ x = x * (derivsFw T γ st ast).a := by\n"
             "  simp only [dalphaDerivS, derivsFw]; ring\n")
    # ---------------------------------------------------------------------------------------- variance term lists, double
    def jatoms(prefix, keys, var="J"):
        return {f"{prefix}.{k}": f"{var}.{f}" for k, f in zip(keys, DERIV_FIELDS)}

    def var_list(blk, name, atoms):
        t = Tr(atoms)
        items = _dict_items(blk.get(name))
        return [k for k, _ in items], [t.tr(v) for _, v in items]

    if "terms" in want:
        names_fw, terms = var_list(D, "var_fw_dict", {**jatoms("deriv_ds", fw_keys), **_covs(COV_FW_D), **MEAS})
        emit(f"def varFwD (J : Derivs K) (vst vast : K) (c : Covs K) : List K :=\n  {_lean_list(terms)}")
        emit("theorem varFwD_eq (J : Derivs K) (vst vast : K) (c : Covs K) : varFwD J vst vast c = termsChannel J vst vast c := by\n"
             "  simp only [varFwD, termsChannel, List.cons.injEq, true_and, and_true]\n  repeat' apply And.intro\n  all_goals (first | rfl | ring)\n")
        meas_bw = {"parse_st_var(self.rst, rst_var)": "vst", "parse_st_var(self.rast, rast_var)": "vast"}
        names_bw, terms = var_list(D, "var_bw_dict", {**jatoms("deriv_ds", bw_keys), **_covs(COV_BW_D), **meas_bw})
        emit(f"def varBwD (J : Derivs K) (vst vast : K) (c : Covs K) : List K :=\n  {_lean_list(terms)}")
        emit("theorem varBwD_eq (J : Derivs K) (vst vast : K) (c : Covs K) : varBwD J vst vast c = termsChannel J vst vast c := by\n"
             "  simp only [varBwD, termsChannel, List.cons.injEq, true_and, and_true]\n  repeat' apply And.intro\n  all_goals (first | rfl | ring)\n")
        # totals
        for key, da, dim in (("tmpf_var", "var_fw_da", "comp_fw"), ("tmpb_var", "var_bw_da", "comp_bw"), ("tmpw_var", "var_w_da", "comp_w")):
            src = ast.unparse(D.get(f'out["{key}"]'))
            if src.replace("'", '"') != f'out["{da}"].sum(dim="{dim}")':
                raise Untranslatable(f"{key} is no longer the sum of {da} over {dim}: {src}")
        src = ast.unparse(S.get('out["tmpf_var"]')).replace("'", '"')
        if src != 'out["var_fw_da"].sum(dim="comp_fw")':
            raise Untranslatable(f"single-ended tmpf_var is no longer the sum of var_fw_da: {src}")
        for blk, pairs in ((D, (("var_fw_da", "var_fw_dict", "comp_fw"), ("var_bw_da", "var_bw_dict", "comp_bw"), ("var_w_da", "var_w_dict", "comp_w"))),
                           (S, (("var_fw_da", "var_fw_dict", "comp_fw"),))):
            for da, dct, dim in pairs:
                src = ast.unparse(blk.get(f'out["{da}"]')).replace("'", '"')
                if src != f'xr.Dataset({dct}).to_array(dim="{dim}")':
                    raise Untranslatable(f"{da} is no longer built from {dct}: {src}")
    # ---------------------------------------------------------------------------------------- weighted temperature
    if "weighted" in want:
        oa = {'out["tmpf_var"]': "vf", 'out["tmpb_var"]': "vb", 'out["tmpw_var_approx"]': "(approxD vf vb)", "tmpf": "TF", "tmpb": "TB"}
        t = Tr(oa)
        emit(f"def approxD (vf vb : K) : K := {t.tr(D.get('out[\"tmpw_var_approx\"]'))}")
        emit("theorem approxD_eq (vf vb : K) : approxD vf vb = C06.approx vf vb := rfl")
        emit(f"def tmpwD (TF TB vf vb c273 : K) : K := {t.tr(D.get('out[\"tmpw\"]'))}")
        emit("theorem tmpwD_eq (TF TB vf vb c273 : K) : tmpwD TF TB vf vb c273 = C06.tmpw TF TB vf vb - c273 := rfl")
        emit(f"def weightsfD (vf vb : K) : K := {t.tr(D.get('weightsf'))}")
        emit(f"def weightsbD (vf vb : K) : K := {t.tr(D.get('weightsb'))}")
        emit("theorem weightsfD_eq (vf vb : K) : weightsfD vf vb = C06.weightF vf vb := rfl")
        emit("theorem weightsbD_eq (vf vb : K) : weightsbD vf vb = C06.weightB vf vb := rfl")
        t = Tr({"tmpf_var_excl_par": "mf", "tmpb_var_excl_par": "mb"})
        emit(f"def lowerD (mf mb : K) : K := {t.tr(D.get('out[\"tmpw_var_lower\"]'))}")
        emit("theorem lowerD_eq (mf mb : K) : lowerD mf mb = C06.approx mf mb := rfl")
        for key, da, dim, sel in (("tmpf_var_excl_par", "var_fw_da", "comp_fw", ["dT_dst", "dT_dast"]),
                                  ("tmpb_var_excl_par", "var_bw_da", "comp_bw", ["dT_drst", "dT_drast"])):
            src = ast.unparse(D.get(key)).replace("'", '"')
            expect = f'out["{da}"].sel({dim}=["{sel[0]}", "{sel[1]}"]).sum(dim="{dim}")'
            if src != expect:
                raise Untranslatable(f"{key} is no longer the two intensity terms: {src}")
        if names_fw[:2] != ["dT_dst", "dT_dast"] or names_bw[:2] != ["dT_drst", "dT_drast"]:
            raise Untranslatable("the intensity terms are no longer the first two entries of var_fw_dict / var_bw_dict")
    if "terms" in want:
        emit("")
        d2 = dict(_dict_items(D.get("deriv_dict2")))
        sub = {"weightsf": "wf", "weightsb": "wb"}
        sub.update({f'deriv_dict["{k}"]': f"F.{f}" for k, f in zip(fw_keys, DERIV_FIELDS)})
        sub.update({f'deriv_dict["{k}"]': f"B.{f}" for k, f in zip(bw_keys, DERIV_FIELDS)})
        t2 = Tr(sub)
        atoms_w = {f"deriv_ds2.{k}": t2.tr(v) for k, v in d2.items()}
        atoms_w.update(_covs(COV_W))
        atoms_w.update(MEAS)
        names_w, terms = var_list(D, "var_w_dict", atoms_w)
        emit(f"def varWD (wf wb : K) (F B : Derivs K) (vst vast vrst vrast : K) (c : CovsW K) : List K :=\n  {_lean_list(terms)}")
        n = len(terms)
        emit("theorem varWD_eq (wf wb : K) (F B : Derivs K) (vst vast vrst vrast : K) (c : CovsW K) :\n"
             "    varWD wf wb F B vst vast vrst vrast c = termsW wf wb F B vst vast vrst vrast c := by\n"
             f"  simp only [varWD, termsW, List.cons.injEq, true_and, and_true]\n  repeat' apply And.intro\n  all_goals (first | rfl | ring)\n")
    # ---------------------------------------------------------------------------------------- single-ended lists
    if "terms" in want:
        pa = Tr({'param_covs["dalpha"]': "c.aa", 'params["x"]': "x"})
        alpha_var = pa.tr(P.get('param_covs["alpha"]'))
        emit(f"def alphaVarS (x : K) (c : Covs K) : K := {alpha_var}")
        emit("theorem alphaVarS_eq (x : K) (c : Covs K) : alphaVarS x c = c.aa * (x * x) := by unfold alphaVarS; ring\n")
        atoms_s = {**jatoms("deriv_ds", s_keys), **_covs(COV_S), **MEAS, "deriv_ds.T_dalpha_fw": "(x * J.a)"}
        base_names, base_terms = var_list(S, "var_fw_dict", {**atoms_s, 'param_covs["alpha"]': "(alphaVarS x c)"})
        ups = [(tgt, node, test) for tgt, node, test in S.updates if tgt == "var_fw_dict"]
        if len(ups) != 1 or ups[0][2] != "not fix_alpha":
            raise Untranslatable(f"var_fw_dict.update sites: {[(a, c) for a, _, c in ups]}")
        t = Tr(atoms_s)
        upd = _dict_items(ups[0][1])
        upd_terms = [t.tr(v) for _, v in upd]
        emit(f"def varFwS (J : Derivs K) (x vst vast : K) (c : Covs K) : List K :=\n  {_lean_list(base_terms + upd_terms)}")
        emit("theorem varFwS_eq (J : Derivs K) (x vst vast : K) (c : Covs K) : varFwS J x vst vast c = termsSingle J x vst vast c := by\n"
             f"  simp only [varFwS, alphaVarS, termsSingle, List.cons.injEq, true_and, and_true]\n  repeat' apply And.intro\n  all_goals (first | rfl | ring)\n")
        _, fa_terms = var_list(S, "var_fw_dict", {**atoms_s, 'param_covs["alpha"]': "c.aa"})
        emit(f"def varFwSFixAlpha (J : Derivs K) (vst vast : K) (c : Covs K) : List K :=\n  {_lean_list(fa_terms)}")
        emit("theorem varFwSFixAlpha_eq (J : Derivs K) (vst vast : K) (c : Covs K) : varFwSFixAlpha J vst vast c = termsSingleFixAlpha J vst vast c := by\n"
             f"  simp only [varFwSFixAlpha, termsSingleFixAlpha, List.cons.injEq, true_and, and_true]\n  repeat' apply And.intro\n  all_goals (first | rfl | ring)\n")
    # ---------------------------------------------------------------------------------------- Monte Carlo: the same equations
    if "mc" in want:
        MD = Block(M["monte_carlo_double_ended"])
        MS = Block(M["monte_carlo_single_ended"])
        mc_atoms = {'params["gamma_mc"]': "γ", 'np.log(params["r_st"] / params["r_ast"])': "IF", 'np.log(params["r_rst"] / params["r_rast"])': "IB",
                    'np.log(params["r_st"]) - np.log(params["r_ast"])': "IF",
                    'params["df_mc"]': "df", 'params["db_mc"]': "db", 'params["alpha_mc"]': "α", 'params["talpha_fw_mc"]': "τF",
                    'params["talpha_bw_mc"]': "τB", 'params["c_mc"]': "cc", 'params["ta_mc_arr"]': "τF", 'params["dalpha_mc"]': "dα", "params.x": "x"}
        t = Tr(mc_atoms)
        fw = [v for k, v in MD.all if k == 'params["tmpf_mc_set"]']
        bw = [v for k, v in MD.all if k == 'params["tmpb_mc_set"]']
        if len(fw) != 2 or len(bw) != 2:
            raise Untranslatable(f"monte_carlo_double_ended assigns tmpf_mc_set {len(fw)}x and tmpb_mc_set {len(bw)}x (expected with/without splices)")
        for k, node in enumerate(fw):
            txt = t.tr(node)
            with_ta = "τF" in txt
            emit(f"def mcTmpfD{k} (γ IF df α τF c273 : K) : K := {txt}")
            emit(f"theorem mcTmpfD{k}_eq (γ IF df α τF c273 : K) : mcTmpfD{k} γ IF df α τF c273 = tmpfD γ IF df α {'τF' if with_ta else '0'} - c273 := by\n"
                 f"  unfold mcTmpfD{k} tmpfD; ring")
        for k, node in enumerate(bw):
            txt = t.tr(node)
            with_ta = "τB" in txt
            emit(f"def mcTmpbD{k} (γ IB db α τB c273 : K) : K := {txt}")
            emit(f"theorem mcTmpbD{k}_eq (γ IB db α τB c273 : K) : mcTmpbD{k} γ IB db α τB c273 = tmpbD γ IB db α {'τB' if with_ta else '0'} - c273 := by\n"
                 f"  unfold mcTmpbD{k} tmpbD; ring")
        if sorted("τF" in t.tr(n) for n in fw) != [False, True] or sorted("τB" in t.tr(n) for n in bw) != [False, True]:
            raise Untranslatable("the Monte Carlo equations no longer come as one version with and one without the splice term")
        sg = [v for k, v in MS.all if k == 'params["tmpf_mc_set"]']
        if len(sg) != 2:
            raise Untranslatable(f"monte_carlo_single_ended assigns tmpf_mc_set {len(sg)}x (expected fixed-alpha / dalpha versions)")
        kinds = []
        for k, node in enumerate(sg):
            txt = t.tr(node)
            dal = "dα" in txt
            kinds.append(dal)
            emit(f"def mcTmpfS{k} (γ IF cc α dα x τF c273 : K) : K := {txt}")
            emit(f"theorem mcTmpfS{k}_eq (γ IF cc α dα x τF c273 : K) : mcTmpfS{k} γ IF cc α dα x τF c273 = tmpfS γ IF cc {'(dα * x)' if dal else 'α'} τF - c273 := by\n"
                 f"  unfold mcTmpfS{k} tmpfS; ring")
        if sorted(kinds) != [False, True]:
            raise Untranslatable("the single-ended Monte Carlo equations are no longer one alpha and one dalpha*x version")
        # weighted mean of the realisations
        ix = [i for i, (k, _) in enumerate(MD.all) if k == "tmpw_var"]
        if len(ix) != 1:
            raise Untranslatable("monte_carlo_double_ended: assignment to tmpw_var not found exactly once")
        tw = Tr({'out["tmpf_mc_var"]': "vf", 'out["tmpb_mc_var"]': "vb", "tmpw_var": "(mcApprox vf vb)", 'params["tmpf_mc_set"]': "tf",
                 'params["tmpb_mc_set"]': "tb", 'result["tmpf"]': "tf", 'result["tmpb"]': "tb"})
        emit(f"def mcApprox (vf vb : K) : K := {tw.tr(MD.all[ix[0]][1])}")
        emit("theorem mcApprox_eq (vf vb : K) : mcApprox vf vb = C06.approx vf vb := rfl")
        qs = [v for k, v in MD.all[ix[0]:] if k == "q"]
        if not qs:
            raise Untranslatable("monte_carlo_double_ended: weighted realisation q not found")
        emit(f"def mcTmpwSet (tf tb vf vb : K) : K := {tw.tr(qs[0])}")
        emit("theorem mcTmpwSet_eq (tf tb vf vb : K) : mcTmpwSet tf tb vf vb = C06.tmpw tf tb vf vb := rfl")
        emit(f"def mcTmpw (tf tb vf vb : K) : K := {tw.tr(MD.get('out[\"tmpw\"]'))}")
        emit("theorem mcTmpw_eq (tf tb vf vb : K) : mcTmpw tf tb vf vb = C06.tmpw tf tb vf vb := rfl")
        if ast.unparse(MD.get('params["tmpw_mc_set"]')) != "q":
            raise Untranslatable("params['tmpw_mc_set'] is no longer the weighted realisation q")
    emit("end DtsVerif.Gen")
    names = dict(fw=names_fw, bw=names_bw, w=names_w, single=base_names + [k for k, _ in upd]) if "terms" in want else {}
    return "\n".join(L) + "\n", names




# ================================================================================================ parameter layout
class _Sym:
    """tiny symbolic evaluator for the index arithmetic of ParameterIndex*: integers in nt, nx (N), nta -> Lean Nat text"""

    def __init__(self, names):
        self.names = names

    def expr(self, n):
        k = _key(n)
        if k in self.names:
            return self.names[k]
        if isinstance(n, ast.Constant) and isinstance(n.value, int) and not isinstance(n.value, bool) and n.value >= 0:
            return str(n.value)
        if isinstance(n, ast.BinOp) and isinstance(n.op, (ast.Add, ast.Mult)):
            return f"({self.expr(n.left)} {'+' if isinstance(n.op, ast.Add) else '*'} {self.expr(n.right)})"
        raise Untranslatable(f"index arithmetic outside the fragment: {ast.unparse(n)[:80]}")


def _flag_eval(test, flags):
    """evaluate a test over boolean attributes self.<flag> (and, or, not); None if it mentions anything else"""
    if isinstance(test, ast.Attribute) and isinstance(test.value, ast.Name) and test.value.id == "self" and test.attr in flags:
        return flags[test.attr]
    if isinstance(test, ast.UnaryOp) and isinstance(test.op, ast.Not):
        v = _flag_eval(test.operand, flags)
        return None if v is None else not v
    if isinstance(test, ast.BoolOp):
        vs = [_flag_eval(v, flags) for v in test.values]
        if None in vs:
            return None
        return all(vs) if isinstance(test.op, ast.And) else any(vs)
    if isinstance(test, ast.Compare) and ast.unparse(test) == "self.nta == 0":
        return False      # the layout is translated for nta > 0; nta = 0 is the empty block
    return None


def _run_property(fn, flags):
    """follow the if-chain of a @property for concrete flags; returns (assignments dict, returned expression node)"""
    env = {}

    def run(body):
        for st in body:
            if isinstance(st, ast.Expr) and isinstance(st.value, ast.Constant):
                continue   # docstring
            if isinstance(st, ast.If):
                v = _flag_eval(st.test, flags)
                if v is None:
                    raise Untranslatable(f"{fn.name}: cannot decide `{ast.unparse(st.test)}`")
                r = run(st.body if v else st.orelse)
                if r is not None:
                    return r
            elif isinstance(st, ast.Assign) and len(st.targets) == 1 and isinstance(st.targets[0], ast.Name):
                env[st.targets[0].id] = st.value
            elif isinstance(st, ast.Return):
                return st.value
            else:
                raise Untranslatable(f"{fn.name}: statement outside the fragment: {ast.unparse(st)[:60]}")
        return None

    r = run(fn.body)
    if r is None:
        raise Untranslatable(f"{fn.name}: no return reached for {flags}")
    return env, r


def _range_of(node, env, sym):
    """[c] | list(range(a, b)) | np.arange(a, b) (possibly through a local name) -> (lo, hi) Lean text"""
    if isinstance(node, ast.Name) and node.id in env:
        node = env[node.id]
    if isinstance(node, ast.List) and len(node.elts) == 1:
        lo = sym.expr(node.elts[0])
        return lo, f"({lo} + 1)"
    if isinstance(node, ast.Call) and _key(node.func) == "list" and len(node.args) == 1:
        node = node.args[0]
    if isinstance(node, ast.Call) and _key(node.func) in ("range", "np.arange") and len(node.args) == 2 and not node.keywords:
        return sym.expr(node.args[0]), sym.expr(node.args[1])
    raise Untranslatable(f"not a contiguous index range: {ast.unparse(node)[:80]}")


def _reshape_of(node, env, sym):
    """X.reshape((d...), order=O) with X a contiguous range -> (lo, hi, dims, order)"""
    if not (isinstance(node, ast.Call) and isinstance(node.func, ast.Attribute) and node.func.attr == "reshape" and len(node.args) == 1
            and isinstance(node.args[0], ast.Tuple)):
        raise Untranslatable(f"not a reshape of a range: {ast.unparse(node)[:80]}")
    order = "C"
    for kw in node.keywords:
        if kw.arg == "order" and isinstance(kw.value, ast.Constant):
            order = kw.value.value
        else:
            raise Untranslatable("reshape keyword outside the fragment")
    lo, hi = _range_of(node.func.value, env, sym)
    return lo, hi, [sym.expr(d) for d in node.args[0].elts], order


def _pos(dims, idx, order):
    """flat offset of multi-index idx in an array of shape dims (Lean Nat text)"""
    if order == "F":
        e = idx[-1]
        for d, i in zip(reversed(dims[:-1]), reversed(idx[:-1])):
            e = f"({i} + {d} * {e})"
        return e
    e = idx[0]
    for d, i in zip(dims[1:], idx[1:]):
        e = f"({e} * {d} + {i})"
    return e


def _class(tree, name):
    for node in ast.walk(tree):
        if isinstance(node, ast.ClassDef) and node.name == name:
            return {f.name: f for f in node.body if isinstance(f, ast.FunctionDef)}
    raise Untranslatable(f"class {name} not found")


def _close(defs):
    """closing script for an equation between Nat expressions after unfolding `defs`; leaves the goal open (= error) if false"""
    return f"by\n  try simp only [{defs}]\n  all_goals try ring\n  all_goals try omega"


def translate_layout(src_root, parts=("layout", "mcunpack")):
    """Lean text: the index blocks of ParameterIndexDoubleEnded / ParameterIndexSingleEnded as the source computes them, with
    theorems that they are the documented positions `C04.indexD` / `C04.indexS` (all nt, nx, nta)"""
    utils = ast.parse((Path(src_root) / "dtscalibration" / "dts_accessor_utils.py").read_text())
    L = []
    emit = L.append
    emit("\nnamespace DtsVerif.GenLayout\nopen DtsVerif.C04\n")
    sym = _Sym({"self.nt": "nt", "self.nx": "N", "self.nta": "nta", "self.npar": "(nparG nt N nta)"})
    # ------------------------------------------------------------------------------------------------ double ended
    if "layout" in parts:
        PD = _class(utils, "ParameterIndexDoubleEnded")
        flags = dict(fix_gamma=False, fix_alpha=False)
        env, r = _run_property(PD["npar"], flags)
        emit(f"def nparG (nt N nta : Nat) : Nat := {sym.expr(r)}")
        emit("theorem nparG_eq (nt N nta : Nat) : nparG nt N nta = nparD nt N nta := " + _close("nparG, nparD") + "\n")
        blocks = []
        for prop, ctor, size in (("gamma", "Sum.inl ()", "1"), ("df", "Sum.inr (Sum.inl j)", "nt"), ("db", "Sum.inr (Sum.inr (Sum.inl j))", "nt"),
                                 ("alpha", "Sum.inr (Sum.inr (Sum.inr (Sum.inl j)))", "N")):
            env, r = _run_property(PD[prop], flags)
            lo, hi = _range_of(r, env, sym)
            emit(f"def {prop}Lo (nt N nta : Nat) : Nat := {lo}")
            emit(f"def {prop}Hi (nt N nta : Nat) : Nat := {hi}")
            emit(f"theorem {prop}_size (nt N nta : Nat) : {prop}Hi nt N nta = {prop}Lo nt N nta + {size} := " + _close(f"{prop}Hi, {prop}Lo"))
            if prop == "gamma":
                emit(f"theorem {prop}_slot (nt N nta : Nat) : {prop}Lo nt N nta = indexD nt N nta (Sum.inl ()) := " + _close(f"{prop}Lo, indexD"))
            else:
                emit(f"theorem {prop}_slot (nt N nta : Nat) (j : Fin {size}) : {prop}Lo nt N nta + j = indexD nt N nta ({ctor}) := " + _close(f"{prop}Lo, indexD"))
        env, r = _run_property(PD["ta"], flags)
        lo, hi, dims, order = _reshape_of(r, env, sym)
        if len(dims) != 3:
            raise Untranslatable(f"ta is reshaped to {len(dims)} dimensions")
        emit(f"def taLo (nt N nta : Nat) : Nat := {lo}")
        emit(f"def taHi (nt N nta : Nat) : Nat := {hi}")
        emit(f"theorem ta_size (nt N nta : Nat) : taHi nt N nta = taLo nt N nta + {dims[0]} * {dims[1]} * {dims[2]} := " + _close("taHi, taLo, nparG"))
        emit(f"def taAt (nt N nta t d a : Nat) : Nat := taLo nt N nta + {_pos(dims, ['t', 'd', 'a'], order)}")
        emit("theorem ta_slot (nt N nta : Nat) (a : Fin nta) (d : Fin 2) (t : Fin nt) :\n"
             "    taAt nt N nta t d a = indexD nt N nta (Sum.inr (Sum.inr (Sum.inr (Sum.inr (a, d, t))))) := " + _close("taAt, taLo, indexD") + "\n")
        # taf / tab: self.ta[:, k, :].flatten(order=O), read back by get_params_from_pval_double_ended with reshape((nt, nta), order=O')
        G = None
        for node in ast.walk(utils):
            if isinstance(node, ast.FunctionDef) and node.name == "get_params_from_pval_double_ended":
                G = node
        if G is None:
            raise Untranslatable("get_params_from_pval_double_ended not found")
        reads = {}
        for node in ast.walk(G):
            if isinstance(node, ast.Call) and isinstance(node.func, ast.Attribute) and node.func.attr == "reshape" \
                    and isinstance(node.func.value, ast.Subscript) and _key(node.func.value.value) == "p_val":
                which = _key(node.func.value.slice)
                o = "C"
                for kw in node.keywords:
                    if kw.arg == "order":
                        o = kw.value.value
                dims_r = [ast.unparse(d) for d in node.args[0].elts] if node.args and isinstance(node.args[0], ast.Tuple) else None
                reads[which] = (o, dims_r)
        for prop, d in (("taf", 0), ("tab", 1)):
            env, r = _run_property(PD[prop], flags)
            src = ast.unparse(r)
            o = None
            for cand in ("C", "F"):
                if src == f"self.ta[:, {d}, :].flatten(order='{cand}')":
                    o = cand
            if o is None:
                raise Untranslatable(f"{prop} is no longer self.ta[:, {d}, :].flatten(order=...): {src}")
            ro, rd = reads.get(f"ip.{prop}", (None, None))
            if rd != ["ip.nt", "ip.nta"]:
                raise Untranslatable(f"get_params_from_pval_double_ended no longer reshapes p_val[ip.{prop}] to (ip.nt, ip.nta): {rd}")
            emit(f"def {prop}Flat (nt nta t a : Nat) : Nat := {_pos(['nt', 'nta'], ['t', 'a'], o)}   -- where flatten puts ta[t, {d}, a]")
            emit(f"def {prop}Read (nt nta t a : Nat) : Nat := {_pos(['nt', 'nta'], ['t', 'a'], ro)}   -- where the reader looks for [t, a]")
            emit(f"theorem {prop}_roundtrip (nt nta t a : Nat) : {prop}Flat nt nta t a = {prop}Read nt nta t a := " + _close(f"{prop}Flat, {prop}Read"))
        emit("")
        # ------------------------------------------------------------------------------------------------ single ended
        PS = _class(utils, "ParameterIndexSingleEnded")
        syms = _Sym({"self.nt": "nt", "self.nx": "N", "self.nta": "nta"})
        for tag, fl in (("Da", dict(includes_alpha=False, includes_dalpha=True)), ("Al", dict(includes_alpha=True, includes_dalpha=False))):
            env, r = _run_property(PS["npar"], fl)
            emit(f"def npar{tag} (nt N nta : Nat) : Nat := {syms.expr(r)}")
            env, r = _run_property(PS["c"], fl)
            clo, chi = _range_of(r, env, syms)
            emit(f"def c{tag}Lo (nt N nta : Nat) : Nat := {clo}")
            emit(f"def c{tag}Hi (nt N nta : Nat) : Nat := {chi}")
            emit(f"theorem c{tag}_size (nt N nta : Nat) : c{tag}Hi nt N nta = c{tag}Lo nt N nta + nt := " + _close(f"c{tag}Hi, c{tag}Lo"))
            env, r = _run_property(PS["taf"], fl)
            lo, hi, dims, order = _reshape_of(r, env, syms)
            if len(dims) != 2:
                raise Untranslatable("single-ended taf is not a 2-d reshape")
            emit(f"def taf{tag}Lo (nt N nta : Nat) : Nat := {lo}")
            emit(f"def taf{tag}At (nt N nta t a : Nat) : Nat := taf{tag}Lo nt N nta + {_pos(dims, ['t', 'a'], order)}")
            emit(f"theorem taf{tag}_size (nt N nta : Nat) : {hi} = taf{tag}Lo nt N nta + {dims[0]} * {dims[1]} := " + _close(f"taf{tag}Lo"))
            if tag == "Da":
                env, r = _run_property(PS["dalpha"], fl)
                dlo, _ = _range_of(r, env, syms)
                emit(f"theorem nparDa_eq (nt N nta : Nat) : nparDa nt N nta = nparS nt nta := " + _close("nparDa, nparS"))
                emit(f"theorem dalphaDa_slot (nt nta : Nat) : {dlo} = indexS nt nta (Sum.inr (Sum.inl ())) := " + _close("indexS"))
                emit("theorem cDa_slot (nt N nta : Nat) (j : Fin nt) : cDaLo nt N nta + j = indexS nt nta (Sum.inr (Sum.inr (Sum.inl j))) := " + _close("cDaLo, indexS"))
                emit("theorem tafDa_slot (nt N nta : Nat) (a : Fin nta) (t : Fin nt) :\n"
                     "    tafDaAt nt N nta t a = indexS nt nta (Sum.inr (Sum.inr (Sum.inr (a, t)))) := " + _close("tafDaAt, tafDaLo, indexS"))
            else:
                env, r = _run_property(PS["alpha"], fl)
                alo, ahi = _range_of(r, env, syms)
                emit(f"theorem alphaAl_block (nt N nta : Nat) : {alo} = 1 ∧ {ahi} = 1 + N ∧ cAlLo nt N nta = 1 + N ∧ tafAlLo nt N nta = 1 + N + nt ∧ "
                     "nparAl nt N nta = 1 + N + nt + nt * nta := by\n  refine ⟨?_, ?_, ?_, ?_, ?_⟩\n  all_goals try simp only [cAlLo, tafAlLo, nparAl]\n  all_goals try ring")
                emit("theorem tafAl_slot (nt N nta t a : Nat) : tafAlAt nt N nta t a = 1 + N + nt + a * nt + t := " + _close("tafAlAt, tafAlLo"))
    # ------------------------------------------------------------------------------------------------ Monte Carlo unpacking
    if "mcunpack" in parts:
        acc = ast.parse((Path(src_root) / "dtscalibration" / "dts_accessor.py").read_text())
        mcd = None
        for node in ast.walk(acc):
            if isinstance(node, ast.FunctionDef) and node.name == "monte_carlo_double_ended":
                mcd = node
        if mcd is None:
            raise Untranslatable("monte_carlo_double_ended not found")
        B = Block(mcd)
        msym = _Sym({"nt": "nt", "no": "N", "nx_sec": "N", "nta": "nta", "mc_sample_size": "M"})
        tas = [(i, v) for i, (k, v) in enumerate(B.all) if k == "ta"]
        if len(tas) != 2:
            raise Untranslatable(f"monte_carlo_double_ended unpacks the splice block {len(tas)}x (expected: with and without parameter uncertainty)")
        for n_, (i, node) in enumerate(tas):
            if not (isinstance(node, ast.Call) and isinstance(node.func, ast.Attribute) and node.func.attr == "reshape"
                    and isinstance(node.args[0], ast.Tuple)):
                raise Untranslatable(f"splice block unpacking is not a reshape: {ast.unparse(node)[:80]}")
            order = "C"
            for kw in node.keywords:
                if kw.arg == "order":
                    order = kw.value.value
            dims = [msym.expr(d) for d in node.args[0].elts]
            base = node.func.value
            lead = 0
            if not isinstance(base, ast.Subscript):
                raise Untranslatable("splice block is not a slice of the parameter vector")
            sl = base.slice
            if isinstance(sl, ast.Tuple):      # po_mc[:, lo:]  -> leading sample axis kept
                if len(sl.elts) != 2 or ast.unparse(sl.elts[0]) != ":" or dims[0] != "M" or order != "F":
                    raise Untranslatable(f"sampled splice block: unexpected slicing {ast.unparse(base)[:80]}")
                lead, sl = 1, sl.elts[1]
            if not (isinstance(sl, ast.Slice) and sl.upper is None and sl.step is None and sl.lower is not None):
                raise Untranslatable(f"splice block does not run to the end of the vector: {ast.unparse(base)[:80]}")
            lo = msym.expr(sl.lower)
            d3 = dims[lead:]
            if sorted(d3) != ["2", "nt", "nta"]:
                raise Untranslatable(f"splice block reshaped to {dims}")
            for name, dval in (("ta_fw", 0), ("ta_bw", 1)):
                cand = [v for k, v in B.all[i:] if k == name]
                if not cand:
                    raise Untranslatable(f"{name} not found after the reshape")
                ix = cand[0]
                if not (isinstance(ix, ast.Subscript) and _key(ix.value) == "ta" and isinstance(ix.slice, ast.Tuple)
                        and len(ix.slice.elts) == len(dims)):
                    raise Untranslatable(f"{name} is not an index into ta: {ast.unparse(ix)[:60]}")
                idx = []
                for ax, (e, dname) in enumerate(zip(ix.slice.elts[lead:], d3)):
                    if ast.unparse(e) == ":":
                        idx.append({"nt": "t", "nta": "a"}.get(dname))
                        if idx[-1] is None:
                            raise Untranslatable(f"{name}: the direction axis is not selected")
                    elif isinstance(e, ast.Constant) and e.value == dval and dname == "2":
                        idx.append(str(dval))
                    else:
                        raise Untranslatable(f"{name}: unexpected index {ast.unparse(e)} on axis of size {dname}")
                emit(f"def mc{n_}_{name} (nt N nta t a : Nat) : Nat := {lo} + {_pos(d3, idx, order)}")
                emit(f"theorem mc{n_}_{name}_slot (nt N nta : Nat) (a : Fin nta) (t : Fin nt) :\n"
                     f"    mc{n_}_{name} nt N nta t a = indexD nt N nta (Sum.inr (Sum.inr (Sum.inr (Sum.inr (a, ({dval} : Fin 2), t))))) := "
                     + _close(f"mc{n_}_{name}, indexD"))
    emit("\nend DtsVerif.GenLayout")
    return "\n".join(L) + "\n"


# ================================================================================================ time coordinates
def translate_time(src_root):
    """`io/utils.coords_time`: the arithmetic of the nine coordinates in both modes, proved equal to `TimeCoords.coords`.
    NumPy semantics written into this translator (trusted): `astype("timedelta64[s]")` truncates toward zero to whole seconds
    (`truncSec`), `timedelta64[s] / 2` is integer division truncating toward zero (`halfSec`), `.copy()` is the identity."""
    tree = ast.parse((Path(src_root) / "dtscalibration" / "io" / "utils.py").read_text())
    fn = None
    for node in ast.walk(tree):
        if isinstance(node, ast.FunctionDef) and node.name == "coords_time":
            fn = node
    if fn is None:
        raise Untranslatable("coords_time not found")
    branch = [st for st in fn.body if isinstance(st, ast.If) and ast.unparse(st.test) == "not double_ended_flag"]
    if len(branch) != 1:
        raise Untranslatable("coords_time: `if not double_ended_flag` not found exactly once")
    L = ["\nnamespace DtsVerif.GenTime\nopen DtsVerif.TimeCoords\n"]

    def tr(n, env):
        if isinstance(n, ast.Name):
            if n.id == "maxTimeIndex":
                return "e"
            if n.id in env:
                return env[n.id]
            raise Untranslatable(f"coords_time: unknown name {n.id}")
        if isinstance(n, ast.Call) and isinstance(n.func, ast.Attribute) and n.func.attr == "copy" and not n.args:
            return tr(n.func.value, env)
        if isinstance(n, ast.Call) and isinstance(n.func, ast.Attribute) and n.func.attr == "astype" and len(n.args) == 1 \
                and isinstance(n.args[0], ast.Constant) and n.args[0].value == "timedelta64[s]" and isinstance(n.func.value, ast.Name) \
                and n.func.value.id in ("dtFW", "dtBW"):
            return "(truncSec F * NS)" if n.func.value.id == "dtFW" else "(truncSec B * NS)"
        if isinstance(n, ast.BinOp) and isinstance(n.op, ast.Div) and isinstance(n.right, ast.Constant) and n.right.value == 2:
            inner = tr(n.left, env)
            if inner == "(truncSec F * NS)":
                return "(halfSec (truncSec F) * NS)"
            if inner == "(truncSec B * NS)":
                return "(halfSec (truncSec B) * NS)"
            raise Untranslatable("coords_time: halving something that is not an acquisition time")
        if isinstance(n, ast.BinOp) and isinstance(n.op, (ast.Add, ast.Sub)):
            return f"({tr(n.left, env)} {'+' if isinstance(n.op, ast.Add) else '-'} {tr(n.right, env)})"
        raise Untranslatable(f"coords_time: expression outside the fragment: {ast.unparse(n)[:80]}")

    for mode, body, dbl in (("single", branch[0].body, "false"), ("double", branch[0].orelse, "true")):
        env, zipped = {}, None
        for st in body:
            if isinstance(st, ast.Assign) and len(st.targets) == 1 and isinstance(st.targets[0], ast.Name):
                name = st.targets[0].id
                if name == "coords_zip":
                    zipped = st.value
                else:
                    env[name] = tr(st.value, env)
            else:
                raise Untranslatable(f"coords_time ({mode}): statement outside the fragment: {ast.unparse(st)[:60]}")
        if not isinstance(zipped, ast.List):
            raise Untranslatable(f"coords_time ({mode}): coords_zip is not a list")
        names = []
        for el in zipped.elts:
            if not (isinstance(el, ast.Tuple) and len(el.elts) == 2 and isinstance(el.elts[0], ast.Constant)):
                raise Untranslatable("coords_time: coords_zip entry is not (name, value)")
            nm = el.elts[0].value
            names.append(nm)
            L.append(f"def {mode}_{nm} (e : Int) (F B : Rat) : Int := {tr(el.elts[1], env)}")
            L.append(f"theorem {mode}_{nm}_eq (e : Int) (F B : Rat) : {mode}_{nm} e F B = (coords {dbl} e F B).{nm} := by\n"
                     f"  simp only [{mode}_{nm}, coords]\n  all_goals try simp\n  all_goals try ring")
        want = ["timestart", "timeend", "time"] if mode == "single" else \
            ["timeFWstart", "timeFWend", "timeFW", "timeBWstart", "timeBWend", "timeBW", "timestart", "timeend", "time"]
        if sorted(names) != sorted(want):
            raise Untranslatable(f"coords_time ({mode}) reports {names}")
    # the time-zone chain applied to every coordinate
    src = ast.unparse(fn)
    for chain in ("pd.DatetimeIndex(v).tz_localize(tz=timezone_input_files).tz_convert(timezone_netcdf).tz_localize(None)",
                  "pd.DatetimeIndex(v).tz_convert(timezone_netcdf).tz_localize(None)"):
        if chain not in src:
            raise Untranslatable(f"coords_time: the conversion chain `{chain}` is gone")
    L.append("\nend DtsVerif.GenTime")
    return "\n".join(L) + "\n"


# ================================================================================================ input guards
def _guard_pred(test, subject_ok):
    """an assert condition over one array -> predicate on the IEEE class `c` of a single corrupted entry (Lean text), or None.
    subject_ok(node) says whether `node` denotes the guarded array."""
    src = ast.unparse(test)
    # np.all(np.isfinite(A))
    if isinstance(test, ast.Call) and _key(test.func) == "np.all" and len(test.args) == 1:
        a = test.args[0]
        if isinstance(a, ast.Call) and _key(a.func) == "np.isfinite" and len(a.args) == 1 and subject_ok(a.args[0]):
            return "c.isFinite"
        if isinstance(a, ast.Compare) and len(a.ops) == 1 and isinstance(a.ops[0], ast.GtE) and subject_ok(a.left) \
                and isinstance(a.comparators[0], ast.Constant) and a.comparators[0].value == 0:
            return "c.geZero"
    # not np.any(A <= 0.0)
    if isinstance(test, ast.UnaryOp) and isinstance(test.op, ast.Not) and isinstance(test.operand, ast.Call) \
            and _key(test.operand.func) == "np.any" and len(test.operand.args) == 1:
        a = test.operand.args[0]
        if isinstance(a, ast.Compare) and len(a.ops) == 1 and isinstance(a.ops[0], ast.LtE) and subject_ok(a.left) \
                and isinstance(a.comparators[0], ast.Constant) and a.comparators[0].value == 0:
            return "(!c.leZero)"
    return None


def translate_guards(src_root):
    """the assertions that refuse unusable input, read from the source and abstracted to the six IEEE classes of `Model/Guards`;
    generated theorems: every listed corruption falsifies a guard that is actually in the source and reached before any value
    is returned, and the model's verdict table is what these guards give"""
    root = Path(src_root) / "dtscalibration"
    cu = ast.parse((root / "calibrate_utils.py").read_text())
    su = ast.parse((root / "calibration" / "section_utils.py").read_text())
    acc = ast.parse((root / "dts_accessor.py").read_text())
    L = ["\nnamespace DtsVerif.GenGuards\nopen DtsVerif.Guards\n"]

    def func(tree, name):
        for node in ast.walk(tree):
            if isinstance(node, ast.FunctionDef) and node.name == name:
                return node
        raise Untranslatable(f"function {name} not found")

    # ---- parse_st_var: every path to `return` passes both assertions
    f = func(cu, "parse_st_var")
    body = [st for st in f.body if not (isinstance(st, ast.Expr) and isinstance(st.value, ast.Constant))]
    preds, target = [], None
    for st in body:
        if isinstance(st, ast.Assign) and len(st.targets) == 1 and isinstance(st.targets[0], ast.Name) and target is None:
            target = st.targets[0].id
            v = st.value
            if not (isinstance(v, ast.IfExp) and ast.unparse(v.test) == "callable(st_var)" and ast.unparse(v.body) == "st_var(st)"):
                raise Untranslatable(f"parse_st_var: the variance is no longer formed as `st_var(st) if callable(st_var) else ...`: {ast.unparse(v)[:80]}")
        elif isinstance(st, ast.Assert):
            pr = _guard_pred(st.test, lambda n: isinstance(n, ast.Name) and n.id == target)
            if pr is None:
                raise Untranslatable(f"parse_st_var: assertion outside the fragment: {ast.unparse(st.test)[:80]}")
            preds.append(pr)
        elif isinstance(st, ast.Return):
            if ast.unparse(st.value) != target:
                raise Untranslatable("parse_st_var returns something else than the validated array")
            break
        else:
            raise Untranslatable(f"parse_st_var: a statement that may bypass the assertions: {ast.unparse(st)[:80]}")
    if not preds:
        raise Untranslatable("parse_st_var has no assertion before its return")
    L.append(f"def varianceGuard (c : Cls) : Bool := {' && '.join(preds)}")
    L.append("theorem variance_listed_refused : ∀ c ∈ listed .variance, varianceGuard c = false := by decide")
    L.append("theorem variance_model : ∀ c : Cls, varianceGuard c = false → verdict .variance c = .raises := by\n  intro c; cases c <;> decide")
    # every variance argument goes through parse_st_var in both solvers and in both propagation blocks
    for tree, fname, names in ((cu, "calibration_single_ended_solver", ["st_var", "ast_var"]),
                               (cu, "calibrate_double_ended_solver", ["st_var", "ast_var", "rst_var", "rast_var"]),
                               (acc, "calibrate_single_ended", ["st_var", "ast_var"]),
                               (acc, "calibrate_double_ended", ["st_var", "ast_var", "rst_var", "rast_var"])):
        fn = func(tree, fname)
        seen = set()
        for node in ast.walk(fn):
            if isinstance(node, ast.Call) and _key(node.func) == "parse_st_var" and len(node.args) == 2 and isinstance(node.args[1], ast.Name):
                seen.add(node.args[1].id)
        missing = [n for n in names if n not in seen]
        if missing:
            raise Untranslatable(f"{fname}: {missing} no longer pass through parse_st_var")
    # ---- reference temperatures: validate_sections
    f = func(su, "validate_sections")
    tref = None
    for node in ast.walk(f):
        if isinstance(node, ast.Assert):
            pr = _guard_pred(node.test, lambda n: ast.unparse(n) == "ds[k].values")
            if pr is not None:
                tref = pr
    if tref is None:
        raise Untranslatable("validate_sections: no finiteness assertion on the reference temperature series ds[k].values")
    L.append(f"def trefGuard (c : Cls) : Bool := {tref}")
    L.append("theorem tref_listed_refused : ∀ c ∈ listed .tref, trefGuard c = false := by decide")
    L.append("theorem tref_model : ∀ c : Cls, trefGuard c = false ↔ verdict .tref c = .raises := by\n  intro c; cases c <;> decide")
    for fname in ("calibrate_single_ended", "calibrate_double_ended"):
        fn = func(acc, fname)
        if not any(isinstance(n, ast.Call) and _key(n.func) == "validate_sections" for n in ast.walk(fn)):
            raise Untranslatable(f"{fname} no longer calls validate_sections")
    # ---- intensities at the reference locations
    for fname, names in (("calibrate_single_ended", ["st", "ast"]), ("calibrate_double_ended", ["st", "ast", "rst", "rast"])):
        fn = func(acc, fname)
        found = {}
        for node in ast.walk(fn):
            if isinstance(node, ast.Assert):
                for n in names:
                    pr = _guard_pred(node.test, lambda a, n=n: ast.unparse(a) == f"self.{n}.isel(x=ix_sec)")
                    if pr is not None:
                        found[n] = pr
        missing = [n for n in names if n not in found]
        if missing or len(set(found.values())) != 1:
            raise Untranslatable(f"{fname}: positivity assertion on the reference locations missing for {missing}")
        tag = "S" if fname.endswith("single_ended") else "D"
        L.append(f"def intensityGuard{tag} (c : Cls) : Bool := {found[names[0]]}")
    # wls_sparse: finite observations and weights
    f = func(cu, "wls_sparse")
    fin = set()
    for node in ast.walk(f):
        if isinstance(node, ast.Assert):
            for n in ("y", "w", "x0"):
                if _guard_pred(node.test, lambda a, n=n: isinstance(a, ast.Name) and a.id == n) == "c.isFinite":
                    fin.add(n)
    if not {"y", "w"} <= fin:
        raise Untranslatable(f"wls_sparse: finiteness assertions found only for {sorted(fin)}")
    for tag in ("S", "D"):
        L.append(f"def numerGuard{tag} (c : Cls) : Bool := intensityGuard{tag} c && (Cls.log c.overPos).isFinite")
        L.append(f"def denomGuard{tag} (c : Cls) : Bool := intensityGuard{tag} c && (Cls.log c.posOver).isFinite")
        L.append(f"theorem numer{tag}_model : ∀ c : Cls, numerGuard{tag} c = false ↔ verdict .numer c = .raises := by\n  intro c; cases c <;> decide")
        L.append(f"theorem denom{tag}_model : ∀ c : Cls, denomGuard{tag} c = false ↔ verdict .denom c = .raises := by\n  intro c; cases c <;> decide")
        L.append(f"theorem numer{tag}_listed_refused : ∀ c ∈ listed .numer, numerGuard{tag} c = false := by decide")
        L.append(f"theorem denom{tag}_listed_refused : ∀ c ∈ listed .denom, denomGuard{tag} c = false := by decide")
    L.append("\nend DtsVerif.GenGuards")
    return "\n".join(L) + "\n"


# ================================================================================================ shift_double_ended
def _shift_slices(fn, body, where):
    """the four slice pairs of an `if i_shift < 0: ... else: ...` found among the statements `body` of function `fn`"""
    env = {}
    branch = None
    for st in body:
        if isinstance(st, ast.Assign) and len(st.targets) == 1 and isinstance(st.targets[0], ast.Name) and st.targets[0].id in ("nx", "nx2"):
            env[st.targets[0].id] = st.value
        if isinstance(st, ast.If) and ast.unparse(st.test) == "i_shift < 0":
            branch = st
            break
    nxsrc = ast.unparse(env.get("nx", ast.Constant(0))).replace("'", '"')
    if branch is None or nxsrc not in ("ds.x.size", 'ds["x"].size'):
        raise Untranslatable(f"{where}: `nx = ds.x.size` / `if i_shift < 0` not found")

    def iexpr(n):
        if isinstance(n, ast.Name) and n.id == "i_shift":
            return "i"
        if isinstance(n, ast.Name) and n.id == "nx":
            return "(fwd.length : Int)"
        if isinstance(n, ast.Name) and n.id in env:
            return iexpr(env[n.id])
        if isinstance(n, ast.UnaryOp) and isinstance(n.op, ast.USub):
            return f"(-{iexpr(n.operand)})"
        if isinstance(n, ast.BinOp) and isinstance(n.op, (ast.Sub, ast.Add)):
            return f"({iexpr(n.left)} {'-' if isinstance(n.op, ast.Sub) else '+'} {iexpr(n.right)})"
        raise Untranslatable(f"{where}: slice bound outside the fragment: {ast.unparse(n)}")

    def bound(n):
        return "none" if n is None else f"(some {iexpr(n)})"

    def slices(stmts):
        got = {}
        for st in stmts:
            if not (isinstance(st, ast.Assign) and len(st.targets) == 1 and isinstance(st.targets[0], ast.Name)):
                raise Untranslatable(f"{where}: statement outside the fragment: {ast.unparse(st)[:60]}")
            v = st.value
            if not (isinstance(v, ast.Subscript) and isinstance(v.slice, ast.Slice) and v.slice.step is None):
                raise Untranslatable(f"{where}: not a plain slice: {ast.unparse(v)[:60]}")
            base = ast.unparse(v.value).replace("'", '"')
            name = st.targets[0].id
            src_name = {"st": "st", "ast": "ast", "rst": "rst", "rast": "rast", "x2": "x"}.get(name)
            if src_name is None or base not in (f"ds.{src_name}.data", f'ds["{src_name}"].data'):
                raise Untranslatable(f"{where}: `{name}` is sliced from `{base}`")
            got[name] = (bound(v.slice.lower), bound(v.slice.upper))
        if sorted(got) != ["ast", "rast", "rst", "st", "x2"]:
            raise Untranslatable(f"{where}: slices found for {sorted(got)}")
        if not (got["st"] == got["ast"] == got["x2"]) or got["rst"] != got["rast"]:
            raise Untranslatable(f"{where}: arrays of one direction are sliced differently: {got}")
        return got["st"], got["rst"]

    return slices(branch.body), slices(branch.orelse)


def translate_shift(src_root):
    """`shift_double_ended` and the candidate loop of `suggest_cable_shift_double_ended`: the slices taken from the forward-type
    arrays (st, ast, x) and the backward-type arrays (rst, rast) in both branches, proved to be `Shift.shift` (Python slice
    semantics = `Py.pySlice`, trusted rule); the objective's ingredients of the suggestion are checked structurally"""
    tree = ast.parse((Path(src_root) / "dtscalibration" / "dts_accessor_utils.py").read_text())
    fns = {node.name: node for node in ast.walk(tree) if isinstance(node, ast.FunctionDef)}
    for need in ("shift_double_ended", "suggest_cable_shift_double_ended"):
        if need not in fns:
            raise Untranslatable(f"{need} not found")
    L = ["\nnamespace DtsVerif.GenShift\nopen DtsVerif.Py DtsVerif.Shift\n"]
    fn = fns["shift_double_ended"]
    src = ast.unparse(fn).replace("'", '"')
    if 'new_data = (("st", st), ("ast", ast), ("rst", rst), ("rast", rast))' not in src or 'd2_coords["x"] = xr.DataArray(data=x2' not in src:
        raise Untranslatable("shift_double_ended: the result is no longer assembled from st, ast, rst, rast, x2")
    sg = fns["suggest_cable_shift_double_ended"]
    loops = [st for st in sg.body if isinstance(st, ast.For)]
    if len(loops) != 1 or ast.unparse(loops[0].iter) != "irange":
        raise Untranslatable("suggest_cable_shift_double_ended: the loop over irange not found")
    body = [st for st in loops[0].body]
    if not (isinstance(body[0], ast.Assign) and ast.unparse(body[0]) == "i_shift = int(shift)" and ast.unparse(loops[0].target) == "shift"):
        raise Untranslatable("suggest_cable_shift_double_ended: `i_shift = int(shift)` not found")
    for tag, f, stmts in (("shift", fn, fn.body), ("suggest", sg, body)):
        ((fn_lo, fn_hi), (bn_lo, bn_hi)), ((fp_lo, fp_hi), (bp_lo, bp_hi)) = _shift_slices(f, stmts, f.name)
        L += [f"def {tag}G {{α}} (fwd bwd : List α) (i : Int) : List α × List α :=",
              f"  if i < 0 then (pySlice fwd {fn_lo} {fn_hi}, pySlice bwd {bn_lo} {bn_hi})",
              f"  else (pySlice fwd {fp_lo} {fp_hi}, pySlice bwd {bp_lo} {bp_hi})",
              f"theorem {tag}G_eq {{α}} (fwd bwd : List α) (i : Int) : {tag}G fwd bwd i = shift fwd bwd i := by\n  unfold {tag}G shift\n  split <;> rfl"]
    # the ingredients of the two objectives, as the model has them
    ssrc = ast.unparse(sg).replace("'", '"')
    for piece in ("att = (i_b - i_f) / 2", "i_f = np.log(st / ast)", "i_b = np.log(rst / rast)",
                  "att_dif1 = np.diff(att, n=1, axis=0)", "att_x_dif1 = 0.5 * x2[1:] + 0.5 * x2[:-1]",
                  "err1_mask = np.logical_and(att_x_dif1 > 1.0, att_x_dif1 < 150.0)", "err1.append(np.nansum(np.abs(att_dif1[err1_mask])))",
                  "att_dif2 = np.diff(att, n=2, axis=0)", "att_x_dif2 = x2[1:-1]",
                  "err2_mask = np.logical_and(att_x_dif2 > 1.0, att_x_dif2 < 150.0)", "err2.append(np.nansum(np.abs(att_dif2[err2_mask])))",
                  "ishift1 = int(irange[np.argmin(err1, axis=0)])", "ishift2 = int(irange[np.argmin(err2, axis=0)])"):
        if piece not in ssrc:
            raise Untranslatable(f"suggest_cable_shift_double_ended: `{piece}` is gone")
    L.append("\nend DtsVerif.GenShift")
    return "\n".join(L) + "\n"


# ================================================================================================ design matrices (COO index vectors)
_DESIGN_SCALARS = {"nt": "nt", "nx": "nx", "nm": "nm", "nta": "nta", "ix_sec_ta_ix0": "ix0", "ix_ta_ix0": "ix0", "npair": "npair",
                   "nx_nm": "n3"}


class _Design:
    """sequential walk over a solver function: keeps the latest assignment of every name and records every
    `sp.coo_matrix((data, (row, col)), shape=...)` together with the name it is bound to (or the list it is appended to)"""

    def __init__(self, fn, where, stop_at=None):
        self.where = where
        self.env = {}
        self.coo = []          # (target, data, row, col, shape) as ast nodes resolved at the point of the call
        self.ifs = []          # the `if trans > x[-1] ... elif ... else` chains that assign ix_sec_ta_ix0
        self.stmts = {}        # unparsed text of selected single statements (stacking)
        self._walk(fn.body, stop_at)

    def _resolve(self, n):
        """substitute names by their latest assignment, except the scalar atoms"""
        if isinstance(n, ast.Name) and n.id not in _DESIGN_SCALARS and n.id not in ("cal_ref", "x_sec", "ds_ms0", "ds_ms1", "hix", "tix", "ix_match_not_cal") and n.id in self.env:
            return self._resolve(self.env[n.id])
        if isinstance(n, ast.Name):
            return n
        out = type(n)(**{f: getattr(n, f) for f in n._fields})
        for f in n._fields:
            v = getattr(n, f)
            if isinstance(v, ast.AST):
                setattr(out, f, self._resolve(v))
            elif isinstance(v, list):
                setattr(out, f, [self._resolve(x) if isinstance(x, ast.AST) else x for x in v])
        return out

    def _coo_of(self, call, target):
        if not (isinstance(call, ast.Call) and ast.unparse(call.func) == "sp.coo_matrix" and call.args):
            return False
        a0 = call.args[0]
        if not (isinstance(a0, ast.Tuple) and len(a0.elts) == 2 and isinstance(a0.elts[1], ast.Tuple) and len(a0.elts[1].elts) == 2):
            return False
        data, (row, col) = a0.elts[0], a0.elts[1].elts
        shape = next((k.value for k in call.keywords if k.arg == "shape"), None)
        if isinstance(data, ast.List) and not data.elts:
            return True          # an explicitly empty block
        self.coo.append((target, self._resolve(data), self._resolve(row), self._resolve(col), self._resolve(shape) if shape is not None else None))
        return True

    def _walk(self, body, stop_at):
        for st in body:
            if stop_at is not None and isinstance(st, ast.If) and stop_at in ast.unparse(st.test).replace("'", '"'):
                return
            if isinstance(st, ast.Assign) and len(st.targets) == 1 and isinstance(st.targets[0], ast.Name):
                name = st.targets[0].id
                if not self._coo_of(st.value, name):
                    self.env[name] = st.value
                if name in ("X", "X_TA", "X_m", "Z_TA_fw", "Z_TA_bw", "y", "cal_ref") and name not in self.stmts:
                    self.stmts[name] = ast.unparse(st).replace("'", '"')
            elif isinstance(st, ast.Expr) and isinstance(st.value, ast.Call) and isinstance(st.value.func, ast.Attribute) \
                    and st.value.func.attr == "append" and st.value.args:
                self._coo_of(st.value.args[0], ast.unparse(st.value.func.value))
            elif isinstance(st, ast.If):
                if any(isinstance(x, ast.Assign) and ast.unparse(x.targets[0]) == "ix_sec_ta_ix0" for x in st.body):
                    self.ifs.append(st)
                    continue
                self._walk(st.body, stop_at)
                self._walk(st.orelse, stop_at)
            elif isinstance(st, ast.For):
                self._walk(st.body, stop_at)


def _dz_scalar(n, where):
    if isinstance(n, ast.Name) and n.id in _DESIGN_SCALARS:
        return _DESIGN_SCALARS[n.id]
    if isinstance(n, ast.Constant) and isinstance(n.value, int) and n.value >= 0:
        return str(n.value)
    if isinstance(n, ast.BinOp) and isinstance(n.op, (ast.Mult, ast.Sub, ast.Add)):
        op = {ast.Mult: "*", ast.Sub: "-", ast.Add: "+"}[type(n.op)]
        return f"({_dz_scalar(n.left, where)} {op} {_dz_scalar(n.right, where)})"
    raise Untranslatable(f"{where}: size expression outside the fragment: {ast.unparse(n)[:70]}")


def _dz_array(n, where, atoms=None):
    """an index vector built with arange / zeros / ones / tile / repeat / +, as a Lean `List Nat` expression over `Py`"""
    atoms = atoms or {}
    k = ast.unparse(n).replace("'", '"')
    if k in atoms:
        return atoms[k]
    if isinstance(n, ast.Call):
        f = ast.unparse(n.func)
        kw = {x.arg: x.value for x in n.keywords if x.arg != "dtype"}
        if f == "np.arange":
            if "step" in kw and len(n.args) == 1 and len(kw) == 1:
                return f"(arangeStep {_dz_scalar(n.args[0], where)} {_dz_scalar(kw['step'], where)})"
            if kw:
                raise Untranslatable(f"{where}: np.arange with {sorted(kw)}")
            if len(n.args) == 1:
                return f"(arange 0 {_dz_scalar(n.args[0], where)})"
            if len(n.args) == 2:
                return f"(arange {_dz_scalar(n.args[0], where)} {_dz_scalar(n.args[1], where)})"
        if f in ("np.zeros", "np.ones") and len(n.args) == 1 and not kw:
            return f"(constL {_dz_scalar(n.args[0], where)} {0 if f == 'np.zeros' else 1})"
        if f in ("np.tile", "np.repeat") and len(n.args) == 2 and not kw:
            return f"({'tile' if f == 'np.tile' else 'repeatEach'} {_dz_array(n.args[0], where, atoms)} {_dz_scalar(n.args[1], where)})"
    if isinstance(n, ast.BinOp) and isinstance(n.op, ast.Add):
        return f"(addL {_dz_array(n.left, where, atoms)} {_dz_array(n.right, where, atoms)})"
    raise Untranslatable(f"{where}: index expression outside the fragment: {k[:90]}")


def _dz_const_data(n, where):
    """`np.ones(n)` / `-np.ones(n)` as the pair (count, value)"""
    sign = 1
    if isinstance(n, ast.UnaryOp) and isinstance(n.op, ast.USub):
        sign, n = -1, n.operand
    if isinstance(n, ast.Call) and ast.unparse(n.func) == "np.ones" and len(n.args) == 1:
        return f"({_dz_scalar(n.args[0], where)}, ({sign} : Int))"
    raise Untranslatable(f"{where}: data vector outside the fragment: {ast.unparse(n)[:70]}")


def _dz_shape(n, where):
    if not (isinstance(n, ast.Tuple) and len(n.elts) == 2):
        raise Untranslatable(f"{where}: shape is not a pair")
    return f"({_dz_scalar(n.elts[0], where)}, {_dz_scalar(n.elts[1], where)})"


def _dz_ix0(chain, xs_name, where):
    """the three-way rule `if s > xs[-1]: ix0 = nx / elif s <= xs[0]: ix0 = 0 / else: ix0 = np.flatnonzero(xs >= s)[0]`"""
    cmpop = {ast.Gt: ">", ast.GtE: "≥", ast.Lt: "<", ast.LtE: "≤"}

    def test(t, which):
        if not (isinstance(t, ast.Compare) and len(t.ops) == 1 and type(t.ops[0]) in cmpop and isinstance(t.left, ast.Name)):
            raise Untranslatable(f"{where}: splice test `{ast.unparse(t)}`")
        rhs = ast.unparse(t.comparators[0])
        want = f"{xs_name}[-1]" if which == "last" else f"{xs_name}[0]"
        if rhs != want:
            raise Untranslatable(f"{where}: splice test compares with `{rhs}`, expected `{want}`")
        elem = "xs.getD (xs.size - 1) 0" if which == "last" else "xs.getD 0 0"
        return t.left.id, f"s {cmpop[type(t.ops[0])]} {elem}"

    def assigned(body):
        if not (len(body) == 1 and isinstance(body[0], ast.Assign) and ast.unparse(body[0].targets[0]) == "ix_sec_ta_ix0"):
            raise Untranslatable(f"{where}: branch of the splice rule does more than assign ix_sec_ta_ix0")
        return body[0].value

    s1, t1 = test(chain.test, "last")
    v1 = ast.unparse(assigned(chain.body))
    if v1 not in ("nx", f"{xs_name}.size"):
        raise Untranslatable(f"{where}: first branch assigns `{v1}`")
    if not (len(chain.orelse) == 1 and isinstance(chain.orelse[0], ast.If)):
        raise Untranslatable(f"{where}: splice rule is not a three-way chain")
    c2 = chain.orelse[0]
    s2, t2 = test(c2.test, "first")
    v2 = assigned(c2.body)
    if not (isinstance(v2, ast.Constant) and v2.value == 0):
        raise Untranslatable(f"{where}: second branch assigns `{ast.unparse(v2)}`")
    v3 = assigned(c2.orelse)
    if not (isinstance(v3, ast.Subscript) and ast.unparse(v3.slice) == "0" and isinstance(v3.value, ast.Call)
            and ast.unparse(v3.value.func) == "np.flatnonzero" and len(v3.value.args) == 1 and isinstance(v3.value.args[0], ast.Compare)):
        raise Untranslatable(f"{where}: third branch is `{ast.unparse(v3)}`")
    c3 = v3.value.args[0]
    if not (ast.unparse(c3.left) == xs_name and len(c3.ops) == 1 and type(c3.ops[0]) in cmpop and ast.unparse(c3.comparators[0]) == s1 == s2):
        raise Untranslatable(f"{where}: third branch tests `{ast.unparse(c3)}`")
    return (f"  if {t1} then xs.size\n  else if {t2} then 0\n"
            f"  else ((List.range xs.size).find? (fun k => xs.getD k 0 {cmpop[type(c3.ops[0])]} s)).getD xs.size")


def _dz_rdata(n, where):
    """float data vector built from index comparisons: np.repeat / + / unary - / `/ 2` / np.array(<idx> >= ix0, dtype=float)"""
    if isinstance(n, ast.Call) and ast.unparse(n.func) == "np.repeat" and len(n.args) == 2:
        return f"(repeatEach {_dz_rdata(n.args[0], where)} {_dz_scalar(n.args[1], where)})"
    if isinstance(n, ast.BinOp) and isinstance(n.op, ast.Add):
        return f"(addR {_dz_rdata(n.left, where)} {_dz_rdata(n.right, where)})"
    if isinstance(n, ast.UnaryOp) and isinstance(n.op, ast.USub):
        return f"(negR {_dz_rdata(n.operand, where)})"
    if isinstance(n, ast.BinOp) and isinstance(n.op, ast.Div) and isinstance(n.right, ast.Constant) and n.right.value == 2:
        return f"(halfR {_dz_rdata(n.left, where)})"
    if isinstance(n, ast.Call) and ast.unparse(n.func) == "np.array" and len(n.args) == 1 and isinstance(n.args[0], ast.Compare) \
            and [ast.unparse(k.value) for k in n.keywords if k.arg == "dtype"] == ["float"]:
        c = n.args[0]
        idx = {"hix": "hix", "tix": "tix", "ix_match_not_cal": "ix3"}.get(ast.unparse(c.left))
        if idx and len(c.ops) == 1 and isinstance(c.ops[0], (ast.GtE, ast.Lt)) and ast.unparse(c.comparators[0]) == "ix_ta_ix0":
            return f"({'geInd' if isinstance(c.ops[0], ast.GtE) else 'ltInd'} {idx} ix0)"
    raise Untranslatable(f"{where}: data expression outside the fragment: {ast.unparse(n)[:90]}")


def _dz_unmask(n, where):
    """`E[E'.astype(bool)]` -> (E, text of the mask source E')"""
    if isinstance(n, ast.Subscript) and isinstance(n.slice, ast.Call) and isinstance(n.slice.func, ast.Attribute) \
            and n.slice.func.attr == "astype" and [ast.unparse(a) for a in n.slice.args] == ["bool"]:
        return n.value, ast.unparse(n.slice.func.value)
    raise Untranslatable(f"{where}: `{ast.unparse(n)[:70]}` is not an array masked by its non-zero data")


def _translate_match_ta(fns, L):
    """the splice coefficients of EQ1, EQ2, EQ3 in `construct_submatrices_matching_sections`"""
    w = "construct_submatrices_matching_sections"
    D = _Design(fns[w], w)
    for k, v in (("npair", "len(hix)"), ("nx_nm", "ix_match_not_cal_sec2.size"),
                 ("ix_match_not_cal", "np.array([ix for ix in ix_cal_match if ix not in ix_sec])"),
                 ("ix_cal_match", "np.unique(np.concatenate((ix_sec, hix, tix)))")):
        if ast.unparse(D.env.get(k, ast.Constant(None))) != v:
            raise Untranslatable(f"{w}: `{k}` is no longer `{v}`")
    src = ast.unparse(fns[w]).replace("'", '"')
    for piece in ("Z_TA_eq1 = sp.hstack(TA_eq1_list)", "Z_TA_eq2 = sp.hstack(TA_eq2_list)", "Z_TA_eq3 = sp.hstack(TA_eq3_list)",
                  "for trans_atti in trans_att:"):
        if piece not in src:
            raise Untranslatable(f"{w}: `{piece}` is gone")

    def single(target, data_model, col_model, n_name):
        hits = [c for c in D.coo if c[0] == target]
        if len(hits) != 1:
            raise Untranslatable(f"{w}: {len(hits)} blocks appended to {target}")
        _, data, row, col, shape = hits[0]
        d, md = _dz_unmask(data, w)
        r, mr = _dz_unmask(row, w)
        c, mc = _dz_unmask(col, w)
        if not (md == mr == mc == ast.unparse(d)):
            raise Untranslatable(f"{w}: data, row and column of {target} are not masked by the non-zero entries of the same data vector")
        tag = target.replace("TA_", "").replace("_list", "")
        args = "(hix tix : List Nat) (nt ix0 : Nat)"
        L.append(f"def {tag}DataG {args} : List Rat := {_dz_rdata(d, w)}")
        L.append(f"theorem {tag}DataG_eq {args} : {tag}DataG hix tix nt ix0 = {data_model} hix tix nt ix0 := rfl")
        L.append(f"def {tag}RowG (nt {n_name} : Nat) : List Nat := {_dz_array(r, w)}")
        L.append(f"theorem {tag}RowG_eq (nt {n_name} : Nat) : {tag}RowG nt {n_name} = mEqRow nt {n_name} := rfl")
        L.append(f"def {tag}ColG (nt {n_name} : Nat) : List Nat := {_dz_array(c, w)}")
        L.append(f"theorem {tag}ColG_eq (nt {n_name} : Nat) : {tag}ColG nt {n_name} = {col_model} nt {n_name} := rfl")
        if ast.unparse(shape) != f"(nt * {'npair' if n_name == 'npair' else 'nx_nm'}, 2 * nt)":
            raise Untranslatable(f"{w}: shape of {target} is {ast.unparse(shape)}")

    single("TA_eq1_list", "mEq1Data", "mEqFCol", "npair")
    single("TA_eq2_list", "mEq2Data", "mEqBCol", "npair")
    hits = [c for c in D.coo if c[0] == "TA_eq3_list"]
    if len(hits) != 1:
        raise Untranslatable(f"{w}: {len(hits)} blocks appended to TA_eq3_list")
    _, data, row, col, shape = hits[0]
    parts = []
    for n in (data, row, col):
        if not (isinstance(n, ast.Call) and ast.unparse(n.func) == "np.concatenate" and len(n.args[0].elts) == 2):
            raise Untranslatable(f"{w}: EQ3 block is not a concatenation of a forward and a backward part")
        parts.append([_dz_unmask(e, w) for e in n.args[0].elts])
    for k in (0, 1):
        masks = {parts[j][k][1] for j in range(3)}
        if masks != {ast.unparse(parts[0][k][0])}:
            raise Untranslatable(f"{w}: EQ3 part {k}: data, row and column are not masked by the same data vector")
    args = "(ix3 : List Nat) (nt ix0 : Nat)"
    for k, (dm, cm, tag) in enumerate((("mEq3FData", "mEqFCol", "eq3F"), ("mEq3BData", "mEqBCol", "eq3B"))):
        L.append(f"def {tag}DataG {args} : List Rat := {_dz_rdata(parts[0][k][0], w)}")
        L.append(f"theorem {tag}DataG_eq {args} : {tag}DataG ix3 nt ix0 = {dm} ix3 nt ix0 := rfl")
        L.append(f"def {tag}RowG (nt n3 : Nat) : List Nat := {_dz_array(parts[1][k][0], w)}")
        L.append(f"theorem {tag}RowG_eq (nt n3 : Nat) : {tag}RowG nt n3 = mEqRow nt n3 := rfl")
        L.append(f"def {tag}ColG (nt n3 : Nat) : List Nat := {_dz_array(parts[2][k][0], w)}")
        L.append(f"theorem {tag}ColG_eq (nt n3 : Nat) : {tag}ColG nt n3 = {cm} nt n3 := rfl")
    if ast.unparse(shape) != "(nt * nx_nm, 2 * nt)":
        raise Untranslatable(f"{w}: shape of the EQ3 block is {ast.unparse(shape)}")


def translate_design(src_root, which=("single", "double")):
    """the COO index vectors (`np.arange / tile / repeat`), constant data vectors, shapes, the splice rule and the stacking order of
    `calibration_single_ended_solver` and `construct_submatrices`, emitted as Lean and proved to be `Model/Design.lean` (whose entries
    `Props/Design.lean` proves, for every size, to be the model's rows)"""
    tree = ast.parse((Path(src_root) / "dtscalibration" / "calibrate_utils.py").read_text())
    fns = {n.name: n for n in ast.walk(tree) if isinstance(n, ast.FunctionDef)}
    L = ["\nnamespace DtsVerif.GenDesign\nopen DtsVerif.Py DtsVerif.Design\n"]
    info = {}

    def emit(name, params, ty, expr, model):
        args = " ".join(p.strip("(){}").split(":")[0].strip() for p in params)
        L.append(f"def {name} {' '.join(params)} : {ty} := {expr}")
        L.append(f"theorem {name}_eq {' '.join(params)} : {name} {args} = {model} {args} := rfl")

    def block(D, target, nth=0):
        hits = [c for c in D.coo if c[0] == target]
        if len(hits) <= nth:
            raise Untranslatable(f"{D.where}: sp.coo_matrix for `{target}` not found")
        return hits[nth]

    if "single" in which:
        w = "calibration_single_ended_solver"
        if w not in fns:
            raise Untranslatable(f"{w} not found")
        D = _Design(fns[w], w, stop_at='solver == "external_split"')
        for need, text in (("X", "X = sp.vstack((sp.hstack((X_gamma, X_dalpha, X_c, X_TA)), X_m))"), ("X_TA", "X_TA = sp.hstack(TA_list)"),
                           ("X_m", "X_m = sp.hstack((X_ma, X_mt))"), ("y", "y = np.log(ds_sec.st / ds_sec.ast).values.T.ravel()")):
            if D.stmts.get(need) != text:
                raise Untranslatable(f"{w}: `{text}` is now `{D.stmts.get(need)}`")
        for k, v in (("nx", "x_sec.size"), ("nt", "ds.time.size"), ("nta", "len(trans_att)"),
                     ("nm", "matching_indices.shape[0] if np.any(matching_indices) else 0"), ("x_sec", 'ds_sec["x"].values')):
            if ast.unparse(D.env.get(k, ast.Constant(None))).replace("'", '"') != v:
                raise Untranslatable(f"{w}: `{k}` is no longer `{v}`")
        P2, P3 = ["(nt nx : Nat)"], ["(nt nx ix0 : Nat)"]
        _, data, row, col, shape = block(D, "X_gamma")
        emit("sGammaRowG", P2, "List Nat", _dz_array(row, w), "sGammaRow")
        emit("sGammaColG", P2, "List Nat", _dz_array(col, w), "sGammaCol")
        emit("sGammaShapeG", P2, "Nat × Nat", _dz_shape(shape, w), "sGammaShape")
        gsrc = ast.unparse(data)
        if gsrc not in ("1 / (cal_ref.T.ravel() + 273.15)", "1 / (cal_ref.ravel() + 273.15)"):
            raise Untranslatable(f"{w}: data_gamma is `{gsrc}`")
        L.append(f"def sGammaTimeMajorG : Bool := {'true' if '.T.ravel()' in gsrc else 'false'}")
        L.append("theorem sGammaTimeMajorG_eq : sGammaTimeMajorG = sGammaTimeMajor := rfl")
        if 'ref_temp_broadcasted=True, calc_per="all"' not in D.stmts.get("cal_ref", ""):
            raise Untranslatable(f"{w}: cal_ref is `{D.stmts.get('cal_ref')}`")
        _, data, row, col, shape = block(D, "X_dalpha")
        emit("sDalphaRowG", P2, "List Nat", _dz_array(row, w), "sDalphaRow")
        emit("sDalphaColG", P2, "List Nat", _dz_array(col, w), "sDalphaCol")
        emit("sDalphaShapeG", P2, "Nat × Nat", _dz_shape(shape, w), "sDalphaShape")
        L.append(f"def sDalphaDataG {{α}} (negx : List α) (nt : Nat) : List α := {_dz_array(data, w, {'-x_sec': 'negx'})}")
        L.append("theorem sDalphaDataG_eq {α} (negx : List α) (nt : Nat) : sDalphaDataG negx nt = sDalphaData negx nt := rfl")
        _, data, row, col, shape = block(D, "X_c")
        emit("sCRowG", P2, "List Nat", _dz_array(row, w), "sCRow")
        emit("sCColG", P2, "List Nat", _dz_array(col, w), "sCCol")
        emit("sCShapeG", P2, "Nat × Nat", _dz_shape(shape, w), "sCShape")
        emit("sCDataG", P2, "Nat × Int", _dz_const_data(data, w), "sCData")
        _, data, row, col, shape = block(D, "TA_list")
        emit("sTaRowG", P3, "List Nat", _dz_array(row, w), "sTaRow")
        emit("sTaColG", P3, "List Nat", _dz_array(col, w), "sTaCol")
        emit("sTaDataG", P3, "Nat × Int", _dz_const_data(data, w), "sTaData")
        emit("sTaShapeG", P2, "Nat × Nat", _dz_shape(shape, w), "sTaShape")
        if len(D.ifs) != 1:
            raise Untranslatable(f"{w}: {len(D.ifs)} splice rules found")
        L.append(f"def sIx0G (xs : Array Rat) (s : Rat) : Nat :=\n{_dz_ix0(D.ifs[0], 'x_sec', w)}")
        L.append("theorem sIx0G_eq (xs : Array Rat) (s : Rat) : sIx0G xs s = ix0Rule xs s := rfl")
        PM = ["(nm nt : Nat)"]
        _, data, row, col, shape = block(D, "X_ma")
        emit("sMaRowG", PM, "List Nat", _dz_array(row, w), "sMaRow")
        emit("sMaColG", PM, "List Nat", _dz_array(col, w), "sMaCol")
        emit("sMaShapeG", PM, "Nat × Nat", _dz_shape(shape, w), "sMaShape")
        L.append(f"def sMaDataG {{α}} (dx : List α) (nt : Nat) : List α := "
                 f"{_dz_array(data, w, {'ds_ms1[\"x\"].values - ds_ms0[\"x\"].values': 'dx'})}")
        L.append("theorem sMaDataG_eq {α} (dx : List α) (nt : Nat) : sMaDataG dx nt = sMaData dx nt := rfl")
        for k, v in (("ds_ms0", "ds.isel(x=matching_indices[:, 0])"), ("ds_ms1", "ds.isel(x=matching_indices[:, 1])")):
            if ast.unparse(D.env.get(k, ast.Constant(None))) != v:
                raise Untranslatable(f"{w}: `{k}` is no longer `{v}`")
        PT = ["(nm nt nta : Nat)"]
        _, data, row, col, shape = block(D, "X_mt")
        emit("sMtRowG", PT, "List Nat", _dz_array(row, w), "sMtRow")
        emit("sMtColG", PT, "List Nat", _dz_array(col, w), "sMtCol")
        emit("sMtShapeG", PT, "Nat × Nat", _dz_shape(shape, w), "sMtShape")
        src = ast.unparse(fns[w]).replace("'", '"')
        for piece in ("transient_m_data = np.zeros((nm, nta))", "for ii, row in enumerate(matching_indices):",
                      "for jj, transient_att_xi in enumerate(trans_att):",
                      "transient_m_data[ii, jj] = int(x_all[row[1]] >= transient_att_xi) - int(x_all[row[0]] >= transient_att_xi)",
                      'data_mt = np.tile(transient_m_data, (nt, 1)).flatten("F")', "for transient_att_xi in trans_att:",
                      'x_all = ds["x"].values'):
            if piece not in src:
                raise Untranslatable(f"{w}: `{piece}` is gone")
        info["single"] = sorted(c[0] for c in D.coo)
    if "double" in which:
        w = "construct_submatrices"
        if w not in fns:
            raise Untranslatable(f"{w} not found")
        D = _Design(fns[w], w)
        for need, text in (("Z_TA_fw", "Z_TA_fw = sp.hstack(TA_fw_list)"), ("Z_TA_bw", "Z_TA_bw = sp.hstack(TA_bw_list)")):
            if D.stmts.get(need) != text:
                raise Untranslatable(f"{w}: `{text}` is now `{D.stmts.get(need)}`")
        P2, P3, PB = ["(nt nx : Nat)"], ["(nt nx ix0 : Nat)"], ["(nt ix0 : Nat)"]
        _, data, row, col, shape = block(D, "Z_gamma")
        emit("dGammaRowG", P2, "List Nat", _dz_array(row, w), "dGammaRow")
        emit("dGammaColG", P2, "List Nat", _dz_array(col, w), "dGammaCol")
        emit("dGammaShapeG", P2, "Nat × Nat", _dz_shape(shape, w), "dGammaShape")
        gsrc = ast.unparse(data)
        if gsrc not in ("1 / (cal_ref.T.ravel() + 273.15)", "1 / (cal_ref.ravel() + 273.15)"):
            raise Untranslatable(f"{w}: data_gamma is `{gsrc}`")
        L.append(f"def dGammaTimeMajorG : Bool := {'true' if '.T.ravel()' in gsrc else 'false'}")
        L.append("theorem dGammaTimeMajorG_eq : dGammaTimeMajorG = dGammaTimeMajor := rfl")
        _, data, row, col, shape = block(D, "Z_D")
        emit("dDRowG", P2, "List Nat", _dz_array(row, w), "dDRow")
        emit("dDColG", P2, "List Nat", _dz_array(col, w), "dDCol")
        emit("dDDataG", P2, "Nat × Int", _dz_const_data(data, w), "dDData")
        emit("dDShapeG", P2, "Nat × Nat", _dz_shape(shape, w), "dDShape")
        _, data, row, col, shape = block(D, "E")
        emit("dERowG", P2, "List Nat", _dz_array(row, w), "dERow")
        emit("dEColG", P2, "List Nat", _dz_array(col, w), "dECol")
        emit("dEDataG", P2, "Nat × Int", _dz_const_data(data, w), "dEData")
        emit("dEShapeG", P2, "Nat × Nat", _dz_shape(shape, w), "dEShape")
        _, data, row, col, shape = block(D, "TA_fw_list")
        emit("dTaFwRowG", P3, "List Nat", _dz_array(row, w), "dTaFwRow")
        emit("dTaFwColG", P3, "List Nat", _dz_array(col, w), "dTaFwCol")
        emit("dTaFwDataG", P3, "Nat × Int", _dz_const_data(data, w), "dTaFwData")
        emit("dTaFwShapeG", P2, "Nat × Nat", _dz_shape(shape, w), "dTaShape")
        _, data, row, col, shape = block(D, "TA_bw_list")
        emit("dTaBwRowG", PB, "List Nat", _dz_array(row, w), "dTaBwRow")
        emit("dTaBwColG", PB, "List Nat", _dz_array(col, w), "dTaBwCol")
        emit("dTaBwDataG", PB, "Nat × Int", _dz_const_data(data, w), "dTaBwData")
        emit("dTaBwShapeG", P2, "Nat × Nat", _dz_shape(shape, w), "dTaShape")
        if len(D.ifs) != 1:
            raise Untranslatable(f"{w}: {len(D.ifs)} splice rules found")
        L.append(f"def dIx0G (xs : Array Rat) (s : Rat) : Nat :=\n{_dz_ix0(D.ifs[0], 'x_sec', w)}")
        L.append("theorem dIx0G_eq (xs : Array Rat) (s : Rat) : dIx0G xs s = ix0Rule xs s := rfl")
        # the caller: sizes passed, observation order, stacking with signs
        s = "calibrate_double_ended_solver"
        if s not in fns:
            raise Untranslatable(f"{s} not found")
        src = ast.unparse(fns[s]).replace("'", '"')
        for piece in ("construct_submatrices(sections, nt, nx_sec, ds, trans_att, x_sec)", "nx_sec = x_sec.size", "nt = ds.time.size",
                      'x_sec = ds_sec["x"].values', "ds_sec = ds.isel(x=ix_sec)",
                      "y_F = np.log(ds_sec.st / ds_sec.ast).values.ravel()", "y_B = np.log(ds_sec.rst / ds_sec.rast).values.ravel()",
                      "sp.hstack((Z_gamma, -Z_D, Zero_d, -E, Z_TA_fw))", "sp.hstack((Z_gamma, Zero_d, -Z_D, E, Z_TA_bw))",
                      "y = np.concatenate((y_F, y_B))", "w = np.concatenate((w_F, w_B))"):
            if piece not in src:
                raise Untranslatable(f"{s}: `{piece}` is gone")
        # the matching-section builder uses the same rule on the whole coordinate vector
        m = "construct_submatrices_matching_sections"
        if m not in fns:
            raise Untranslatable(f"{m} not found")
        chains = [n for n in ast.walk(fns[m]) if isinstance(n, ast.If)
                  and any(isinstance(x, ast.Assign) and ast.unparse(x.targets[0]) == "ix_ta_ix0" for x in n.body)
                  and "[-1]" in ast.unparse(n.test)]
        if len(chains) != 1:
            raise Untranslatable(f"{m}: {len(chains)} splice rules found")
        text = ast.unparse(chains[0]).replace("ix_ta_ix0", "ix_sec_ta_ix0").replace("x.size", "nx")
        chain = ast.parse(text).body[0]
        L.append(f"def mIx0G (xs : Array Rat) (s : Rat) : Nat :=\n{_dz_ix0(chain, 'x', m)}")
        L.append("theorem mIx0G_eq (xs : Array Rat) (s : Rat) : mIx0G xs s = ix0Rule xs s := rfl")
        _translate_match_ta(fns, L)
        info["double"] = sorted(c[0] for c in D.coo)
    L.append("\nend DtsVerif.GenDesign")
    return "\n".join(L) + "\n", info


# ================================================================================================ scatter of the reduced covariance
def _sc_scalar(n, where, sizes):
    k = ast.unparse(n).replace("'", '"')
    if k in sizes:
        return sizes[k]
    if isinstance(n, ast.Constant) and isinstance(n.value, int) and n.value >= 0:
        return str(n.value)
    if isinstance(n, ast.BinOp) and isinstance(n.op, (ast.Mult, ast.Add)):
        if isinstance(n.op, ast.Add):
            return f"{_sc_scalar(n.left, where, sizes)} + {_sc_scalar(n.right, where, sizes)}"

        def factor(m, right):
            t = _sc_scalar(m, where, sizes)
            return f"({t})" if isinstance(m, ast.BinOp) and (isinstance(m.op, ast.Add) or right) else t
        return f"{factor(n.left, False)} * {factor(n.right, True)}"
    raise Untranslatable(f"{where}: size expression outside the fragment: {k[:70]}")


def _sc_from_i(n, where, sizes, ixe_names):
    """`np.concatenate((np.arange(..), <scalar> + <index array>, np.arange(.., ..)))` as a Lean list expression; returns
    (text, uses_ixE)"""
    if not (isinstance(n, ast.Call) and ast.unparse(n.func) == "np.concatenate" and len(n.args) == 1 and isinstance(n.args[0], ast.Tuple)):
        raise Untranslatable(f"{where}: from_i is `{ast.unparse(n)[:70]}`")
    parts, uses = [], False
    for e in n.args[0].elts:
        if isinstance(e, ast.Call) and ast.unparse(e.func) == "np.arange" and not e.keywords and len(e.args) in (1, 2):
            a = "0" if len(e.args) == 1 else f"({_sc_scalar(e.args[0], where, sizes)})"
            b = f"({_sc_scalar(e.args[-1], where, sizes)})"
            parts.append(f"arange {a} {b}")
        elif isinstance(e, ast.BinOp) and isinstance(e.op, ast.Add) and ast.unparse(e.right).replace("'", '"') in ixe_names:
            parts.append(f"ixE.map (fun i => {_sc_scalar(e.left, where, sizes)} + i)")
            uses = True
        else:
            raise Untranslatable(f"{where}: element of from_i outside the fragment: {ast.unparse(e)[:70]}")
    return " ++ ".join(parts), uses


def translate_scatter(src_root):
    """`from_i` of `calibrate_double_ended_solver` and of the three fixed-parameter branches of `calibrate_double_ended_helper`,
    proved to be `Model/Scatter.lean` (for which `Props/Scatter.lean` proves where every unknown lands, for every size)"""
    tree = ast.parse((Path(src_root) / "dtscalibration" / "calibrate_utils.py").read_text())
    fns = {n.name: n for n in ast.walk(tree) if isinstance(n, ast.FunctionDef)}
    L = ["\nnamespace DtsVerif.GenScatter\nopen DtsVerif.Py DtsVerif.Scatter\n"]
    ixe = ("ix_sec[1:]", "ix_from_cal_match_to_glob", 'split["ix_from_cal_match_to_glob"]')
    count = [0]

    def concat_assigns(body):
        out = []
        for st in body:
            for n in ast.walk(st):
                if isinstance(n, ast.Assign) and ast.unparse(n.targets[0]) == "from_i" and isinstance(n.value, ast.Call) \
                        and ast.unparse(n.value.func) == "np.concatenate":
                    out.append(n.value)
        return out

    def emit(tag, values, where, sizes, model, with_ixe):
        if not values:
            raise Untranslatable(f"{where}: no `from_i = np.concatenate(...)` found")
        for v in values:
            text, uses = _sc_from_i(v, where, sizes, ixe)
            if uses != with_ixe:
                raise Untranslatable(f"{where}: from_i {'lacks' if with_ixe else 'has'} the attenuation positions")
            count[0] += 1
            name = f"{tag}{count[0]}"
            args = "(nt N nta : Nat)" + (" (ixE : List Nat)" if with_ixe else "")
            call = "nt N nta" + (" ixE" if with_ixe else "")
            L.append(f"def {name} {args} : List Nat := {text}")
            L.append(f"theorem {name}_eq {args} : {name} {call} = {model} {call} := rfl")

    s = "calibrate_double_ended_solver"
    h = "calibrate_double_ended_helper"
    for need in (s, h):
        if need not in fns:
            raise Untranslatable(f"{need} not found")
    ssrc = ast.unparse(fns[s]).replace("'", '"')
    for piece in ("nt = ds.time.size", "po_cov = np.diag(po_var).copy()", 'iox_sec1, iox_sec2 = np.meshgrid(from_i, from_i, indexing="ij")',
                  "po_cov[iox_sec1, iox_sec2] = p_cov", "return (po_sol, po_var, po_cov)"):
        if piece not in ssrc:
            raise Untranslatable(f"{s}: `{piece}` is gone")
    # the last `if calc_cov:` block of the solver holds the scatter
    blocks = [n for n in ast.walk(fns[s]) if isinstance(n, ast.If) and ast.unparse(n.test) == "calc_cov"
              and "po_cov" in ast.unparse(n)]
    if len(blocks) != 1:
        raise Untranslatable(f"{s}: {len(blocks)} `if calc_cov:` blocks assemble po_cov")
    emit("solverG", concat_assigns(blocks[0].body), s, {"nt": "nt", "nta": "nta", "ds.x.size": "N"}, "fromISolver", True)
    hsrc = ast.unparse(fns[h]).replace("'", '"')
    for piece in ("nt = self.dts.nt", "nx = self.dts.nx"):
        if piece not in hsrc:
            raise Untranslatable(f"{h}: `{piece}` is gone")
    chain = [n for n in fns[h].body if isinstance(n, ast.If) and ast.unparse(n.test) == "fix_alpha and fix_gamma"]
    if len(chain) != 1:
        raise Untranslatable(f"{h}: the `if fix_alpha and fix_gamma / elif fix_gamma / elif fix_alpha` chain not found")
    both = chain[0]
    if not (len(both.orelse) == 1 and isinstance(both.orelse[0], ast.If) and ast.unparse(both.orelse[0].test) == "fix_gamma"):
        raise Untranslatable(f"{h}: `elif fix_gamma` not found")
    fg = both.orelse[0]
    if not (len(fg.orelse) == 1 and isinstance(fg.orelse[0], ast.If) and ast.unparse(fg.orelse[0].test) == "fix_alpha"):
        raise Untranslatable(f"{h}: `elif fix_alpha` not found")
    fa = fg.orelse[0]
    sizes = {"nt": "nt", "nta": "nta", "nx": "N"}
    for tag, node, model, with_ixe in (("bothG", both, "fromIFixBoth", False), ("gammaG", fg, "fromIFixGamma", True),
                                       ("alphaG", fa, "fromIFixAlpha", False)):
        text = ast.unparse(ast.Module(body=node.body, type_ignores=[])).replace("'", '"')
        for piece in ("p_cov = np.diag(p_var).copy()", 'iox_sec1, iox_sec2 = np.meshgrid(from_i, from_i, indexing="ij")',
                      "p_cov[iox_sec1, iox_sec2] = out[2]"):
            if piece not in text:
                raise Untranslatable(f"{h} ({tag}): `{piece}` is gone")
        emit(tag, concat_assigns(node.body), f"{h} ({ast.unparse(node.test)})", sizes, model, with_ixe)
    L.append("\nend DtsVerif.GenScatter")
    return "\n".join(L) + "\n", count[0]


def translate_scatter_single(src_root):
    """`ip_use` of `calibration_single_ended_helper` (which full-layout positions receive the solver's values and covariance) for
    every combination of fix_gamma / fix_alpha / fix_dalpha, proved to be `Scatter.ipUseS`"""
    tree = ast.parse((Path(src_root) / "dtscalibration" / "calibrate_utils.py").read_text())
    fns = {n.name: n for n in ast.walk(tree) if isinstance(n, ast.FunctionDef)}
    w = "calibration_single_ended_helper"
    if w not in fns:
        raise Untranslatable(f"{w} not found")
    fn = fns[w]
    src = ast.unparse(fn).replace("'", '"')
    for piece in ("nt = self.dts.nt", "nx = self.dts.nx", "nta = len(trans_att)", "p_val[ip_use] = out[0]", "p_var[ip_use] = out[1]",
                  "np.fill_diagonal(p_cov, p_var)", "p_cov[np.ix_(ip_use, ip_use)] = out[2]", "X[:, ip_use]", "x0=p_val[ip_use]",
                  "p_var = np.zeros_like(p_val)", "p_cov = np.zeros((p_val.size, p_val.size), dtype=float)"):
        if piece not in src:
            raise Untranslatable(f"{w}: `{piece}` is gone")
    sizes = {"nt": "nt", "nx": "nx", "nta": "nta"}

    def rng(n, where):
        if not (isinstance(n, ast.Call) and ast.unparse(n.func) == "list" and len(n.args) == 1 and isinstance(n.args[0], ast.Call)
                and ast.unparse(n.args[0].func) == "range"):
            raise Untranslatable(f"{where}: `{ast.unparse(n)[:60]}` is not list(range(...))")
        a = n.args[0].args
        if len(a) == 1:
            return f"List.range ({_sc_scalar(a[0], where, sizes)})", None
        if len(a) == 2:
            return None, f"(arange {_sc_scalar(a[0], where, sizes)} ({_sc_scalar(a[1], where, sizes)}))"
        raise Untranslatable(f"{where}: range with a step")

    def find_ip_use(body):
        for st in body:
            if isinstance(st, ast.Assign) and ast.unparse(st.targets[0]) == "ip_use":
                return st.value
        return None

    first = [st for st in fn.body if isinstance(st, ast.If) and ast.unparse(st.test) == "fix_alpha"]
    if len(first) != 1:
        raise Untranslatable(f"{w}: `if fix_alpha:` (choice of the layout) not found")
    a_mode, d_mode = find_ip_use(first[0].body), find_ip_use(first[0].orelse)
    if a_mode is None or d_mode is None:
        raise Untranslatable(f"{w}: ip_use is not initialised in both layouts")
    u0a, _ = rng(a_mode, w)
    u0d, _ = rng(d_mode, w)
    if u0a is None or u0d is None:
        raise Untranslatable(f"{w}: ip_use does not start at 0")
    lines = [f"  let u0 := if alphaMode then {u0a} else {u0d}"]
    flag = {"fix_gamma is not None": "fg", "fix_alpha is not None": "fa", "fix_dalpha is not None": "fd"}
    k = 0
    seen = []
    for st in fn.body:
        if isinstance(st, ast.If) and ast.unparse(st.test) in flag:
            f = flag[ast.unparse(st.test)]
            seen.append(f)
            rem = next((x.value for x in st.body if isinstance(x, ast.Assign) and ast.unparse(x.targets[0]) == "ip_remove"), None)
            if rem is None:
                raise Untranslatable(f"{w}: `{ast.unparse(st.test)}` does not set ip_remove")
            if isinstance(rem, ast.List) and all(isinstance(e, ast.Constant) and isinstance(e.value, int) for e in rem.elts):
                rtxt = "[" + ", ".join(str(e.value) for e in rem.elts) + "]"
            else:
                _, rtxt = rng(rem, w)
                if rtxt is None:
                    raise Untranslatable(f"{w}: ip_remove `{ast.unparse(rem)}`")
            body = ast.unparse(ast.Module(body=st.body, type_ignores=[]))
            short = ast.unparse(st.test).split()[0]
            for piece in ("ip_use = [i for i in ip_use if i not in ip_remove]", f"p_val[ip_remove] = {short}[0]", f"p_var[ip_remove] = {short}[1]"):
                if piece not in body:
                    raise Untranslatable(f"{w} ({short}): `{piece}` is gone")
            lines.append(f"  let u{k + 1} := if {f} then u{k}.filter (fun i => !(({rtxt}).contains i)) else u{k}")
            k += 1
    if sorted(seen) != ["fa", "fd", "fg"]:
        raise Untranslatable(f"{w}: fixed-parameter blocks found for {seen}")
    lines.append(f"  u{k}")
    L = ["\nnamespace DtsVerif.GenScatter\nopen DtsVerif.Py DtsVerif.Scatter\n",
         "def ipUseG (alphaMode fg fa fd : Bool) (nt nx nta : Nat) : List Nat :=\n" + "\n".join(lines),
         "theorem ipUseG_eq (alphaMode fg fa fd : Bool) (nt nx nta : Nat) : ipUseG alphaMode fg fa fd nt nx nta = ipUseS alphaMode fg fa fd nt nx nta := rfl",
         "\nend DtsVerif.GenScatter"]
    return "\n".join(L) + "\n"


def translate_posol(src_root):
    """the assembly of `po_sol` / `po_var` in `calibrate_double_ended_solver` (concatenation of slices, indexed assignment of the
    attenuation unknowns, zero at the first reference location), both branches, proved to be `Scatter.poSol` / `Scatter.poSolMatch`"""
    tree = ast.parse((Path(src_root) / "dtscalibration" / "calibrate_utils.py").read_text())
    fns = {n.name: n for n in ast.walk(tree) if isinstance(n, ast.FunctionDef)}
    w = "calibrate_double_ended_solver"
    if w not in fns:
        raise Untranslatable(f"{w} not found")
    sizes = {"nt": "nt", "nx_sec": "nxs", "ix_from_cal_match_to_glob.size": "m"}

    def bound(n):
        return "none" if n is None else f"(some (({_sc_scalar(n, w, sizes)} : Nat) : Int))"

    def sl(n, src):
        if not (isinstance(n, ast.Subscript) and ast.unparse(n.value) == src and isinstance(n.slice, ast.Slice) and n.slice.step is None):
            raise Untranslatable(f"{w}: `{ast.unparse(n)[:60]}` is not a slice of {src}")
        return f"pySlice p {bound(n.slice.lower)} {bound(n.slice.upper)}"

    def index(n):
        if not (isinstance(n, ast.BinOp) and isinstance(n.op, ast.Add)):
            raise Untranslatable(f"{w}: index `{ast.unparse(n)[:60]}`")
        off, arr = _sc_scalar(n.left, w, sizes), ast.unparse(n.right)
        if arr == "ix_sec[1:]":
            return f"ixSec.tail.map (fun i => {off} + i)"
        if arr == "ix_from_cal_match_to_glob":
            return f"ixE.map (fun i => {off} + i)"
        if arr == "ix_sec[0]":
            return f"{off} + FIRST"
        raise Untranslatable(f"{w}: index array `{arr}`")

    L = ["\nnamespace DtsVerif.GenScatter\nopen DtsVerif.Py DtsVerif.Scatter\n"]
    for target, psrc, esrc, tag in (("po_sol", "p_sol", "E_all_exact", "Sol"), ("po_var", "p_var", "E_all_var_exact", "Var")):
        branches = [n for n in fns[w].body if isinstance(n, ast.If) and ast.unparse(n.test) == "np.any(matching_indices)"
                    and any(isinstance(x, ast.Assign) and ast.unparse(x.targets[0]) == target for x in n.body)]
        if len(branches) != 1:
            raise Untranslatable(f"{w}: {len(branches)} `if np.any(matching_indices)` blocks assemble {target}")
        zero = [st for st in fns[w].body if isinstance(st, ast.Assign) and ast.unparse(st.targets[0]).startswith(target + "[")]
        if len(zero) != 1 or ast.unparse(zero[0].value) != "0.0":
            raise Untranslatable(f"{w}: `{target}[first reference location] = 0.0` not found")
        zidx = index(zero[0].targets[0].slice)
        for body, match in ((branches[0].body, True), (branches[0].orelse, False)):
            if len(body) != 2:
                raise Untranslatable(f"{w}: {target} is assembled by {len(body)} statements")
            cat, asg = body
            if not (isinstance(cat, ast.Assign) and ast.unparse(cat.targets[0]) == target and isinstance(cat.value, ast.Call)
                    and ast.unparse(cat.value.func) == "np.concatenate" and len(cat.value.args[0].elts) == 3
                    and ast.unparse(cat.value.args[0].elts[1]) == esrc):
                raise Untranslatable(f"{w}: `{ast.unparse(cat)[:80]}`")
            a, _, c = cat.value.args[0].elts
            if not (isinstance(asg, ast.Assign) and isinstance(asg.targets[0], ast.Subscript) and ast.unparse(asg.targets[0].value) == target):
                raise Untranslatable(f"{w}: `{ast.unparse(asg)[:80]}`")
            base = f"{sl(a, psrc)} ++ E ++ {sl(c, psrc)}"
            idx = index(asg.targets[0].slice)
            vals = sl(asg.value, psrc)
            if match:
                name, args, call, model = f"po{tag}MatchG", "(nt m : Nat) (ixE : List Nat) (first : Nat)", "nt m ixE first", "poSolMatch"
                z = zidx.replace("FIRST", "first")
            else:
                name, args, call, model = f"po{tag}G", "(nt nxs : Nat) (ixSec : List Nat)", "nt nxs ixSec", "poSol"
                z = zidx.replace("FIRST", "ixSec.headD 0")
            L.append(f"def {name} {{α}} (p E : List α) (zero : α) {args} : List α :=\n  let base := {base}\n"
                     f"  let a := assignAt base ({idx})\n    ({vals})\n  a.set ({z}) zero")
            L.append(f"theorem {name}_eq {{α}} (p E : List α) (zero : α) {args} : {name} p E zero {call} = {model} p E zero {call} := rfl")
    L.append("\nend DtsVerif.GenScatter")
    return "\n".join(L) + "\n"


# ================================================================================================ observations and weights
def _strip(n):
    """drop `.values`, `.ravel()`, `.T` wrappers; returns (inner node, list of wrappers outermost first)"""
    wr = []
    while True:
        if isinstance(n, ast.Call) and isinstance(n.func, ast.Attribute) and n.func.attr == "ravel" and not n.args:
            wr.append("ravel")
            n = n.func.value
        elif isinstance(n, ast.Attribute) and n.attr in ("values", "T"):
            wr.append(n.attr)
            n = n.value
        else:
            return n, wr


def translate_obs(src_root, which=("single", "double")):
    """the observation vector and the weights of both solvers (reference rows and matching-section rows) proved to be the
    log-ratios and the inverses of each observation's OWN first-order variance (`Props/ObsSpec.lean`); the data sets and variance
    arrays entering each expression are checked to be taken at the same index set"""
    tree = ast.parse((Path(src_root) / "dtscalibration" / "calibrate_utils.py").read_text())
    fns = {n.name: n for n in ast.walk(tree) if isinstance(n, ast.FunctionDef)}
    L = ["\nnamespace DtsVerif.GenObs\nopen DtsVerif.ObsSpec\nvariable {K : Type} [Field K]\n"]
    info = {}

    def build(fname, idx_of, tag):
        if fname not in fns:
            raise Untranslatable(f"{fname} not found")
        B = Block(fns[fname])
        # data sets: ds_X = ds.isel(x=<index set>)
        sets = {}
        for name, idx in idx_of.items():
            src = ast.unparse(B.get(f"ds_{name}")).replace("'", '"')
            if src != f"ds.isel(x={idx})":
                raise Untranslatable(f"{fname}: ds_{name} is `{src}`, expected ds.isel(x={idx})")
            sets[name] = idx
        for k, v in (("hix", "matching_indices[:, 0]"), ("tix", "matching_indices[:, 1]")):
            if k in idx_of.values() and ast.unparse(B.get(k)) != v:
                raise Untranslatable(f"{fname}: {k} is no longer {v}")
        atoms = {}
        for name, idx in idx_of.items():
            for ch in ("st", "ast", "rst", "rast"):
                key = f"{ch}_var_{name}"
                if key in B.assign:
                    src = ast.unparse(B.get(key)).replace("'", '"')
                    if src != f"parse_st_var(ds.{ch}, {ch}_var).isel(x={idx}).values":
                        raise Untranslatable(f"{fname}: {key} is `{src}`: not the variance of {ch} at the index set of ds_{name}")
                    atoms[key] = f"v{ch}_{name}"
                for form in (f"ds_{name}.{ch}", f"ds_{name}.{ch}.values"):
                    atoms[form] = f"{ch}_{name}"
            for a, b_, sym in (("st", "ast", "IF"), ("rst", "rast", "IB")):
                atoms[f"np.log(ds_{name}.{a} / ds_{name}.{b_})"] = f"{sym}_{name}"
                atoms[f"np.log(ds_{name}.{a}.values / ds_{name}.{b_}.values)"] = f"{sym}_{name}"
        return B, atoms

    def tr(n, atoms, fname):
        n, _ = _strip(n)
        k = _key(n)
        if k is not None and k in atoms:
            return atoms[k]
        if isinstance(n, ast.Constant) and isinstance(n.value, (int, float)) and float(n.value) == int(n.value) and 0 < n.value < 100:
            return f"({int(n.value)} : K)"
        if isinstance(n, ast.BinOp):
            if isinstance(n.op, ast.Pow):
                e = n.right
                if isinstance(e, ast.UnaryOp) and isinstance(e.op, ast.USub) and isinstance(e.operand, ast.Constant) and e.operand.value == 2:
                    return f"(({tr(n.left, atoms, fname)} ^ 2)⁻¹)"
                raise Untranslatable(f"{fname}: power other than -2")
            op = {ast.Add: "+", ast.Sub: "-", ast.Mult: "*", ast.Div: "/"}.get(type(n.op))
            if op is None:
                raise Untranslatable(f"{fname}: operator {type(n.op).__name__}")
            return f"({tr(n.left, atoms, fname)} {op} {tr(n.right, atoms, fname)})"
        raise Untranslatable(f"{fname}: atom outside the table: {ast.unparse(n)[:80]}")

    def ravel_of(n):
        return ".".join(reversed(_strip(n)[1]))

    def vars_of(names, chans):
        return " ".join(f"{c}_{n} v{c}_{n}" for n in names for c in chans)

    close = "by\n  simp only [{defs}, varI, wRef, wPair, wHalf, yPair, yHalf]\n  all_goals try field_simp\n  all_goals try ring"
    if "single" in which:
        f = "calibration_single_ended_solver"
        B, at = build(f, {"sec": "ix_sec", "ms0": "matching_indices[:, 0]", "ms1": "matching_indices[:, 1]"}, "S")
        info["single"] = dict(y=ravel_of(B.get("y")) if False else None)
        ys = [v for k, v in B.all if k == "y"]
        if not ys:
            raise Untranslatable(f"{f}: y not found")
        L.append(f"def yS (IF_sec : K) : K := {tr(ys[0], at, f)}")
        L.append("theorem yS_eq (IF_sec : K) : yS IF_sec = IF_sec := rfl")
        L.append(f"def ymS (IF_ms0 IF_ms1 : K) : K := {tr(B.get('y_m'), at, f)}")
        L.append("theorem ymS_eq (IF_ms0 IF_ms1 : K) : ymS IF_ms0 IF_ms1 = yPair IF_ms0 IF_ms1 := rfl")
        ws = [v for k, v in B.all if k == "w" and not isinstance(v, ast.Constant) and not (isinstance(v, ast.Call) and _key(v.func) == "np.hstack")]
        if len(ws) != 1:
            raise Untranslatable(f"{f}: the weights of the reference rows are assigned {len(ws)} times")
        L.append(f"def wS (st_sec vst_sec ast_sec vast_sec : K) : K := {tr(ws[0], at, f)}")
        L.append("theorem wS_eq (st_sec vst_sec ast_sec vast_sec : K) : wS st_sec vst_sec ast_sec vast_sec = wRef st_sec ast_sec vst_sec vast_sec := "
                 + close.format(defs="wS"))
        L.append(f"def wmS ({vars_of(['ms0', 'ms1'], ['st', 'ast'])} : K) : K := {tr(B.get('w_ms'), at, f)}")
        L.append(f"theorem wmS_eq ({vars_of(['ms0', 'ms1'], ['st', 'ast'])} : K) : wmS st_ms0 vst_ms0 ast_ms0 vast_ms0 st_ms1 vst_ms1 ast_ms1 vast_ms1 = "
                 "wPair st_ms0 ast_ms0 vst_ms0 vast_ms0 st_ms1 ast_ms1 vst_ms1 vast_ms1 := " + close.format(defs="wmS"))
        info["single"] = dict(y=ravel_of(ys[0]), y_m=ravel_of(B.get("y_m")), w=ravel_of(ws[0].right if isinstance(ws[0], ast.BinOp) else ws[0]),
                              w_ms=ravel_of(B.get("w_ms").right if isinstance(B.get("w_ms"), ast.BinOp) else B.get("w_ms")))
        for piece in ("y = np.hstack((y, y_m))", "w = np.hstack((w, w_ms))"):
            if piece not in ast.unparse(fns[f]):
                raise Untranslatable(f"{f}: `{piece}` is gone")
    if "double" in which:
        f = "calibrate_double_ended_solver"
        B, at = build(f, {"sec": "ix_sec", "hix": "hix", "tix": "tix", "mnc": "ix_match_not_cal"}, "D")
        for nm, sym in (("y_F", "IF_sec"), ("y_B", "IB_sec")):
            vals = [v for k, v in B.all if k == nm]
            if not vals or any(tr(v, at, f) != sym for v in vals):
                raise Untranslatable(f"{f}: {nm} is not the log-ratio at the reference locations")
        L.append(f"def yEq1D (IF_hix IF_tix : K) : K := {tr(B.get('y_eq1'), at, f)}")
        L.append("theorem yEq1D_eq (IF_hix IF_tix : K) : yEq1D IF_hix IF_tix = yPair IF_hix IF_tix := rfl")
        L.append(f"def yEq2D (IB_hix IB_tix : K) : K := {tr(B.get('y_eq2'), at, f)}")
        L.append("theorem yEq2D_eq (IB_hix IB_tix : K) : yEq2D IB_hix IB_tix = yPair IB_hix IB_tix := rfl")
        L.append(f"def yEq3D (IF_mnc IB_mnc : K) : K := {tr(B.get('y_eq3'), at, f)}")
        L.append("theorem yEq3D_eq (IF_mnc IB_mnc : K) : yEq3D IF_mnc IB_mnc = yHalf IF_mnc IB_mnc := rfl")
        for nm, chans in (("w_F", ["st", "ast"]), ("w_B", ["rst", "rast"])):
            vals = [v for k, v in B.all if k == nm]
            if not vals:
                raise Untranslatable(f"{f}: {nm} not found")
            texts = {tr(v, at, f) for v in vals}
            if len(texts) != 1:
                raise Untranslatable(f"{f}: {nm} is formed differently in the two branches")
            a, b_ = chans
            L.append(f"def {nm}D ({a}_sec v{a}_sec {b_}_sec v{b_}_sec : K) : K := {texts.pop()}")
            L.append(f"theorem {nm}D_eq ({a}_sec v{a}_sec {b_}_sec v{b_}_sec : K) : {nm}D {a}_sec v{a}_sec {b_}_sec v{b_}_sec = "
                     f"wRef {a}_sec {b_}_sec v{a}_sec v{b_}_sec := " + close.format(defs=f"{nm}D"))
        for nm, chans in (("w_eq1", ["st", "ast"]), ("w_eq2", ["rst", "rast"])):
            a, b_ = chans
            args = f"{a}_hix v{a}_hix {b_}_hix v{b_}_hix {a}_tix v{a}_tix {b_}_tix v{b_}_tix"
            L.append(f"def {nm}D ({args} : K) : K := {tr(B.get(nm), at, f)}")
            L.append(f"theorem {nm}D_eq ({args} : K) : {nm}D {args} = wPair {a}_hix {b_}_hix v{a}_hix v{b_}_hix {a}_tix {b_}_tix v{a}_tix v{b_}_tix := "
                     + close.format(defs=f"{nm}D"))
        args = "st_mnc vst_mnc ast_mnc vast_mnc rst_mnc vrst_mnc rast_mnc vrast_mnc"
        L.append(f"def w_eq3D ({args} : K) : K := {tr(B.get('w_eq3'), at, f)}")
        L.append(f"theorem w_eq3D_eq ({args} : K) : w_eq3D {args} = wHalf st_mnc ast_mnc vst_mnc vast_mnc rst_mnc rast_mnc vrst_mnc vrast_mnc := "
                 + close.format(defs="w_eq3D"))
        src = ast.unparse(fns[f])
        for piece in ("y = np.concatenate((y_F, y_B, y_eq1, y_eq2, y_eq3))", "w = np.concatenate((w_F, w_B, w_eq1, w_eq2, w_eq3))",
                      "y = np.concatenate((y_F, y_B))", "w = np.concatenate((w_F, w_B))"):
            if piece not in src:
                raise Untranslatable(f"{f}: `{piece}` is gone")
    L.append("\nend DtsVerif.GenObs")
    return "\n".join(L) + "\n", info


# ================================================================================================ fixed-parameter reduction
def translate_reduce(src_root):
    """the statements that move fixed parameters out of the fit in `calibration_single_ended_helper` and
    `calibrate_double_ended_helper`: every `y -= ...` and every `w = 1 / (1 / w + ...)`.  Each block is abstracted to a list of
    terms (scalar `fix_P[0] * X` / `fix_P[1] * X**2`, or matrix `M.dot(fix_alpha[0][ix])` / `M.multiply(M).dot(fix_alpha[1][ix])`),
    the value terms and the variance terms of a block must pair up (same parameter, same coefficient array, same index
    expression), and the block is emitted as Lean and proved to be `ObsSpec.redY` / `ObsSpec.redW`.
    NumPy/SciPy semantics written into the translator (trusted): `M.dot(a)` is the row-wise Σ_k M_rk a_k,
    `M.multiply(M)` the element-wise square, `np.hstack` of per-block terms is row-wise concatenation."""
    tree = ast.parse((Path(src_root) / "dtscalibration" / "calibrate_utils.py").read_text())
    fns = {n.name: n for n in ast.walk(tree) if isinstance(n, ast.FunctionDef)}
    L = ["\nnamespace DtsVerif.GenReduce\nopen DtsVerif.ObsSpec\nvariable {K : Type} [Field K]\n"]

    def fixref(n):
        """fix_P[k] or fix_P[k][<index>] -> (P, k, index source or None)"""
        idx = None
        if isinstance(n, ast.Subscript) and isinstance(n.value, ast.Subscript):
            idx = ast.unparse(n.slice)
            n = n.value
        if isinstance(n, ast.Subscript) and isinstance(n.value, ast.Name) and n.value.id.startswith("fix_") \
                and isinstance(n.slice, ast.Constant) and n.slice.value in (0, 1):
            return n.value.id, n.slice.value, idx
        return None

    def term(n, kind):
        """kind 0: value term, 1: variance term -> ('scalar'|'matrix', P, coefficient source, index) ; hstack -> list of terms"""
        if isinstance(n, ast.Call) and _key(n.func) == "np.hstack" and len(n.args) == 1 and isinstance(n.args[0], ast.Tuple):
            parts = [term(e, kind) for e in n.args[0].elts]
            if any(isinstance(p_, list) for p_ in parts) or len({(p_[0], p_[1], p_[3]) for p_ in parts}) != 1:
                raise Untranslatable(f"hstack of different reductions: {ast.unparse(n)[:80]}")
            return ("scalar", parts[0][1], " ++ ".join(p_[2] for p_ in parts), parts[0][3])
        if isinstance(n, ast.BinOp) and isinstance(n.op, ast.Mult):
            fr = fixref(n.left)
            if fr and fr[1] == kind:
                coef = n.right
                if kind == 1:
                    if not (isinstance(coef, ast.BinOp) and isinstance(coef.op, ast.Pow) and isinstance(coef.right, ast.Constant) and coef.right.value == 2):
                        raise Untranslatable(f"variance of a fixed parameter not multiplied by the squared coefficient: {ast.unparse(n)[:80]}")
                    coef = coef.left
                return ("scalar", fr[0], ast.unparse(coef), fr[2])
        if isinstance(n, ast.Call) and isinstance(n.func, ast.Attribute) and n.func.attr == "dot" and len(n.args) == 1:
            fr = fixref(n.args[0])
            M = n.func.value
            if fr and fr[1] == kind:
                if kind == 1:
                    if not (isinstance(M, ast.Call) and isinstance(M.func, ast.Attribute) and M.func.attr == "multiply" and len(M.args) == 1
                            and ast.unparse(M.func.value) == ast.unparse(M.args[0])):
                        raise Untranslatable(f"variance of fixed parameters not multiplied by the element-wise squared matrix: {ast.unparse(n)[:80]}")
                    M = M.func.value
                return ("matrix", fr[0], ast.unparse(M), fr[2])
        raise Untranslatable(f"reduction term outside the fragment: {ast.unparse(n)[:80]}")

    def flat_sum(n):
        if isinstance(n, ast.BinOp) and isinstance(n.op, ast.Add):
            return flat_sum(n.left) + flat_sum(n.right)
        return [n]

    nblocks = 0
    for fname in ("calibration_single_ended_helper", "calibrate_double_ended_helper"):
        if fname not in fns:
            raise Untranslatable(f"{fname} not found")
        ysubs, blocks = [], []

        def walk(body):
            nonlocal ysubs
            for st in body:
                if isinstance(st, ast.AugAssign) and isinstance(st.op, ast.Sub) and isinstance(st.target, ast.Name) and st.target.id == "y":
                    ysubs.append(term(st.value, 0))
                elif isinstance(st, ast.Assign) and len(st.targets) == 1 and isinstance(st.targets[0], ast.Name) and st.targets[0].id == "w" \
                        and isinstance(st.value, ast.BinOp) and isinstance(st.value.op, ast.Div) and ast.unparse(st.value.left) == "1":
                    parts = flat_sum(st.value.right)
                    first = ast.unparse(parts[0])
                    if first not in ("1 / w", "1 / w_"):
                        raise Untranslatable(f"{fname}: the inflated variance does not start from the current weights: `{first}`")
                    blocks.append((ysubs, [term(p_, 1) for p_ in parts[1:]]))
                    ysubs = []
                elif isinstance(st, ast.Assign) and len(st.targets) == 1 and isinstance(st.targets[0], ast.Name) and st.targets[0].id == "y":
                    ysubs = []      # a fresh observation vector
                elif isinstance(st, ast.If):
                    before = list(ysubs)
                    for branch in (st.body, st.orelse):
                        ysubs = list(before)
                        walk(branch)
                        if len(ysubs) > len(before):
                            raise Untranslatable(f"{fname}: a value is subtracted from y without inflating the variance: {ysubs[len(before):]}")
                    ysubs = list(before)
                elif isinstance(st, (ast.For, ast.With)):
                    walk(st.body)

        walk(fns[fname].body)
        if ysubs:
            raise Untranslatable(f"{fname}: a value is subtracted from y without inflating the variance: {ysubs}")
        if not blocks:
            raise Untranslatable(f"{fname}: no fixed-parameter reduction found")
        for ys, ws in blocks:
            if sorted(map(str, ys)) != sorted(map(str, ws)):
                raise Untranslatable(f"{fname}: value terms {ys} and variance terms {ws} of one reduction do not pair up")
            nblocks += 1
            # Lean: scalar terms become (x_k, a_k) pairs, matrix terms lists of pairs
            args, yexpr, wexpr, spec = [], "y", "(1 / w)", []
            for k, tm in enumerate(ys):
                if tm[0] == "scalar":
                    args.append(f"(x{k} a{k} v{k} : K)")
                    yexpr = f"({yexpr} - a{k} * x{k})"
                    wexpr = f"({wexpr} + v{k} * x{k} ^ 2)"
                    spec.append((f"[(x{k}, a{k})]", f"[(x{k}, v{k})]"))
                else:
                    args.append(f"(M{k} : List (K × K × K))")      # (coefficient, value, variance) per fixed parameter in the row
                    yexpr = f"({yexpr} - (M{k}.map fun t => t.1 * t.2.1).sum)"
                    wexpr = f"({wexpr} + (M{k}.map fun t => t.1 ^ 2 * t.2.2).sum)"
                    spec.append((f"(M{k}.map fun t => (t.1, t.2.1))", f"(M{k}.map fun t => (t.1, t.2.2))"))
            a = " ".join(args)
            names = " ".join(x for ar in args for x in ar.strip("()").split(" : ")[0].split())
            ylist = " ++ ".join(sp[0] for sp in reversed(spec)) if False else " ++ ".join(sp[0] for sp in spec)
            wlist = " ++ ".join(sp[1] for sp in spec)
            L.append(f"def y{nblocks} (y : K) {a} : K := {yexpr}")
            L.append(f"theorem y{nblocks}_eq (y : K) {a} : y{nblocks} y {names} = redY y ({ylist}) := by\n"
                     f"  simp only [y{nblocks}, redY, List.map_append, List.sum_append, List.map_cons, List.map_nil, List.sum_cons, List.sum_nil, List.map_map, Function.comp_def]\n  all_goals try ring")
            L.append(f"def w{nblocks} (w : K) {a} : K := 1 / {wexpr}")
            L.append(f"theorem w{nblocks}_eq (w : K) {a} : w{nblocks} w {names} = redW w ({wlist}) := by\n"
                     f"  simp only [w{nblocks}, redW, List.map_append, List.sum_append, List.map_cons, List.map_nil, List.sum_cons, List.sum_nil, List.map_map, Function.comp_def]\n  all_goals try ring")
    L.append("\nend DtsVerif.GenReduce")
    return "\n".join(L) + "\n"


# which generated sections tie which property's model to the source (a broken section is reported only for these)
SECTIONS = {
    "C01": dict(formulas=(), extra=("obs-single", "design-single")),
    "C02": dict(formulas=(), extra=("obs-double", "design-double", "scatter")),
    "C03": dict(formulas=(), extra=("design-single", "design-double")),
    "C04": dict(formulas=("temps",), extra=("layout",)),
    "C05": dict(formulas=("temps", "derivs", "terms"), extra=()),
    "C06": dict(formulas=("derivs", "terms", "weighted"), extra=()),
    "C07": dict(formulas=(), extra=("reduce", "scatter-single")),
    "C08": dict(formulas=("temps", "mc"), extra=("mcunpack",)),
    "C12": dict(formulas=(), extra=("time",)),
    "C19": dict(formulas=(), extra=("guards",)),
    "C14": dict(formulas=(), extra=("shift",)),
}


def translate_for(prop, src_root):
    """generated Lean text for one property: only the sections that belong to it"""
    spec = SECTIONS[prop]
    text, names = translate(src_root, want=spec["formulas"])
    for e in spec["extra"]:
        if e == "layout":
            text += translate_layout(src_root, parts=("layout",))
        elif e == "mcunpack":
            text += translate_layout(src_root, parts=("mcunpack",))
        elif e == "time":
            text += translate_time(src_root)
        elif e == "guards":
            text += translate_guards(src_root)
        elif e == "shift":
            text += translate_shift(src_root)
        elif e == "reduce":
            text += translate_reduce(src_root)
        elif e == "scatter-single":
            text += translate_scatter_single(src_root)
        elif e == "scatter":
            t_, n_ = translate_scatter(src_root)
            text += t_ + translate_posol(src_root)
            names = dict(names, scatter_vectors=n_)
        elif e in ("design-single", "design-double"):
            t_, info = translate_design(src_root, which=(e.split("-")[1],))
            text += t_
            names = dict(names, **{("design_" + k): v for k, v in info.items()})
        elif e in ("obs-single", "obs-double"):
            t_, info = translate_obs(src_root, which=(e.split("-")[1],))
            text += t_
            names = dict(names, ravel=info)
    return text, names


def translate_all(src_root):
    text, names = translate(src_root)
    return text + translate_layout(src_root) + translate_time(src_root) + translate_guards(src_root) + translate_shift(src_root), names


if __name__ == "__main__":
    import sys
    print(translate_all(sys.argv[1] if len(sys.argv) > 1 else os.environ.get("DTS_SRC", "/repo/src"))[0])
