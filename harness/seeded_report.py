#!/venv/bin/python
"""Render seeded/RESULTS.md from seeded/*/meta.json and seeded/results-*.json (DESIGN §14)."""
import json
from pathlib import Path

VERIF = Path(__file__).resolve().parent.parent


def main():
    S = VERIF / "seeded"
    res = {}
    for f in sorted(S.glob("results-*.json")):
        for r in json.loads(f.read_text()):
            res.setdefault(r["id"], {})[f.stem.replace("results-", "")] = r
    lines = ["# Seeded changes and the checks that catch them", "",
             "| id | property | files touched | tests with the change | demo clean/changed | caught by (tier-seed: property rc) |", "|---|---|---|---|---|---|"]
    n = ok = 0
    for d in sorted(p for p in S.iterdir() if (p / "meta.json").exists()):
        m = json.loads((d / "meta.json").read_text())
        files = ", ".join(sorted({l.split("|")[0].strip().replace("src/dtscalibration/", "") for l in m.get("files", []) if "|" in l})) or "(see patch)"
        runs = res.get(d.name, {})
        caught = []
        hit = False
        for tag, r in sorted(runs.items()):
            cs = ", ".join(f"{p}:{c['rc']}" for p, c in r["checks"].items())
            caught.append(f"{tag}: {cs}")
            hit = hit or r["checks"].get(m["property"], {}).get("rc") == 1
        demo = "-"
        for r in runs.values():
            if r.get("demo_clean_rc") is not None:
                demo = f"{r['demo_clean_rc']}/{r['demo_mutant_rc']}"
        n += 1
        ok += hit
        lines.append(f"| {d.name} | {m['property']} | {files} | {m.get('tests', 'n/a (reverse of a fix commit)')} | {demo} | {'; '.join(caught) or 'not evaluated'} |")
    lines += ["", f"{ok} of {n} seeded changes are caught (exit 1 with a VIOLATION line) by the quick check of the property they break."]
    (S / "RESULTS.md").write_text("\n".join(lines) + "\n")
    print(lines[-1])


if __name__ == "__main__":
    main()
