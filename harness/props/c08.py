"""C08 — Monte Carlo samples the reported solution; converges to the propagated variance.
(a) unpacking, exact: the samplers are replaced by unit-perturbation samplers (realisation k = reported parameters with the k-th
sampled entry shifted, intensities unperturbed); every realisation must equal the Lean model's temperature equation at the
parameters perturbed at the DOCUMENTED slot; (b) zero variances: every realisation equals the calibrated temperature;
(c) all flag combinations return; (d) percentiles: np.percentile vs `MonteCarlo.percentile`, bounds ordered along CI, symmetric
percentiles bracket the calibrated temperature; (e) convergence of *_mc_var to *_var (chi-square 6-sigma band, fixed seeds)."""
import itertools
import json
import warnings

import numpy as np

import calib
import core
import fibre
from core import rj
from props import c04  # noqa: F401  (same model request helpers)

RULE = ("C01/C02 results (0-2 splices, free / fix_alpha) x {unpacking with unit perturbations, zero variances, 16 flag "
        "combinations, percentiles, convergence with 2e3 (quick) / 2e4 samples}; layouts incl. only location 0 uncovered; distinct = "
        "(sub-check, single/double, nta, fix, flags); non-trivial = at least one non-reference location and noise > 0")
ASSUMPTIONS = ["convergence and bracketing are statistical: fixed seeds, 6-sigma chi-square band, at least 99 % of the cells",
               "convergence of tmpw is judged at cells where the second-order term 2*max(tmpf_var,tmpb_var)^2/T^2 is below a quarter of "
               "the band times tmpw_var (the property's 'for small noise')",
               "zero-variance run: tmpw realisations are 0/0 weighted means (NaN) and are recorded, not judged"]


class Patched:
    """replace the three samplers used by monte_carlo_* (module-attribute replacement from the harness process)"""

    def __init__(self, delta):
        self.delta = delta

    def __enter__(self):
        import dask.array as da
        import dtscalibration.dts_accessor as acc
        self.acc = acc
        self.orig_rvs = acc.sst.multivariate_normal.rvs
        self.orig_normal = np.random.normal
        delta = self.delta

        def rvs(mean=None, cov=None, size=1, **kw):
            mean = np.asarray(mean, dtype=float)
            out = np.tile(mean, (size, 1))
            for k in range(min(size - 1, mean.size)):
                out[k + 1, k] += delta
            return out

        def normal(loc=0.0, scale=1.0, size=None):
            return np.broadcast_to(np.asarray(loc, dtype=float), size).copy()

        acc.sst.multivariate_normal.rvs = rvs
        np.random.normal = normal

        class State(da.random.RandomState):
            def normal(self, loc=0.0, scale=1.0, size=None, chunks="auto", **kw):
                return da.broadcast_to(loc, size).rechunk(chunks)

        self.state = State()
        return self

    def __exit__(self, *a):
        self.acc.sst.multivariate_normal.rvs = self.orig_rvs
        np.random.normal = self.orig_normal


def mc_call(c, out, state=None, **kw):
    args = dict(result=out, **c.var_args)
    args.update(kw)
    if state is not None:
        args["da_random_state"] = state
    with warnings.catch_warnings(), np.errstate(all="ignore"):
        warnings.simplefilter("ignore")
        if c.double:
            return c.ds.dts.monte_carlo_double_ended(**args)
        return c.ds.dts.monte_carlo_single_ended(**args)


def temps_request(c, p_val, fix_alpha=None):
    req = fibre.model_request(c, want_cov=False, fix_alpha=fix_alpha)
    req["p_val"] = [rj(v) for v in p_val]
    return req


def unpack_case(ctx, c, opts):
    """exact: which p_val entry does every sampled array cell follow?"""
    desc = dict(calib.case_desc(c, opts), sub="unpack")
    out, _ = calib.run_real(c, **opts)
    if isinstance(out, tuple):
        ctx.skip("calibration refused")
        return
    p = out["p_val"].values
    nt, no, nta = c.nt, c.nx, len(c.trans_att)
    fa = opts.get("fix_alpha")
    if c.double:
        ix = fibre.ix_sec(c)
        m = ctx.driver().call("mc.unpack", nt=nt, no=no, nta=nta, ixSec=ix)
        sampled = m["from_i"]                       # model: jointly sampled entries, in order
        doc = list(range(1 + 2 * nt)) + [1 + 2 * nt + i for i in ix] + list(range(1 + 2 * nt + no, 1 + 2 * nt + no + 2 * nt * nta))
        if sampled != doc:
            ctx.mismatch("MonteCarlo.fromI", desc, sampled, doc)
    else:
        sampled = list(range(p.size))
    delta = 1e-3
    size = len(sampled) + 1
    with Patched(delta) as P:
        try:
            mc = mc_call(c, out, state=P.state, mc_sample_size=size, mc_remove_set_flag=False, conf_ints=[])
        except Exception as e:  # noqa: BLE001
            ctx.fail(f"monte_carlo raised {type(e).__name__}: {e}", desc)
            return
    sets = {"tmpf": np.asarray(mc["tmpf_mc_set"].values)}
    if c.double:
        sets["tmpb"] = np.asarray(mc["tmpb_mc_set"].values)
    # realisation 0: unperturbed = calibrated temperature
    for name, arr in sets.items():
        if np.nanmax(np.abs(arr[0] - out[name].values)) > 1e-9:
            ctx.fail(f"unperturbed realisation of {name} differs from the calibrated temperature by "
                     f"{np.nanmax(np.abs(arr[0] - out[name].values)):.3g} K", desc)
            return
    # realisation k+1: parameter sampled[k] shifted by delta  ->  model equation at the documented slot
    ks = list(range(len(sampled)))
    if len(ks) > 24:
        ks = sorted(set(ctx.rng.sample(ks, 20)) | set(ks[:2]) | set(ks[-2:]))
    for k in ks:
        pk = p.copy()
        pk[sampled[k]] += delta
        mt = ctx.driver().call("calib.temps", **temps_request(c, pk, fix_alpha=fa))
        for name, arr in sets.items():
            mod = fibre.dymat(mt[name])
            if np.nanmax(np.abs(arr[k + 1] - mod)) > 1e-8:
                i, j = np.unravel_index(int(np.nanargmax(np.abs(arr[k + 1] - mod))), mod.shape)
                ctx.mismatch(f"MonteCarlo unpacking of sampled entry {k} -> p_val[{sampled[k]}] ({name})", desc,
                             float(mod[i, j]), float(arr[k + 1][i, j]))
                # the property: the realisation must follow the documented parameter
                ctx.fail(f"realisation with sampled entry {k} perturbed does not equal {name} evaluated at p_val perturbed at the "
                         f"documented slot {sampled[k]} (cell [{i},{j}]: {arr[k + 1][i, j]!r} vs {mod[i, j]!r})", desc)
                return
    ctx.case(sig=["unpack", c.double, nta, sorted(opts), no, nt], nontrivial=True, sample=desc)
    ctx.count("unpack:" + ("double" if c.double else "single") + f":nta{nta}")


def zero_variance_case(ctx, c, opts):
    desc = dict(calib.case_desc(c, opts), sub="zero-variance")
    out, _ = calib.run_real(c, **opts)
    if isinstance(out, tuple):
        ctx.skip("calibration refused")
        return
    n = out["p_val"].size
    out0, _ = calib.run_real(c, method="external", p_val=out["p_val"].values.copy(), p_var=np.zeros(n), p_cov=np.zeros((n, n)),
                             **{k: v for k, v in opts.items() if k == "fix_alpha"})
    if isinstance(out0, tuple):
        ctx.skip("external run with zero covariance refused")
        return
    zero = {k: 0.0 for k in c.var_args}
    try:
        mc = mc_call(c, out0, mc_sample_size=5, mc_remove_set_flag=False, conf_ints=[2.5, 97.5], **zero)
    except Exception as e:  # noqa: BLE001
        ctx.fail(f"monte_carlo with zero variances raised {type(e).__name__}: {e}", desc)
        return
    for name in ["tmpf"] + (["tmpb"] if c.double else []):
        arr = np.asarray(mc[name + "_mc_set"].values)
        dev = np.nanmax(np.abs(arr - out0[name].values[None]))
        if not np.isfinite(dev) or dev > 1e-9:
            ctx.fail(f"with all variances zero a realisation of {name} differs from the calibrated temperature by {dev:.3g} K", desc)
            return
        if np.nanmax(np.abs(np.asarray(mc[name + "_mc_var"].values))) > 1e-18:
            ctx.fail(f"{name}_mc_var is not zero with all variances zero", desc)
            return
    if c.double:
        # parameter uncertainty excluded + noise-free intensities: every realisation is the calibrated temperature, whatever p_cov
        try:
            mc2 = mc_call(c, out, mc_sample_size=3, mc_remove_set_flag=False, conf_ints=[], exclude_parameter_uncertainty=True, **zero)
        except Exception as e:  # noqa: BLE001
            ctx.fail(f"monte_carlo(exclude_parameter_uncertainty=True) with zero intensity variances raised {type(e).__name__}: {e}", desc)
            return
        for name in ("tmpf", "tmpb"):
            dev = np.nanmax(np.abs(np.asarray(mc2[name + "_mc_set"].values) - out[name].values[None]))
            if not np.isfinite(dev) or dev > 1e-9:
                ctx.fail(f"with parameter uncertainty excluded and zero intensity variances a realisation of {name} differs from the "
                         f"calibrated temperature by {dev:.3g} K", desc)
                return
        ctx.count("zero-variance:exclude_parameter_uncertainty")
        ctx.count("zero-variance tmpw realisations NaN (recorded): %s" % bool(np.any(np.isnan(np.asarray(mc["tmpw_mc_set"].values)))))
    ctx.case(sig=["zero", c.double, len(c.trans_att), sorted(opts)], nontrivial=True, sample=desc)
    ctx.count("zero-variance")


def flags_case(ctx, c, out):
    desc = dict(calib.case_desc(c), sub="flags")
    if c.double:
        names = ["exclude_parameter_uncertainty", "var_only_sections", "reduce_memory_usage", "mc_remove_set_flag"]
    else:
        names = ["reduce_memory_usage", "mc_remove_set_flag"]
    for vals in itertools.product([False, True], repeat=len(names)):
        kw = dict(zip(names, vals))
        try:
            mc = mc_call(c, out, mc_sample_size=6, conf_ints=[10.0, 90.0], **kw)
            v = np.asarray(mc["tmpf_mc_var"].values)
            ok = v.shape == (c.nx, c.nt)
            if not ok:
                ctx.fail(f"flags {kw}: tmpf_mc_var has shape {v.shape}", desc)
        except Exception as e:  # noqa: BLE001
            ctx.fail(f"flags {kw}: monte_carlo raised {type(e).__name__}: {e}", dict(desc, flags=kw))
        ctx.case(sig=["flags", c.double, len(c.trans_att), vals], nontrivial=True)
        ctx.count("flags")


def percentile_case(ctx):
    r = np.random.default_rng(ctx.rng.randrange(2**31))
    n = int(r.integers(1, 40))
    a = np.round(r.normal(size=n) * 64) / 64
    qs = sorted(set([0.0, 100.0, 50.0, 2.5, 97.5] + [float(np.round(q * 8) / 8) for q in r.uniform(0, 100, 4)]))
    m = ctx.driver().call("mc.percentile", samples=[rj(v) for v in a], q=[rj(q) for q in qs])
    mod = [float(core.unrj(v)) for v in m["values"]]
    code = np.percentile(a, qs).tolist()
    if not np.allclose(mod, code, rtol=0, atol=1e-12):
        ctx.mismatch("MonteCarlo.percentile", dict(samples=a.tolist(), q=qs), mod, code)
    ctx.case(sig=["percentile", n, len(qs)], nontrivial=n > 1)
    ctx.count("percentile")


def statistics_case(ctx, c, out, size, seed, opts=None):
    import dask.array as da
    desc = dict(calib.case_desc(c, opts or {}), sub="convergence", mc_sample_size=size, np_seed=seed)
    np.random.seed(seed)
    state = da.random.RandomState(seed)
    ci = [2.5, 50.0, 97.5]
    mc = mc_call(c, out, state=state, mc_sample_size=size, conf_ints=ci)
    nta = len(c.trans_att)
    band = 6.0 * np.sqrt(2.0 / (size - 1)) + 0.02
    labels = ["tmpf"] + (["tmpb", "tmpw"] if c.double else [])
    for name in labels:
        q = np.asarray(mc[name + "_mc"].values)
        if np.any(np.diff(q, axis=0) < -1e-12):
            ctx.fail(f"confidence bounds of {name} are not non-decreasing along CI", desc)
        t = out[name].values
        inside = (q[0] <= t + 1e-9) & (t <= q[-1] + 1e-9)
        if inside.mean() < 0.99:
            ctx.fail(f"the 2.5/97.5 percentiles of {name} bracket the calibrated temperature at only {100 * inside.mean():.1f} % of the cells", desc)
        if True:
            ratio = np.asarray(mc[name + "_mc_var"].values) / out[name + "_var"].values
            okc = np.abs(ratio - 1.0) <= band
            if name == "tmpw":
                # "for small noise": in tmpw the first-order effect of alpha cancels between the two directions, the second-order
                # one (T*(d/D)^2, variance 2*var^2/T^2) does not; cells where it is not negligible against the band are not judged
                tk = t + 273.15
                second = 2.0 * np.maximum(out["tmpf_var"].values, out["tmpb_var"].values) ** 2 / tk**2
                small = second <= 0.25 * band * out["tmpw_var"].values
                ctx.count("tmpw cells outside the small-noise regime (not judged)", int((~small).sum()))
                okc = okc | ~small
            if okc.mean() < 0.99:
                i, j = np.unravel_index(int(np.argmax(np.abs(ratio - 1.0))), ratio.shape)
                ctx.fail(f"{name}_mc_var / {name}_var outside the {band:.3f} band at {100 * (1 - okc.mean()):.1f} % of the cells "
                         f"(worst [{i},{j}]: {ratio[i, j]:.4f})", desc)
    ctx.case(sig=["convergence", c.double, nta, size, seed, sorted(opts or {})], nontrivial=c.noise > 0, sample=desc)
    ctx.count("convergence" + (" with " + "+".join(sorted(opts)) if opts else ""))


def fixed_with_variance(c, rng):
    """parameters fixed at their true value with a NON-ZERO variance large enough to dominate the propagated variance: the Monte
    Carlo has to vary them with exactly that variance (they are part of N(p_val, p_cov) like every other parameter)"""
    g = (float(c.truth["gamma"]), 0.25)
    if c.double:
        a = (np.array(c.truth["alpha"], dtype=float) - float(c.truth["alpha"][fibre.ix_sec(c)[0]]), np.full(c.nx, 4e-7))
        return [{"fix_gamma": g}, {"fix_alpha": a}]
    return [{"fix_gamma": g}, {"fix_dalpha": (float(c.truth["dalpha"]), (2e-4 / max(c.span, 1.0)) ** 2)},
            {"fix_alpha": (np.array(c.truth["alpha"], dtype=float), np.full(c.nx, 4e-7))}]


def gen(ctx, rng, only0=False, noise=None):
    double = rng.random() < 0.5
    if only0:
        # a layout that leaves only location 0 outside the reference sections
        nx = rng.randint(8, 12)
        layout = dict(ref_blocks=[(1, nx // 2 - 1, 0), (nx // 2, nx - 1, 1)], match_blocks=[], trans_idx=[])
        return fibre.make_case(rng, double=double, nx=nx, nt=2, noise=0.003 if noise is None else noise, layout=layout, var_kind="float")
    return fibre.make_case(rng, double=double, nx=rng.randint(10, 18), nt=rng.randint(1, 3), n_baths=2, n_stretch=3,
                           nta=rng.choice([0, 1, 2]), n_match=0, noise=rng.choice([0.002, 0.004]) if noise is None else noise,
                           var_kind=rng.choice(["float", "array", "callable"]))


def opts_for(c, rng):
    if not c.double and rng.random() < 0.3:
        return {"fix_alpha": (np.array(c.truth["alpha"], dtype=float), np.full(c.nx, 1e-10))}
    return {}


def run(ctx):
    rng = ctx.rng
    for k in range(10 if ctx.quick else 60):
        c = gen(ctx, rng, only0=(k % 5 == 4))
        o = opts_for(c, rng)
        unpack_case(ctx, c, o)
        if k % 2 == 0:
            zero_variance_case(ctx, c, o)
    # always present: two splices, both directions (the splice block is the part of p_val with the most intricate layout)
    for double in (True, False):
        for _ in range(20):
            c = fibre.make_case(rng, double=double, nx=rng.randint(12, 18), nt=rng.randint(2, 3), n_baths=2, n_stretch=3, nta=2, n_match=0,
                                noise=0.002, var_kind="float")
            if len(c.trans_att) == 2:
                unpack_case(ctx, c, {})
                zero_variance_case(ctx, c, {})
                break
    for k in range(3 if ctx.quick else 12):
        c = gen(ctx, rng, only0=(k == 2))
        out, _ = calib.run_real(c)
        if not isinstance(out, tuple):
            flags_case(ctx, c, out)
    for _ in range(200 if ctx.quick else 2000):
        percentile_case(ctx)
    size = 2000 if ctx.quick else 20000
    for k in range(6 if ctx.quick else 40):
        c = gen(ctx, rng, only0=(k % 6 == 5), noise=0.002)
        out, _ = calib.run_real(c)
        if isinstance(out, tuple):
            continue
        statistics_case(ctx, c, out, size, seed=1000 + k)
    # fixed parameters that carry a variance are sampled with it (single- and double-ended; no splices: every fit is identifiable)
    for double in (False, True):
        c = fibre.make_case(rng, double=double, nx=rng.randint(10, 16), nt=2, n_baths=2, n_stretch=3, nta=0, n_match=0, noise=0.002,
                            var_kind="float")
        for o in fixed_with_variance(c, rng):
            out, _ = calib.run_real(c, **o)
            if isinstance(out, tuple):
                ctx.skip("calibration with a fixed parameter refused")
                continue
            statistics_case(ctx, c, out, size, seed=3000 + len(o), opts=o)


def search(ctx):
    rng = ctx.rng
    for k in range(20):
        c = gen(ctx, rng, only0=(k % 4 == 3))
        unpack_case(ctx, c, opts_for(c, rng))
        if ctx.failures:
            return


def replay(path):
    return core.replay_by_seed("C08", path)
