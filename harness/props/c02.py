"""C02 — double-ended calibration is the weighted least-squares fit, with its covariance.
Correspondence as C01 (model `Calib.calibrate`, double-ended layout, EQ1-EQ3 matching rows, alpha outside the sections by
`alphaOutside`).  Additional exact sub-check: with the solver replaced by a tagged stub the full-layout p_val / p_cov must
show every reduced parameter at its documented position."""
import json

import numpy as np

import calib
import core
import fibre

RULE = ("seeded double-ended Raman fibres: nx 8..40 (quick) / ..300 (thorough), nt 1..4 / ..30, spans 10 m..10 km, shuffled "
        "layouts, channel-dependent gains, four variances as float/array/DataArray/callable, 0-2 splices with direction-dependent "
        "loss, 0-2 matching pairs incl. locations outside the reference sections; distinct = (nx, nt, nta, #baths, #stretches, "
        "#match, var kind, span); non-trivial = noise>0 and nt>1 and nx_sec>2")
ASSUMPTIONS = ["as C01; with splices X'WX is singular (gauge), only the weighted SSR is compared there"]


def gen(ctx, rng):
    q = ctx.quick
    # the exact rational reference solve is cubic in the number of unknowns (1 + 2nt + fitted locations + 2 nt nta): the upper end
    # of the property's range (300 locations, 30 times) is visited rarely and not in both dimensions at once
    nx = rng.randint(10, 30 if q else 60)
    nt = rng.randint(1, 4 if q else 6)
    if not q:
        r = rng.random()
        if r < 0.015:
            nx, nt = rng.randint(100, 160), rng.randint(1, 2)   # ~170 unknowns: minutes of exact rational elimination; 300 took hours
        elif r < 0.03:
            nt = rng.randint(12, 30)
            nx = rng.randint(10, 24)
    return fibre.make_case(rng, double=True, nx=nx, nt=nt, n_baths=rng.choice([2, 2, 3, 1]), nta=rng.choice([0, 0, 0, 1, 2]),
                           n_match=rng.choice([0, 0, 1, 2]))


def tagged_positions(ctx, c, opts=None):
    """exact: where do the solver's outputs land in the documented layout?"""
    opts = opts or {}
    desc = calib.case_desc(c, opts)
    out, caps = calib.run_real(c, tagged=True, **opts)
    if isinstance(out, tuple) or not caps:
        ctx.skip("tagged run did not return")
        return
    S = calib.spec_system(c, **calib.fix_to_model(opts))
    act = S["active"]
    n = caps[-1]["X"].shape[1]
    if n != len(act):
        ctx.fail(f"solver received {n} unknowns, documented layout has {len(act)} free parameters", desc)
        return
    pv, pc = out["p_val"].values, out["p_cov"].values
    want_p = np.arange(n) + 0.5
    tag = 1e6 * (np.arange(n)[:, None] + 1) + (np.arange(n)[None, :] + 1)
    tag[np.arange(n), np.arange(n)] = 1000.0 + np.arange(n)
    r0 = S["R"][0][0]
    a0 = 1 + 2 * c.nt + r0
    bad = None
    if not np.array_equal(pv[act], want_p):
        k = int(np.flatnonzero(pv[act] != want_p)[0])
        bad = f"reduced parameter {k} is not reported at documented index {act[k]} of p_val"
    elif not np.array_equal(pc[np.ix_(act, act)], tag):
        i, j = np.argwhere(pc[np.ix_(act, act)] != tag)[0]
        bad = f"covariance of reduced parameters ({i},{j}) is not at documented position ({act[i]},{act[j]}) of p_cov"
    else:
        for k, (a, va) in S["fixed"].items():
            off = np.delete(pc[k], k)
            if pv[k] != a or pc[k, k] != va or np.any(off != 0):
                bad = f"fixed parameter at index {k}: value/variance/zero covariance not reported as supplied"
                break
        if bad is None and "fix_alpha" not in opts:
            if pv[a0] != 0 or pc[a0, a0] != 0 or np.any(pc[a0] != 0):
                bad = "alpha at the first reference location is not exactly 0 with zero variance"
        # entries that belong to no pair of fitted parameters must be zero off the diagonal
        if bad is None:
            mask = np.ones_like(pc, dtype=bool)
            mask[np.ix_(act, act)] = False
            np.fill_diagonal(mask, False)
            if np.any(pc[mask] != 0):
                i, j = np.argwhere((pc != 0) & mask)[0]
                bad = f"p_cov[{i},{j}] is non-zero although ({i},{j}) is not a pair of fitted parameters"
        if bad is None:
            for name, idx in (("gamma", [0]), ("df", range(1, 1 + c.nt)), ("db", range(1 + c.nt, 1 + 2 * c.nt)),
                              ("alpha", range(1 + 2 * c.nt, 1 + 2 * c.nt + c.nx))):
                if not np.array_equal(np.atleast_1d(out[name].values), pv[list(idx)]):
                    bad = f"reported {name} differs from its p_val block"
                    break
    # the executable scatter model (Model/Scatter.lean, tied to the source by the translator) on this case: the k-th unknown of the
    # solver (tag k + 1/2) must be reported at position from_i[k], and the assembled po_sol must hold the tags where the model puts them
    nt_, nx_, nta_ = c.nt, c.nx, len(c.trans_att)
    ixE = [a - (1 + 2 * nt_) for a in act if 1 + 2 * nt_ <= a < 1 + 2 * nt_ + nx_]
    if set(opts) <= {"fix_gamma"}:
        sm = ctx.driver().call("scatter", nt=nt_, N=nx_, nta=nta_, ix_sec=fibre.ix_sec(c), ixE=ixE, p=[2 * k + 1 for k in range(n + (1 if opts else 0))],
                               E=[0] * nx_, fg=bool(opts), fa=False, fd=False)
        from_i = sm["fix_gamma" if opts else "solver"]
        pos = [int(np.flatnonzero(pv == k + 0.5)[0]) if np.any(pv == k + 0.5) else None for k in range(n)]
        if pos != from_i:
            ctx.mismatch("Scatter.fromI" + ("FixGamma" if opts else "Solver"), desc, from_i, pos)
        if not opts:
            mod = sm["po_sol_match" if c.matching else "po_sol"]
            if len(mod) != len(pv) or any(v % 2 == 1 and 2 * pv[q] != v for q, v in enumerate(mod)):
                ctx.mismatch("Scatter.poSol", desc, [v for v in mod if v % 2 == 1][:6], (2 * pv).tolist()[:12])
        ctx.count("scatter model compared")
    m = calib.run_model(ctx, c, want_cov=False, **calib.fix_to_model(opts))
    if m is not None and m["active"] != act:
        ctx.mismatch("Calib.activeCols", desc, m["active"], act)
    if bad:
        ctx.fail(bad, desc)
    ctx.count("tagged")


def alpha_outside_oracle(ctx, c, out):
    """the property's own formula, evaluated with the result's own df, db, splice losses and their variances (independent of
    the gauge of a rank-deficient fit): outside the reference and matched locations alpha(x) is the inverse-variance weighted
    time average of (I_B - I_F)/2 + (db - df)/2 + (TA_B(x) - TA_F(x))/2"""
    if isinstance(out, tuple) or out is None:
        return
    ds, x, nt, nx, nta = c.ds, c.x, c.nt, c.nx, len(c.trans_att)
    p = out["p_val"].values
    v = np.diag(out["p_cov"].values)
    fitted = set(fibre.ix_sec(c)) | {i for pr in fibre.match_pairs(c) for i in pr}
    outside = [i for i in range(nx) if i not in fitted]
    if not outside:
        return
    iF = np.log(ds.st.values / ds.ast.values)
    iB = np.log(ds.rst.values / ds.rast.values)
    vF = c.var_mats["st"] / ds.st.values**2 + c.var_mats["ast"] / ds.ast.values**2
    vB = c.var_mats["rst"] / ds.rst.values**2 + c.var_mats["rast"] / ds.rast.values**2
    cT = lambda a, d, j: 1 + 2 * nt + nx + j + nt * d + 2 * nt * a  # noqa: E731
    A = (iB - iF) / 2 + (p[1 + nt:1 + 2 * nt] - p[1:1 + nt])[None, :] / 2
    V = vF + vB + (v[1 + nt:1 + 2 * nt] + v[1:1 + nt])[None, :]
    for a, s in enumerate(c.trans_att):
        jf = [cT(a, 0, j) for j in range(nt)]
        jb = [cT(a, 1, j) for j in range(nt)]
        up = x >= s
        A[up] -= p[jf][None, :] / 2
        A[~up] += p[jb][None, :] / 2
        V[up] += v[jf][None, :]
        V[~up] += v[jb][None, :]
    want = (A / V).sum(axis=1) / (1 / V).sum(axis=1)
    got = p[1 + 2 * nt:1 + 2 * nt + nx]
    sd = np.sqrt(1 / (1 / (V / 2)).sum(axis=1))
    bad = [i for i in outside if abs(got[i] - want[i]) > 1e-6 * sd[i] + 1e-9 * abs(want[i]) + 1e-12]
    if bad:
        i = bad[0]
        ctx.fail(f"alpha at location {i} (x={x[i]}, outside the reference sections) is {got[i]!r}, the weighted time average of "
                 f"(I_B-I_F)/2 + (db-df)/2 + splice terms with the result's own parameters is {want[i]!r}", calib.case_desc(c))
    ctx.count("alpha-outside oracle: locations", len(outside))


def run_one(ctx, c):
    out = calib.check_wls_case(ctx, c, {})
    alpha_outside_oracle(ctx, c, out)
    nsec = len(fibre.ix_sec(c))
    ctx.case(sig=[c.nx, c.nt, len(c.trans_att), len(c.sections), sum(len(v) for _, v in c.sections), len(c.matching), c.var_kind, c.span],
             nontrivial=c.noise > 0 and c.nt > 1 and nsec > 2, sample=calib.case_desc(c))
    for k in ("var:" + c.var_kind, "nta:%d" % len(c.trans_att), "match:%d" % len(c.matching), "span:%g" % c.span):
        ctx.count(k)


def lead_in_case(rng):
    """always present: two splices with unreferenced lead-in fibre upstream of both, unreferenced fibre between and after them
    (alpha there comes from calc_alpha_double, with both directions' accumulated splice losses)"""
    a0 = rng.randint(2, 4)
    nx = a0 + rng.randint(17, 20)
    layout = dict(ref_blocks=[(a0, a0 + 2, 0), (a0 + 6, a0 + 8, 1), (a0 + 12, a0 + 14, 0)], match_blocks=[],
                  trans_idx=[(a0 + 4, False), (a0 + 10, True)])
    return fibre.make_case(rng, double=True, nx=nx, nt=rng.randint(2, 3), layout=layout)


def batch(ctx, n, tagged_every):
    for k in range(n):
        c = lead_in_case(ctx.rng) if k == 0 else (fibre.splice_at_last_reference_case(ctx.rng, True, n_match=0) if k == 1 else gen(ctx, ctx.rng))
        run_one(ctx, c)
        if k % tagged_every == 0:
            tagged_positions(ctx, c)
        if k % tagged_every == 1:   # the same positions and the zero variance of alpha at the first location with fix_gamma
            tagged_positions(ctx, c, {"fix_gamma": (float(c.truth["gamma"]), 0.25)})


def run(ctx):
    n = 40 if ctx.quick else 320
    core.parallel_cases(ctx, batch, [(n // 8, 2)] * 8, jobs=8)


def search(ctx):
    for _ in range(30):
        c = gen(ctx, ctx.rng)
        run_one(ctx, c)
        tagged_positions(ctx, c)
        if ctx.failures:
            return


def replay(path):
    return calib.replay_with_data(path, "C02", lambda ctx, c, opts: (run_one(ctx, c), tagged_positions(ctx, c, opts)))
