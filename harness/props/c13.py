"""C13 — lazy, chunked and in-memory data give the same numbers under any dask schedule.
Real runs: the same data in memory and dask-backed with chunkings (1..nx) x (1..nt) under the synchronous scheduler and the
threaded scheduler with 1..16 workers: every Monte-Carlo-free output of calibrate_single/double_ended and the Stokes variance
estimators compared (1e-10 relative); the Silixa / AP Sensing readers with load_in_memory False / True / 'auto' compared exactly.
Correspondence with the model: dask's own chunking of a vector (da.from_array(...).chunks) and per-block reductions vs
`Chunk.chunked / sumChunks / filterChunks` in exact rationals."""
import json
import warnings

import numpy as np
import xarray as xr

import calib
import core
import fibre
import secgen
from core import rj

RULE = ("3 (quick) / 12 inputs x sampled chunkings incl. single-element and full-axis chunks x {synchronous, threads x 1,2,4,8,16}; "
        "readers x 3 load modes; distinct = (chunking, scheduler, pipeline); non-trivial = at least two chunks along a chunked "
        "dimension")
ASSUMPTIONS = ["thread interleavings and floating-point re-association are runtime behaviour: observed (1e-10), not proved"]


def outs(out, c):
    names = ["tmpf", "tmpf_var", "p_val", "p_cov"] + (["tmpb", "tmpb_var", "tmpw", "tmpw_var", "alpha"] if c.double else ["c"])
    return {k: np.asarray(out[k].values) for k in names}


def close(a, b):
    for k in a:
        x, y = a[k], b[k]
        if x.shape != y.shape:
            return f"{k}: shape {x.shape} vs {y.shape}"
        scale = np.nanmax(np.abs(x)) if x.size else 1.0
        if not np.all((np.abs(x - y) <= 1e-10 * np.abs(x) + 1e-9 * scale * 1e-3) | (np.isnan(x) & np.isnan(y))):
            i = np.unravel_index(int(np.nanargmax(np.abs(x - y))), x.shape)
            return f"{k}{list(map(int, i))}: in memory {x[i]!r}, dask-backed {y[i]!r}"
    return None


def follow_up(res, c, ds):
    """bias and RMS error of tmpf with respect to the baths (per stretch / per bath / all), taken twice, then tmpf itself"""
    sec = fibre.sections_dict(c)
    res = res.copy()
    for k in c.keys:
        res[k] = ds[k]
    got = {}
    for rep in (0, 1):
        for per in ("stretch", "section", "all"):
            r = res.dts.ufunc_per_section(sections=sec, label="tmpf", func=(np.mean if per != "all" else None), temp_err=True, calc_per=per)
            flat = []
            if isinstance(r, dict):
                for k in sorted(r):
                    v = r[k]
                    flat += [np.asarray(t, dtype=float).ravel() for t in (v if isinstance(v, list) else [v])]
            else:
                flat = [np.asarray(r, dtype=float).ravel()]
            got[f"temp_err[{per}]#{rep}"] = np.concatenate(flat) if flat else np.zeros(0)
    got["tmpf afterwards"] = np.asarray(res["tmpf"].values)
    return got


def chunk_case(ctx, c, cx, ct, sched, workers, base=None, estimators=True):
    import dask
    desc = dict(calib.case_desc(c), chunks=[cx, ct], scheduler=sched, workers=workers)
    if base is None:
        base, _ = calib.run_real(c)
    if isinstance(base, tuple):
        ctx.skip("calibration refused")
        return
    import copy
    d = copy.copy(c)
    d.ds = c.ds.chunk({"x": cx, "time": ct})
    d.var_args = dict(c.var_args)
    for k, v in list(d.var_args.items()):
        if isinstance(v, xr.DataArray):
            d.var_args[k] = v.chunk({"x": cx, "time": ct})
    cfg = dict(scheduler=sched)
    if sched == "threads":
        cfg["num_workers"] = workers
    with dask.config.set(**cfg):
        out, _ = calib.run_real(d)
        if isinstance(out, tuple):
            ctx.fail(f"calibration of the dask-backed dataset raised {out[1]}: {out[2]}", desc)
            return
        got = outs(out, c)
        # variance estimators on a dask-backed Stokes array
        from dtscalibration.variance_stokes import variance_stokes_constant, variance_stokes_exponential
        with warnings.catch_warnings():
            warnings.simplefilter("ignore")
            sec = fibre.sections_dict(c)
            try:
                if not estimators:
                    raise StopIteration
                v1, _ = variance_stokes_constant(c.ds.st, sec, np.ones(c.nt), reshape_residuals=False)
                v2, _ = variance_stokes_constant(d.ds.st, sec, np.ones(c.nt), reshape_residuals=False)
                if abs(v1 - v2) > 1e-10 * abs(v1):
                    ctx.fail(f"variance_stokes_constant: {v1!r} in memory, {v2!r} dask-backed", desc)
                if c.nt >= 2:
                    e1, _ = variance_stokes_exponential(c.ds.st, sec, np.ones(c.nt), reshape_residuals=False, suppress_info=True)
                    e2, _ = variance_stokes_exponential(d.ds.st, sec, np.ones(c.nt), reshape_residuals=False, suppress_info=True)
                    e1, e2 = float(np.asarray(e1)), float(np.asarray(e2))
                    # LSQR with its default stopping tolerance amplifies round-off (ill-conditioned for long fibres): 1e-3
                    if abs(e1 - e2) > 1e-3 * abs(e1):
                        ctx.fail(f"variance_stokes_exponential: {e1!r} in memory, {e2!r} dask-backed", desc)
            except StopIteration:
                pass
            except Exception as e:  # noqa: BLE001
                ctx.fail(f"variance estimator on dask-backed data raised {type(e).__name__}: {e}", desc)
    bad = close(outs(base, c), got)
    if bad:
        ctx.fail("dask-backed result differs from the in-memory result: " + bad, desc)
    # derived, Monte Carlo-free outputs taken from the result (twice, then the variable itself again): the whole sequence must agree
    with dask.config.set(**cfg), warnings.catch_warnings():
        warnings.simplefilter("ignore")
        bad = close(follow_up(base.copy(deep=True), c, c.ds), follow_up(out, c, d.ds))
    if bad:
        ctx.fail("a statistic derived from the dask-backed result differs from the in-memory one: " + bad, desc)
    ctx.case(sig=[cx, ct, sched, workers, c.double], nontrivial=cx < c.nx or ct < c.nt, sample=desc)
    ctx.count(f"calib:{sched}:{workers}")


def two_pass_case(ctx, rng, double, kind):
    """the usual two-pass work flow on ONE lazily evaluated dataset: calibrate with a rough noise variance, then again with a refined,
    intensity-dependent one (same kind of argument, other values) — every pass has to agree with the same pass on the in-memory data"""
    import copy
    import dask
    c = fibre.make_case(rng, double=double, nx=rng.randint(9, 12), nt=rng.randint(2, 3), n_baths=2, n_stretch=3, nta=0, n_match=0,
                        noise=0.004, var_kind=kind)
    names = ["st", "ast"] + (["rst", "rast"] if double else [])
    passes = []
    for scale in (None, "refined"):
        va = {}
        for n in names:
            v = np.array(c.var_mats[n], dtype=float)
            if scale:
                v = v * (0.3 + 1.7 * c.ds[n].values / c.ds[n].values.max())
            va[n + "_var"] = v if kind == "array" else xr.DataArray(v, dims=("x", "time"), coords={"x": c.ds.x, "time": c.ds.time})
        passes.append(va)
    cx, ct = rng.randint(2, c.nx), rng.randint(1, c.nt)
    lazy = c.ds.chunk({"x": cx, "time": ct})
    desc = dict(calib.case_desc(c), sub="two passes on one lazy dataset", chunks=[cx, ct], variance=kind)
    sched = rng.choice(["synchronous", "threads"])
    for i, va in enumerate(passes):
        m = copy.copy(c)
        m.var_args = va
        base, _ = calib.run_real(m)
        d = copy.copy(c)
        d.ds, d.var_args = lazy, va
        with dask.config.set(scheduler=sched):
            out, _ = calib.run_real(d)
        if isinstance(base, tuple) or isinstance(out, tuple):
            if isinstance(base, tuple) != isinstance(out, tuple):
                ctx.fail(f"pass {i + 1}: in memory {'raised' if isinstance(base, tuple) else 'returned'}, dask-backed "
                         f"{'raised' if isinstance(out, tuple) else 'returned'}", desc)
            continue
        bad = close(outs(base, c), outs(out, c))
        if bad:
            ctx.fail(f"pass {i + 1} on the same dask-backed dataset differs from the in-memory result: " + bad, desc)
    ctx.case(sig=["two-pass", double, kind, cx, ct], nontrivial=True, sample=desc)
    ctx.count(f"two-pass:{'double' if double else 'single'}:{kind}")


def model_case(ctx, rng):
    """dask's chunking and per-block reductions vs the model, exact"""
    import dask.array as da
    n = rng.randint(1, 30)
    cs = rng.randint(1, n)
    vals = (np.round(np.random.default_rng(rng.randrange(2**31)).normal(size=n) * 64) / 64)
    arr = da.from_array(vals, chunks=cs)
    sizes = list(arr.chunks[0])
    lo, hi = sorted([float(rng.choice(vals)), float(rng.choice(vals))])
    m = ctx.driver().call("chunk", values=[rj(v) for v in vals], sizes=sizes, lo=rj(lo), hi=rj(hi))
    blocks = [np.asarray(arr.blocks[i].compute()).tolist() for i in range(len(sizes))]
    mod_blocks = [[float(core.unrj(v)) for v in b] for b in m["chunks"]]
    case = dict(values=vals.tolist(), chunks=cs)
    if blocks != mod_blocks:
        ctx.mismatch("Chunk.chunked", case, mod_blocks, blocks)
    if m["sum_chunked"] != m["sum_whole"] or m["sel_chunked"] != m["sel_whole"]:
        ctx.mismatch("Chunk invariance (model internal)", case, "equal", "differs")
    sel = arr[(arr >= lo) & (arr <= hi)].compute().tolist()
    if sel != [float(core.unrj(v)) for v in m["sel_whole"]]:
        ctx.mismatch("Chunk.filterChunks", case, m["sel_whole"], sel)
    if abs(float(arr.sum().compute()) - float(core.unrj(m["sum_whole"]))) > 1e-12 * max(1.0, float(np.abs(vals).sum())):
        ctx.mismatch("Chunk.sumChunks", case, float(core.unrj(m["sum_whole"])), float(arr.sum().compute()))
    ctx.case(sig=["model", n, cs], nontrivial=len(sizes) >= 2)
    ctx.count("model")


def reader_case(ctx):
    from dtscalibration.io.silixa import read_silixa_files
    from dtscalibration.io.apsensing import read_apsensing_files
    jobs = [("silixa single", read_silixa_files, dict(directory="/repo/tests/data/single_ended", timezone_netcdf="UTC", file_ext="*.xml", silent=True)),
            ("silixa double", read_silixa_files, dict(directory="/repo/tests/data/double_ended2", timezone_netcdf="UTC", file_ext="*.xml", silent=True)),
            ("apsensing", read_apsensing_files, dict(directory="/repo/tests/data/ap_sensing", timezone_netcdf="UTC", file_ext="*.xml", silent=True))]
    for name, fn, kw in jobs:
        res = {}
        with warnings.catch_warnings():
            warnings.simplefilter("ignore")
            for mode in (False, True, "auto"):
                try:
                    res[str(mode)] = fn(load_in_memory=mode, **kw)
                except Exception as e:  # noqa: BLE001
                    ctx.fail(f"{name}: load_in_memory={mode} raised {type(e).__name__}: {e}", dict(op="reader", reader=name))
                    return
        base = res["True"]
        for mode, ds in res.items():
            for k in base.data_vars:
                if k not in ds or not np.array_equal(np.asarray(base[k].values), np.asarray(ds[k].values), equal_nan=base[k].dtype.kind == "f"):
                    ctx.fail(f"{name}: `{k}` differs between load_in_memory=True and {mode}", dict(op="reader", reader=name))
                    return
            ctx.case(sig=["reader", name, mode], nontrivial=True)
            ctx.count("reader:" + name)


def shared_names_case(ctx, rng):
    """two directories holding files with the SAME names and different content, read lazily and evaluated in ONE dask computation"""
    import dask
    import shutil
    import vendors
    from props import c11
    from dtscalibration.io.silixa import read_silixa_files
    variant = rng.choice(["v6-double", "v6-single", "v8-double"])
    r = np.random.default_rng(rng.randrange(2**31))
    n, npts = 3, rng.randint(5, 12)
    ncol = vendors.template(vendors.SILIXA[variant][0]).ncol
    ts = c11.stamps(rng, n)
    x = np.round(np.cumsum(r.uniform(0.1, 1.0, npts)) - 5, 3)
    dirs, sets = [], []
    try:
        for tag in ("a", "b"):
            recs = []
            for k in range(n):
                tab = c11.values(r, (npts, ncol), "plain")
                tab[:, 0] = x
                recs.append(dict(ts=ts[k], ms=0, table=tab, acq=[30.0] * 4,
                                 series=dict(acquisitionTime=30.0, referenceTemperature=20.0, probe1Temperature=5.0, probe2Temperature=6.0)))
            d = c11.workdir("c13" + tag)
            vendors.silixa_write(variant, d, recs, list(range(n)))
            dirs.append(d)
            sets.append(recs)
        with warnings.catch_warnings():
            warnings.simplefilter("ignore")
            lazy = [read_silixa_files(directory=str(d), timezone_netcdf="UTC", file_ext="*.xml", silent=True, load_in_memory=False) for d in dirs]
            mem = [read_silixa_files(directory=str(d), timezone_netcdf="UTC", file_ext="*.xml", silent=True, load_in_memory=True) for d in dirs]
        case = dict(op="reader-shared-names", variant=variant, nfiles=n, npts=npts)
        names = [k for k in ("st", "ast", "rst", "rast", "tmp") if k in mem[0]]
        together = dask.compute(*[lazy[i][k].data for i in (0, 1) for k in names])
        for j, (i, k) in enumerate((i, k) for i in (0, 1) for k in names):
            if not np.array_equal(np.asarray(together[j]), np.asarray(mem[i][k].values)):
                ctx.fail(f"silixa {variant}: `{k}` of directory {'ab'[i]} read lazily and evaluated together with a directory holding files "
                         "of the same names differs from the in-memory read", case)
                break
        ctx.case(sig=["reader-shared-names", variant, npts], nontrivial=True, sample=case)
        ctx.count("reader:shared-names")
    finally:
        for d in dirs:
            shutil.rmtree(d, ignore_errors=True)


def run(ctx):
    rng = ctx.rng
    for _ in range(100):
        model_case(ctx, rng)
    reader_case(ctx)
    for _ in range(2 if ctx.quick else 8):
        shared_names_case(ctx, rng)
    for double, kind in ([(False, "array"), (True, "dataarray")] if ctx.quick else
                         [(False, "array"), (True, "dataarray"), (True, "array"), (False, "dataarray")] * 2):
        two_pass_case(ctx, rng, double, kind)
    jobs = []
    for k in range(2 if ctx.quick else 12):
        jobs.append((k, rng.randrange(2**31)))
    core.parallel_cases(ctx, input_cases, jobs, jobs=8)


def input_cases(ctx, k, seed):
    import random
    rng = random.Random(seed)
    double = k % 2 == 1
    c = fibre.make_case(rng, double=double, nx=rng.randint(8, 10) if ctx.quick else rng.randint(8, 14), nt=rng.randint(2, 3), n_baths=2, n_stretch=3,
                        nta=rng.choice([0, 1]), n_match=rng.choice([0, 1]), noise=0.004, var_kind=rng.choice(["float", "dataarray", "callable"]))
    combos = [(c.nx, c.nt), (max(1, c.nx // 2), 1), (3, c.nt), (c.nx, 1)]
    if k == 0 or not ctx.quick:
        combos += [(1, 1), (1, c.nt)]
    if not ctx.quick:
        combos += [(rng.randint(1, c.nx), rng.randint(1, c.nt)) for _ in range(6)]
    base, _ = calib.run_real(c)
    for i, (cx, ct) in enumerate(combos):
        if i % 2 == 0:
            chunk_case(ctx, c, cx, ct, "synchronous", 1, base=base, estimators=(i == 2))
        else:
            chunk_case(ctx, c, cx, ct, "threads", [1, 2, 4, 8, 16][(i + k) % 5], base=base, estimators=(i == 1))


def search(ctx):
    run(ctx)


def replay(path):
    return core.replay_by_seed("C13", path)
