"""C01 — single-ended calibration is the weighted least-squares fit, with its covariance.
Correspondence: the (X, y, w) that reach the solver, the solver's optimum/covariance, the full-layout p_val/p_cov and tmpf
vs the Lean model `Calib.calibrate` (exact rational WLS, result-checked).  Oracle: the Spec system of DESIGN Appendix D built
independently in Python and solved by scaled lstsq; the code's parameters must minimise ITS weighted SSR."""
import json

import numpy as np

import calib
import core
import fibre

RULE = ("seeded Raman fibres: nx 6..60 (quick) / ..400 (thorough), nt 1..8 / ..40, spans 10 m..10 km, regular/irregular x, 1-3 baths "
        "x 1-3 stretches in shuffled dict order, noise 0..5 %, variance as float/array/DataArray/callable, 0-2 splices, 0-2 "
        "matching pairs (either listing order); distinct = (nx, nt, nta, #baths, #stretches, #match, var kind, span); "
        "non-trivial = noise>0 and weights vary and nt>1 and nx_sec>2")
ASSUMPTIONS = ["lsqr returns a least-squares solution within 1e-3 sd; lstsq(A, I) a g-inverse within 1e-3 (correlation units)",
               "model weights and 1/K are rounded to 128 significant bits (DESIGN §4b)"]
KNOWN_W = "C01-weights-transposed"


def gen(ctx, rng):
    q = ctx.quick
    nx = rng.randint(8, 40 if q else 120)
    if not q and rng.random() < 0.05:
        nx = rng.randint(150, 400)
    nt = rng.randint(1, 6 if q else 12)
    if not q and rng.random() < 0.05:
        nt = rng.randint(20, 40)
    nb = rng.choice([1, 2, 2, 2, 3, 3])
    return fibre.make_case(rng, double=False, nx=nx, nt=nt, n_baths=nb, nta=rng.choice([0, 0, 1, 2]),
                           n_match=rng.choice([0, 0, 0, 1, 2]))


def run_one(ctx, c, known):
    out = calib.check_wls_case(ctx, c, {}, known_weights=known)
    nsec = len(fibre.ix_sec(c))
    wv = float(np.ptp(c.var_mats["st"])) > 0
    ctx.case(sig=[c.nx, c.nt, len(c.trans_att), len(c.sections), sum(len(v) for _, v in c.sections), len(c.matching), c.var_kind, c.span],
             nontrivial=c.noise > 0 and wv and c.nt > 1 and nsec > 2,
             sample=dict(calib.case_desc(c), gamma=None if out is None else float(out["gamma"].values)))
    ctx.count("var:" + c.var_kind)
    ctx.count("nta:%d" % len(c.trans_att))
    ctx.count("match:%d" % len(c.matching))
    ctx.count("span:%g" % c.span)


def run(ctx):
    known = next((e for e in core.load_known("C01") if e["id"] == KNOWN_W and e["status"] == "known"), None)
    n = 60 if ctx.quick else 600
    for k in range(n):
        if k < 2:
            c = fibre.splice_at_last_reference_case(ctx.rng, False)
        elif k < 4:
            # two splices listed in decreasing position
            c = None
            for _ in range(30):
                c = fibre.make_case(ctx.rng, double=False, nx=ctx.rng.randint(20, 30), nt=ctx.rng.randint(1, 4), n_baths=3, nta=2,
                                    n_match=0, trans_order="desc")
                if len(c.trans_att) == 2:
                    break
        elif k < 6:
            # strongly correlated, well determined design (far, short baths a few kelvin apart); one time step: the recorded
            # weight-order defect is immaterial there, so nothing is attributed to it
            c = fibre.correlated_design_case(ctx.rng, nt=1, dT=(4.0 if k == 4 else 1.5), var_kind=("float" if k == 4 else "array"))
            ctx.count("correlated far-bath design")
        else:
            c = gen(ctx, ctx.rng)
        run_one(ctx, c, known)


def search(ctx):
    for _ in range(40):
        c = gen(ctx, ctx.rng)
        run_one(ctx, c, next((e for e in core.load_known("C01") if e["id"] == KNOWN_W and e["status"] == "known"), None))
        if ctx.failures:
            return


def replay(path):
    known = next((e for e in core.load_known("C01") if e["id"] == KNOWN_W and e["status"] == "known"), None)
    return calib.replay_with_data(path, "C01", lambda ctx, c, opts: run_one(ctx, c, known))
