"""C09 — averaged temperatures and their uncertainties are what their names say.
Correspondence: names and dimensions of every output vs the Lean table `Average.allOutputs`; `*_avg1/_avgx1` vs `Average.mean`
of the calibrated temperature (exact rationals); `*_mc_avg2_var/_avgx2_var` vs `Average.ivwVar` of the per-cell Monte Carlo
variances.  Oracle: the property's own formulas; label selection vs index selection of the same elements with re-seeded RNGs."""
import json
import warnings

import numpy as np

import calib
import core
import fibre
from core import rj

RULE = ("results (single and double, 0-1 splices) x {avg1, avg2, avgx1, avgx2} x {sel, isel, no selection} x conf_ints given/None; "
        "distinct = (single/double, mode, selection kind, CI?, nx, nt); non-trivial = selection is a proper subset of >= 2 elements")
ASSUMPTIONS = ["avg2/avgx2 VALUES are Monte Carlo means of weighted means: compared with the weighted mean of the calibrated "
               "temperature within 6 sigma of their own reported variance",
               "tmpw_avg1/avgx1 are means of a tmpw re-weighted with Monte Carlo variances: compared with the mean of the "
               "calibrated tmpw within a quarter of |tmpf - tmpb|"]

MODES = {"avg1": "ci_avg_time_flag1", "avg2": "ci_avg_time_flag2", "avgx1": "ci_avg_x_flag1", "avgx2": "ci_avg_x_flag2"}


def avg_call(c, out, seed, **kw):
    import dask.array as da
    np.random.seed(seed)
    state = da.random.RandomState(seed)
    args = dict(result=out, da_random_state=state, **c.var_args)
    args.update(kw)
    with warnings.catch_warnings(), np.errstate(all="ignore"):
        warnings.simplefilter("ignore")
        if c.double:
            return c.ds.dts.average_monte_carlo_double_ended(**args)
        return c.ds.dts.average_monte_carlo_single_ended(**args)


def selection(c, rng, mode, kind):
    over_time = mode in ("avg1", "avg2")
    n = c.nt if over_time else c.nx
    if kind == "keep-perm":
        # a selection on the dimension that is NOT averaged, listed in arbitrary (unsorted) order: every output keeps that dimension
        # in the listed order, element j belonging to the j-th listed location / time
        nk = c.nx if over_time else c.nt
        if nk < 3:
            return {}, list(range(n)), "none"
        for _ in range(20):
            idx = rng.sample(range(nk), rng.randint(2, min(nk, 6)))
            if idx != sorted(idx):
                break
        return ({"ci_avg_x_isel": idx} if over_time else {"ci_avg_time_isel": idx}), idx, "keep-perm"
    if kind == "none" or n < 3:
        return {}, list(range(n)), "none"
    i0 = rng.randint(0, n - 2)
    i1 = rng.randint(i0 + 1, n - 1) if rng.random() < 0.85 else i0      # now and then a selection of a single element
    idx = list(range(i0, i1 + 1))
    if kind == "isel-gap":
        # an increasing index list with at least one adjacent pair and at least one gap (e.g. two bath stretches); n >= 4
        if n < 4:
            return {}, list(range(n)), "none"
        a = rng.randint(0, n - 4)
        gap = rng.randint(2, n - 2 - a)
        idx = [a, a + 1] + list(range(a + 1 + gap, min(n, a + 1 + gap + rng.randint(1, 3))))
        return ({"ci_avg_time_isel": idx} if over_time else {"ci_avg_x_isel": idx}), idx, "isel-gap"
    if kind == "isel-spell":
        # the same elements in another legal spelling of positions: counted from the end, as ndarray, as range; half of the blocks
        # reach the last element ("the last n")
        if rng.random() < 0.5:
            idx = list(range(i0, n))
        how = rng.choice(["neg-list", "neg-array", "neg-range", "array", "range"])
        if how == "neg-list":
            sp = [i - n for i in idx]
        elif how == "neg-array":
            sp = np.array([i - n for i in idx])
        elif how == "neg-range":
            sp = range(idx[0] - n, idx[-1] - n + 1)
        elif how == "array":
            sp = np.array(idx)
        else:
            sp = range(idx[0], idx[-1] + 1)
        return ({"ci_avg_time_isel": sp} if over_time else {"ci_avg_x_isel": sp}), idx, "isel-spell:" + how
    if over_time:
        t = c.ds.time.values
        if kind == "sel":
            return {"ci_avg_time_sel": slice(t[i0], t[i1])}, idx, "sel"
        return {"ci_avg_time_isel": idx}, idx, "isel"
    if kind == "sel":
        return {"ci_avg_x_sel": slice(float(c.x[i0]), float(c.x[i1]))}, idx, "sel"
    return {"ci_avg_x_isel": idx}, idx, "isel"


def run_one(ctx, c, out, mode, kind, ci, size=60):
    rng = ctx.rng
    selkw, idx, kind = selection(c, rng, mode, kind)
    over_time = mode in ("avg1", "avg2")
    desc = dict(calib.case_desc(c), mode=mode, selection=kind, idx=(idx if kind == "isel-gap" else [idx[0], idx[-1]]), conf_ints=ci,
                spelled=(repr(list(selkw.values())[0])[:80] if selkw else None))
    kw = dict(mc_sample_size=size, conf_ints=[2.5, 97.5] if ci else None, mc_remove_set_flag=False, **{MODES[mode]: True}, **selkw)
    seed = rng.randrange(10**6)
    try:
        av = avg_call(c, out, seed, **kw)
    except Exception as e:  # noqa: BLE001
        ctx.fail(f"average_monte_carlo raised {type(e).__name__}: {e}", desc)
        return
    m = ctx.driver().call("avg.table", double=c.double, mode=mode, ci=ci)
    kept = "x" if over_time else "time"
    labels = ["tmpf"] + (["tmpb", "tmpw"] if c.double else [])
    for name, dims in m["outputs"]:
        if name not in av:
            ctx.mismatch("Average.allOutputs", desc, name, "absent")
            ctx.fail(f"{name} is not returned for mode {mode}", desc)
            continue
        got = [str(d).replace("_avg", "") for d in av[name].dims]
        if got != dims:
            ctx.mismatch("Average.allOutputs dims", desc, [name, dims], [name, got])
        if "mc" in av[name].dims or (("time" if over_time else "x") in got):
            ctx.fail(f"{name} has dims {av[name].dims}: indexed by the Monte Carlo sample or by the averaged dimension", desc)
        vals = np.asarray(av[name].values, dtype=float)
        if vals.size == 0 or not np.all(np.isfinite(vals)):
            ctx.fail(f"{name} is not finite everywhere ({int((~np.isfinite(vals)).sum())} of {vals.size} cells): it cannot be a mean / "
                     f"variance / bound over the {len(idx)} selected elements", desc)
    # every averaged output that is returned, requested or not, must be free of the Monte Carlo sample dimension
    for name in av.data_vars:
        if "_avg" in str(name) and not str(name).endswith("_set") and "mc" in av[name].dims:
            ctx.fail(f"{name} (returned although only {mode} was requested) is indexed by the Monte Carlo sample dimension: {av[name].dims}", desc)
    # values
    keep = kind == "keep-perm"
    for lab in labels:
        T = out[lab].values
        if keep:
            Tsel = T[idx, :] if over_time else T[:, idx]
        else:
            Tsel = T[:, idx] if over_time else T[idx, :]
        axis = 1 if over_time else 0
        if mode in ("avg1", "avgx1"):
            got = np.asarray(av[f"{lab}_{mode}"].values)
            want = Tsel.mean(axis=axis)
            k = rng.randrange(want.size)
            vec = Tsel[k, :] if over_time else Tsel[:, k]
            mm = ctx.driver().call("avg.values", t=[rj(v) for v in vec], v=[rj(1.0)] * len(vec))
            modv = float(core.unrj(mm["mean"]))
            if lab != "tmpw":
                if abs(modv - got[k]) > 1e-9:
                    ctx.mismatch("Average.mean", desc, modv, float(got[k]))
                if np.nanmax(np.abs(got - want)) > 1e-9:
                    ctx.fail(f"{lab}_{mode} is not the arithmetic mean of the calibrated {lab} over the selection "
                             f"(max deviation {np.nanmax(np.abs(got - want)):.3g} K)", desc)
            else:
                gap = np.abs(out["tmpf"].values - out["tmpb"].values)
                if keep:
                    gsel = (gap[idx, :] if over_time else gap[:, idx]).max(axis=axis)
                else:
                    gsel = (gap[:, idx] if over_time else gap[idx, :]).max(axis=axis)
                if np.any(np.abs(got - want) > 0.25 * gsel + 1e-9):
                    ctx.fail(f"tmpw_{mode} deviates from the mean of the calibrated tmpw by more than a quarter of |tmpf-tmpb|", desc)
        else:
            var_name = f"{lab}_mc_{mode}_var"
            cell = np.asarray(av[f"{lab}_mc_avgsec_var"].values) if f"{lab}_mc_avgsec_var" in av else None
            got_var = np.asarray(av[var_name].values)
            if lab != "tmpw" and cell is not None:
                want_var = 1.0 / (1.0 / cell).sum(axis=axis)
                if np.nanmax(np.abs(got_var - want_var) / want_var) > 1e-9:
                    ctx.fail(f"{var_name} is not 1/sum(1/var_i) of the per-element Monte Carlo variances", desc)
                k = rng.randrange(want_var.size)
                vec = cell[k, :] if over_time else cell[:, k]
                mm = ctx.driver().call("avg.values", t=[rj(0.0)] * len(vec), v=[rj(v) for v in vec])
                if abs(float(core.unrj(mm["ivw_var"])) - got_var[k]) > 1e-9 * abs(got_var[k]):
                    ctx.mismatch("Average.ivwVar", desc, float(core.unrj(mm["ivw_var"])), float(got_var[k]))
                # value: weighted mean of the calibrated temperature, within 6 sigma of its reported variance
                w = 1.0 / cell
                want = (Tsel * w).sum(axis=axis) / w.sum(axis=axis)
                got = np.asarray(av[f"{lab}_{mode}"].values)
                if np.any(np.abs(got - want) > 6 * np.sqrt(got_var) + 1e-9):
                    ctx.fail(f"{lab}_{mode} deviates more than 6 sigma from the inverse-variance weighted mean of the calibrated {lab}", desc)
            elif lab == "tmpw":
                vf, vb = np.asarray(av[f"tmpf_mc_{mode}_var"].values), np.asarray(av[f"tmpb_mc_{mode}_var"].values)
                if np.nanmax(np.abs(got_var - 1 / (1 / vf + 1 / vb)) / got_var) > 1e-9:
                    ctx.fail(f"{var_name} is not 1/(1/var_f + 1/var_b) of the averaged channels", desc)
    ctx.case(sig=[c.double, mode, kind.split(":")[0], ci, c.nx, c.nt], nontrivial=kind != "none" and len(idx) >= 2, sample=desc)
    ctx.count(f"{mode}:{kind.split(':')[0]}:{'ci' if ci else 'noci'}")
    if ":" in kind:
        ctx.count("spelling " + kind.split(":")[1])
    return av, seed, idx


def sel_isel_pair(ctx, c, out, mode):
    """label selection and index selection of the same elements, same seeds -> identical results; the index selection also spelled
    from the end of the axis ("the last n": [-n, …, -1]) and as an ndarray"""
    over_time = mode in ("avg1", "avg2")
    n = c.nt if over_time else c.nx
    if n < 3:
        return
    for (i0, i1), spell in (((1, n - 1 if n < 4 else n - 2), "list"), ((n - 2, n - 1), "neg-list"), ((max(0, n - 3), n - 1), "neg-array")):
        idx = list(range(i0, i1 + 1))
        sp = idx if spell == "list" else ([i - n for i in idx] if spell == "neg-list" else np.array([i - n for i in idx]))
        if over_time:
            t = c.ds.time.values
            a = {"ci_avg_time_sel": slice(t[i0], t[i1])}
            b = {"ci_avg_time_isel": sp}
        else:
            a = {"ci_avg_x_sel": slice(float(c.x[i0]), float(c.x[i1]))}
            b = {"ci_avg_x_isel": sp}
        kw = dict(mc_sample_size=40, conf_ints=[10.0, 90.0], **{MODES[mode]: True})
        desc = dict(calib.case_desc(c), mode=mode, sub="sel-vs-isel", idx=[i0, i1], spelled=repr(sp)[:60])
        try:
            r1 = avg_call(c, out, 4242, **kw, **a)
            r2 = avg_call(c, out, 4242, **kw, **b)
        except Exception as e:  # noqa: BLE001
            ctx.fail(f"average_monte_carlo raised {type(e).__name__}: {e}", desc)
            return
        for k in r1.data_vars:
            a1, a2 = np.asarray(r1[k].values), (np.asarray(r2[k].values) if k in r2 else None)
            if a2 is None or a1.shape != a2.shape or not np.allclose(a1, a2, rtol=1e-10, atol=1e-14, equal_nan=True):
                ctx.fail(f"selecting by label and by index ({spell}) of the same elements gives different `{k}`", desc)
                break
            if "_avg" in str(k) and not str(k).endswith("_set") and not np.all(np.isfinite(np.asarray(a1, dtype=float))):
                ctx.fail(f"`{k}` is not finite for a non-empty selection", desc)
                break
        ctx.case(sig=["sel-vs-isel", c.double, mode, c.nx, c.nt, spell], nontrivial=True, sample=desc)
        ctx.count("sel-vs-isel " + spell)


def run(ctx):
    rng = ctx.rng
    for k in range(2 if ctx.quick else 20):
        double = k % 2 == 1
        c = fibre.make_case(rng, double=double, nx=rng.randint(8, 14), nt=rng.randint(4, 6), n_baths=2, n_stretch=3,
                            nta=rng.choice([0, 1]), n_match=0, noise=0.003, var_kind=rng.choice(["float", "array"]))
        out, _ = calib.run_real(c)
        if isinstance(out, tuple):
            continue
        for mode in MODES:
            for kind in ("sel", "isel", "isel-gap", "isel-spell", "keep-perm", "none"):
                for ci in (True, False):
                    run_one(ctx, c, out, mode, kind, ci)
            sel_isel_pair(ctx, c, out, mode)


def search(ctx):
    run(ctx)


def replay(path):
    return core.replay_by_seed("C09", path)
