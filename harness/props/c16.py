"""C16 — sections are accepted exactly when usable, and no location is used twice.
Correspondence: validate_sections / calibrate_single_ended(method='external') / variance_stokes_constant on the real code vs
Lean `Sections.validate`; `ufunc_per_section(x_indices=True)` and `ref_temp_broadcasted` vs `ixSecAll` / `bathOfRow`.
Oracle: the property's own `usable` predicate written directly on the grid."""
import itertools
import json
import warnings

import numpy as np

import core
import secgen
from core import rj

RULE = ("all placements of <=2 stretches (quick; <=3 thorough) with endpoints on and between the grid points of a 4..5 point "
        "grid (touching, nested, reversed, empty), every split over 1-2 baths, sampled 3-4 stretch layouts, random larger "
        "layouts on irregular grids, missing keys; distinct = canonical layout; non-trivial = at least two stretches")
ASSUMPTIONS = ["grid strictly increasing", "np.argsort on equal starts may order either way (verdict is insensitive, see DESIGN §8 C16)"]
KNOWN_ID = "C16-bounds-overlap-refused"


def real_validate(xs, d, present_keys):
    from dtscalibration.calibration.section_utils import validate_sections
    ds = secgen.mk_ds(xs, present_keys, nt=2)
    try:
        validate_sections(ds, secgen.to_sections(d))
        return "ok"
    except AssertionError as e:
        return secgen.classify_exception(e)


def api_calibrate(xs, d, present_keys):
    import dtscalibration  # noqa: F401
    ds = secgen.mk_ds(xs, present_keys, nt=2)
    npar = 2 + 2
    try:
        with warnings.catch_warnings():
            warnings.simplefilter("ignore")
            ds.dts.calibrate_single_ended(sections=secgen.to_sections(d), st_var=1.0, ast_var=1.0, method="external",
                                          p_val=np.array([480.0, 0.0, 1.5, 1.5]), p_var=np.ones(npar) * 1e-6,
                                          p_cov=np.eye(npar) * 1e-6)
        return "ok"
    except AssertionError as e:
        return secgen.classify_exception(e)


def api_variance(xs, d):
    from dtscalibration.variance_stokes import variance_stokes_constant
    ds = secgen.mk_ds(xs, [], nt=4)
    try:
        with warnings.catch_warnings():
            warnings.simplefilter("ignore")
            variance_stokes_constant(ds.st, secgen.to_sections(d), np.ones(4), reshape_residuals=False)
        return "ok"
    except AssertionError as e:
        return secgen.classify_exception(e)
    except Exception as e:
        return "other:" + type(e).__name__


def judge(ctx, case, xs, d, present_keys, verdict, where, known):
    """property oracle on one real verdict"""
    ok, why = secgen.usable(xs, d, present_keys)
    accepted = verdict == "ok"
    if accepted and not ok:
        ctx.fail(f"{where} accepted a definition that is not usable ({why})", case)
    elif ok and not accepted:
        # usable but refused: the only known region is the bounds-based overlap check
        in_region = verdict == "overlap"
        ctx.fail(f"{where} refused a usable definition (stage {verdict})", case,
                 known=known if in_region else None)
    ctx.count(f"{where}:{'accept' if accepted else 'reject'}/{'usable' if ok else 'unusable'}")


def check(ctx, xs, d, missing=(), api=False, known=None):
    keys = [k for k, _ in d]
    present_keys = [k for k in keys if k not in missing]
    case = dict(xs=xs, dict=d, missing=list(missing))
    verdict = real_validate(xs, d, present_keys)
    m = ctx.driver().call("sections.eval", xs=[rj(v) for v in xs], dict=secgen.dict_to_json(d),
                          present=[k in present_keys for k in keys])
    if (verdict == "ok") != (m["stage"] == "ok"):
        if verdict == "ok" and m["stage"] == "overlap" and secgen.usable(xs, d, present_keys)[0]:
            # the model carries the recorded defect C16-bounds-overlap-refused; a source that accepts this usable definition is right
            ctx.count("usable definition with overlapping bounds accepted (recorded defect absent in this source)")
        else:
            ctx.mismatch("Sections.validate", case, m["stage"], verdict)
    elif verdict != m["stage"]:
        ctx.count("stage-differs(not compared)")
    judge(ctx, case, xs, d, present_keys, verdict, "validate_sections", known)
    if verdict == "ok":
        check_rows(ctx, case, xs, d, present_keys, m)
    if api:
        v2 = api_calibrate(xs, d, present_keys)
        if (v2 == "ok") != (m["stage"] == "ok") and not (v2 == "ok" and m["stage"] == "overlap" and secgen.usable(xs, d, present_keys)[0]):
            ctx.mismatch("Sections.validate~calibrate_single_ended", case, m["stage"], v2)
        judge(ctx, case, xs, d, present_keys, v2, "calibrate_single_ended", known)
        if not missing:
            v3 = api_variance(xs, d)
            if (v3 == "ok") != (m["stage"] == "ok") and not (v3 == "ok" and m["stage"] == "overlap" and secgen.usable(xs, d, keys)[0]):
                ctx.mismatch("Sections.validate~variance_stokes_constant", case, m["stage"], v3)
            judge(ctx, case, xs, d, keys, v3, "variance_stokes_constant", known)
    nst = sum(len(v) for _, v in d)
    ctx.case(sig=canon(xs, d, missing), nontrivial=nst >= 2,
             sample=dict(xs=xs, sections=d, missing=list(missing), verdict=verdict, model_stage=m["stage"]))


def canon(xs, d, missing):
    x0 = xs[0]
    return [[round(x - x0, 6) for x in xs], [[k in missing, [[a - x0, b - x0] for a, b in v]] for k, v in d]]


def check_rows(ctx, case, xs, d, present_keys, m):
    """accepted: one observation per selected location, in fibre order, with the bath's own reference series"""
    import dtscalibration  # noqa: F401
    ds = secgen.mk_ds(xs, present_keys, nt=2)
    sec = secgen.to_sections(d)
    ix = ds.dts.ufunc_per_section(sections=sec, x_indices=True, calc_per="all")
    ix = [int(v) for v in ix]
    if ix != m["ixSecAll"]:
        ctx.mismatch("Sections.ixSecAll", case, m["ixSecAll"], ix)
    ref = ds.dts.ufunc_per_section(sections=sec, label="st", ref_temp_broadcasted=True, calc_per="all")
    keys = [k for k, _ in d]
    model_ref = np.array([ds[keys[b]].values for b in m["bathOfRow"]]).reshape(len(m["bathOfRow"]), ds.time.size)
    if np.asarray(ref).shape != model_ref.shape or not np.array_equal(np.asarray(ref), model_ref):
        ctx.mismatch("Sections.bathOfRow", case, m["bathOfRow"], np.asarray(ref).tolist())
    # oracle: every selected location exactly once, ascending; its row is its own bath's series
    want = sorted((i, k) for k, v in d for a, b in v for i, x in enumerate(xs) if a <= x <= b)
    if ix != [i for i, _ in want]:
        ctx.fail(f"reference locations {ix} are not each selected location once in fibre order {[i for i, _ in want]}", case)
    else:
        for r, (i, k) in enumerate(want):
            if not np.array_equal(np.asarray(ref)[r], ds[k].values):
                ctx.fail(f"row {r} (location {i}) carries the reference series of another bath than {k}", case)
                break


def splits(stretches, rng=None):
    """all ways to put an ordered list of stretches into 1 or 2 baths (dict order as listed)"""
    n = len(stretches)
    yield [("bath0", list(stretches))]
    for mask in range(1, 2 ** n - 1):
        a = [s for i, s in enumerate(stretches) if not (mask >> i) & 1]
        b = [s for i, s in enumerate(stretches) if (mask >> i) & 1]
        yield [("bath0", a), ("bath1", b)]


def part(ctx, k, nparts):
    """one slice of the enumeration (stretch pairs with first stretch index = k mod nparts) plus a share of the sampled layouts"""
    rng = ctx.rng
    known = next((e for e in core.load_known("C16") if e["id"] == KNOWN_ID and e["status"] == "known"), None)
    n = 4
    xs = [float(i) for i in range(n)]
    S = secgen.all_stretches(n)
    if k == 0:
        d0 = core.VERIF / "corpus" / "C16"
        for p in sorted(d0.glob("*.json")) if d0.exists() else []:
            c = json.loads(p.read_text())
            check(ctx, c["xs"], [(kk, [tuple(s) for s in v]) for kk, v in c["dict"]], tuple(c.get("missing", ())), api=True, known=known)
            ctx.count("corpus")
        for s in S:   # one stretch, exhaustively (incl. reversed and empty)
            check(ctx, xs, [("bath0", [s])], api=(rng.random() < 0.1), known=known)
    # two stretches, exhaustively, both splits
    for i, s in enumerate(S):
        if i % nparts != k:
            continue
        for t in S:
            for d in splits([s, t]):
                check(ctx, xs, d, api=(rng.random() < 0.01), known=known)
    # three: sampled (quick) / exhaustive in one bath + sampled splits (thorough)
    if ctx.quick:
        triples = (tuple(rng.choice(S) for _ in range(3)) for _ in range(4000 // nparts))
    else:
        triples = (tr for j, tr in enumerate(itertools.product(S, repeat=3)) if j % nparts == k)
    for tr in triples:
        ds_ = list(splits(list(tr)))
        check(ctx, xs, ds_[rng.randrange(len(ds_))], api=(rng.random() < 0.005), known=known)
    xs5 = [float(i) for i in range(5)]
    S5 = secgen.all_stretches(5)
    for _ in range((1500 if ctx.quick else 30000) // nparts):
        st = [rng.choice(S5) for _ in range(4)]
        nb = rng.randint(1, 3)
        d = [("bath%d" % b, []) for b in range(nb)]
        for s in st:
            d[rng.randrange(nb)][1].append(s)
        d = [kv for kv in d if kv[1]] or [("bath0", st)]
        check(ctx, xs5, d, api=(rng.random() < 0.01), known=known)
    for _ in range((400 if ctx.quick else 6000) // nparts):
        xs_, d = secgen.random_layout(rng, max_stretches=6)
        missing = (d[0][0],) if rng.random() < 0.1 else ()
        check(ctx, xs_, d, missing=missing, api=(rng.random() < 0.1), known=known)


def run(ctx):
    nparts = 8
    core.parallel_cases(ctx, part, [(k, nparts) for k in range(nparts)], jobs=8)


def search(ctx):
    rng = ctx.rng
    for mm in list(ctx.mismatches)[:20]:
        c = mm["case"]
        check(ctx, c["xs"], [(k, [tuple(s) for s in v]) for k, v in c["dict"]], tuple(c.get("missing", ())), api=True)
        if ctx.failures:
            return
    for _ in range(3000):
        xs_, d = secgen.random_layout(rng, max_stretches=5, valid_bias=0.5)
        check(ctx, xs_, d, api=True)
        if ctx.failures:
            return


def replay(path):
    r = json.loads(open(path).read())
    c = r.get("case")
    if not c:
        print("no concrete input in replay file:", json.dumps(r.get("no_longer_checks"))[:2000])
        return 1
    xs = c["xs"]
    d = [(k, [tuple(s) for s in v]) for k, v in c["dict"]]
    missing = c.get("missing", [])
    present = [k for k, _ in d if k not in missing]
    ok, why = secgen.usable(xs, d, present)
    v1, v2 = real_validate(xs, d, present), api_calibrate(xs, d, present)
    print(f"usable={ok} ({why}); validate_sections -> {v1}; calibrate_single_ended -> {v2}")
    bad = (ok != (v1 == "ok")) or (ok != (v2 == "ok"))
    print("property fails on this input" if bad else "property holds on this input")
    return 1 if bad else 0
