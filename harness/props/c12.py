"""C12 — time coordinates denote the recorded instants, independent of the host.
(a) `coords_time` called directly over time stamps 1990-2037, acquisition times 1-600 s (whole and fractional), IANA zone pairs
incl. DST zones: every coordinate in ns vs the Lean model `TimeCoords.coords` + `convert` with zone offsets taken from `zoneinfo`
(independent of pandas); the property's own relations (order, span, midpoint / end of forward) are evaluated on the real output.
(b) each of the four readers is run on the bundled vendor files in a subprocess per host TZ in {UTC, America/New_York,
Asia/Kolkata, Pacific/Auckland} (plus another working directory and LC_ALL): all time coordinates must be identical, and for
Sensortran equal to the UTC epoch seconds parsed independently from the binary header."""
import datetime as dt
import json
import os
import struct
import subprocess
import sys
import warnings
from zoneinfo import ZoneInfo

import numpy as np

import core
import vendors
from core import rj

RULE = ("(a) seeded (time stamp, acquisition times, zone pair, single/double) tuples; (b) 4 readers x 4 host zones; distinct = "
        "(vendor | direct, host TZ, zone pair, DST side); non-trivial = host TZ != UTC or the two zones differ")
ASSUMPTIONS = ["the IANA database is a parameter: offsets come from zoneinfo; DST-ambiguous / non-existent local times are excluded and counted"]

ZONES = ["UTC", "Europe/Amsterdam", "America/New_York", "Asia/Kolkata", "Pacific/Auckland", "Australia/Lord_Howe", "America/St_Johns"]
HOSTS = ["UTC", "America/New_York", "Asia/Kolkata", "Pacific/Auckland"]
NS = 10**9
EPOCH = dt.datetime(1970, 1, 1)


def off_local(zone, naive_ns):
    """UTC offset (ns) of `zone` at the naive local time; None if ambiguous or non-existent"""
    z = ZoneInfo(zone)
    d = EPOCH + dt.timedelta(microseconds=naive_ns // 1000)
    o0 = d.replace(tzinfo=z, fold=0).utcoffset()
    o1 = d.replace(tzinfo=z, fold=1).utcoffset()
    if o0 != o1:
        return None
    # non-existent local times: round trip through UTC changes the wall clock
    back = (d.replace(tzinfo=z) - o0).astimezone(dt.timezone.utc).astimezone(z).replace(tzinfo=None) if False else None
    u = d - o0
    if (u.replace(tzinfo=dt.timezone.utc).astimezone(z)).replace(tzinfo=None) != d:
        return None
    return int(o0.total_seconds()) * NS


def exists_local(zone, naive_ns):
    """does the naive wall-clock time occur at all in `zone` (False inside a spring-forward gap)?"""
    z = ZoneInfo(zone)
    d = EPOCH + dt.timedelta(microseconds=naive_ns // 1000)
    for fold in (0, 1):
        o = d.replace(tzinfo=z, fold=fold).utcoffset()
        u = (d - o).replace(tzinfo=dt.timezone.utc)
        if u.astimezone(z).replace(tzinfo=None) == d:
            return True
    return False


def off_instant(zone, utc_ns):
    d = (EPOCH + dt.timedelta(microseconds=utc_ns // 1000)).replace(tzinfo=dt.timezone.utc)
    return int(d.astimezone(ZoneInfo(zone)).utcoffset().total_seconds()) * NS


_TRANS = {}


def transitions(zone, year):
    """UTC instants (whole seconds) in `year` at which the UTC offset of `zone` changes"""
    if (zone, year) not in _TRANS:
        z = ZoneInfo(zone)
        out = []
        t = dt.datetime(year, 1, 1, tzinfo=dt.timezone.utc)
        end = dt.datetime(year + 1, 1, 1, tzinfo=dt.timezone.utc)
        prev = t.astimezone(z).utcoffset()
        while t < end:
            n = t + dt.timedelta(hours=6)
            o = n.astimezone(z).utcoffset()
            if o != prev:
                lo, hi = t, n
                while (hi - lo).total_seconds() > 1:
                    mid = lo + (hi - lo) / 2
                    mid = mid.replace(microsecond=0)
                    if mid <= lo:
                        break
                    if mid.astimezone(z).utcoffset() == prev:
                        lo = mid
                    else:
                        hi = mid
                out.append(int((hi.replace(tzinfo=None) - EPOCH).total_seconds()))
                prev = o
            t = n
        _TRANS[(zone, year)] = out
    return _TRANS[(zone, year)]


def direct_case(ctx, rng):
    from dtscalibration.io.utils import coords_time
    year = rng.randint(1990, 2037)
    e = int((dt.datetime(year, rng.randint(1, 12), rng.randint(1, 28), rng.randint(0, 23), rng.randint(0, 59), rng.randint(0, 59))
             - EPOCH).total_seconds()) * NS + rng.choice([0, 0, 340_000_000, 999_000_000])
    if rng.random() < 0.15:  # near a DST switch of Amsterdam / New York
        e = int((dt.datetime(year, rng.choice([3, 10, 11]), rng.randint(24, 30), rng.choice([0, 1, 2, 3]), rng.randint(0, 59)) - EPOCH).total_seconds()) * NS
    double = rng.random() < 0.5
    F = rng.choice([float(rng.randint(1, 600)), rng.randint(1, 600) + 0.5, rng.uniform(1, 600)])
    B = rng.choice([float(rng.randint(1, 600)), rng.uniform(1, 600)])
    zin, zout = rng.choice(ZONES), rng.choice(ZONES)
    if rng.random() < 0.2:
        # a DST switch of the OUTPUT zone falls inside the measurement interval (input stamps in UTC)
        zin, zout = "UTC", rng.choice(["Europe/Amsterdam", "America/New_York", "Pacific/Auckland", "Australia/Lord_Howe"])
        tr = transitions(zout, year)
        if tr:
            T = rng.choice(tr)
            lo = -int(B) + 1 if double else 1
            e = (T + rng.randint(min(lo, int(F) - 1), max(lo, int(F) - 1))) * NS
            ctx.count("direct: output-zone DST switch inside the measurement")
    case = dict(op="direct", e=e, F=F, B=B, double=double, tz_in=zin, tz_out=zout)
    m = ctx.driver().call("time.coords", double=double, e=e, F=rj(F), B=rj(B))
    names = ["timestart", "time", "timeend"] + (["timeFWstart", "timeFWend", "timeFW", "timeBWstart", "timeBWend", "timeBW"] if double else [])
    want = {}
    for k in names:
        oi = off_local(zin, m[k])
        if oi is None:
            ctx.skip("ambiguous or non-existent local time")
            return
        want[k] = ctx.driver().call("time.convert", v=m[k], off_in=oi, off_out=off_instant(zout, m[k] - oi))["v"]
    try:
        got = coords_time(np.array([e], dtype="int64").astype("datetime64[ns]"), timezone_input_files=zin, timezone_netcdf=zout,
                          dtFW=np.array([F]), dtBW=np.array([B]), double_ended_flag=double)
    except Exception as ex:  # noqa: BLE001
        ctx.fail(f"coords_time raised {type(ex).__name__}: {ex}", case)
        return
    g = {k: int(np.asarray(got[k][1]).astype("datetime64[ns]").astype("int64")[0]) for k in names}
    if g != want:
        bad = [k for k in names if g[k] != want[k]]
        ctx.mismatch("TimeCoords.coords/convert", case, {k: want[k] for k in bad}, {k: g[k] for k in bad})
    # the property, on the real output, in instants (UTC).  A reported wall-clock time that is ambiguous in the OUTPUT zone cannot
    # be turned back into an instant: those cases are compared with the model only.
    inst = {}
    bad = None
    for k in names:
        oo = off_local(zout, g[k])
        if oo is None:
            if not exists_local(zout, g[k]):
                # an instant always has a wall-clock time in the output zone; a wall-clock time that does not exist there was not
                # obtained by converting an instant
                bad = bad or f"`{k}` is a wall-clock time that does not exist in timezone_netcdf={zout}"
            else:
                ctx.count("reported local time ambiguous in the output zone (its relations are not judged)")
            continue
        inst[k] = g[k] - oo
    e_oi = off_local(zin, e)
    e_inst = e - e_oi if e_oi is not None else None
    f, b = int(F), int(B)
    have = lambda *ks: all(k in inst for k in ks)  # noqa: E731
    if bad is None and have("timestart", "time", "timeend") and not (inst["timestart"] <= inst["time"] <= inst["timeend"]):
        bad = "timestart <= time <= timeend violated"
    if bad is None and have("timestart", "timeend") and inst["timeend"] - inst["timestart"] != (f + (b if double else 0)) * NS:
        bad = f"timeend - timestart = {(inst['timeend'] - inst['timestart']) / NS} s, acquisition time is {f + (b if double else 0)} s"
    if bad is None and e_inst is not None and double and have("time") and inst["time"] != e_inst:
        bad = "double-ended: time is not the end of the forward measurement (the stored time stamp)"
    if bad is None and e_inst is not None and not double and have("timeend") and inst["timeend"] != e_inst:
        bad = "single-ended: timeend is not the stored time stamp"
    if bad is None and not double and have("timestart", "time", "timeend") and abs(2 * inst["time"] - inst["timestart"] - inst["timeend"]) > NS:
        bad = "single-ended: time is not the midpoint to within 1 s"
    if bad:
        ctx.fail(bad, case)
    ctx.case(sig=["direct", zin, zout, double, year], nontrivial=zin != zout, sample=dict(case, coords_ns=g))
    ctx.count("direct:" + ("double" if double else "single"))


READERS = {
    "silixa": ("read_silixa_files", "silixa", dict(directory="/repo/tests/data/double_ended2", timezone_netcdf="UTC", file_ext="*.xml")),
    "silixa_single": ("read_silixa_files", "silixa", dict(directory="/repo/tests/data/single_ended", timezone_netcdf="Europe/Amsterdam", file_ext="*.xml")),
    "sensornet": ("read_sensornet_files", "sensornet", dict(directory="/repo/tests/data/sensornet_oryx_v3.7", timezone_netcdf="UTC", timezone_input_files="Europe/Amsterdam")),
    "apsensing": ("read_apsensing_files", "apsensing", dict(directory="/repo/tests/data/ap_sensing", timezone_netcdf="UTC", timezone_input_files="UTC")),
    "sensortran": ("read_sensortran_files", "sensortran", dict(directory="/repo/tests/data/sensortran_binary", timezone_netcdf="UTC")),
}

CHILD = r'''
import sys, json, warnings
warnings.filterwarnings("ignore")
sys.path.insert(0, sys.argv[1])
import importlib, numpy as np
mod = importlib.import_module("dtscalibration.io." + sys.argv[3])
fn = getattr(mod, sys.argv[2])
kw = json.loads(sys.argv[4])
try:
    ds = fn(silent=True, **kw)
except TypeError:
    ds = fn(**kw)
out = {}
for k in ds.coords:
    if k.startswith("time"):
        out[k] = np.asarray(ds[k].values).astype("datetime64[ns]").astype("int64").tolist()
print("RESULT" + json.dumps(out))
'''


def reader_case(ctx, name):
    fn, module, kw = READERS[name]
    results = {}
    from concurrent.futures import ThreadPoolExecutor

    def child(host):
        env = dict(os.environ, TZ=host, LC_ALL=("C" if host != "Asia/Kolkata" else "C.UTF-8"))
        cwd = "/" if host == "Pacific/Auckland" else str(core.VERIF)
        return subprocess.run(["/venv/bin/python", "-c", CHILD, core.DTS_SRC, fn, module, json.dumps(kw)], env=env, cwd=cwd,
                              stdout=subprocess.PIPE, stderr=subprocess.PIPE, text=True, timeout=300)

    with ThreadPoolExecutor(4) as ex:
        procs = dict(zip(HOSTS, ex.map(child, HOSTS)))
    for host in HOSTS:
        p = procs[host]
        line = [l for l in p.stdout.splitlines() if l.startswith("RESULT")]
        if not line:
            ctx.fail(f"{name}: reader failed under TZ={host}: {p.stderr.strip().splitlines()[-1:] }", dict(op="reader", reader=name, host=host))
            return
        results[host] = json.loads(line[0][6:])
        ctx.case(sig=["reader", name, host], nontrivial=host != "UTC")
        ctx.count(f"reader:{name}")
    base = results["UTC"]
    for host, r in results.items():
        if r != base:
            k = next(k for k in base if r.get(k) != base[k])
            d = (np.array(r[k]) - np.array(base[k])) / NS
            ctx.fail(f"{name}: coordinate `{k}` changes with the host TZ ({host}: shifted by {d[0]} s)", dict(op="reader", reader=name, host=host))
            return
    if name == "sensortran":
        files = sorted(f for f in os.listdir(kw["directory"]) if f.endswith("BinaryRawDTS.dat"))
        stamps = []
        for f in files:
            with open(os.path.join(kw["directory"], f), "rb") as fh:
                fh.seek(2 + 2 + 4 * 7 + 4)
                stamps.append(struct.unpack("<i", fh.read(4))[0] * NS)
        if base["timeend"] != stamps:
            ctx.fail("sensortran: timeend is not the UTC epoch time stored in the file header", dict(op="reader", reader=name, stored=stamps, got=base["timeend"]))
    # order relations on the real coordinates
    if not all(k in base for k in ("timestart", "time", "timeend")):
        ctx.count(f"reader:{name} reports only {sorted(base)}")
        return
    ts, t, te = (np.array(base[k]) for k in ("timestart", "time", "timeend"))
    if not (np.all(ts <= t) and np.all(t <= te)):
        ctx.fail(f"{name}: timestart <= time <= timeend violated", dict(op="reader", reader=name))


def same_path_case(ctx, rng):
    """"…none of them changes with the host's TZ setting, locale or working directory": several campaign folders that carry the
    SAME relative name and the SAME file names (Sensortran names hold only the time of day) are read one after the other in one
    process through the relative path, after a chdir; then one folder is read again after its files were replaced.  Every time
    coordinate must be the instant stored in the files that were named — equal to the read through the absolute path, and moved by
    exactly the difference of the stored stamps between campaigns."""
    import shutil
    import datetime as dt
    from dtscalibration.io.sensortran import read_sensortran_files
    r = np.random.default_rng(rng.randrange(2**31))
    base = core.VERIF / "harness" / ".work" / f"c12cwd-{os.getpid()}"
    shutil.rmtree(base, ignore_errors=True)
    n, npts = rng.randint(2, 4), rng.randint(4, 12)
    t0 = dt.datetime(2021, rng.randint(1, 12), rng.randint(1, 28), rng.randint(1, 20), rng.randint(0, 59), rng.randint(0, 59))
    shifts = [0, rng.randint(1, 400) * 86400 + rng.randint(-3000, 3000), -rng.randint(1, 300) * 86400]
    x = np.arange(npts, dtype=np.float32) * np.float32(0.5)

    def records(shift):
        recs = []
        for k in range(n):
            ts = t0 + dt.timedelta(seconds=90 * k)
            recs.append(dict(epoch=int((ts - dt.datetime(1970, 1, 1)).total_seconds()) + shift, name=ts.strftime("%H_%M_%S"), x=x,
                             tmp=r.normal(20, 5, npts).astype(np.float32), st=r.integers(1, 10**6, npts + 3).astype(np.int32),
                             ast=r.integers(1, 10**6, npts + 3).astype(np.int32), ref_temp=290.0))
        return recs

    case = dict(sub="same relative path, other working directory / replaced files", reader="sensortran", shifts=shifts, nfiles=n)
    old = os.getcwd()
    coords = ("time", "timestart", "timeend")
    try:
        got = []
        for k, sh in enumerate(shifts):
            d = base / f"campaign{k}" / "measurements"
            d.mkdir(parents=True)
            vendors.sensortran_write(d, records(sh), list(range(n)))
        with warnings.catch_warnings():
            warnings.simplefilter("ignore")
            for k, sh in enumerate(shifts):
                os.chdir(base / f"campaign{k}")
                rel = read_sensortran_files(directory="measurements", timezone_netcdf="UTC", silent=True)
                os.chdir(old)
                ab = read_sensortran_files(directory=str(base / f"campaign{k}" / "measurements"), timezone_netcdf="UTC", silent=True)
                for cname in coords:
                    if not np.array_equal(rel[cname].values, ab[cname].values):
                        ctx.fail(f"sensortran: `{cname}` read through the relative path from another working directory differs from the "
                                 f"read through the absolute path (campaign {k})", case)
                got.append({cname: rel[cname].values.astype("datetime64[s]").astype("int64") for cname in coords})
            for k, sh in enumerate(shifts[1:], 1):
                for cname in coords:
                    if not np.array_equal(got[k][cname] - got[0][cname], np.full(n, sh)):
                        ctx.fail(f"sensortran: `{cname}` of campaign {k} is not moved by the difference of the stored stamps ({sh} s) "
                                 f"against campaign 0: {(got[k][cname] - got[0][cname]).tolist()}", case)
            # the files of one folder are replaced (same names, later stamps) and the folder is read again
            d0 = base / "campaign0" / "measurements"
            vendors.sensortran_write(d0, records(7 * 86400), list(range(n)))
            again = read_sensortran_files(directory=str(d0), timezone_netcdf="UTC", silent=True)
            for cname in coords:
                a = again[cname].values.astype("datetime64[s]").astype("int64")
                if not np.array_equal(a - got[0][cname], np.full(n, 7 * 86400)):
                    ctx.fail(f"sensortran: `{cname}` read after the files were replaced is not the stamp stored in the new files", case)
    except Exception as e:  # noqa: BLE001
        ctx.fail(f"sensortran: reading campaign folders raised {type(e).__name__}: {str(e)[:200]}", case)
    finally:
        os.chdir(old)
        shutil.rmtree(base, ignore_errors=True)
    ctx.case(sig=["same-path", n], nontrivial=True, sample=case)
    ctx.count("same relative path / replaced files")


def synthesised_cases(ctx):
    """(c) file sets synthesised from the vendor templates with per-channel acquisition times (forward != backward): the readers
    must hand the acquisition times recorded for the measurement's own channels to coords_time"""
    from props import c11
    for _ in range(2 if ctx.quick else 12):
        for variant in vendors.SILIXA:
            c11.silixa_case(ctx, ctx.rng, variant, mode="time")
        for variant in vendors.SENSORNET:
            c11.sensornet_case(ctx, ctx.rng, variant, mode="time")


def run(ctx):
    for _ in range(300 if ctx.quick else 5000):
        direct_case(ctx, ctx.rng)
    synthesised_cases(ctx)
    for _ in range(2 if ctx.quick else 10):
        same_path_case(ctx, ctx.rng)
    from concurrent.futures import ThreadPoolExecutor
    with ThreadPoolExecutor(5) as ex:
        list(ex.map(lambda n: reader_case(ctx, n), list(READERS)))


def search(ctx):
    run(ctx)


def replay(path):
    return core.replay_by_seed("C12", path)
