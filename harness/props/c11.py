"""C11 — readers place every recorded value at the coordinate where it was recorded.
File sets are synthesised from the bundled vendor templates (values, time stamps, point counts substituted; files created in a
shuffled order) for Silixa xml v4/v6/v7/v8 (single and double ended), Sensornet .ddf (single, double, double with reversed
channel), AP Sensing .xml and Sensortran .dat.  Oracle: the intended records (decimal text -> nearest double on both sides).
Correspondence: order of the time axis and accept/reject vs `Readers.orderByName/stackAccept`; the Sensornet window and the
reverse-channel rows vs `Readers.sensornetCut`; Sensortran header and arrays vs `Readers.decodeHeader/decodeArrays` on the bytes."""
import datetime as dt
import json
import os
import shutil
import struct
import warnings

import numpy as np

import core
import vendors
from core import rj

RULE = ("per vendor variant: file sets of 1-6 (quick) / 1-12 files x 3-40 / 3-400 points, arbitrary finite values (negative, tiny, "
        "huge), time stamps in shuffled creation order; faults: one file with another point count, one truncated file, missing "
        "companion; distinct = (variant, #files, creation-order class, fault); non-trivial = >= 2 files whose creation order "
        "differs from the time order")
ASSUMPTIONS = ["XML / ddf text parsing is exercised, not modelled",
               "Sensornet: the reader returns a window of the file by design; placement, equal lengths and contiguity of what is "
               "returned are judged, not completeness (DESIGN §8 C11)"]


def workdir(tag):
    d = core.VERIF / "harness" / ".work" / f"c11-{os.getpid()}-{tag}"
    if d.exists():
        shutil.rmtree(d)
    d.mkdir(parents=True)
    return d


def codes(name):
    return [ord(ch) for ch in name]


def values(r, shape, kind):
    if kind == "wild":
        mant = r.normal(size=shape)
        expo = r.integers(-12, 12, size=shape)
        return mant * 10.0 ** expo
    return 500 + 100 * r.normal(size=shape)


def stamps(rng, n, midnight=False):
    base = dt.datetime(rng.randint(1995, 2035), rng.randint(1, 12), rng.randint(1, 28), rng.randint(0, 22), rng.randint(0, 59), rng.randint(0, 59))
    if midnight:
        base = base.replace(hour=23, minute=58, second=30)
    out, t = [], base
    for _ in range(n):
        out.append(t)
        t = t + dt.timedelta(seconds=rng.randint(100 if midnight else 31, 900))   # midnight: the second file is already past it
    return out


def model_order(ctx, names, npoints):
    return ctx.driver().call("reader.stack", names=[codes(n) for n in names], npoints=npoints)


def judge_order(ctx, case, ds, names_created, recs, m):
    """time axis: every file once, chronological, under its own name"""
    fn = [str(v) for v in ds["filename"].values]
    want = [names_created[i] for i in m["order"]]
    if fn != want:
        ctx.mismatch("Readers.orderByName", case, want, fn)
    chrono = [n for _, n in sorted((recs[k]["ts"], names_created[k]) for k in range(len(recs)))]
    if fn != chrono:
        ctx.fail(f"time axis is not chronological with each file under its own stamp: {fn} vs {chrono}", case)
        return None
    return [names_created.index(n) for n in fn]


# ------------------------------------------------------------------------------------------------------------- Silixa
def judge_times(ctx, what, case, ds, stamp_ns, fw, bw, double):
    """C12 relations on a synthesised file set: span = configured acquisition time(s); time = end of forward (double) / midpoint
    to 1 s (single); the stored stamp is the end of the forward (double) or of the only (single) measurement"""
    g = {k: ds[k].values.astype("datetime64[ns]").astype("int64") for k in ("timestart", "time", "timeend")}
    s = 10**9
    fw, bw = np.asarray(fw, dtype=np.int64) * s, np.asarray(bw, dtype=np.int64) * s
    bad = None
    if not (np.all(g["timestart"] <= g["time"]) and np.all(g["time"] <= g["timeend"])):
        bad = "timestart <= time <= timeend violated"
    elif double:
        if not np.array_equal(g["timeend"] - g["timestart"], fw + bw):
            bad = f"timeend - timestart = {((g['timeend'] - g['timestart']) // s).tolist()} s, configured forward+backward = {((fw + bw) // s).tolist()} s"
        elif not (np.array_equal(g["time"], stamp_ns) and np.array_equal(g["timestart"], stamp_ns - fw)):
            bad = "time is not the stored end of the forward measurement / timestart not one forward acquisition earlier"
    else:
        if not np.array_equal(g["timeend"] - g["timestart"], fw):
            bad = f"timeend - timestart = {((g['timeend'] - g['timestart']) // s).tolist()} s, configured acquisition time = {(fw // s).tolist()} s"
        elif not (np.array_equal(g["timeend"], stamp_ns) and np.all(np.abs(g["time"] - (stamp_ns - fw // 2)) <= s)):
            bad = "timeend is not the stored stamp or time is not the midpoint to 1 s"
    if bad:
        ctx.fail(f"{what}: " + bad, case)


def silixa_case(ctx, rng, variant, fault=None, mode="values"):
    from dtscalibration.io.silixa import read_silixa_files
    r = np.random.default_rng(rng.randrange(2**31))
    n = rng.randint(1, 6 if ctx.quick else 12)
    npts = rng.randint(3, 40 if ctx.quick else 400)
    ncol = vendors.template(vendors.SILIXA[variant][0]).ncol
    ts = stamps(rng, n)
    x = np.round(np.cumsum(r.uniform(0.1, 1.0, npts)) - 20, 3)
    recs = []
    for k in range(n):
        tab = values(r, (npts, ncol), rng.choice(["wild", "plain"]))
        tab[:, 0] = x
        recs.append(dict(ts=ts[k], ms=rng.randint(0, 999), table=tab, acq=[float(rng.randint(1, 600)) for _ in range(4)],
                         series=dict(acquisitionTime=round(rng.uniform(1, 600), 3), referenceTemperature=round(rng.uniform(-5, 40), 4),
                                     probe1Temperature=round(rng.uniform(-5, 40), 4), probe2Temperature=round(rng.uniform(-5, 40), 4))))
    if fault == "npoints" and n >= 2:
        k = rng.randrange(1, n)
        recs[k]["table"] = recs[k]["table"][: npts - rng.randint(1, min(2, npts - 1))]
    order = list(range(n))
    rng.shuffle(order)
    d = workdir(variant)
    case = dict(vendor="silixa", variant=variant, nfiles=n, npts=npts, fault=fault, creation_order=order)
    try:
        vendors.silixa_write(variant, d, recs, order)
        files = sorted(os.listdir(d))
        pattern = vendors.SILIXA[variant][1]
        names = [pattern.format(ts=rec["ts"], ms=rec["ms"]) for rec in recs]
        if fault == "truncated":
            p = d / names[rng.randrange(n)]
            txt = p.read_text()
            p.write_text(txt[: len(txt) // 2])
        m = model_order(ctx, names, [len(rec["table"]) for rec in recs])
        with warnings.catch_warnings():
            warnings.simplefilter("ignore")
            try:
                ds = read_silixa_files(directory=str(d), timezone_netcdf="UTC", file_ext="*.xml", silent=True, load_in_memory=True)
                raised = None
            except Exception as e:  # noqa: BLE001
                ds, raised = None, f"{type(e).__name__}: {str(e)[:100]}"
        if fault in ("npoints", "truncated") and (fault == "truncated" or n >= 2):
            if raised is None:
                ctx.fail(f"silixa {variant}: a file set with a {fault} fault was loaded instead of rejected", case)
            if fault == "npoints" and m["accept"]:
                ctx.mismatch("Readers.stackAccept", case, "reject", "model accepts")
        elif raised is not None and mode == "time":
            ctx.skip("file set refused (judged by C11)")
        elif raised is not None:
            ctx.fail(f"silixa {variant}: valid file set refused: {raised}", case)
        else:
            if not m["accept"]:
                ctx.mismatch("Readers.stackAccept", case, "model rejects", "loaded")
            rank = judge_order(ctx, case, ds, names, recs, m) if mode == "values" else [names.index(str(v)) for v in ds["filename"].values]
            ch_fw, ch_bw = vendors.silixa_channels(variant)
            if mode == "time":
                stamp_ns = np.array([int((recs[k]["ts"] - dt.datetime(1970, 1, 1)).total_seconds()) * 10**9 + recs[k]["ms"] * 10**6 for k in rank])
                judge_times(ctx, f"silixa {variant}", case, ds, stamp_ns, [recs[k]["acq"][ch_fw] for k in rank],
                            [recs[k]["acq"][ch_bw] if ch_bw is not None else 0 for k in rank], ch_bw is not None)
            elif rank is not None:
                cols = ["x", "st", "ast", "tmp"] if ncol == 4 else ["x", "st", "ast", "rst", "rast", "tmp"]
                bad = None
                if not np.array_equal(ds.x.values, recs[rank[0]]["table"][:, 0]):
                    bad = "x is not the distance column of the first file"
                for ci, cname in enumerate(cols[1:], start=1):
                    want = np.stack([recs[k]["table"][:, ci] for k in rank], axis=1)
                    if bad is None and not np.array_equal(np.asarray(ds[cname].values), want):
                        bad = f"{cname}: a value is not at the (x, time) at which it was recorded"
                for tag in ("acquisitionTime", "referenceTemperature", "probe1Temperature", "probe2Temperature"):
                    want = np.array([recs[k]["series"][tag] for k in rank], dtype=np.float32)
                    if bad is None and not np.array_equal(np.asarray(ds[tag].values, dtype=np.float32), want):
                        bad = f"{tag}: not under its own file's time stamp"
                for tag, ch in (("userAcquisitionTimeFW", ch_fw), ("userAcquisitionTimeBW", ch_bw)):
                    if ch is not None and bad is None:
                        want = np.array([recs[k]["acq"][ch] for k in rank], dtype=np.float32)
                        if not np.array_equal(np.asarray(ds[tag].values, dtype=np.float32), want):
                            bad = f"{tag}: not the acquisition time recorded for that channel in its own file"
                double = ncol == 6
                stamp_ns = np.array([int((recs[k]["ts"] - dt.datetime(1970, 1, 1)).total_seconds()) * 10**9 + recs[k]["ms"] * 10**6 for k in rank])
                coord = "time" if double else "timeend"
                if bad is None and not np.array_equal(ds[coord].values.astype("datetime64[ns]").astype("int64"), stamp_ns):
                    bad = f"{coord} is not the time stamp stored in the files"
                if bad:
                    ctx.fail(f"silixa {variant}: " + bad, case)
    finally:
        shutil.rmtree(d, ignore_errors=True)
    nontriv = n >= 2 and order != sorted(order)
    ctx.case(sig=["silixa", variant, n, fault, nontriv], nontrivial=nontriv, sample=case)
    ctx.count(f"silixa:{variant}:{fault}")


# ------------------------------------------------------------------------------------------------------------- AP Sensing
def apsensing_case(ctx, rng, fault=None):
    from dtscalibration.io.apsensing import read_apsensing_files
    r = np.random.default_rng(rng.randrange(2**31))
    n = rng.randint(1, 6 if ctx.quick else 12)
    npts = rng.randint(3, 40 if ctx.quick else 400)
    ts = stamps(rng, n)
    x = np.arange(npts) * 0.5
    recs = []
    for k in range(n):
        tab = values(r, (npts, 4), rng.choice(["wild", "plain"]))
        tab[:, 0] = x
        recs.append(dict(ts=ts[k], table=tab))
    if fault == "npoints" and n >= 2:
        k = rng.randrange(1, n)
        recs[k]["table"] = recs[k]["table"][: npts - 1]
    order = list(range(n))
    rng.shuffle(order)
    d = workdir("aps")
    case = dict(vendor="apsensing", nfiles=n, npts=npts, fault=fault, creation_order=order)
    try:
        vendors.apsensing_write(d, recs, order)
        names = ["_AP Sensing_N4386B_3_" + rec["ts"].strftime("%Y%m%d%H%M%S") + ".xml" for rec in recs]
        if fault == "companion":   # a .tra companion for some but not all xml files
            (d / names[0].replace(".xml", ".tra")).write_text("[Trace.1]\n")
        m = model_order(ctx, names, [len(rec["table"]) for rec in recs])
        with warnings.catch_warnings():
            warnings.simplefilter("ignore")
            try:
                ds = read_apsensing_files(directory=str(d), timezone_netcdf="UTC", file_ext="*.xml", silent=True, load_in_memory=True)
                raised = None
            except Exception as e:  # noqa: BLE001
                ds, raised = None, f"{type(e).__name__}: {str(e)[:100]}"
        expect_reject = (fault == "npoints" and n >= 2) or (fault == "companion" and n >= 2)
        if expect_reject:
            if raised is None:
                ctx.fail(f"apsensing: a file set with a {fault} fault was loaded instead of rejected", case)
        elif raised is not None and fault != "companion":
            ctx.fail(f"apsensing: valid file set refused: {raised}", case)
        elif raised is None:
            rank = judge_order(ctx, case, ds, names, recs, m)
            if rank is not None:
                bad = None
                for ci, cname in ((1, "tmp"), (2, "st"), (3, "ast")):
                    want = np.stack([recs[k]["table"][:, ci] for k in rank], axis=1)
                    if bad is None and not np.array_equal(np.asarray(ds[cname].values), want):
                        bad = f"{cname}: a value is not at the (x, time) at which it was recorded"
                if bad is None and not np.array_equal(ds.x.values, x):
                    bad = "x is not the distance column"
                stamp_ns = np.array([int((recs[k]["ts"] - dt.datetime(1970, 1, 1)).total_seconds()) * 10**9 for k in rank])
                if bad is None and not np.array_equal(ds["time"].values.astype("datetime64[ns]").astype("int64"), stamp_ns):
                    bad = "time is not the creationDate stored in the files"
                if bad:
                    ctx.fail("apsensing: " + bad, case)
    finally:
        shutil.rmtree(d, ignore_errors=True)
    nontriv = n >= 2 and order != sorted(order)
    ctx.case(sig=["apsensing", n, fault, nontriv], nontrivial=nontriv, sample=case)
    ctx.count(f"apsensing:{fault}")


def apsensing_tra_case(ctx, rng, fault=None):
    """AP Sensing POSC export (.xml) together with the trace export (.tra): reference sensors, log-ratio and loss per trace"""
    from dtscalibration.io.apsensing import read_apsensing_files
    r = np.random.default_rng(rng.randrange(2**31))
    n = rng.randint(2, 5 if ctx.quick else 10)
    npts = rng.randint(6, 30 if ctx.quick else 200)
    ts = stamps(rng, n)
    x = np.round(np.arange(npts) * 0.25 - 5, 3)
    recs = []
    for k in range(n):
        tab = values(r, (npts, 4), "plain")
        tab[:, 0] = x
        recs.append(dict(ts=ts[k], table=tab, logratio=values(r, (npts,), "plain"), loss=values(r, (npts,), "plain"),
                         ref=[round(rng.uniform(-5, 60), 5) for _ in range(4)]))
    order = list(range(n))
    rng.shuffle(order)
    d = workdir("apstra")
    arrays = rng.random() < 0.6
    case = dict(vendor="apsensing+tra", nfiles=n, npts=npts, fault=fault, creation_order=order, load_tra_arrays=arrays)
    try:
        kw = {}
        if fault == "tra-missing-one":
            miss = rng.randrange(n)
            kw["tra_for"] = [k for k in range(n) if k != miss]
        if fault == "tra-other-time":
            kw["tra_stamp_shift"] = {rng.randrange(n): rng.choice([1, 60, 3600])}
        vendors.apsensing_tra_write(d, recs, order, **kw)
        with warnings.catch_warnings():
            warnings.simplefilter("ignore")
            try:
                ds = read_apsensing_files(directory=str(d), timezone_netcdf="UTC", file_ext="*.xml", silent=True, load_in_memory=True,
                                          load_tra_arrays=arrays)
                raised = None
            except Exception as e:  # noqa: BLE001
                ds, raised = None, f"{type(e).__name__}: {str(e)[:100]}"
        if fault is not None:
            if raised is None:
                ctx.fail(f"apsensing+tra: a file set with fault `{fault}` was loaded instead of rejected", case)
        elif raised is not None:
            ctx.fail(f"apsensing+tra: valid file set refused: {raised}", case)
        else:
            rank = sorted(range(n), key=lambda k: recs[k]["ts"])
            stamp_ns = np.array([int((recs[k]["ts"] - dt.datetime(1970, 1, 1)).total_seconds()) * 10**9 for k in rank])
            bad = None
            if not np.array_equal(ds["time"].values.astype("datetime64[ns]").astype("int64"), stamp_ns):
                bad = "time axis is not the chronological list of the stored stamps"
            for ci, cname in ((1, "tmp"), (2, "st"), (3, "ast")):
                want = np.stack([recs[k]["table"][:, ci] for k in rank], axis=1)
                if bad is None and not np.array_equal(np.asarray(ds[cname].values), want):
                    bad = f"{cname}: a value is not at the (x, time) at which it was recorded"
            for j in range(4):
                want = np.array([recs[k]["ref"][j] for k in rank])
                name = f"probe{j + 1}Temperature"
                if bad is None and (name not in ds or not np.array_equal(np.asarray(ds[name].values, dtype=float), want)):
                    bad = f"{name}: reference sensor {j + 1} of the .tra files is not under its own file's time stamp"
            if arrays:
                for key, name in (("logratio", "log_ratio_by_dts"), ("loss", "loss_by_dts")):
                    if bad is None:
                        if name not in ds:
                            bad = f"{name} missing although load_tra_arrays=True"
                        else:
                            got = ds[name].transpose("x", "time").values
                            want = np.stack([recs[k][key] for k in rank], axis=1)
                            if not np.array_equal(np.asarray(got), want):
                                bad = f"{name}: a value is not at the (x, time) at which it was recorded"
            if bad:
                ctx.fail("apsensing+tra: " + bad, case)
    finally:
        shutil.rmtree(d, ignore_errors=True)
    nontriv = order != sorted(order)
    ctx.case(sig=["apsensing+tra", n, fault, arrays, nontriv], nontrivial=nontriv, sample=case)
    ctx.count(f"apsensing+tra:{fault}")


# ------------------------------------------------------------------------------------------------------------- Sensornet
def sensornet_case(ctx, rng, variant, fault=None, mode="values", edge=False):
    from dtscalibration.io.sensornet import read_sensornet_files
    r = np.random.default_rng(rng.randrange(2**31))
    double = "double" in variant
    flip = vendors.SENSORNET[variant][1]
    n = rng.randint(1, 5 if ctx.quick else 12)
    npts = rng.randint(40, 120 if ctx.quick else 400)
    ts = stamps(rng, n)
    dx = rng.choice([1.0, 1.015, 2.03])
    add_internal = rng.choice([50.0, 0.0, 25.0])
    x0 = -round(rng.uniform(add_internal + 2, add_internal + 30), 3)
    x = np.round(x0 + dx * np.arange(npts), 3)
    if x[-1] < add_internal + 10:
        x = np.round(x0 + (add_internal + 80 - x0) / npts * np.arange(npts), 3)
    if edge:
        # the forward window (internal fibre kept on both sides) reaches exactly the last recorded sample
        dx, add_internal = 1.0, rng.choice([50.0, 25.0])
        npts = max(npts, int(2 * add_internal) + 30)
        x = np.round(-add_internal + dx * np.arange(npts), 3)
    fibre_end = round(float(x[-1]) - (add_internal if rng.random() < 0.7 else rng.uniform(0, add_internal + 1)), 2)
    ncol = 6 if double else 4
    recs = []
    for k in range(n):
        tab = np.round(values(r, (npts, ncol), "plain"), 3)
        tab[:, 0] = x
        meta = {"date": ts[k].strftime("%Y/%m/%d"), "time": ts[k].strftime("%H:%M:%S"),
                "forward acquisition time": vendors.comma(rng.randint(1, 600), 2), "reverse acquisition time": vendors.comma(rng.randint(1, 600) if double else 0, 2),
                "T internal ref (°C)": vendors.comma(rng.uniform(0, 40), 2), "T ext. ref 1 (°C)": vendors.comma(rng.uniform(0, 40), 2),
                "T ext. ref 2 (°C)": vendors.comma(rng.uniform(0, 40), 2), "fibre end": vendors.comma(fibre_end, 2)}
        recs.append(dict(ts=ts[k], table=tab, meta=meta))
    if fault == "npoints" and n >= 2:
        k = rng.randrange(1, n)
        recs[k]["table"] = recs[k]["table"][: npts - 1]
    order = list(range(n))
    rng.shuffle(order)
    d = workdir("sn")
    fl = rng.choice([None, None, round(float(x[-1]) - add_internal - rng.uniform(0, 10), 2)]) if double else None
    if edge and double:
        fl = float(x[-1]) - add_internal + dx
    case = dict(vendor="sensornet", variant=variant, nfiles=n, npts=npts, fault=fault, creation_order=order, add_internal=add_internal,
                fiber_length=fl, fibre_end=fibre_end, x0=float(x[0]), dx=float(x[1] - x[0]))
    try:
        vendors.sensornet_write(variant, d, recs, order)
        names = ["channel 1 " + rec["ts"].strftime("%Y%m%d %H%M%S") + " %05d.ddf" % (k + 1) for k, rec in enumerate(recs)]
        with warnings.catch_warnings():
            warnings.simplefilter("ignore")
            try:
                ds = read_sensornet_files(directory=str(d), timezone_netcdf="UTC", timezone_input_files="UTC", silent=True,
                                          add_internal_fiber_length=add_internal, fiber_length=fl)
                raised = None
            except Exception as e:  # noqa: BLE001
                ds, raised = None, f"{type(e).__name__}: {str(e)[:100]}"
        if fault == "npoints" and n >= 2:
            if raised is None:
                ctx.fail(f"sensornet {variant}: a file set with files of different length was loaded instead of rejected", case)
        elif raised is not None and mode == "time":
            ctx.skip("file set refused (judged by C11)")
        elif raised is not None:
            known = None
            if flip and "conflicting sizes" in raised:
                mm = ctx.driver().call("reader.sensornet_cut", xraw=[rj(v) for v in x], add_internal=rj(add_internal), double=double,
                                       flip=flip, fibre_end=rj(fibre_end), **({"fiber_length": rj(fl)} if fl is not None else {}))
                if mm["stop"] >= len(x) and len(mm["rev"]) != mm["stop"] - mm["start"]:
                    known = next((e_ for e_ in core.load_known("C11") if e_["id"] == "C11-sensornet-flip-window-at-end" and e_["status"] == "known"), None)
            ctx.fail(f"sensornet {variant}: valid file set refused: {raised}", case, known=known)
        else:
            # time order: the reader sorts on the date/time tokens of the name
            fn = [str(v) for v in ds["filename"].values]
            chrono = [nm for _, nm in sorted((recs[k]["ts"], names[k]) for k in range(n))]
            if fn != chrono:
                ctx.fail(f"sensornet {variant}: time axis not chronological: {fn}", case)
            else:
                rank = [names.index(nm) for nm in fn]
                if mode == "time":
                    acq = lambda key: [int(float(recs[k]["meta"][key].replace(",", "."))) for k in rank]  # noqa: E731
                    stamp_ns = np.array([int((recs[k]["ts"] - dt.datetime(1970, 1, 1)).total_seconds()) * 10**9 for k in rank])
                    judge_times(ctx, f"sensornet {variant}", case, ds, stamp_ns, acq("forward acquisition time"), acq("reverse acquisition time"), double)
                    ctx.case(sig=["sensornet-time", variant, n], nontrivial=True, sample=case)
                    ctx.count(f"sensornet-time:{variant}")
                    return
                m = ctx.driver().call("reader.sensornet_cut", xraw=[rj(v) for v in x], add_internal=rj(add_internal), double=double,
                                      flip=flip, fibre_end=rj(fibre_end), **({"fiber_length": rj(fl)} if fl is not None else {}))
                s, e = m["start"], m["stop"]
                bad = None
                if not np.array_equal(ds.x.values, x[s:e]):
                    ctx.mismatch("Readers.sensornetCut window", case, [s, e], [float(ds.x.values[0]) if ds.x.size else None, int(ds.x.size)])
                # oracle: every returned value sits at the x at which it was recorded; window contiguous
                xi = {float(v): i for i, v in enumerate(x)}
                idx = [xi.get(float(v)) for v in ds.x.values]
                if None in idx or idx != list(range(idx[0], idx[0] + len(idx))) if idx else False:
                    bad = "returned x is not a contiguous window of the recorded distances"
                else:
                    for ci, cname in ((1, "tmp"), (2, "st"), (3, "ast")):
                        want = np.stack([recs[k]["table"][idx, ci] for k in rank], axis=1)
                        if bad is None and not np.array_equal(np.asarray(ds[cname].values), want):
                            bad = f"{cname}: a value is not at the (x, time) at which it was recorded"
                    if double and bad is None:
                        for ci, cname in ((4, "rst"), (5, "rast")):
                            got = np.asarray(ds[cname].values)
                            if got.shape[0] != len(idx):
                                bad = f"{cname} has {got.shape[0]} rows, the forward channel {len(idx)}"
                                break
                            want_m = np.stack([recs[k]["table"][m["rev"], ci] for k in rank], axis=1) if len(m["rev"]) == got.shape[0] else None
                            if want_m is None or not np.array_equal(got, want_m):
                                ctx.mismatch("Readers.sensornetCut reverse rows", case, m["rev"][:5], "see replay")
                            # oracle: the reverse rows are a contiguous run of raw rows, descending iff the device stores them flipped
                            src = []
                            col = recs[rank[0]]["table"][:, ci]
                            for v in got[:, 0]:
                                w = np.flatnonzero(col == v)
                                src.append(int(w[0]) if len(w) == 1 else None)
                            if None not in src and len(src) >= 2:
                                step = -1 if flip else 1
                                if any(b - a != step for a, b in zip(src, src[1:])):
                                    bad = f"{cname}: rows are not a contiguous {'reversed ' if flip else ''}run of the recorded rows"
                    for tag, key in (("probe1Temperature", "T ext. ref 1 (°C)"), ("referenceTemperature", "T internal ref (°C)"),
                                     ("userAcquisitionTimeFW", "forward acquisition time")) + (
                                         (("userAcquisitionTimeBW", "reverse acquisition time"),) if double else ()):
                        want = np.array([float(recs[k]["meta"][key].replace(",", ".")) for k in rank])
                        if bad is None and not np.array_equal(np.asarray(ds[tag].values), want):
                            bad = f"{tag}: not under its own file's time stamp"
                if bad:
                    ctx.fail(f"sensornet {variant}: " + bad, case)
    finally:
        shutil.rmtree(d, ignore_errors=True)
    nontriv = n >= 2 and order != sorted(order)
    ctx.case(sig=["sensornet", variant, n, fault, nontriv], nontrivial=nontriv, sample=case)
    ctx.count(f"sensornet:{variant}:{fault}")


# ------------------------------------------------------------------------------------------------------------- Sensortran
def sensortran_case(ctx, rng, fault=None, midnight=False):
    from dtscalibration.io.sensortran import read_sensortran_files
    r = np.random.default_rng(rng.randrange(2**31))
    n = rng.randint(1, 6 if ctx.quick else 12)
    npts = rng.randint(3, 40 if ctx.quick else 400)
    extra = rng.randint(2, 12)
    if midnight:
        n = max(n, 3)
    ts = stamps(rng, n, midnight=midnight)
    x = np.arange(npts, dtype=np.float32) * np.float32(0.5)
    recs = []
    for k in range(n):
        recs.append(dict(ts=ts[k], epoch=int((ts[k] - dt.datetime(1970, 1, 1)).total_seconds()), name=ts[k].strftime("%H_%M_%S"),
                         x=x, tmp=r.normal(20, 5, npts).astype(np.float32), st=r.integers(-1000, 10**6, npts + extra).astype(np.int32),
                         ast=r.integers(-1000, 10**6, npts + extra).astype(np.int32), ref_temp=float(np.float32(rng.uniform(280, 300)))))
    if fault == "npoints" and n >= 2:
        k = rng.randrange(1, n)
        recs[k]["x"] = x[:-1]
        recs[k]["tmp"] = recs[k]["tmp"][:-1]
        recs[k]["st"] = recs[k]["st"][: npts - 2]
        recs[k]["ast"] = recs[k]["ast"][: npts - 2]
    order = list(range(n))
    rng.shuffle(order)
    d = workdir("st")
    case = dict(vendor="sensortran", nfiles=n, npts=npts, fault=fault, creation_order=order, midnight=midnight,
                names=[rec["name"] for rec in recs])
    try:
        vendors.sensortran_write(d, recs, order)
        if fault == "companion":
            os.remove(d / (recs[rng.randrange(n)]["name"] + "_BinaryTemp.dat"))
        # byte-level correspondence of one file
        raw = (d / (recs[0]["name"] + "_BinaryRawDTS.dat")).read_bytes()
        m = ctx.driver().call("reader.sensortran", bytes=list(raw))
        if (m["survey_type"], m["hdr_version"], m["num_points"], m["time"]) != (2, 3, len(recs[0]["st"]), recs[0]["epoch"]) or \
                m["data1"] != [int(v) & 0xFFFFFFFF for v in recs[0]["st"]] or m["data2"] != [int(v) & 0xFFFFFFFF for v in recs[0]["ast"]] or \
                m["ref_temp_bits"] != struct.unpack("<I", struct.pack("<f", recs[0]["ref_temp"]))[0]:
            ctx.mismatch("Readers.decodeHeader/decodeArrays", case, {k: m[k] for k in ("survey_type", "hdr_version", "num_points", "time")}, "intended record")
        with warnings.catch_warnings():
            warnings.simplefilter("ignore")
            try:
                ds = read_sensortran_files(directory=str(d), timezone_netcdf="UTC", silent=True)
                raised = None
            except Exception as e:  # noqa: BLE001
                ds, raised = None, f"{type(e).__name__}: {str(e)[:100]}"
        if fault == "companion" or (fault == "npoints" and n >= 2):
            if raised is None:
                ctx.fail(f"sensortran: a file set with a {fault} fault was loaded instead of rejected", case)
        elif raised is not None:
            ctx.fail(f"sensortran: valid file set refused: {raised}", case)
        else:
            names = [rec["name"] + "_BinaryRawDTS.dat" for rec in recs]
            mo = ctx.driver().call("reader.order_by_time", stamps=[rec["epoch"] for rec in recs])
            fn = [str(v) for v in ds["filename"].values]
            if fn != [names[i] for i in mo["order"]]:
                ctx.mismatch("Readers.orderByTime", case, [names[i] for i in mo["order"]], fn)
            t = ds["time"].values.astype("datetime64[ns]").astype("int64")
            bad = None
            if np.any(np.diff(t) < 0):
                bad = "the time axis is not chronological"
            rank = [names.index(nm) for nm in fn]
            want_end = np.array([recs[k]["epoch"] * 10**9 for k in rank])
            if bad is None and not np.array_equal(ds["timeend"].values.astype("datetime64[ns]").astype("int64"), want_end):
                bad = "a file's data is not under its own time stamp"
            for cname, key, sl in (("st", "st", npts), ("ast", "ast", npts), ("tmp", "tmp", npts)):
                want = np.stack([np.asarray(recs[k][key][:sl]) for k in rank], axis=1)
                if bad is None and not np.array_equal(np.asarray(ds[cname].values), want.astype(np.asarray(ds[cname].values).dtype)):
                    bad = f"{cname}: a value is not at the (x, time) at which it was recorded"
            if bad is None and not np.array_equal(np.asarray(ds.x.values), x):
                bad = "x is not the distance array of the file"
            want_ref = np.array([float(np.float32(recs[k]["ref_temp"])) - 273.15 for k in rank])
            if bad is None and not np.allclose(np.asarray(ds["referenceTemperature"].values), want_ref, rtol=0, atol=1e-9):
                bad = "referenceTemperature not under its own time stamp"
            if bad:
                known = None
                if midnight and "chronological" in bad:
                    known = next((e_ for e_ in core.load_known("C11") if e_["id"] == "C11-sensortran-midnight-order" and e_["status"] == "known"), None)
                ctx.fail("sensortran: " + bad, case, known=known)
    finally:
        shutil.rmtree(d, ignore_errors=True)
    nontriv = n >= 2 and order != sorted(order)
    ctx.case(sig=["sensortran", n, fault, midnight, nontriv], nontrivial=nontriv, sample=case)
    ctx.count(f"sensortran:{fault}:{'midnight' if midnight else 'day'}")


def run(ctx):
    rng = ctx.rng
    reps = 8 if ctx.quick else 60
    for variant in vendors.SILIXA:
        for k in range(reps):
            silixa_case(ctx, rng, variant)
        for fault in ("npoints", "truncated", "npoints"):
            silixa_case(ctx, rng, variant, fault=fault)
    for k in range(reps):
        apsensing_case(ctx, rng)
    for fault in ("npoints", "companion", "npoints"):
        apsensing_case(ctx, rng, fault=fault)
    for k in range(max(2, reps // 2)):
        apsensing_tra_case(ctx, rng)
    for fault in ("tra-missing-one", "tra-other-time"):
        apsensing_tra_case(ctx, rng, fault=fault)
    for variant in vendors.SENSORNET:
        for k in range(reps):
            sensornet_case(ctx, rng, variant)
        for fault in ("npoints", "npoints", "npoints"):
            sensornet_case(ctx, rng, variant, fault=fault)
        if "double" in variant:
            sensornet_case(ctx, rng, variant, edge=True)
    for k in range(reps):
        sensortran_case(ctx, rng, midnight=(k % 4 == 3))
    for fault in ("npoints", "companion", "companion"):
        sensortran_case(ctx, rng, fault=fault)


def search(ctx):
    run(ctx)


def replay(path):
    return core.replay_by_seed("C11", path)
