"""C05 — reported temperature variance is the first-order propagation of all its inputs.
Correspondence: every component of var_fw_da / var_bw_da / var_w_da vs the Lean term lists (`Propagate.terms*` evaluated in exact
rationals on the result's own p_val / p_cov).  Oracle (independent of the model): analytic Jacobian of the public temperature
equations and the full J Sigma J^T with the reported p_cov, all cross-covariances included."""
import json

import numpy as np
import xarray as xr

import calib
import core
import fibre
from core import rj

RULE = ("noisy C01/C02 results and results of method='external' with a random positive-definite p_cov, 0-2 splices, free and "
        "fixed parameters, four variance forms; distinct = (single/double, nta, fix set, var kind, nx, nt); non-trivial = p_cov "
        "has non-zero off-diagonal blocks")
ASSUMPTIONS = ["p_var fed to the model is diag(p_cov) of the same result (their equality is C04)"]

FW_D = ["dT_dst", "dT_dast", "dT_gamma", "dT_ddf", "dT_dalpha", "dT_dta", "dgamma_ddf", "dgamma_dalpha", "dalpha_ddf", "dta_dgamma", "dta_ddf", "dta_dalpha"]
BW_D = ["dT_drst", "dT_drast", "dT_gamma", "dT_ddb", "dT_dalpha", "dT_dta", "dgamma_ddb", "dgamma_dalpha", "dalpha_ddb", "dta_dgamma", "dta_ddb", "dta_dalpha"]
W_D = ["dT_dst", "dT_dast", "dT_drst", "dT_drast", "dT_gamma", "dT_ddf", "dT_ddb", "dT_dalpha", "dT_dtaf", "dT_dtab", "dgamma_ddf", "dgamma_ddb",
       "dgamma_dalpha", "dgamma_dtaf", "dgamma_dtab", "ddf_ddb", "ddf_dalpha", "ddf_dtaf", "ddf_dtab", "ddb_dalpha", "ddb_dtaf", "ddb_dtab",
       "dalpha_dtaf", "dalpha_dtab", "dtaf_dtab"]
FW_S = ["dT_dst", "dT_dast", "dT_gamma", "dT_dc", "dT_ddalpha", "dT_dta", "dgamma_dc", "dta_dgamma", "dta_dc", "dgamma_ddalpha", "ddalpha_dc", "dta_ddalpha"]


def propagate_request(c, out, fix_alpha=None):
    req = fibre.model_request(c, want_cov=False, fix_alpha=fix_alpha)
    pc = out["p_cov"].values
    req.update(p_val=[rj(v) for v in out["p_val"].values], p_var=[rj(v) for v in np.diag(pc)], p_cov=fibre.mat(pc))
    return req


def spec_variances(c, out, fix_alpha=None):
    """independent: analytic Jacobian x reported covariance, all cross terms.  returns dict of (nx, nt) arrays and the parts the
    code is known to leave out"""
    ds, x, nt, nx = c.ds, c.x, c.nt, c.nx
    pv, C = out["p_val"].values, out["p_cov"].values
    nta = len(c.trans_att)
    g = pv[0]
    res = {}
    TF = out["tmpf"].values + 273.15
    vm_f = (TF**2 / (g * ds.st.values)) ** 2 * c.var_mats["st"] + (TF**2 / (g * ds.ast.values)) ** 2 * c.var_mats["ast"]
    up = np.array([[x[i] >= s for s in c.trans_att] for i in range(nx)], dtype=bool).reshape(nx, nta)

    def quad(idx_fn, J_fn, i, j):
        idx = idx_fn(i, j)
        J = J_fn(i, j)
        return float(J @ C[np.ix_(idx, idx)] @ J)

    if not c.double:
        alpha_mode = fix_alpha is not None
        cC = (lambda j: 1 + nx + j) if alpha_mode else (lambda j: 2 + j)
        cT = (lambda a, j: 1 + nx + nt + a * nt + j) if alpha_mode else (lambda a, j: 2 + nt + a * nt + j)

        def idx(i, j):
            return [0, (1 + i) if alpha_mode else 1, cC(j)] + [cT(a, j) for a in range(nta) if up[i, a]]

        def J(i, j):
            T = TF[i, j]
            d = -T * T / g
            return np.array([T / g, d * (1.0 if alpha_mode else x[i]), d] + [d for a in range(nta) if up[i, a]])

        res["f"] = np.array([[vm_f[i, j] + quad(idx, J, i, j) for j in range(nt)] for i in range(nx)])
        # what the code leaves out: 2 J_t^2 cov(tau_a, tau_b) for two splices acting on the same location
        miss = np.zeros((nx, nt))
        for i in range(nx):
            act = [a for a in range(nta) if up[i, a]]
            for j in range(nt):
                d = -TF[i, j] ** 2 / g
                miss[i, j] = sum(2 * d * d * C[cT(a, j), cT(b, j)] for a in act for b in act if a < b)
        res["f_missing"] = miss
        return res
    TB = out["tmpb"].values + 273.15
    vm_b = (TB**2 / (g * ds.rst.values)) ** 2 * c.var_mats["rst"] + (TB**2 / (g * ds.rast.values)) ** 2 * c.var_mats["rast"]
    cA = lambda i: 1 + 2 * nt + i
    cT = lambda a, d_, j: 1 + 2 * nt + nx + j + nt * d_ + 2 * nt * a
    idxF = lambda i, j: [0, 1 + j, cA(i)] + [cT(a, 0, j) for a in range(nta) if up[i, a]]
    idxB = lambda i, j: [0, 1 + nt + j, cA(i)] + [cT(a, 1, j) for a in range(nta) if not up[i, a]]

    def JF(i, j):
        T = TF[i, j]; d = -T * T / g
        return np.array([T / g, d, d] + [d for a in range(nta) if up[i, a]])

    def JB(i, j):
        T = TB[i, j]; d = -T * T / g
        return np.array([T / g, d, -d] + [d for a in range(nta) if not up[i, a]])

    res["f"] = np.array([[vm_f[i, j] + quad(idxF, JF, i, j) for j in range(nt)] for i in range(nx)])
    res["b"] = np.array([[vm_b[i, j] + quad(idxB, JB, i, j) for j in range(nt)] for i in range(nx)])
    fmiss = np.zeros((nx, nt)); bmiss = np.zeros((nx, nt)); w = np.zeros((nx, nt)); wmiss = np.zeros((nx, nt))
    vf, vb = out["tmpf_var"].values, out["tmpb_var"].values
    for i in range(nx):
        actF = [a for a in range(nta) if up[i, a]]
        actB = [a for a in range(nta) if not up[i, a]]
        for j in range(nt):
            dF = -TF[i, j] ** 2 / g
            dB = -TB[i, j] ** 2 / g
            fmiss[i, j] = sum(2 * dF * dF * C[cT(a, 0, j), cT(b, 0, j)] for a in actF for b in actF if a < b)
            bmiss[i, j] = sum(2 * dB * dB * C[cT(a, 1, j), cT(b, 1, j)] for a in actB for b in actB if a < b)
            wf = vb[i, j] / (vf[i, j] + vb[i, j]); wb = 1 - wf
            idx = [0, 1 + j, 1 + nt + j, cA(i)] + [cT(a, 0, j) for a in actF] + [cT(a, 1, j) for a in actB]
            Jw = np.array([wf * TF[i, j] / g + wb * TB[i, j] / g, wf * dF, wb * dB, wf * dF - wb * dB] + [wf * dF] * len(actF) + [wb * dB] * len(actB))
            Cw = C[np.ix_(idx, idx)]
            w[i, j] = wf * wf * vm_f[i, j] + wb * wb * vm_b[i, j] + float(Jw @ Cw @ Jw)
            # left out by the code: alpha-tauF, alpha-tauB, tauF-tauB, and within-direction splice pairs
            m = 0.0
            kF = list(range(4, 4 + len(actF))); kB = list(range(4 + len(actF), len(idx)))
            for p in kF + kB:
                m += 2 * Jw[3] * Jw[p] * Cw[3, p]
            for p in kF:
                for q in kB:
                    m += 2 * Jw[p] * Jw[q] * Cw[p, q]
            for grp in (kF, kB):
                for p in grp:
                    for q in grp:
                        if p < q:
                            m += 2 * Jw[p] * Jw[q] * Cw[p, q]
            wmiss[i, j] = m
    res.update(w=w, f_missing=fmiss, b_missing=bmiss, w_missing=wmiss)
    return res


def compare_components(ctx, desc, name, da, dim, names, cube):
    """code components vs model term lists"""
    model = np.array([fibre.dymat(cb) for cb in cube])  # (ncomp, nx, nt)
    scale = np.abs(model).sum(axis=0) + 1e-300
    for k, comp in enumerate(names):
        if comp not in da[dim].values:
            ctx.mismatch(f"Propagate.{name} term list", desc, f"component {comp}", "absent")
            return
        code = np.broadcast_to(da.sel({dim: comp}).values, model[k].shape)
        if np.any(np.abs(code - model[k]) > 1e-9 * scale):
            i, j = np.unravel_index(int(np.argmax(np.abs(code - model[k]) / scale)), scale.shape)
            ctx.mismatch(f"Propagate.{name}[{comp}]", desc, float(model[k][i, j]), float(code[i, j]))
            return
    extra = [str(v) for v in da[dim].values if str(v) not in names]
    if extra:
        ctx.mismatch(f"Propagate.{name} term list", desc, "no further components", extra)


def judge(ctx, desc, what, code, spec, missing, known, nta):
    tol = 1e-7 * np.abs(spec) + 1e-300
    if np.all(np.abs(code - spec) <= tol + 1e-9 * np.abs(missing)):
        return
    i, j = np.unravel_index(int(np.argmax(np.abs(code - spec) / (np.abs(spec) + 1e-300))), spec.shape)
    msg = (f"{what}[{i},{j}] = {code[i, j]:.10g} but first-order propagation with the reported p_cov gives {spec[i, j]:.10g}")
    # known finding: exactly the documented missing cross terms
    only_missing = np.all(np.abs(code + missing - spec) <= 1e-6 * np.abs(spec) + 1e-300)
    ctx.fail(msg, desc, known=known if (only_missing and nta >= 1) else None)


def check_result(ctx, c, out, opts, known2, knownw):
    desc = calib.case_desc(c, opts)
    fa = opts.get("fix_alpha")
    m = ctx.driver().call("propagate", **propagate_request(c, out, fix_alpha=fa))
    nta = len(c.trans_att)
    if c.double:
        compare_components(ctx, desc, "fw", out["var_fw_da"], "comp_fw", FW_D, m["fw"])
        compare_components(ctx, desc, "bw", out["var_bw_da"], "comp_bw", BW_D, m["bw"])
        compare_components(ctx, desc, "w", out["var_w_da"], "comp_w", W_D, m["w"])
    else:
        names = FW_S[:9] if fa is not None else FW_S
        compare_components(ctx, desc, "fw(single)", out["var_fw_da"], "comp_fw", names, m["fw"])
    S = spec_variances(c, out, fix_alpha=fa)
    judge(ctx, desc, "tmpf_var", out["tmpf_var"].values, S["f"], S["f_missing"], known2, nta)
    if c.double:
        judge(ctx, desc, "tmpb_var", out["tmpb_var"].values, S["b"], S["b_missing"], known2, nta)
        judge(ctx, desc, "tmpw_var", out["tmpw_var"].values, S["w"], S["w_missing"], knownw, nta)


def gen_result(ctx, rng):
    double = rng.random() < 0.5
    c = fibre.make_case(rng, double=double, nx=rng.randint(10, 24 if ctx.quick else 60), nt=rng.randint(1, 4), n_baths=rng.choice([2, 3]),
                        nta=rng.choice([0, 1, 2, 2]), n_match=rng.choice([0, 0, 1]), noise=rng.choice([0.002, 0.01, 0.03]))
    opts = {}
    r = rng.random()
    if r < 0.15:
        opts["fix_gamma"] = (float(c.truth["gamma"]), 0.2)
    elif r < 0.3 and not c.double:
        opts["fix_dalpha"] = (float(c.truth["dalpha"]), 1e-12)
    mode = "wls"
    if rng.random() < 0.4:
        # external parameters with a random positive definite covariance: every cross term is exercised
        mode = "external"
    return c, opts, mode


def run_one(ctx, c, opts, mode, known2, knownw):
    if mode == "external":
        out0, _ = calib.run_real(c, **opts)
        if isinstance(out0, tuple):
            ctx.skip("wls refused")
            return
        n = out0["p_val"].size
        r = np.random.default_rng(ctx.rng.randrange(2**31))
        sd = np.sqrt(np.maximum(np.diag(out0["p_cov"].values), 1e-16))
        A = r.normal(size=(n, n))
        corr = A @ A.T
        dd = np.sqrt(np.diag(corr))
        corr = corr / np.outer(dd, dd)
        cov = corr * np.outer(sd, sd)
        out, _ = calib.run_real(c, method="external", p_val=out0["p_val"].values.copy(), p_var=np.diag(cov).copy(), p_cov=cov)
        opts = {}
    else:
        out, _ = calib.run_real(c, **opts)
    if isinstance(out, tuple):
        ctx.skip("calibration refused")
        return
    check_result(ctx, c, out, opts, known2, knownw)
    pc = out["p_cov"].values
    off = np.abs(pc - np.diag(np.diag(pc))).max() > 0
    ctx.case(sig=[c.double, len(c.trans_att), sorted(opts), c.var_kind, c.nx, c.nt, mode], nontrivial=bool(off),
             sample=dict(mode=mode, **calib.case_desc(c, opts)))
    ctx.count(("double" if c.double else "single") + ":nta%d" % len(c.trans_att) + ":" + mode)


def second_call_case(ctx, rng, known2, knownw):
    """the same Dataset object calibrated a second time with OTHER noise variances (the usual refinement: rough variance first, an
    intensity-dependent one afterwards): the second result's variances have to be the propagation of the second call's inputs"""
    double = rng.random() < 0.5
    kind = rng.choice(["array", "float", "dataarray"])
    c = fibre.make_case(rng, double=double, nx=rng.randint(10, 18), nt=rng.randint(2, 3), n_baths=2, nta=rng.choice([0, 1]), n_match=0,
                        noise=0.01, var_kind=kind)
    out1, _ = calib.run_real(c)
    if isinstance(out1, tuple):
        ctx.skip("calibration refused")
        return
    for name in list(c.var_mats):
        factor = 0.3 + 1.7 * c.ds[name].values / c.ds[name].values.max()
        if kind == "float":
            c.var_mats[name] = np.full_like(c.var_mats[name], float(c.var_mats[name].flat[0]) * 2.5)
            c.var_args[name + "_var"] = float(c.var_mats[name].flat[0])
        else:
            c.var_mats[name] = c.var_mats[name] * factor
            c.var_args[name + "_var"] = c.var_mats[name] if kind == "array" else \
                xr.DataArray(c.var_mats[name], dims=("x", "time"), coords={"x": c.ds.x, "time": c.ds.time})
    out2, _ = calib.run_real(c)
    if isinstance(out2, tuple):
        ctx.fail(f"second calibration of the same dataset raised {out2[1]}: {out2[2]}", calib.case_desc(c))
        return
    check_result(ctx, c, out2, {}, known2, knownw)
    ctx.case(sig=["second-call", c.double, kind, len(c.trans_att)], nontrivial=True, sample=dict(mode="second call, other variances", **calib.case_desc(c)))
    ctx.count("second call on the same dataset with other variances")


def knowns():
    k = {e["id"]: e for e in core.load_known("C05") if e["status"] == "known"}
    return k.get("C05-two-splice-covariance"), k.get("C05-tmpw-cross-terms")


def run(ctx):
    k2, kw = knowns()
    for _ in range(40 if ctx.quick else 400):
        c, opts, mode = gen_result(ctx, ctx.rng)
        run_one(ctx, c, opts, mode, k2, kw)
    for _ in range(3 if ctx.quick else 20):
        second_call_case(ctx, ctx.rng, k2, kw)


def search(ctx):
    for _ in range(6):
        second_call_case(ctx, ctx.rng, *knowns())
        if ctx.failures:
            return
    for _ in range(30):
        c, opts, mode = gen_result(ctx, ctx.rng)
        run_one(ctx, c, opts, mode, *knowns())
        if ctx.failures:
            return


def replay(path):
    def runner(ctx, c, opts):
        out, _ = calib.run_real(c, **opts)
        if isinstance(out, tuple):
            print("calibration refused:", out[1:])
            return
        check_result(ctx, c, out, opts, *knowns())
    return calib.replay_with_data(path, "C05", runner)
