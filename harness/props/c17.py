"""C17 — section and splice definitions travel with the result and survive storage.
Real runs: calibrate_* -> monte_carlo_* -> to_netcdf -> open_dataset, for section dictionaries with int / float / numpy-scalar
bounds, 0-3 matching pairs with either flag, 0-3 splices.  `.dts.sections`, `.dts.matching_sections`, `trans_att`, coordinates
and data are compared with what was passed in.  Correspondence: the same operation sequence on the Lean model `Attrs`
(payload ids, identity codec): which payload every getter reports."""
import json
import os
import tempfile
import warnings

import numpy as np
import xarray as xr

import calib
import core
import fibre

RULE = ("valid dictionaries with int / float / np.float64 / np.int64 bounds, 0-3 matching pairs (either flag), 0-3 splices x "
        "{single, double} x {calibrate, monte carlo, netCDF}; distinct = (bound types, #pairs, #splices, single/double); "
        "non-trivial = a non-float bound or a matching pair or a splice")
ASSUMPTIONS = ["the codec law load(dump(v)) == v of PyYAML and the attribute/coordinate preservation of netCDF4 are what is exercised"]


def convert_bounds(rng, secs):
    """same stretches, bounds given as int where integral, numpy scalars or floats"""
    kinds = set()
    out = {}
    for k, v in secs.items():
        new = []
        for s in v:
            a, b = s.start, s.stop
            t = rng.choice(["float", "npfloat", "int", "npint"])
            if t == "int" and float(a).is_integer() and float(b).is_integer():
                a, b = int(a), int(b)
            elif t == "npint" and float(a).is_integer() and float(b).is_integer():
                a, b = np.int64(a), np.int64(b)
            elif t == "npfloat":
                a, b = np.float64(a), np.float64(b)
            else:
                t = "float"
                a, b = float(a), float(b)
            kinds.add(t)
            new.append(slice(a, b))
        out[k] = new
    return out, sorted(kinds)


def sections_equal(a, b):
    if a is None or b is None:
        return a is b
    if set(a.keys()) != set(b.keys()):   # dict equality: the order of the keys carries no information (yaml sorts them)
        return False
    return all(len(a[k]) == len(b[k]) and all(s.start == t.start and s.stop == t.stop for s, t in zip(a[k], b[k])) for k in a)


def matching_equal(a, b):
    if not a and not b:
        return True
    if a is None or b is None or len(a) != len(b):
        return False
    return all(x[0].start == y[0].start and x[0].stop == y[0].stop and x[1].start == y[1].start and x[1].stop == y[1].stop
               and bool(x[2]) == bool(y[2]) for x, y in zip(a, b))


def run_one(ctx, rng):
    double = rng.random() < 0.5
    nta = rng.randint(0, 3)
    nm = rng.randint(0, 3)
    c = fibre.make_case(rng, double=double, nx=rng.randint(30, 50), nt=2, n_baths=2, n_stretch=rng.randint(2, 4), nta=nta, n_match=nm,
                        noise=0.002, var_kind="float", span=rng.choice([40.0, 200.0]), irregular=False)
    # integral grid -> some integral bounds
    secs, kinds = convert_bounds(rng, fibre.sections_dict(c))
    import copy
    desc = dict(calib.case_desc(c), bound_types=kinds)
    secs0, match0 = copy.deepcopy(secs), copy.deepcopy(list(c.matching))   # what was passed in, kept apart from every later edit
    kw = dict(sections=secs, trans_att=list(c.trans_att), **c.var_args)
    if c.matching:
        kw["matching_sections"] = list(c.matching)
    import dtscalibration  # noqa: F401
    with warnings.catch_warnings(), np.errstate(all="ignore"):
        warnings.simplefilter("ignore")
        try:
            out = c.ds.dts.calibrate_double_ended(**kw) if double else c.ds.dts.calibrate_single_ended(**kw)
        except Exception as e:  # noqa: BLE001
            ctx.skip(f"calibration refused: {type(e).__name__}")
            return
        m = ctx.driver().call("attrs", sections=11, matching=22, trans_att=33)
        stages = {}

        def report(ds_):
            return dict(sections=11 if sections_equal(ds_.dts.sections, secs0) else (None if ds_.dts.sections is None else -1),
                        matching=22 if matching_equal(ds_.dts.matching_sections, match0 or None) else -1,
                        trans_att=33 if ("trans_att" in ds_.coords and np.array_equal(ds_["trans_att"].values, np.asarray(c.trans_att, dtype=float))) else None)
        stages["calibrate"] = report(out)
        try:
            mcargs = dict(result=out, mc_sample_size=5, conf_ints=[5.0, 95.0], **c.var_args)
            mc = c.ds.dts.monte_carlo_double_ended(**mcargs) if double else c.ds.dts.monte_carlo_single_ended(**mcargs)
            stages["monte_carlo"] = report(mc)
        except Exception as e:  # noqa: BLE001
            ctx.fail(f"monte_carlo raised {type(e).__name__}: {e}", desc)
            mc = None
        work = core.VERIF / "harness" / ".work"
        work.mkdir(exist_ok=True)
        path = work / f"c17-{os.getpid()}.nc"
        try:
            out.to_netcdf(path)
            with xr.open_dataset(path) as back:
                back.load()
            stages["stored"] = report(back)
            for k in out.data_vars:
                if k not in back or not np.array_equal(np.asarray(out[k].values), np.asarray(back[k].values), equal_nan=True):
                    ctx.fail(f"data variable `{k}` changes in a netCDF round trip", desc)
                    break
            for k in out.coords:
                if k not in back.coords or not np.array_equal(np.asarray(out[k].values), np.asarray(back[k].values)):
                    ctx.fail(f"coordinate `{k}` changes in a netCDF round trip", desc)
                    break
        except Exception as e:  # noqa: BLE001
            ctx.fail(f"netCDF round trip raised {type(e).__name__}: {e}", desc)
        finally:
            if path.exists():
                path.unlink()
        # later on: the caller edits the objects it was handed (to prepare a next calibration) and its own input dictionary; every
        # dataset must go on reporting the definitions it was calibrated with
        try:
            got = out.dts.sections
            if got:
                k0 = sorted(got)[0]
                got[k0].append(slice(1.0e9, 1.0e9 + 1.0))
                del got[sorted(got)[-1]]
            gm = out.dts.matching_sections
            if gm:
                gm.pop(0)
            secs[sorted(secs)[0]].append(slice(2.0e9, 2.0e9 + 1.0))
            again = {"calibrate": out, "monte_carlo": mc, "stored": (back if "stored" in stages else None)}
            for st_name, ds_ in again.items():
                if ds_ is not None and st_name in stages:
                    stages[st_name + " (asked again after the caller edited the returned objects)"] = report(ds_)
            ctx.count("asked again after editing the returned definitions")
        except Exception as e:  # noqa: BLE001
            ctx.fail(f"asking for the definitions again raised {type(e).__name__}: {e}", desc)
    for stage, rep in stages.items():
        mod = {k: m[stage.split(" (")[0]][k] for k in ("sections", "matching", "trans_att")}
        if rep != mod:
            ctx.mismatch(f"Attrs.{stage}", desc, mod, rep)
            what = [k for k in rep if rep[k] != mod[k]]
            ctx.fail(f"after {stage} the result does not report the {', '.join(what)} that were passed in", desc)
    nontriv = kinds != ["float"] or bool(c.matching) or bool(c.trans_att)
    ctx.case(sig=[kinds, len(c.matching), len(c.trans_att), double], nontrivial=nontriv, sample=dict(desc, reported=stages))
    ctx.count(("double" if double else "single") + f":nm{len(c.matching)}:nta{len(c.trans_att)}")


def run(ctx):
    for _ in range(40 if ctx.quick else 400):
        run_one(ctx, ctx.rng)


def search(ctx):
    run(ctx)


def replay(path):
    return core.replay_by_seed("C17", path)
