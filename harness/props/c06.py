"""C06 — tmpw is the inverse-variance weighted mean of tmpf and tmpb; bounds are ordered.
Correspondence: tmpw, tmpw_var_approx, tmpw_var_lower and the total tmpw_var vs the Lean model (`Propagate` + the formulas of
`Props/C06.lean`, exact rationals).  Oracle: the property's own formulas and inequalities evaluated on the real outputs."""
import json

import numpy as np

import calib
import core
import fibre
from props import c05

RULE = ("double-ended C02 results (noise 0.2-3 %, 0-2 splices, 0-1 matching pairs, free/fix_gamma); distinct = (nx, nt, nta, "
        "var kind, fix set); non-trivial = tmpf and tmpb differ by more than round-off at some cell")
ASSUMPTIONS = ["inequalities are judged with a relative slack of 1e-12"]


def run_one(ctx, c, opts, knownw):
    desc = calib.case_desc(c, opts)
    out, _ = calib.run_real(c, **opts)
    if isinstance(out, tuple):
        ctx.skip("calibration refused")
        return
    m = ctx.driver().call("propagate", **c05.propagate_request(c, out))
    tf, tb = out["tmpf"].values, out["tmpb"].values
    vf, vb = out["tmpf_var"].values, out["tmpb_var"].values
    tw, vw = out["tmpw"].values, out["tmpw_var"].values
    va, vl = out["tmpw_var_approx"].values, out["tmpw_var_lower"].values
    # model
    for name, code, tol in (("tmpw", tw, 1e-8), ("approx", va, None), ("lower", vl, None)):
        mod = fibre.dymat(m[name])
        t = tol if tol is not None else 1e-9 * np.abs(mod)
        if np.any(np.abs(code - mod) > t):
            ctx.mismatch("Propagate/C06." + name, desc, float(mod.flat[int(np.argmax(np.abs(code - mod)))]), float(code.flat[int(np.argmax(np.abs(code - mod)))]))
    wsum = np.array([fibre.dymat(cb) for cb in m["w"]]).sum(axis=0)
    if np.any(np.abs(vw - wsum) > 1e-9 * np.array([np.abs(fibre.dymat(cb)) for cb in m["w"]]).sum(axis=0)):
        ctx.mismatch("Propagate.termsW total", desc, "sum of model terms", "tmpw_var")
    # the property
    bad = None
    TK, FK, BK = tw + 273.15, tf + 273.15, tb + 273.15
    want = (FK / vf + BK / vb) / (1 / vf + 1 / vb)
    eps = 1e-12
    if np.any(np.abs(TK - want) > 1e-9 * np.abs(want)):
        bad = "tmpw is not (tmpf/tmpf_var + tmpb/tmpb_var)/(1/tmpf_var + 1/tmpb_var)"
    elif np.any(tw < np.minimum(tf, tb) - 1e-9) or np.any(tw > np.maximum(tf, tb) + 1e-9):
        bad = "tmpw does not lie between tmpf and tmpb"
    elif np.any(np.abs(va - 1 / (1 / vf + 1 / vb)) > 1e-9 * va) or np.any(va > np.minimum(vf, vb) * (1 + eps)):
        bad = "tmpw_var_approx is not 1/(1/tmpf_var + 1/tmpb_var) <= min(tmpf_var, tmpb_var)"
    elif not all(np.all(np.isfinite(v)) and np.all(v > 0) for v in (vf, vb, vw, va, vl)):
        bad = "a reported variance is not finite and strictly positive although all intensities and noise variances are positive"
    if bad is None and np.any(vl > vw * (1 + eps)):
        i, j = np.unravel_index(int(np.argmax(vl / vw)), vw.shape)
        bad = f"tmpw_var_lower[{i},{j}] = {vl[i, j]:.6g} > tmpw_var = {vw[i, j]:.6g}"
    if bad:
        # with splices the reported variances lack cross-covariance terms (known findings of C05); the failure is attributed
        # to them only if the complete first-order propagation of the same result satisfies the property
        in_region = False
        if len(c.trans_att) >= 1:
            S = c05.spec_variances(c, out)
            sf, sb, sw = S["f"], S["b"], S["w"]
            ok = all(np.all(np.isfinite(v)) and np.all(v > 0) for v in (sf, sb, sw)) and np.all(vl <= sw * (1 + 1e-9))
            changed = (np.any(np.abs(sf - vf) > 1e-9 * np.abs(sf)) or np.any(np.abs(sb - vb) > 1e-9 * np.abs(sb))
                       or np.any(np.abs(sw - vw) > 1e-9 * np.abs(sw)))
            in_region = bool(ok and changed)
        ctx.fail(bad, desc, known=knownw if in_region else None)
    ctx.case(sig=[c.nx, c.nt, len(c.trans_att), c.var_kind, sorted(opts)], nontrivial=bool(np.any(np.abs(tf - tb) > 1e-6)),
             sample=dict(calib.case_desc(c, opts), tmpf=float(tf[0, 0]), tmpb=float(tb[0, 0]), tmpw=float(tw[0, 0])))
    ctx.count("nta:%d" % len(c.trans_att))


def gen(ctx, rng):
    c = fibre.make_case(rng, double=True, nx=rng.randint(10, 24 if ctx.quick else 60), nt=rng.randint(1, 4), n_baths=rng.choice([2, 3]),
                        nta=rng.choice([0, 0, 1, 2]), n_match=rng.choice([0, 0, 1]), noise=rng.choice([0.002, 0.01, 0.03]))
    opts = {"fix_gamma": (float(c.truth["gamma"]), 0.3)} if rng.random() < 0.2 else {}
    return c, opts


def known():
    return next((e for e in core.load_known("C06") if e["id"] == "C06-lower-bound-with-splices" and e["status"] == "known"), None)


def run(ctx):
    for _ in range(40 if ctx.quick else 400):
        c, opts = gen(ctx, ctx.rng)
        run_one(ctx, c, opts, known())


def search(ctx):
    rng = ctx.rng
    for k in range(40):
        if k % 2 == 0:
            # intensity-dependent noise on a strongly attenuating fibre, many reference locations and times (small parameter part):
            # the regime in which tmpw_var sits closest to its lower bound
            c = fibre.make_case(rng, double=True, nx=rng.randint(30, 60), nt=rng.randint(3, 5), n_baths=2, n_stretch=4, nta=0, n_match=0,
                                noise=0.01, var_kind="callable", atten=rng.choice([1.0, 1.5, 2.0]))
            opts = {}
        else:
            c, opts = gen(ctx, rng)
        run_one(ctx, c, opts, known())
        if ctx.failures:
            return


def replay(path):
    return calib.replay_with_data(path, "C06", lambda ctx, c, opts: run_one(ctx, c, opts, known()))
