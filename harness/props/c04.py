"""C04 — temperature, named parameters, p_val and p_cov of a result agree with each other.
(a) exhaustive layout part: for all (nt, nx, nta) the index tables of ParameterIndexSingleEnded/DoubleEnded vs the Lean model's
column functions, and `method="external"` runs with tagged p_val/p_cov whose named outputs must sit at the documented slots;
(b) the temperature equation at the reported parameters vs the model's `tmpf/tmpb`; (c) numeric round trips: a wls result fed
back through method="external" must reproduce every data variable bit for bit."""
import json
import warnings

import numpy as np
import xarray as xr

import calib
import core
import fibre
from core import rj

RULE = ("all (nt, nx, nta) with nt, nx <= 6 (quick) / 8 (thorough), nta <= 3, both modes (+ single-ended alpha mode): index "
        "tables and tagged external runs; numeric round trips on C01/C02 cases; distinct = (mode, nt, nx, nta) resp. case "
        "signature; non-trivial = nta>0 or nt>1")
ASSUMPTIONS = ["external round trip is fed with p_var = diag(p_cov) of the first result"]


def mk_ds(nt, nx, double, seed):
    r = np.random.default_rng(seed)
    x = np.arange(nx) * 0.5 + 1.0
    d = {}
    for a, b in ([("st", "ast"), ("rst", "rast")] if double else [("st", "ast")]):
        base = 500 + 1000 * r.random((nx, nt))
        d[b] = (("x", "time"), base)
        d[a] = (("x", "time"), base * np.exp(0.7 + 0.2 * r.random((nx, nt))))  # ln ratio ~ 0.8: denominators stay away from 0
    d["ref"] = (("time",), 10 + r.random(nt))
    return xr.Dataset(d, coords={"x": x, "time": np.arange(nt).astype("datetime64[s]")}, attrs={"isDoubleEnded": "1" if double else "0"})


def layout_case(ctx, double, nt, nx, nta, alpha_mode=False, trans_order="asc"):
    from dtscalibration.dts_accessor_utils import ParameterIndexDoubleEnded, ParameterIndexSingleEnded
    import dtscalibration  # noqa: F401
    case = dict(op="layout", double=double, nt=nt, nx=nx, nta=nta, alpha_mode=alpha_mode, trans_order=trans_order)
    m = ctx.driver().call("layout", double=double, nt=nt, nx=nx, nta=nta, alpha_mode=alpha_mode)
    npar = m["npar"]
    # --- index tables of the package
    if double:
        ip = ParameterIndexDoubleEnded(nt, nx, nta)
        got = dict(npar=ip.npar, gamma=int(ip.gamma[0]), df=list(map(int, ip.df)), db=list(map(int, ip.db)), alpha=list(map(int, ip.alpha)),
                   ta=np.asarray(ip.ta, dtype=int).reshape(nt, 2, nta).tolist())
        doc = dict(npar=1 + 2 * nt + nx + 2 * nt * nta, gamma=0, df=[1 + j for j in range(nt)], db=[1 + nt + j for j in range(nt)],
                   alpha=[1 + 2 * nt + i for i in range(nx)],
                   ta=[[[1 + 2 * nt + nx + t + nt * d + 2 * nt * a for a in range(nta)] for d in range(2)] for t in range(nt)])
    else:
        ip = ParameterIndexSingleEnded(nt, nx, nta, includes_alpha=alpha_mode, includes_dalpha=not alpha_mode)
        base = (1 + nx if alpha_mode else 2)
        got = dict(npar=ip.npar, gamma=int(ip.gamma[0]), dalpha=None if alpha_mode else int(ip.dalpha[0]),
                   alpha=list(map(int, ip.alpha)) if alpha_mode else None, c=list(map(int, ip.c)),
                   ta=np.asarray(ip.taf, dtype=int).reshape(nt, nta).tolist())
        doc = dict(npar=base + nt + nt * nta, gamma=0, dalpha=None if alpha_mode else 1,
                   alpha=[1 + i for i in range(nx)] if alpha_mode else None, c=[base + j for j in range(nt)],
                   ta=[[base + nt + a * nt + t for a in range(nta)] for t in range(nt)])
    if got != m:
        ctx.mismatch("Calib.Input.col* (layout)", case, m, got)
    if got != doc:
        ctx.fail("ParameterIndex tables differ from the documented layout", case, detail=dict(got=got, documented=doc))
    # --- tagged external run: named outputs must come from the documented slots
    ds = mk_ds(nt, nx, double, seed=nt * 100 + nx * 10 + nta)
    trans = [float(ds.x.values[1 + k] + (0.25 if k % 2 else 0.0)) for k in range(nta)] if nx > nta + 1 else [1.1 + 0.3 * k for k in range(nta)]
    # splices may be listed in any order; splice k of the result is the k-th LISTED one
    if trans_order == "desc":
        trans = trans[::-1]
    elif trans_order == "rot" and len(trans) > 2:
        trans = trans[1:] + trans[:1]
    p_val = np.arange(npar) * 1e-3 + 0.5
    p_val[0] = 480.0
    A = np.random.default_rng(7).random((npar, npar))
    p_cov = (A @ A.T + np.eye(npar)) * 1e-8
    p_var = np.diag(p_cov).copy()
    sec = {"ref": [slice(float(ds.x.values[0]) - 0.1, float(ds.x.values[min(1, nx - 1)]) + 0.1)]}
    kw = dict(sections=sec, method="external", p_val=p_val, p_var=p_var, p_cov=p_cov, trans_att=trans, st_var=1.0, ast_var=1.0)
    with warnings.catch_warnings(), np.errstate(all="ignore"):
        warnings.simplefilter("ignore")
        try:
            if double:
                out = ds.dts.calibrate_double_ended(rst_var=1.0, rast_var=1.0, **kw)
            else:
                if alpha_mode:
                    kw["fix_alpha"] = (p_val[1:1 + nx].copy(), p_var[1:1 + nx].copy())
                out = ds.dts.calibrate_single_ended(**kw)
        except Exception as e:  # noqa: BLE001
            ctx.fail(f"external calibration raised {type(e).__name__}: {e}", case)
            return
    bad = None
    x = ds.x.values
    I = np.log(ds.st.values / ds.ast.values)

    def eq(name, want):
        nonlocal bad
        if bad is None and not np.array_equal(np.asarray(out[name].values), np.asarray(want)):
            bad = f"{name} is not read from its documented slot(s)"

    d = np.diag(p_cov)
    if double:
        eq("gamma", p_val[0]); eq("df", p_val[doc["df"]]); eq("db", p_val[doc["db"]]); eq("alpha", p_val[doc["alpha"]])
        eq("gamma_var", d[0]); eq("df_var", d[doc["df"]]); eq("db_var", d[doc["db"]]); eq("alpha_var", d[doc["alpha"]])
        taf = np.array([[p_val[doc["ta"][t][0][a]] for a in range(nta)] for t in range(nt)]).reshape(nt, nta)
        tab = np.array([[p_val[doc["ta"][t][1][a]] for a in range(nta)] for t in range(nt)]).reshape(nt, nta)
        eq("talpha_fw", taf); eq("talpha_bw", tab)
        TAF = sum(((x[:, None] >= s) * taf[None, :, a] for a, s in enumerate(trans)), np.zeros((nx, nt)))
        TAB = sum(((x[:, None] < s) * tab[None, :, a] for a, s in enumerate(trans)), np.zeros((nx, nt)))
        IB = np.log(ds.rst.values / ds.rast.values)
        tf = p_val[0] / (I + p_val[doc["df"]][None, :] + p_val[doc["alpha"]][:, None] + TAF) - 273.15
        tb = p_val[0] / (IB + p_val[doc["db"]][None, :] - p_val[doc["alpha"]][:, None] + TAB) - 273.15
        if bad is None and not np.allclose(out["tmpb"].values, tb, rtol=0, atol=1e-9):
            bad = "tmpb is not the model equation at the reported parameters"
    else:
        eq("gamma", p_val[0]); eq("c", p_val[doc["c"]]); eq("gamma_var", d[0]); eq("c_var", d[doc["c"]])
        if alpha_mode:
            alpha = p_val[doc["alpha"]]
        else:
            eq("dalpha", p_val[1]); eq("dalpha_var", d[1])
            alpha = p_val[1] * x
        taf = np.array([[p_val[doc["ta"][t][a]] for a in range(nta)] for t in range(nt)]).reshape(nt, nta)
        eq("talpha_fw", taf.T)
        TAF = sum(((x[:, None] >= s) * taf[None, :, a] for a, s in enumerate(trans)), np.zeros((nx, nt)))
        tf = p_val[0] / (I + p_val[doc["c"]][None, :] + alpha[:, None] + TAF) - 273.15
    if bad is None and not np.allclose(out["tmpf"].values, tf, rtol=0, atol=1e-9):
        bad = "tmpf is not the model equation at the reported parameters"
    if bad is None and (not np.array_equal(out["p_val"].values, p_val) or not np.array_equal(out["p_cov"].values, p_cov)):
        bad = "p_val / p_cov not stored as given"
    if bad:
        ctx.fail(bad, case)
    # the model's equation on the same parameters (exact rationals)
    req = dict(double=double, x=[rj(v) for v in x], nt=nt, c273=rj(273.15), dict=[[[rj(sec["ref"][0].start), rj(sec["ref"][0].stop)]]],
               tref=[[rj(v) for v in ds.ref.values]], trans=[rj(s) for s in trans], pairs=[],
               st=fibre.mat(ds.st.values), ast=fibre.mat(ds.ast.values), st_var=fibre.mat(np.ones((nx, nt))), ast_var=fibre.mat(np.ones((nx, nt))),
               iF=fibre.mat(I), p_val=[rj(v) for v in p_val])
    if double:
        req.update(rst=fibre.mat(ds.rst.values), rast=fibre.mat(ds.rast.values), rst_var=fibre.mat(np.ones((nx, nt))),
                   rast_var=fibre.mat(np.ones((nx, nt))), iB=fibre.mat(np.log(ds.rst.values / ds.rast.values)))
    if alpha_mode:
        req["fix_alpha"] = [[rj(v) for v in p_val[1:1 + nx]], [rj(v) for v in p_var[1:1 + nx]]]
    mt = ctx.driver().call("calib.temps", **req)
    if np.nanmax(np.abs(fibre.dymat(mt["tmpf"]) - out["tmpf"].values)) > 1e-9:
        ctx.mismatch("Calib.tmpf", case, "model equation", float(np.nanmax(np.abs(fibre.dymat(mt["tmpf"]) - out["tmpf"].values))))
    if double and np.nanmax(np.abs(fibre.dymat(mt["tmpb"]) - out["tmpb"].values)) > 1e-9:
        ctx.mismatch("Calib.tmpb", case, "model equation", float(np.nanmax(np.abs(fibre.dymat(mt["tmpb"]) - out["tmpb"].values))))
    ctx.case(sig=[double, alpha_mode, nt, nx, nta], nontrivial=nta > 0 or nt > 1, sample=dict(case=case, npar=npar))
    ctx.count("layout:" + ("double" if double else "single-alpha" if alpha_mode else "single"))


VAR_OF = {"gamma_var": "gamma", "df_var": "df", "db_var": "db", "alpha_var": "alpha", "c_var": "c", "dalpha_var": "dalpha"}


def roundtrip_case(ctx, c, opts=None):
    opts = opts or {}
    desc = calib.case_desc(c, opts)
    out, _ = calib.run_real(c, **opts)
    if isinstance(out, tuple):
        ctx.skip("wls run refused (not this property)")
        return
    pv, pc = out["p_val"].values, out["p_cov"].values
    d = np.diag(pc)
    nt, nx, nta = c.nt, c.nx, len(c.trans_att)
    # *_var == diagonal of p_cov
    if c.double:
        idx = dict(gamma=[0], df=range(1, 1 + nt), db=range(1 + nt, 1 + 2 * nt), alpha=range(1 + 2 * nt, 1 + 2 * nt + nx))
    else:
        idx = dict(gamma=[0], dalpha=[1], c=range(2, 2 + nt))
    for name, ii in idx.items():
        if not np.array_equal(np.atleast_1d(out[name + "_var"].values), d[list(ii)]):
            ctx.fail(f"{name}_var differs from the diagonal of p_cov at the slots of {name}", desc)
            break
        if not np.array_equal(np.atleast_1d(out[name].values), pv[list(ii)]):
            ctx.fail(f"{name} differs from its slots in p_val", desc)
            break
    kw = dict(method="external", p_val=pv.copy(), p_var=d.copy(), p_cov=pc.copy())
    out2, _ = calib.run_real(c, **kw)
    if isinstance(out2, tuple):
        ctx.fail(f"feeding the result back through method='external' raised {out2[1]}: {out2[2]}", desc)
    else:
        for k in out.data_vars:
            if k not in out2 or not np.array_equal(np.asarray(out[k].values), np.asarray(out2[k].values), equal_nan=True):
                a, b = np.asarray(out[k].values, dtype=float), np.asarray(out2[k].values, dtype=float) if k in out2 else None
                dev = None if b is None or a.shape != b.shape else float(np.nanmax(np.abs(a - b)))
                ctx.fail(f"external round trip does not reproduce `{k}` identically (max abs deviation {dev})", desc)
                break
    ctx.case(sig=["roundtrip", c.double, c.nx, c.nt, nta, len(c.matching), sorted(opts)], nontrivial=True,
             sample=dict(op="roundtrip", **desc))
    ctx.count("roundtrip:" + ("double" if c.double else "single") + (":" + "+".join(sorted(opts)) if opts else ""))


def run(ctx):
    top = 6 if ctx.quick else 8
    for nt in range(1, top + 1):
        for nx in range(2, top + 1):
            for nta in range(0, 4):
                layout_case(ctx, True, nt, nx, nta)
                layout_case(ctx, False, nt, nx, nta)
                if (nt + nx + nta) % 3 == 0:
                    layout_case(ctx, False, nt, nx, nta, alpha_mode=True)
                if nta >= 2 and nx > nta + 1:
                    order = "desc" if (nt + nx) % 2 == 0 or nta == 2 else "rot"
                    layout_case(ctx, True, nt, nx, nta, trans_order=order)
                    layout_case(ctx, False, nt, nx, nta, trans_order=order)
    for _ in range(10 if ctx.quick else 200):
        double = ctx.rng.random() < 0.5
        c = fibre.make_case(ctx.rng, double=double, nx=ctx.rng.randint(10, 30), nt=ctx.rng.randint(1, 4), n_baths=2,
                            nta=ctx.rng.choice([0, 1, 2]), n_match=ctx.rng.choice([0, 1]), noise=0.01)
        # parameters fixed with a NON-ZERO variance: the supplied variance must sit on the diagonal of p_cov like any other
        opts = {}
        r = ctx.rng.random()
        if r < 0.3:
            opts["fix_gamma"] = (float(c.truth["gamma"]), ctx.rng.choice([0.04, 1.0]))
        elif r < 0.55 and not double:
            opts["fix_dalpha"] = (float(c.truth["dalpha"]), ctx.rng.choice([1e-12, 1e-10]))
        elif r < 0.65 and not double:
            opts["fix_gamma"] = (float(c.truth["gamma"]), 0.25)
            opts["fix_dalpha"] = (float(c.truth["dalpha"]), 1e-11)
        roundtrip_case(ctx, c, opts)


def search(ctx):
    for nt in range(1, 5):
        for nx in range(2, 6):
            for nta in range(0, 3):
                layout_case(ctx, True, nt, nx, nta)
                layout_case(ctx, False, nt, nx, nta)
                if ctx.failures:
                    return


def replay(path):
    r = json.loads(open(path).read())
    c = r.get("case")
    if c and c.get("op") == "layout":
        ctx = core.Ctx("C04", "quick", 0)
        layout_case(ctx, c["double"], c["nt"], c["nx"], c["nta"], c.get("alpha_mode", False))
        if ctx.drv:
            ctx.drv.close()
        print("property fails on this input:" if ctx.failures else "property holds on this input", [f["what"] for f in ctx.failures[:1]])
        return 1 if ctx.failures else 0
    print(json.dumps(r.get("what") or r.get("no_longer_checks"))[:3000])
    return 1
