"""C07 — fixed parameters are honoured and their uncertainty enters the fit correctly.
Same machinery as C01/C02 with fix_gamma / fix_dalpha / fix_alpha (/ fix_alpha + fix_gamma): the reduced system that reaches
the solver is compared with the Lean model (fixed value moved to y, squared coefficient times the fixed variance added to the
observation's variance), the optimum with the exact WLS solution, and the reported value/variance/zero covariance of the
fixed parameter are checked directly on the result."""
import json

import numpy as np

import calib
import core
import fibre

RULE = ("C01/C02 generator x {fix_gamma, fix_dalpha, fix_alpha, fix_alpha+fix_gamma} x supplied variance in {0, 1e-20, comparable "
        "to, 100x} the measurement-induced variance; distinct = (single/double, fix set, variance class, nx, nt, nta, #match); "
        "non-trivial = noise>0 and supplied variance > 0")
ASSUMPTIONS = ["fix_alpha variance at the first reference location is 0 (alpha is 0 there by definition; DESIGN §8 C07)"]


def options(ctx, c, rng):
    t = c.truth
    vclass = rng.choice(["zero", "tiny", "comparable", "large"])
    scale = {"zero": 0.0, "tiny": 1e-20, "comparable": 1.0, "large": 100.0}[vclass]
    g_sd2 = 0.5**2 * scale if scale >= 1 else scale
    a_sd2 = (1e-4) ** 2 * scale if scale >= 1 else scale
    kinds = ["fix_gamma", "fix_alpha", "fix_alpha+fix_gamma"] + ([] if c.double else ["fix_dalpha", "fix_gamma+fix_dalpha"])
    kind = rng.choice(kinds)
    opts = {}
    if "fix_gamma" in kind:
        opts["fix_gamma"] = (float(t["gamma"] + rng.choice([0, 0.3, -1.0])), float(g_sd2))
    if "fix_dalpha" in kind:
        d_sd2 = (2e-6) ** 2 * scale if scale >= 1 else scale
        opts["fix_dalpha"] = (float(t["dalpha"] * rng.choice([1.0, 1.02])), float(d_sd2))
    if "fix_alpha" in kind:
        alpha = np.array(t["alpha"], dtype=float)
        r0 = fibre.ix_sec(c)[0]
        if c.double:
            alpha = alpha - alpha[r0]
        var = np.full(c.nx, a_sd2) * (0.5 + np.arange(c.nx) / c.nx)
        if c.double:
            var[r0] = 0.0
        opts["fix_alpha"] = (alpha, var)
    return kind, vclass, opts


def fixed_reported(ctx, c, out, opts, desc):
    S = calib.spec_system(c, **calib.fix_to_model(opts))
    pv, pc = out["p_val"].values, out["p_cov"].values
    for k, (a, va) in S["fixed"].items():
        off = np.delete(pc[k], k)
        if pv[k] != a or pc[k, k] != va or np.any(off != 0) or np.any(np.delete(pc[:, k], k) != 0):
            ctx.fail(f"fixed parameter (full-layout index {k}) is not reported with the supplied value {a}, variance {va} and "
                     f"zero covariances: value {pv[k]}, variance {pc[k, k]}, max |cov| {np.abs(off).max() if off.size else 0}", desc)
            return
    names = {"fix_gamma": ("gamma", "gamma_var")}
    if "fix_gamma" in opts:
        if float(out["gamma"].values) != opts["fix_gamma"][0] or float(out["gamma_var"].values) != opts["fix_gamma"][1]:
            ctx.fail("reported gamma / gamma_var differ from the supplied fix_gamma", desc)
    if "fix_dalpha" in opts:
        if float(out["dalpha"].values) != opts["fix_dalpha"][0] or float(out["dalpha_var"].values) != opts["fix_dalpha"][1]:
            ctx.fail("reported dalpha / dalpha_var differ from the supplied fix_dalpha", desc)
    if "fix_alpha" in opts:
        if not np.array_equal(out["alpha"].values, opts["fix_alpha"][0]) or not np.array_equal(out["alpha_var"].values, opts["fix_alpha"][1]):
            ctx.fail("reported alpha / alpha_var differ from the supplied fix_alpha", desc)


def run_one(ctx, c, rng):
    kind, vclass, opts = options(ctx, c, rng)
    if "fix_alpha" in opts and not c.double and c.matching:
        c.matching = []  # the API refuses fix_alpha with matching sections (NotImplementedError): outside the property
    desc = calib.case_desc(c, opts)
    out = calib.check_wls_case(ctx, c, opts, known_weights=KNOWN)
    # the executable scatter model (Model/Scatter.lean: ip_use of the single-ended helper, from_i of the double-ended branches; tied to
    # the source by the translator, proved equal to the model's list of unknowns) against the Spec's list of free parameters
    S = calib.spec_system(c, **calib.fix_to_model(opts))
    act = S["active"]
    ixE = [a - (1 + 2 * c.nt) for a in act if 1 + 2 * c.nt <= a < 1 + 2 * c.nt + c.nx] if c.double else []
    sm = ctx.driver().call("scatter", nt=c.nt, N=c.nx, nta=len(c.trans_att), ix_sec=fibre.ix_sec(c), ixE=ixE, p=[], E=[],
                           fg="fix_gamma" in opts, fa="fix_alpha" in opts, fd="fix_dalpha" in opts)
    if c.double:
        key = "fix_both" if {"fix_gamma", "fix_alpha"} <= set(opts) else "fix_gamma" if "fix_gamma" in opts else "fix_alpha"
    else:
        key = "ip_use"
    if sm[key] != act:
        ctx.mismatch(f"Scatter.{key}", desc, sm[key][:12], act[:12])
    ctx.count("scatter model compared")
    if out is not None and not isinstance(out, tuple):
        fixed_reported(ctx, c, out, opts, desc)
        vals = [out[k].values for k in ("tmpf", "tmpf_var", "p_val")] + ([out["tmpb"].values] if c.double else [])
        if not all(np.all(np.isfinite(v)) for v in vals):
            ctx.fail("non-finite numbers in the result of a calibration with a non-negative fixed-parameter variance", desc)
    ctx.case(sig=[c.double, kind, vclass, c.nx, c.nt, len(c.trans_att), len(c.matching)],
             nontrivial=c.noise > 0 and vclass in ("comparable", "large"), sample=dict(kind=kind, vclass=vclass, **calib.case_desc(c)))
    ctx.count(("double:" if c.double else "single:") + kind)
    ctx.count("var:" + vclass)


KNOWN = None


def gen(ctx, rng):
    double = rng.random() < 0.5
    q = ctx.quick
    nx = rng.randint(10, 30 if q else 80)
    nt = rng.randint(1, 4 if q else 8)
    return fibre.make_case(rng, double=double, nx=nx, nt=nt, n_baths=rng.choice([2, 2, 3]), nta=rng.choice([0, 0, 1, 2]),
                           n_match=rng.choice([0, 0, 1]))


def run(ctx):
    global KNOWN
    KNOWN = next((e for e in core.load_known("C07") if e["id"] == "C07-weights-transposed" and e["status"] == "known"), None)
    for _ in range(60 if ctx.quick else 600):
        c = gen(ctx, ctx.rng)
        run_one(ctx, c, ctx.rng)


def search(ctx):
    for _ in range(40):
        run_one(ctx, gen(ctx, ctx.rng), ctx.rng)
        if ctx.failures:
            return


def replay(path):
    return core.replay_by_seed("C07", path)
