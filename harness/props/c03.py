"""C03 — model-consistent measurements calibrate back to the true temperature.
Noise-free intensities generated from the package's own Raman model; every accepted option combination; configurations that
supply enough information by construction (a reference or matching block in every segment between splices, two baths, fixed
parameters at their true values).  Oracle: the generator's ground truth, 1e-5 K.  Correspondence: the same data through the Lean
model `Calib.calibrate` (exact rational WLS) must give the same temperatures (1e-6 K)."""
import json

import numpy as np

import calib
import core
import fibre

RULE = ("{single, double} x {0, 1, 2 splices, on/between grid points} x {reference sections everywhere, front-only + matching "
        "sections} x {free, fix_gamma, fix_dalpha, fix_alpha, fix_alpha+fix_gamma}; 20..60 (quick) / ..300 points, 1..6 / ..20 times, "
        "spans to 2 km, J-configuration and straight matching; distinct = that tuple + sizes; non-trivial = temperature field "
        "not constant and system identifiable")
ASSUMPTIONS = ["identifiability by construction; cases the exact model reports as rank-deficient beyond the splice gauge are counted and skipped"]


def build(rng, quick):
    double = rng.random() < 0.5
    nta = rng.choice([0, 0, 1, 2])
    front = rng.random() < 0.35          # references only in the first segment, the rest through matching sections
    # exact reference solve: cubic in the number of unknowns; the upper end of the range is visited rarely (see c02.gen)
    nx = rng.randint(20, 60 if quick else 90)
    nt = rng.randint(1, 6 if quick else 8)
    if not quick:
        r = rng.random()
        if r < 0.015:
            nx, nt = rng.randint(200, 300), rng.randint(1, 2)
        elif r < 0.03:
            nt = rng.randint(12, 20)
            nx = rng.randint(20, 40)
    nseg = nta + 1
    # segment boundaries (indices where splices sit)
    cuts = sorted(rng.sample(range(8, nx - 8, 1), nta)) if nta else []
    ok = all(b - a >= 12 for a, b in zip([0] + cuts, cuts + [nx]))
    if not ok:
        return None
    segs = list(zip([0] + cuts, cuts + [nx]))
    on_grid = [rng.random() < 0.4 for _ in cuts]
    ref_blocks, match_blocks = [], []
    for k, (a, b) in enumerate(segs):
        lo, hi = a + 1, b - 2
        at_splice = k < len(cuts) and on_grid[k] and rng.random() < 0.5
        if k == 0 or not front:
            # two blocks (two baths) in the first segment, one elsewhere
            if k == 0:
                m = (lo + hi) // 2
                ref_blocks.append((lo, max(lo + 1, m - 2), 0))
                ref_blocks.append((m, min(hi, m + rng.randint(1, 3)), 1))
            else:
                w = rng.randint(1, 3)
                s0 = rng.randint(lo, hi - w)
                ref_blocks.append((s0, s0 + w, rng.randrange(2)))
            if at_splice:
                # the last reference block of this segment runs up to and includes the location AT the splice (x = s: downstream)
                i0, i1, bk = ref_blocks[-1]
                ref_blocks[-1] = (i0 if i1 >= b - 4 else b - 2, b, bk) if i1 >= b - 4 else ref_blocks[-1]
                if ref_blocks[-1][1] != b:
                    ref_blocks.append((b - 1, b, bk))
        else:
            # matching: a head block inside a reference block of segment 0 (or any earlier block), a tail block here
            w = rng.randint(1, 2)
            hb = ref_blocks[rng.randrange(2)]
            w = min(w, hb[1] - hb[0])
            h0 = rng.randint(hb[0], hb[1] - w)
            t0 = rng.randint(lo, hi - w)
            match_blocks.append(((h0, h0 + w), (t0, t0 + w)))
    if front and not match_blocks and rng.random() < 0.5:
        return None
    layout = dict(ref_blocks=ref_blocks, match_blocks=match_blocks, trans_idx=[(cidx, og) for cidx, og in zip(cuts, on_grid)])
    c = fibre.make_case(rng, double=double, nx=nx, nt=nt, span=rng.choice([20.0, 100.0, 500.0, 2000.0]), noise=0.0,
                        var_kind=rng.choice(["float", "array", "callable"]), layout=layout, irregular=rng.random() < 0.3)
    # options
    kinds = ["free", "fix_gamma", "fix_alpha", "fix_alpha+fix_gamma"] + ([] if double else ["fix_dalpha"])
    kind = rng.choice(kinds)
    if "fix_alpha" in kind and not double and c.matching:
        kind = "fix_gamma"  # the API refuses fix_alpha together with matching sections (single-ended)
    opts = {}
    t = c.truth
    if "fix_gamma" in kind:
        opts["fix_gamma"] = (float(t["gamma"]), 0.0)
    if kind == "fix_dalpha":
        opts["fix_dalpha"] = (float(t["dalpha"]), 0.0)
    if "fix_alpha" in kind:
        alpha = np.array(t["alpha"], dtype=float)
        if double:
            alpha = alpha - alpha[fibre.ix_sec(c)[0]]
        opts["fix_alpha"] = (alpha, np.zeros(c.nx))
    return c, opts, kind, front


def build_lead_in_match(rng, double):
    """always present: a matched stretch on unreferenced lead-in fibre UPSTREAM of the first reference section, its partner inside
    a reference section (and, mirrored, one downstream of the last reference section)"""
    a0 = rng.randint(5, 8)
    nx = a0 + rng.randint(16, 22)
    w = rng.randint(1, 2)
    ref_blocks = [(a0, a0 + 3, 0), (a0 + 6, a0 + 9, 1)]
    match_blocks = [((1, 1 + w), (a0 + 1, a0 + 1 + w))]
    if rng.random() < 0.5:
        match_blocks.append(((a0 + 6, a0 + 6 + w), (nx - 3 - w, nx - 3)))
    layout = dict(ref_blocks=ref_blocks, match_blocks=match_blocks, trans_idx=[])
    c = fibre.make_case(rng, double=double, nx=nx, nt=rng.randint(1, 4), span=rng.choice([20.0, 100.0, 500.0]), noise=0.0,
                        var_kind=rng.choice(["float", "array", "callable"]), layout=layout, irregular=rng.random() < 0.3)
    opts = {}
    kind = rng.choice(["free", "fix_gamma"])
    if kind == "fix_gamma":
        opts["fix_gamma"] = (float(c.truth["gamma"]), 0.0)
    return c, opts, kind + ":lead-in-match", True


def build_unordered_pairs(rng, double):
    """always present: two matching pairs listed with their heads in DESCENDING fibre order (pairs are matched as listed)"""
    a0 = rng.randint(2, 4)
    w = rng.randint(1, 2)
    nx = a0 + rng.randint(24, 30)
    ref_blocks = [(a0, a0 + 3, 0), (a0 + 6, a0 + 9, 1)]
    t1, t2 = a0 + 13, a0 + 18
    match_blocks = [((a0 + 6, a0 + 6 + w), (t1, t1 + w)), ((a0 + 1, a0 + 1 + w), (t2, t2 + w))]
    if rng.random() < 0.5:
        match_blocks = [(match_blocks[0][0], (t2, t2 + w)), (match_blocks[1][0], (t1, t1 + w))]
    layout = dict(ref_blocks=ref_blocks, match_blocks=match_blocks, trans_idx=[])
    c = fibre.make_case(rng, double=double, nx=nx, nt=rng.randint(1, 4), span=rng.choice([20.0, 100.0, 500.0]), noise=0.0,
                        var_kind=rng.choice(["float", "array", "callable"]), layout=layout, irregular=rng.random() < 0.3)
    return c, {}, "free:unordered-pairs", True


def run_one(ctx, c, opts, kind, front):
    desc = calib.case_desc(c, opts)
    out, _ = calib.run_real(c, **opts)
    T = c.truth["T"]
    sig = [c.double, len(c.trans_att), front, kind, c.nx, c.nt]
    if isinstance(out, tuple):
        ctx.fail(f"calibration of model-consistent data raised {out[1]}: {out[2]}", desc)
        ctx.case(sig=sig, nontrivial=True)
        return
    m = calib.run_model(ctx, c, code_weight_order=False, want_cov=False, **calib.fix_to_model(opts))
    gauge = len(c.trans_att) if c.double else 0
    if m is None or m["rank"] < len(m["active"]) - gauge:
        ctx.skip("exact model: configuration not identifiable (beyond the splice gauge)")
        return
    bad = None
    err_f = np.abs(out["tmpf"].values - T)
    names = [("tmpf", err_f)]
    if c.double:
        names += [("tmpb", np.abs(out["tmpb"].values - T)), ("tmpw", np.abs(out["tmpw"].values - T))]
    for name, err in names:
        if not np.all(np.isfinite(err)) or err.max() > 1e-5:
            i, j = np.unravel_index(int(np.nanargmax(np.where(np.isfinite(err), err, np.inf))), err.shape)
            bad = f"{name}[{i},{j}] deviates {err[i, j]:.3g} K from the true temperature (x={c.x[i]:.6g})"
            break
    if bad is None and abs(float(out["gamma"].values) - c.truth["gamma"]) > 1e-6 * c.truth["gamma"]:
        bad = f"gamma {float(out['gamma'].values)!r} not recovered (true {c.truth['gamma']!r})"
    if bad is None and not c.double and "fix_alpha" not in opts:
        if abs(float(out["dalpha"].values) - c.truth["dalpha"]) > 1e-9 + 1e-6 * abs(c.truth["dalpha"]):
            bad = f"dalpha {float(out['dalpha'].values)!r} not recovered (true {c.truth['dalpha']!r})"
    if bad:
        ctx.fail(bad, desc)
    # correspondence with the exact model
    if gauge == 0:
        tm = fibre.dymat(m["tmpf"])
        if np.nanmax(np.abs(tm - out["tmpf"].values)) > 1e-6:
            ctx.mismatch("Calib.calibrate tmpf (noise-free)", desc, float(np.nanmax(np.abs(tm - T))), float(np.nanmax(err_f)))
    ctx.case(sig=sig, nontrivial=float(np.ptp(T)) > 1.0,
             sample=dict(kind=kind, front_only=front, max_err_K=float(err_f.max()), **desc))
    ctx.count(("double" if c.double else "single") + ":nta%d:%s:%s" % (len(c.trans_att), "front+match" if front else "refs", kind))


def reuse_object_case(ctx, rng, double):
    """one Dataset object calibrated, then given the data of a second (equally model-consistent) measurement campaign IN PLACE — new
    intensities and new bath series under the same names and the same section definitions — and calibrated again: the second result has
    to be the truth of the second campaign (nothing remembered from the first call)"""
    import random
    seed = rng.randrange(2**31)
    kw = dict(double=double, nx=rng.randint(16, 24), nt=rng.randint(2, 4), span=rng.choice([50.0, 200.0]), noise=0.0, n_baths=2, n_stretch=3,
              nta=0, n_match=0, var_kind="float", irregular=False)
    c1 = fibre.make_case(random.Random(seed), bath_temps=[8.0, 31.0], **kw)
    c2 = fibre.make_case(random.Random(seed), bath_temps=[17.0, 45.0], **kw)
    if c1.sections != c2.sections or not np.array_equal(c1.x, c2.x):
        ctx.skip("re-use case: the two campaigns do not share the layout")
        return
    out1, _ = calib.run_real(c1)
    for k in c2.ds.data_vars:          # the same object receives the second campaign
        c1.ds[k] = c2.ds[k]
    c2.ds = c1.ds
    run_one(ctx, c2, {}, "free:same-object-second-campaign", False)
    ctx.count("same Dataset object calibrated twice with other reference series")


def batch(ctx, n):
    done = tries = 0
    for double in (True, False):
        run_one(ctx, *build_lead_in_match(ctx.rng, double))
        run_one(ctx, *build_unordered_pairs(ctx.rng, double))
        run_one(ctx, fibre.splice_at_last_reference_case(ctx.rng, double, noise=0.0), {}, "free:splice-at-last-reference", True)
        reuse_object_case(ctx, ctx.rng, double)
    while done < n and tries < 20 * n:
        tries += 1
        b = build(ctx.rng, ctx.quick)
        if b is None:
            continue
        run_one(ctx, *b)
        done += 1


def run(ctx):
    n = 80 if ctx.quick else 640
    core.parallel_cases(ctx, batch, [(n // 8,)] * 8, jobs=8)


def search(ctx):
    for _ in range(200):
        b = build(ctx.rng, True)
        if b is None:
            continue
        run_one(ctx, *b)
        if ctx.failures:
            return


def replay(path):
    return calib.replay_with_data(path, "C03", lambda ctx, c, opts: run_one(ctx, c, opts, "replay", False))
