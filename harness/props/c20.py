"""C20 — per-section statistics see exactly the data of the sections, in fibre order.
Correspondence: ufunc_per_section (accessor and section_utils entry points) vs gathers along the Lean model's index lists
(`orderStretch/orderSection/orderAll`, `selIdx`, `bathOfRow`).  Oracle: the property text evaluated directly (select by
coordinate, concatenate in ascending x)."""
import json
import warnings

import numpy as np

import core
import secgen
from core import rj

RULE = ("random valid layouts (1-6 stretches, 1-3 baths, dict order shuffled, regular/irregular grids, endpoints on and between "
        "grid points) x calc_per x {x_indices, label, temp_err, ref_temp_broadcasted, subtract_from_label} x numpy/dask x "
        "(x,)/(x,time) x func in {None, len, 'var', np.mean}; distinct = (mode, calc_per, backing, ndim, layout class); "
        "non-trivial = at least two stretches not listed in ascending order")
ASSUMPTIONS = ["temp_err / ref_temp_broadcasted are judged only for (x,time) variables (DESIGN §8 C20 validity matrix)"]

MODES = ["x_indices", "label", "temp_err", "ref", "subtract"]
FUNCS = [None, len, "var", np.mean]


def call_real(ds, sec, entry, mode, calc_per, label, func):
    import dtscalibration  # noqa: F401
    from dtscalibration.calibration.section_utils import ufunc_per_section as ups
    kw = dict(calc_per=calc_per)
    if func is not None:
        kw["func"] = func
    if mode == "x_indices":
        kw["x_indices"] = True
    elif mode == "label":
        kw["label"] = label
    elif mode == "temp_err":
        kw.update(label=label, temp_err=True)
    elif mode == "ref":
        kw.update(label=label, ref_temp_broadcasted=True)
    elif mode == "subtract":
        kw.update(label=label, subtract_from_label="ast" if label == "st" else "prof")
    with warnings.catch_warnings(), np.errstate(all="ignore"):
        warnings.simplefilter("ignore")
        if entry == "accessor":
            return ds.dts.ufunc_per_section(sections=sec, **kw)
        return ups(ds, sec, **kw)


def compute(o):
    if hasattr(o, "compute"):
        o = o.compute()
    if isinstance(o, dict):
        return {k: compute(v) for k, v in o.items()}
    if isinstance(o, list):
        return [compute(v) for v in o]
    return o


def apply_func(func, arrs, concat):
    with warnings.catch_warnings(), np.errstate(all="ignore"):
        warnings.simplefilter("ignore")
        return _apply_func(func, arrs, concat)


def _apply_func(func, arrs, concat):
    a = np.concatenate(arrs, axis=0) if concat else arrs
    if func is None:
        return a
    if func == "var":
        return np.var(a, ddof=1)
    return func(a)


def piece(ds, keys, mode, label, bath, idx):
    idx = np.asarray(idx, dtype=int)
    if mode == "x_indices":
        return idx
    v = ds[label].values[idx]
    if mode == "label":
        return v
    ref = ds[keys[bath]].values
    if mode == "temp_err":
        return v - ref
    if mode == "ref":
        return np.broadcast_to(ref, v.shape)
    other = ds["ast" if label == "st" else "prof"].values[idx]
    return v - other


def expected(ds, keys, order, mode, calc_per, label, func):
    """order: for 'stretch'/'section' a list (per bath) of [bath, k, idx]; for 'all' a flat list"""
    if calc_per == "all":
        return apply_func(func, [piece(ds, keys, mode, label, b, idx) for b, _, idx in order], True)
    out = {}
    for bi, lst in enumerate(order):
        ps = [piece(ds, keys, mode, label, b, idx) for b, _, idx in lst]
        out[keys[bi]] = [apply_func(func, p, False) for p in ps] if calc_per == "stretch" else apply_func(func, ps, True)
    return out


def oracle_order(xs, d, calc_per):
    """the property text: values at the locations inside the stretches; per stretch in the order given, per bath and over
    all baths in ascending x"""
    sel = lambda a, b: [i for i, x in enumerate(xs) if a <= x <= b]
    if calc_per == "stretch":
        return [[[bi, k, sel(a, b)] for k, (a, b) in enumerate(v)] for bi, (_, v) in enumerate(d)]
    if calc_per == "section":
        out = []
        for bi, (_, v) in enumerate(d):
            rows = sorted((i for a, b in v for i in sel(a, b)))
            out.append([[bi, 0, rows]])
        return out
    rows = sorted((i, bi) for bi, (_, v) in enumerate(d) for a, b in v for i in sel(a, b))
    return [[bi, 0, [i]] for i, bi in rows]


def same(a, b, exact):
    if isinstance(a, dict):
        return isinstance(b, dict) and list(a) == list(b) and all(same(a[k], b[k], exact) for k in a)
    if isinstance(a, list):
        return isinstance(b, list) and len(a) == len(b) and all(same(x, y, exact) for x, y in zip(a, b))
    a, b = np.asarray(a), np.asarray(b)
    if a.shape != b.shape:
        return False
    nan_ok = a.dtype.kind == "f" and b.dtype.kind == "f"
    if exact:
        return np.array_equal(a, b, equal_nan=nan_ok)
    return np.allclose(a, b, rtol=1e-12, atol=1e-12, equal_nan=nan_ok)


def short(o):
    if isinstance(o, dict):
        return {k: short(v) for k, v in o.items()}
    if isinstance(o, list):
        return [short(v) for v in o]
    a = np.asarray(o)
    return a.tolist() if a.size <= 12 else f"array{a.shape}"


def check(ctx, xs, d, mode, calc_per, label, func, dask, entry, seed):
    import random
    keys = [k for k, _ in d]
    ds = secgen.mk_ds(xs, keys, nt=3, rng=random.Random(seed), dask=dask)
    sec = secgen.to_sections(d)
    fname = {None: "None", len: "len", "var": "var", np.mean: "mean"}[func]
    case = dict(xs=xs, dict=d, mode=mode, calc_per=calc_per, label=label, func=fname, dask=dask, entry=entry, seed=seed)
    m = ctx.driver().call("sections.eval", xs=[rj(v) for v in xs], dict=secgen.dict_to_json(d), present=[True] * len(d))
    judged = not (mode in ("temp_err", "ref") and label == "prof")
    try:
        got = compute(call_real(ds, sec, entry, mode, calc_per, label, func))
    except Exception as e:
        got = ("raised", type(e).__name__, str(e)[:200])
    dsn = ds.compute() if dask else ds
    exact = func is None or func is len  # var/mean: summation order may differ (round-off), compared to 1e-12
    if not judged:
        ctx.count("recorded-not-judged:" + ("raised" if isinstance(got, tuple) else "returned"))
    elif isinstance(got, tuple):
        ctx.mismatch("Sections.ufunc", case, "returns", got)
        ctx.fail(f"ufunc_per_section raised {got[1]}: {got[2]}", case)
    else:
        want_m = expected(dsn, keys, m[calc_per], mode, calc_per, label, func)
        if not same(got, want_m, exact):
            ctx.mismatch("Sections.order+selIdx", case, short(want_m), short(got))
        want_o = expected(dsn, keys, oracle_order(xs, d, calc_per), mode, calc_per, label, func)
        if not same(got, want_o, exact):
            ctx.fail("func did not receive exactly the values at the locations inside the stretches in fibre order "
                     f"(mode={mode}, calc_per={calc_per}, func={fname})", case, detail=dict(got=short(got), want=short(want_o)))
    # a sequence: the caller works on what it was handed (in place), then asks again — on this dataset and on a fresh one of the same
    # size: the answers have to be the same as the first time (what is returned belongs to the caller; nothing is remembered)
    if judged and not isinstance(got, tuple) and not dask and seed % 4 == 0:
        import copy
        first = copy.deepcopy(got)

        def scribble(o):
            if isinstance(o, dict):
                for v in o.values():
                    scribble(v)
            elif isinstance(o, list):
                for v in o:
                    scribble(v)
            elif isinstance(o, np.ndarray) and o.flags.writeable and o.size:
                o[...] = -7
        try:
            raw = call_real(ds, sec, entry, mode, calc_per, label, func)
            scribble(raw)
            ds2 = secgen.mk_ds(xs, keys, nt=3, rng=random.Random(seed), dask=False)
            for tag, dsx in (("the same dataset", ds), ("a fresh dataset of the same size", ds2)):
                again = compute(call_real(dsx, sec, entry, mode, calc_per, label, func))
                if mode in ("x_indices", "ref") and not same(again, first, exact):
                    ctx.fail(f"after the caller edited a returned array in place, the same request on {tag} gives another answer "
                             f"(mode={mode}, calc_per={calc_per}, func={fname})", case, detail=dict(first=short(first), again=short(again)))
                    break
            ctx.count("asked again after editing the returned arrays")
        except Exception as e:  # noqa: BLE001
            ctx.fail(f"asking again raised {type(e).__name__}: {str(e)[:200]}", case)
    starts = [a for _, v in d for a, _ in v]
    nontriv = len(starts) >= 2 and starts != sorted(starts)
    ctx.case(sig=[mode, calc_per, dask, label, fname, entry, len(starts), nontriv, len(d)], nontrivial=nontriv,
             sample=dict(case=case, result=short(got)) if judged else None)
    ctx.count(f"{mode}/{calc_per}")


def run(ctx):
    rng = ctx.rng
    n = 2000 if ctx.quick else 20000
    for it in range(n):
        xs, d = secgen.random_layout(rng, max_stretches=6, valid_bias=1.0)
        ok, _ = secgen.usable(xs, d, [k for k, _ in d])
        starts = sorted((a, b) for _, v in d for a, b in v)
        chain = all(s[1] <= t[0] for s, t in zip(starts, starts[1:])) and all(a <= b for a, b in starts)
        if not ok or not chain:
            ctx.skip("layout not valid")
            continue
        mode = MODES[it % len(MODES)]
        calc_per = ["stretch", "section", "all"][(it // len(MODES)) % 3]
        label = "st" if rng.random() < 0.7 else "prof"
        func = FUNCS[rng.randrange(4)] if mode != "x_indices" or rng.random() < 0.5 else None
        if mode == "x_indices" and func in ("var", np.mean):
            func = None
        dask = rng.random() < 0.3 and mode != "x_indices"
        entry = "accessor" if rng.random() < 0.6 else "section_utils"
        check(ctx, xs, d, mode, calc_per, label, func, dask, entry, rng.randrange(2**30))


def search(ctx):
    for mm in list(ctx.mismatches)[:20]:
        c = mm["case"]
        f = {"None": None, "len": len, "var": "var", "mean": np.mean}[c["func"]]
        check(ctx, c["xs"], [(k, [tuple(s) for s in v]) for k, v in c["dict"]], c["mode"], c["calc_per"], c["label"], f,
              c["dask"], c["entry"], c["seed"])
        if ctx.failures:
            return


def replay(path):
    r = json.loads(open(path).read())
    c = r.get("case")
    if not c:
        print("no concrete input in replay file:", json.dumps(r.get("no_longer_checks"))[:2000])
        return 1
    ctx = core.Ctx("C20", "quick", 0)
    f = {"None": None, "len": len, "var": "var", "mean": np.mean}[c["func"]]
    check(ctx, c["xs"], [(k, [tuple(s) for s in v]) for k, v in c["dict"]], c["mode"], c["calc_per"], c["label"], f,
          c["dask"], c["entry"], c["seed"])
    if ctx.drv:
        ctx.drv.close()
    print("property fails on this input:" if ctx.failures else "property holds on this input", ctx.failures[:1])
    return 1 if ctx.failures else 0
