"""C19 — unusable inputs are refused instead of producing numbers.
Every C01/C02 quick input with exactly one corruption at every site (each intensity variable x each reference location x
first/middle/last time; each reference series; each variance argument; each option).  Correspondence: raise/return vs the Lean
guard model `Guards.verdict` (abstract IEEE classes).  Oracle: the property's refusal list, and finiteness of every output at
locations whose intensities are finite and positive whenever the calibration returns."""
import json
import math

import numpy as np
import xarray as xr

import calib
import core
import fibre

RULE = ("2 (quick) / 12 (thorough) base inputs (single and double) x every single corruption: variable x reference location x "
        "{first, middle, last} time x {0, -1, nan, +inf, -inf}; reference temperature x {nan, +-inf}; each variance argument x "
        "{nan, inf, -1, -1e-3} (float, array entry); short fix_alpha; transposed intensities; unknown method / solver; plus "
        "benign non-finite values OUTSIDE the sections; distinct = (site, class, variable, location class); every case counts")
ASSUMPTIONS = ["abstract float classes model numpy's comparison/log/division semantics (validated row by row here)"]

VALS = {"zero": 0.0, "neg": -1.0, "nan": float("nan"), "inf": float("inf"), "-inf": float("-inf")}


def run(c, **kw):
    out, _ = calib.run_real(c, **kw)
    return out


def verdict_of(out):
    return "raises" if isinstance(out, tuple) else "returns"


def finite_where_valid(c, out):
    """whenever a calibration returns, outputs are finite where all intensities are finite and positive"""
    ds = c.ds
    names = ["st", "ast"] + (["rst", "rast"] if c.double else [])
    good = np.ones((c.nx, c.nt), dtype=bool)
    for n in names:
        v = ds[n].values
        good &= np.isfinite(v) & (v > 0)
    for k in ["tmpf", "tmpf_var"] + (["tmpb", "tmpb_var", "tmpw", "tmpw_var"] if c.double else []):
        v = out[k].values
        if not np.all(np.isfinite(v[good])):
            i, j = np.argwhere(good & ~np.isfinite(v))[0]
            return f"{k}[{i},{j}] is not finite although all intensities at that location/time are finite and positive"
    return None


def one(ctx, c, site, cls, label, mutate=None, kw=None, must_raise=True):
    import copy
    d = copy.copy(c)
    d.ds = c.ds.copy(deep=True)
    d.var_args = dict(c.var_args)
    if mutate:
        mutate(d)
    out = run(d, **(kw or {}))
    got = verdict_of(out)
    case = dict(site=site, cls=cls, what=label, base=calib.case_desc(c))
    if site is not None:
        m = ctx.driver().call("guard", site=site, cls=cls)["verdict"]
        if m != got:
            ctx.mismatch("Guards.verdict", case, m, got)
    if must_raise and got != "raises":
        ctx.fail(f"calibration returned numbers for an unusable input: {label}", case)
    if got == "returns":
        bad = finite_where_valid(d, out)
        if bad:
            ctx.fail(bad + f" ({label})", case)
    ctx.case(sig=[site, cls, label.split("@")[0], c.double], nontrivial=True, sample=dict(site=site, cls=cls, what=label, verdict=got))
    ctx.count(f"{site}:{cls}:{got}")


def corrupt_all(ctx, c):
    rng = ctx.rng
    ixs = fibre.ix_sec(c)
    locs = sorted({ixs[0], ixs[len(ixs) // 2], ixs[-1]}) if ctx.quick else ixs
    times = sorted({0, c.nt // 2, c.nt - 1})
    names = ["st", "ast"] + (["rst", "rast"] if c.double else [])
    for n in names:
        site = "numer" if n in ("st", "rst") else "denom"
        for i in locs:
            for t in times:
                for cls, val in VALS.items():
                    def mut(d, n=n, i=i, t=t, val=val):
                        a = d.ds[n].values.copy(); a[i, t] = val; d.ds[n] = (("x", "time"), a)
                    one(ctx, c, site, cls, f"{n}={val}@section location {i}, time {t}", mut)
    # benign: non-finite / non-positive values outside every section must not stop the calibration
    used = set(ixs) | {i for p in fibre.match_pairs(c) for i in p}
    free = [i for i in range(c.nx) if i not in used]
    if free and all(not callable(v) for v in c.var_args.values()):
        for n in names[:2]:
            i = rng.choice(free)
            for cls in ("nan", "zero"):
                def mut(d, n=n, i=i, cls=cls):
                    a = d.ds[n].values.copy(); a[i, 0] = VALS[cls]; d.ds[n] = (("x", "time"), a)
                one(ctx, c, None, cls, f"{n}={VALS[cls]}@unreferenced location {i}", mut, must_raise=False)
    # reference temperatures
    for k in c.keys:
        for cls in ("nan", "inf", "-inf"):
            def mut(d, k=k, cls=cls):
                a = d.ds[k].values.copy(); a[rng.randrange(c.nt)] = VALS[cls]; d.ds[k] = (("time",), a)
            one(ctx, c, "tref", cls, f"reference temperature {k}={VALS[cls]}", mut)
    # variances
    for n in names:
        for cls, val in (("nan", float("nan")), ("inf", float("inf")), ("neg", -1.0), ("neg", -1e-3)):
            one(ctx, c, "variance", cls, f"{n}_var={val} (float)", kw={n + "_var": val})
            arr = np.array(c.var_mats[n], dtype=float).copy()
            arr[ixs[0], 0] = val
            one(ctx, c, "variance", cls, f"{n}_var[{ixs[0]},0]={val} (array)", kw={n + "_var": arr})
            # the same unusable value produced by a callable noise model (everywhere / at one reference location)
            one(ctx, c, "variance", cls, f"{n}_var=callable returning {val} everywhere", kw={n + "_var": (lambda s, val=val: s * 0.0 + val)})

            def spot(s, val=val, n=n):
                out = s * 0.0 + float(np.mean(c.var_mats[n]))
                vals = np.array(out.values, dtype=float)
                vals[ixs[0], 0] = val
                return out.copy(data=vals)
            one(ctx, c, "variance", cls, f"{n}_var=callable giving {val} at [{ixs[0]},0]", kw={n + "_var": spot})
    # options
    short = (np.zeros(c.nx - 1), np.zeros(c.nx - 1))
    one(ctx, c, "fix_alpha_short", "pos", "fix_alpha does not cover every location", kw={"fix_alpha": short})
    def transpose(d):
        for n in names:
            d.ds[n] = (("time", "x"), d.ds[n].values.T.copy())
    one(ctx, c, "transposed", "pos", "intensities stored as (time, x)", transpose)
    # a mixed layout: one array (or every array but one) stored as (time, x), the others as (x, time)
    subsets = [[n] for n in names] + ([[m for m in names if m != n] for n in names] if len(names) > 2 else [])
    for sub in subsets:
        def transpose_some(d, sub=sub):
            for n in sub:
                d.ds[n] = (("time", "x"), d.ds[n].values.T.copy())
        one(ctx, c, "transposed", "pos", f"{'+'.join(sub)} stored as (time, x), the other intensities as (x, time)", transpose_some)
        # with scalar variances nothing downstream can stumble over the shapes: the orientation check itself has to refuse
        one(ctx, c, "transposed", "pos", f"{'+'.join(sub)} stored as (time, x), the other intensities as (x, time); scalar variances",
            transpose_some, kw={n + "_var": float(np.mean(c.var_mats[n])) for n in names})
    one(ctx, c, "bad_method", "pos", "method='nonsense'", kw={"method": "nonsense"})
    one(ctx, c, "bad_solver", "pos", "solver='nonsense'", kw={"solver": "nonsense"})
    if c.double:
        one(ctx, c, "bad_solver", "pos", "solver='nonsense' with fix_gamma", kw={"solver": "nonsense", "fix_gamma": (480.0, 1.0)})
    # the uncorrupted input returns, finite
    one(ctx, c, "numer", "pos", "uncorrupted", must_raise=False)


def run(ctx_or_c, **kw):  # noqa: F811  (dispatch: the harness calls run(ctx); helpers call run(case, **opts))
    if isinstance(ctx_or_c, core.Ctx):
        return run_ctx(ctx_or_c)
    out, _ = calib.run_real(ctx_or_c, **kw)
    return out


def zero_dof_case(ctx, rng):
    """as many observations as unknowns (double-ended, one time step, two splices, three reference stretches of two locations: 12 and
    12): the residual variance is 0/0.  Such a calibration has to be refused; if it returns, everything has to be finite"""
    a0 = rng.randint(3, 5)
    nx = a0 + 16
    layout = dict(ref_blocks=[(a0, a0 + 1, 0), (a0 + 4, a0 + 5, 1), (a0 + 8, a0 + 9, 0)], match_blocks=[], trans_idx=[(a0 - 2, False), (a0 + 12, False)])
    c = fibre.make_case(rng, double=True, nx=nx, nt=1, layout=layout, noise=0.005, var_kind="float", irregular=False)
    one(ctx, c, None, "pos", "no residual degrees of freedom (12 observations, 12 unknowns)", must_raise=False)
    ctx.count("zero degrees of freedom")


def run_ctx(ctx):
    n = 2 if ctx.quick else 12
    for k in range(n):
        double = k % 2 == 1
        c = fibre.make_case(ctx.rng, double=double, nx=ctx.rng.randint(12, 20), nt=ctx.rng.randint(2, 3), n_baths=2, n_stretch=3,
                            nta=ctx.rng.choice([0, 1]), n_match=0, noise=0.005, var_kind=ctx.rng.choice(["float", "array"]))
        corrupt_all(ctx, c)
    zero_dof_case(ctx, ctx.rng)


def search(ctx):
    run_ctx(ctx)


def replay(path):
    return core.replay_by_seed("C19", path)
