"""C10 — Stokes noise-variance estimators recover a planted noise level.
Correspondence (exact): with the fitting helpers replaced by tagging stubs, the reshaped residual array of
variance_stokes_constant / _exponential and the (intensity, residual) pairs of variance_stokes_linear are compared with the Lean
model `Resid.placement / reshaped` for layouts in arbitrary dictionary order; `resid.var(ddof=1)` vs `Resid.sampleVar`.
Oracle / statistics: planted noise s2 -> estimate within the chi-square 6-sigma band of s2*(1 - p/n); ~0 for noise-free data;
x k^2 under scaling; independent of the order of sections; planted var = a*st + b recovered by variance_stokes_linear."""
import json
import warnings

import numpy as np
import xarray as xr

import core
import secgen
from core import rj

RULE = ("1-3 baths x 1-3 stretches (5-40 points each) in shuffled dictionary order, 4-30 times (quick); tagged placement for all "
        "three estimators; planted noise 0..5 % for constant / exponential, planted linear variance for the linear estimator; "
        "distinct = (estimator, #stretches, order class, nt); non-trivial = stretches not listed in ascending order or >= 2 baths")
ASSUMPTIONS = ["Powell / LSQR converge (observed); estimates judged within 6 sigma of the chi-square law of the residual variance"]


def layout(rng, big=False, multi=False):
    """multi: at least one bath with two stretches (each stretch has its own time series in the planted data)"""
    ns = rng.randint(3, 4) if multi else rng.randint(1, 4)
    lens = [rng.randint(5, 12 if not big else 40) for _ in range(ns)]
    gaps = [rng.randint(1, 3) for _ in range(ns + 1)]
    nx = sum(lens) + sum(gaps)
    x = np.arange(nx) * 0.5 + 2.0
    blocks, i = [], gaps[0]
    for k, ln in enumerate(lens):
        blocks.append((i, i + ln - 1))
        i += ln + gaps[k + 1]
    order = list(range(ns))
    rng.shuffle(order)
    nb = rng.randint(1, min(2 if multi else 3, ns))
    d = [("bath%d" % b, []) for b in range(nb)]
    for n_, k in enumerate(order):
        i0, i1 = blocks[k]
        d[n_ % nb][1].append((float(x[i0]) - 0.125, float(x[i1]) + 0.125))
    return x, [kv for kv in d if kv[1]], blocks


def sel(x, a, b):
    return [i for i, v in enumerate(x) if a <= v <= b]


def rows_in_dict_order(x, d):
    return [i for _, v in d for a, b in v for i in sel(x, a, b)]


def placement_case(ctx, rng):
    import dtscalibration.variance_stokes as vs
    x, d, _ = layout(rng)
    nt = rng.randint(3, 6)
    nx = len(x)
    r = np.random.default_rng(rng.randrange(2**31))
    st = xr.DataArray(500 + 100 * r.random((nx, nt)), dims=("x", "time"), coords={"x": x, "time": np.arange(nt)})
    sec = secgen.to_sections(d)
    rows = rows_in_dict_order(x, d)
    m = ctx.driver().call("resid.place", xs=[rj(v) for v in x], dict=secgen.dict_to_json(d))
    case = dict(x=x.tolist(), sections=d, nt=nt)
    starts = [a for _, v in d for a, _ in v]
    nontriv = len(starts) >= 2 and starts != sorted(starts)
    want = np.full((nx, nt), np.nan)
    tag = np.add.outer(np.arange(len(rows)) * 1000.0, np.arange(nt))
    for rr, g in enumerate(rows):
        want[g] = tag[rr]
    model = np.full((nx, nt), np.nan)
    for g, rr in enumerate(m["reshaped"]):
        if rr is not None:
            model[g] = tag[rr]
    # the Stokes may be held in memory or be a lazily evaluated (dask) array, in any chunking: same residual array either way
    backings = [("numpy", st), ("dask", st.chunk({"x": rng.randint(1, max(1, nx // 2)), "time": rng.randint(1, nt)}))]
    for backing, st_in in backings:
        # --- constant
        orig = vs.variance_stokes_constant_helper
        vs.variance_stokes_constant_helper = lambda data_dict: (1.0, tag.copy())
        try:
            _, res = vs.variance_stokes_constant(st_in, sec, np.ones(nt), reshape_residuals=True)
            got = np.asarray(res.values)
        except Exception as e:  # noqa: BLE001
            got = None
            ctx.fail(f"variance_stokes_constant raised {type(e).__name__}: {e}", case)
        finally:
            vs.variance_stokes_constant_helper = orig
        if got is not None:
            if not np.array_equal(got, model, equal_nan=True):
                ctx.mismatch("Resid.reshaped (constant)", case, m["reshaped"], "see replay")
            if not np.array_equal(got, want, equal_nan=True):
                ctx.fail(f"variance_stokes_constant ({backing} input): residual rows are not at their own reference locations (NaN elsewhere)", case)
        # --- exponential: y of a stretch is time-major: index t*len + l
        origE = vs.variance_stokes_exponential_helper

        def stubE(nt_, x_, y_, len_list, use_sm, supp):
            out, r0 = [], 0
            for ln in len_list:
                blockt = tag[r0:r0 + ln]            # (ln, nt)
                out.append(blockt.T.reshape(-1))    # time-major
                r0 += ln
            return 1.0, np.concatenate(out)

        vs.variance_stokes_exponential_helper = stubE
        try:
            _, res = vs.variance_stokes_exponential(st_in, sec, np.ones(nt), reshape_residuals=True, suppress_info=True)
            got = np.asarray(res.values)
            if not np.array_equal(got, model, equal_nan=True):
                ctx.mismatch("Resid.reshaped (exponential)", case, m["reshaped"], "see replay")
            if not np.array_equal(got, want, equal_nan=True):
                ctx.fail(f"variance_stokes_exponential ({backing} input): residual rows are not at their own reference locations (NaN elsewhere)", case)
        except Exception as e:  # noqa: BLE001
            ctx.fail(f"variance_stokes_exponential raised {type(e).__name__}: {e}", case)
        finally:
            vs.variance_stokes_exponential_helper = origE
        ctx.count("placement backing " + backing)
    # --- linear: intensity and residual of the same observation are paired
    origC, origL = vs.variance_stokes_constant, vs.variance_stokes_linear_helper
    cap = {}
    vs.variance_stokes_constant = lambda sections, st, acquisitiontime, reshape_residuals: (1.0, st.values[rows])
    vs.variance_stokes_linear_helper = lambda st_sec, resid_sec, nbin, tz: cap.update(st=np.array(st_sec), resid=np.array(resid_sec)) or (0, 0, 0, 0, 0, None)
    try:
        vs.variance_stokes_linear(st, sec, np.ones(nt), nbin=5)
        if not np.array_equal(cap["st"], cap["resid"]):
            ctx.fail("variance_stokes_linear pairs residuals with the intensities of other observations", case)
        if not np.array_equal(cap["st"], st.values[m["placement"]].ravel()):
            ctx.mismatch("Resid.placement (linear)", case, m["placement"], "see replay")
    except Exception as e:  # noqa: BLE001
        ctx.fail(f"variance_stokes_linear raised {type(e).__name__}: {e}", case)
    finally:
        vs.variance_stokes_constant, vs.variance_stokes_linear_helper = origC, origL
    if m["placement"] != rows:
        ctx.fail("model placement differs from the dictionary-order rows (oracle)", case)
    ctx.case(sig=["placement", len(starts), nontriv, nt], nontrivial=nontriv, sample=dict(case, rows=rows))
    ctx.count("placement")


def sample_var_case(ctx, rng):
    r = np.random.default_rng(rng.randrange(2**31))
    a = np.round(r.normal(size=(int(r.integers(2, 8)), int(r.integers(2, 5)))) * 256) / 256
    m = ctx.driver().call("resid.var", values=[rj(v) for v in a.ravel()])
    mod = float(core.unrj(m["var"]))
    if abs(mod - a.var(ddof=1)) > 1e-12 * max(1, abs(mod)):
        ctx.mismatch("Resid.sampleVar", a.tolist(), mod, float(a.var(ddof=1)))
    ctx.case(sig=["var", a.shape], nontrivial=True)
    ctx.count("sampleVar")


def planted_case(ctx, rng, estimator, noise, multi=False):
    from dtscalibration.variance_stokes import variance_stokes_constant, variance_stokes_exponential
    x, d, blocks = layout(rng, multi=multi)
    nt = rng.randint(6, 30)
    nx = len(x)
    r = np.random.default_rng(rng.randrange(2**31))
    clean = np.zeros((nx, nt))
    for i0, i1 in blocks:
        n = i1 - i0 + 1
        if estimator == "constant":
            clean[i0:i1 + 1] = (800 + 400 * r.random(n))[:, None] * (1 + 0.1 * r.random(nt))[None, :]
        else:
            beta = -r.uniform(0.001, 0.01)
            G = 7 + 0.1 * r.random(nt)
            clean[i0:i1 + 1] = np.exp(G)[None, :] * np.exp(beta * (x[i0:i1 + 1] - x[i0]))[:, None]
    sd = noise * 1000.0
    data = clean + r.normal(0, 1, clean.shape) * sd
    fn = variance_stokes_constant if estimator == "constant" else variance_stokes_exponential
    kw = {} if estimator == "constant" else {"suppress_info": True}
    sec = secgen.to_sections(d)
    mk = lambda arr: xr.DataArray(arr, dims=("x", "time"), coords={"x": x, "time": np.arange(nt)})
    case = dict(estimator=estimator, noise_sd=sd, nt=nt, x=x.tolist(), sections=d)
    with warnings.catch_warnings():
        warnings.simplefilter("ignore")
        try:
            est, _ = fn(mk(data), sec, np.ones(nt), reshape_residuals=False, **kw)
            est = float(np.asarray(est))     # the exponential estimator hands back a 0-d (dask) array
            n = sum(i1 - i0 + 1 for i0, i1 in blocks) * nt
            p = sum((i1 - i0 + 1) + nt for i0, i1 in blocks) if estimator == "constant" else len(blocks) * (1 + nt)
            if noise == 0:
                # "~0": LSQR stops at a relative tolerance of 1e-6, so the residuals of an exact fit are of the order 1e-5 of the
                # signal (several stretches: larger system, a few times more); a defect of the estimator gives 1e-4 .. 1 of signal^2
                if est > 1e-8 * float(np.mean(clean[clean > 0] ** 2)):
                    ctx.fail(f"{estimator}: estimate {est:.3g} for noise-free data that follow the estimator's model", case)
            else:
                want = sd**2 * (1 - p / n)
                band = 6 * np.sqrt(2.0 / max(n - p, 1)) + 0.03
                if abs(est / want - 1) > band:
                    ctx.fail(f"{estimator}: estimate {est:.5g} vs planted s2*(1-p/n) = {want:.5g} (relative band {band:.3f})", case)
                k = 10.0 ** rng.uniform(-2, 2)
                est_k, _ = fn(mk(data * k), sec, np.ones(nt), reshape_residuals=False, **kw)
                est_k = float(np.asarray(est_k))
                if abs(est_k / (k * k * est) - 1) > 1e-3:
                    ctx.fail(f"{estimator}: scaling the intensities by {k:.4g} scales the estimate by {est_k / est:.6g}, not k^2 = {k * k:.6g}", case)
                d2 = list(reversed([(kk, list(reversed(v))) for kk, v in d]))
                est_p, _ = fn(mk(data), secgen.to_sections(d2), np.ones(nt), reshape_residuals=False, **kw)
                est_p = float(np.asarray(est_p))
                if abs(est_p / est - 1) > 1e-6:
                    ctx.fail(f"{estimator}: estimate changes from {est!r} to {est_p!r} when the sections are listed in another order", case)
        except Exception as e:  # noqa: BLE001
            ctx.fail(f"{estimator} raised {type(e).__name__}: {e}", case)
    ctx.case(sig=[estimator, len(blocks), noise, nt], nontrivial=len(d) >= 2 or len(blocks) >= 2, sample=case)
    ctx.count(f"planted:{estimator}:{noise}")


def linear_case(ctx, rng):
    from dtscalibration.variance_stokes import variance_stokes_linear
    r = np.random.default_rng(rng.randrange(2**31))
    nt = 150
    nx = 60
    x = np.arange(nx) * 1.0
    a_, b_ = 0.02 * rng.uniform(0.5, 2), 2.0 * rng.uniform(0.5, 2)
    prof = 3000 * np.exp(-0.04 * x)            # intensities from ~3000 down to ~280: slope and offset are separable
    clean = prof[:, None] * (1 + 0.02 * r.random(nt))[None, :]
    data = clean + r.normal(0, 1, clean.shape) * np.sqrt(a_ * clean + b_)
    d = [("far", [(40.0, 59.0)]), ("near", [(0.0, 19.0)])]   # listed far-before-near
    st = xr.DataArray(data, dims=("x", "time"), coords={"x": x, "time": np.arange(nt)})
    nbin = rng.choice([5, 10, 23, 50, 100])
    case = dict(estimator="linear", a=a_, b=b_, nbin=nbin)
    with warnings.catch_warnings():
        warnings.simplefilter("ignore")
        slope, offset, sm, sv, _, fun = variance_stokes_linear(st, secgen.to_sections(d), np.ones(nt), nbin=nbin)
    for q in (400.0, 2500.0):
        want = a_ * q + b_
        got = float(fun(q)) / (1 - (20 + nt) * 2 / (40 * nt))   # bias of the residual variance, p/n of the constant fit
        if abs(got / want - 1) > 0.25:
            ctx.fail(f"variance_stokes_linear: predicted variance at st={q} is {got:.4g}, planted {want:.4g}", case)
    ctx.case(sig=["linear", nbin], nontrivial=True, sample=dict(case, slope=float(slope), offset=float(offset)))
    ctx.count("planted:linear")


def run(ctx):
    rng = ctx.rng
    for _ in range(30 if ctx.quick else 300):
        placement_case(ctx, rng)
    for _ in range(50):
        sample_var_case(ctx, rng)
    for k in range(10 if ctx.quick else 100):
        planted_case(ctx, rng, "constant" if k % 2 == 0 else "exponential", [0.0, 0.005, 0.02, 0.05][k % 4] if k % 4 else 0.0)
    # always present: a bath with several stretches (each with its own time series / decay), noise-free and noisy, both estimators
    for estimator in ("constant", "exponential"):
        for noise in (0.0, 0.02):
            planted_case(ctx, rng, estimator, noise, multi=True)
    for _ in range(2 if ctx.quick else 20):
        linear_case(ctx, rng)


def search(ctx):
    for _ in range(100):
        placement_case(ctx, ctx.rng)
        if ctx.failures:
            return


def replay(path):
    return core.replay_by_seed("C10", path)
