"""C14 — cable shift moves only the backward channel, by exactly the requested samples.
Correspondence: shift_double_ended vs Lean `Shift.shift` (source index of every output cell, exact);
suggest_cable_shift_double_ended vs Lean `Shift.suggest` (objectives in exact rationals, argmin compared when decisive)."""
import json
import warnings

import numpy as np
import xarray as xr

import core
from core import rj

RULE = ("all (nx<=12, |i|<nx) shifts with extra data variables, compositions and inverses; planted misalignments |i|<=10 on "
        "random fibres with temperature structure; distinct = (nx, i) resp. (nx, planted i, nt); non-trivial = i != 0")
ASSUMPTIONS = ["planted-shift oracle: noise-free Raman data with location-wise random temperatures (structure along x)"]


def mk(nx, nt=2, seed=0):
    r = np.random.default_rng(seed)
    tag = lambda base: base + np.add.outer(np.arange(nx) * 100.0, np.arange(nt))
    ds = xr.Dataset(
        {"st": (("x", "time"), tag(1e5)), "ast": (("x", "time"), tag(2e5)), "rst": (("x", "time"), tag(3e5)),
         "rast": (("x", "time"), tag(4e5)), "tmp": (("x", "time"), tag(5e5)), "prof": (("x",), np.arange(nx) * 1.0),
         "userAcquisitionTimeFW": (("time",), r.random(nt)), "bath": (("time",), r.random(nt)),
         "scalar": ((), 3.25)},
        coords={"x": np.arange(nx) * 0.5 + 3.0, "time": np.arange(nt).astype("datetime64[s]"),
                "acquisitiontimeFW": ("time", r.random(nt))},
        attrs={"isDoubleEnded": "1", "note": "keep me", "_sections": "null\n..."})
    ds["x"].attrs["units"] = "m"
    ds["st"].attrs["units"] = "-"
    return ds


def real_shift(ds, i):
    from dtscalibration.dts_accessor_utils import shift_double_ended
    with warnings.catch_warnings():
        warnings.simplefilter("ignore")
        return shift_double_ended(ds, int(i), verbose=False)


def src_index(out, ds, name):
    """decode which original x-index every output row of `name` came from (tags are unique); None if inconsistent"""
    base = {"st": 1e5, "ast": 2e5, "rst": 3e5, "rast": 4e5}[name]
    v = out[name].values
    idx = np.round((v[:, 0] - base) / 100.0).astype(int)
    ok = np.array_equal(v, ds[name].values[idx]) if v.size else True
    return idx.tolist() if ok else None


def check_shift(ctx, nx, i):
    ds = mk(nx, seed=nx * 31 + i)
    case = dict(op="shift", nx=nx, i=i)
    try:
        out = real_shift(ds, i)
    except Exception as e:
        ctx.mismatch("Shift.shift", case, "returns", ("raised", type(e).__name__, str(e)[:200]))
        ctx.fail(f"shift_double_ended raised {type(e).__name__}: {e}", case)
        ctx.case(sig=[nx, i], nontrivial=i != 0)
        return
    m = ctx.driver().call("shift", nx=nx, i=i)
    got = {k: src_index(out, ds, k) for k in ("st", "ast", "rst", "rast")}
    xidx = [int(round((v - 3.0) / 0.5)) for v in out.x.values]
    for k in ("st", "ast"):
        if got[k] != m["fwd"]:
            ctx.mismatch("Shift.shift.fwd", case, m["fwd"], got[k])
    for k in ("rst", "rast"):
        if got[k] != m["bwd"]:
            ctx.mismatch("Shift.shift.bwd", case, m["bwd"], got[k])
    if xidx != m["fwd"]:
        ctx.mismatch("Shift.shift.x", case, m["fwd"], xidx)
    # the property text, directly
    n = nx - abs(i)
    want_f = [j + i for j in range(n)] if i >= 0 else list(range(n))
    want_b = list(range(n)) if i >= 0 else [j - i for j in range(n)]
    bad = None
    if out.x.size != n:
        bad = f"{out.x.size} locations remain, expected nx-|i| = {n}"
    elif got["st"] != want_f or got["ast"] != want_f or xidx != want_f:
        bad = f"st/ast/x do not keep their own samples: st from {got['st']}, x from {xidx}, expected {want_f}"
    elif got["rst"] != want_b or got["rast"] != want_b:
        bad = f"rst/rast are not the original backward samples displaced by {i}: from {got['rst']}, expected {want_b}"
    else:
        for k in ("userAcquisitionTimeFW", "bath", "scalar"):
            if k not in out or not np.array_equal(out[k].values, ds[k].values):
                bad = f"time-only variable {k} not preserved"
        if dict(out.attrs) != dict(ds.attrs):
            bad = "attributes not preserved"
        if "acquisitiontimeFW" not in out.coords or not np.array_equal(out["time"].values, ds["time"].values):
            bad = "time coordinates not preserved"
        if i == 0 and not (np.array_equal(out["st"].values, ds["st"].values) and np.array_equal(out["rst"].values, ds["rst"].values)
                           and np.array_equal(out.x.values, ds.x.values)):
            bad = "i = 0 is not the identity"
    if bad:
        ctx.fail(bad, case)
    ctx.case(sig=[nx, i], nontrivial=i != 0, sample=dict(nx=nx, i=i, st_from=got["st"], rst_from=got["rst"]))
    ctx.count("shift")


def check_bare(ctx, nx, i):
    """a dataset that holds the four channels only: its time-only COORDINATES (acquisition times, start of the measurement) and the
    attributes of the coordinates are time-only variables / attributes too; i = 0 has to give back an identical dataset"""
    r = np.random.default_rng(nx * 17 + i)
    nt = 3
    tag = lambda base: base + np.add.outer(np.arange(nx) * 100.0, np.arange(nt))
    t = np.arange(nt).astype("datetime64[s]")
    ds = xr.Dataset({"st": (("x", "time"), tag(1e5)), "ast": (("x", "time"), tag(2e5)), "rst": (("x", "time"), tag(3e5)),
                     "rast": (("x", "time"), tag(4e5))},
                    coords={"x": np.arange(nx) * 0.5 + 3.0, "time": t, "acquisitiontimeFW": ("time", r.random(nt)),
                            "acquisitiontimeBW": ("time", r.random(nt)), "timestart": ("time", t - np.timedelta64(5, "s"))},
                    attrs={"isDoubleEnded": "1", "note": "keep me"})
    ds["time"].attrs["description"] = "end of the forward measurement"
    ds["x"].attrs["units"] = "m"
    ds["acquisitiontimeFW"].attrs["units"] = "s"
    case = dict(op="shift-bare", nx=nx, i=i)
    try:
        out = real_shift(ds, i)
    except Exception as e:  # noqa: BLE001
        ctx.fail(f"shift_double_ended raised {type(e).__name__}: {e} on a dataset that holds the four channels only", case)
        return
    bad = None
    for k in ("acquisitiontimeFW", "acquisitiontimeBW", "timestart", "time"):
        if k not in out.coords or not np.array_equal(out[k].values, ds[k].values):
            bad = f"time-only variable '{k}' is missing from the result or changed"
        elif dict(out[k].attrs) != dict(ds[k].attrs):
            bad = f"attributes of the time-only variable '{k}' are not preserved"
    if bad is None and dict(out["x"].attrs) != dict(ds["x"].attrs):
        bad = "attributes of x are not preserved"
    if bad is None and dict(out.attrs) != dict(ds.attrs):
        bad = "attributes not preserved"
    if bad is None and i == 0 and not out.identical(ds):
        bad = "i = 0 is not the identity (result is not identical to the input)"
    if bad:
        ctx.fail(bad, case)
    ctx.count("shift of a four-channel dataset with time-only coordinates")


def check_compose(ctx, nx, a, b):
    """equal signs compose additively; i then -i gives the interior"""
    ds = mk(nx, seed=7)
    case = dict(op="compose", nx=nx, a=a, b=b)
    try:
        two = real_shift(real_shift(ds, a), b)
        if (a >= 0) == (b >= 0) or a == 0 or b == 0:
            one = real_shift(ds, a + b)
            same = all(np.array_equal(two[k].values, one[k].values) for k in ("st", "ast", "rst", "rast", "x"))
            if not same:
                ctx.fail(f"shift by {a} then {b} differs from shift by {a + b}", case)
        if b == -a and a != 0:
            k = abs(a)
            ok = all(np.array_equal(two[v].values, ds[v].values[k:nx - k]) for v in ("st", "ast", "rst", "rast", "x"))
            if not ok:
                ctx.fail(f"shift by {a} then {-a} does not return the original interior", case)
    except Exception as e:
        ctx.fail(f"composition raised {type(e).__name__}: {e}", case)
    ctx.case(sig=["compose", nx, a, b], nontrivial=a != 0 and b != 0)
    ctx.count("compose")


# ---------------------------------------------------------------- suggest
def raman(nx, nt, planted, rng, margin=12, feature=False):
    """aligned fibre on a long grid, then displace the backward channel so that shifting by -planted aligns it.
    feature: the recorded x starts at -10 m and a front-panel connector with direction-dependent loss sits at x = 0.6 m, i.e. in the
    part of the fibre (x <= 1 m) that the objective must ignore"""
    r = np.random.default_rng(rng.randrange(2**31))
    N = nx + 2 * margin
    dx = rng.choice([0.25, 0.5, 1.0])
    xl = (np.arange(N) - margin) * dx
    if feature:
        dx = 0.25
        xl = (np.arange(N) - margin) * dx - 10.0
    gamma, dalpha_r, dalpha_m, dalpha_p = 482.6, 0.0005, 0.0001, 0.00015
    T = 273.15 + 10 + 15 * r.random((N, 1)) + r.random((1, nt))  # structure along x
    L = xl[-1]
    C_p, C_m = 15246.0, 2400.0
    eta_pf, eta_mf, eta_pb, eta_mb = 1.0 + 0.02 * r.random(nt), 0.9, 1.05, 0.95
    E = np.exp(-gamma / T)
    st = eta_pf * C_p * np.exp(-(dalpha_r + dalpha_p) * xl[:, None]) * E / (1 - E)
    ast = eta_mf * C_m * np.exp(-(dalpha_r + dalpha_m) * xl[:, None]) / (1 - E)
    rst = eta_pb * C_p * np.exp(-(dalpha_r + dalpha_p) * (L - xl[:, None])) * E / (1 - E)
    rast = eta_mb * C_m * np.exp(-(dalpha_r + dalpha_m) * (L - xl[:, None])) / (1 - E)
    if feature:
        # smooth temperature structure (bumps, small-scale variation) instead of independent values per location, and a connector
        # whose loss differs between the Stokes and the anti-Stokes band: a step of ln-ratio 0.12 in both directions at x = 0.6 m
        T = (288.0 + 6.0 * np.sin(xl / 3.0) + 4.0 * np.exp(-(((xl - 30.0) / 2.0) ** 2)) + 0.02 * r.standard_normal(N))[:, None] + np.linspace(0, 0.5, nt)[None, :]
        E = np.exp(-gamma / T)
        cs, ca = 0.30 * (xl > 0.6), 0.42 * (xl > 0.6)
        st = C_p * np.exp(-(dalpha_r + dalpha_p) * (xl - xl[0])[:, None] - cs[:, None]) * E / (1 - E)
        ast = C_m * np.exp(-(dalpha_r + dalpha_m) * (xl - xl[0])[:, None] - ca[:, None]) / (1 - E)
        rst = C_p * np.exp(-(dalpha_r + dalpha_p) * (L - xl)[:, None] - (cs[-1] - cs)[:, None]) * E / (1 - E)
        rast = C_m * np.exp(-(dalpha_r + dalpha_m) * (L - xl)[:, None] - (ca[-1] - ca)[:, None]) / (1 - E)
    s = -planted  # the shift that aligns
    sel = slice(margin, margin + nx)
    selb = slice(margin + s, margin + s + nx)
    ds = xr.Dataset({"st": (("x", "time"), st[sel]), "ast": (("x", "time"), ast[sel]),
                     "rst": (("x", "time"), rst[selb]), "rast": (("x", "time"), rast[selb])},
                    coords={"x": xl[sel], "time": np.arange(nt).astype("datetime64[s]")}, attrs={"isDoubleEnded": "1"})
    return ds


def check_suggest(ctx, nx, nt, planted, lo, hi, feature=False):
    from dtscalibration.dts_accessor_utils import suggest_cable_shift_double_ended
    ds = raman(nx, nt, planted, ctx.rng, feature=feature)
    irange = np.arange(lo, hi + 1, dtype=int)
    case = dict(op="suggest", nx=nx, nt=nt, planted=planted, irange=[lo, hi], front_connector=feature,
                data={k: ds[k].values.tolist() for k in ("st", "ast", "rst", "rast")}, x=ds.x.values.tolist())
    with warnings.catch_warnings():
        warnings.simplefilter("ignore")
        try:
            got = suggest_cable_shift_double_ended(ds, irange, plot_result=False)
        except Exception as e:
            ctx.fail(f"suggest_cable_shift_double_ended raised {type(e).__name__}: {e}", dict(case, data="omitted"))
            return
    iF = np.log(ds.st.values / ds.ast.values)
    iB = np.log(ds.rst.values / ds.rast.values)
    m = ctx.driver().call("suggest", x=[rj(v) for v in ds.x.values], iF=[[rj(v) for v in row] for row in iF],
                          iB=[[rj(v) for v in row] for row in iB], irange=[int(v) for v in irange])
    for name, key, g in (("ishift1", "err1", got[0]), ("ishift2", "err2", got[1])):
        errs = sorted(core.unrj(e) for e in m[key])
        decisive = len(errs) < 2 or (errs[1] - errs[0]) > 1e-9 * max(abs(errs[1]), 1e-300)
        if not decisive:
            ctx.skip(f"{name}: objective minimum not decisive at float precision")
        elif int(g) != m[name]:
            ctx.mismatch("Shift.suggest." + name, dict(case, data="see samples"), m[name], int(g))
    bad = None
    if int(got[0]) not in irange or int(got[1]) not in irange:
        bad = f"suggestions {got} are not members of irange"
    elif lo <= -planted <= hi and (int(got[0]), int(got[1])) != (-planted, -planted):
        bad = f"planted misalignment {planted}: suggestions {got}, expected both {-planted}"
    if bad:
        ctx.fail(bad, case)
    ctx.case(sig=["suggest", nx, nt, planted, lo, hi], nontrivial=planted != 0,
             sample=dict(nx=nx, nt=nt, planted=planted, irange=[lo, hi], suggested=[int(got[0]), int(got[1])]))
    ctx.count("suggest")


def run(ctx):
    rng = ctx.rng
    top = 12
    for nx in range(2, top + 1):
        for i in range(-(nx - 1), nx):
            check_shift(ctx, nx, i)
            if abs(i) <= 2 or (nx + i) % 3 == 0:
                check_bare(ctx, nx, i)
    for nx in range(3, top + 1):
        for a in range(-(nx - 1), nx):
            for b in range(-(nx - 1), nx):
                if (a >= 0) == (b >= 0) and abs(a + b) < nx and rng.random() < (0.15 if ctx.quick else 1.0):
                    check_compose(ctx, nx, a, b)
            if 2 * abs(a) < nx:
                check_compose(ctx, nx, a, -a)
    for _ in range(30 if ctx.quick else 400):
        nx = rng.randint(40, 120 if ctx.quick else 300)
        planted = rng.randint(-10, 10)
        check_suggest(ctx, nx, rng.randint(1, 3), planted, -12, 12)
    for _ in range(8 if ctx.quick else 80):  # a connector inside the ignored first metre, data needing a negative or positive shift
        check_suggest(ctx, rng.randint(120, 200), 2, rng.choice([-8, -5, -3, 2, 3, 5, 8]), -12, 12, feature=True)
    for _ in range(5 if ctx.quick else 40):  # irange that does not contain the planted value: membership only
        check_suggest(ctx, rng.randint(40, 80), 1, rng.choice([-9, 9]), -3, 3)


def search(ctx):
    for nx in range(2, 20):
        for i in range(-(nx - 1), nx):
            check_shift(ctx, nx, i)
            if ctx.failures:
                return
    for k in range(40):
        check_suggest(ctx, ctx.rng.randint(120, 200) if k % 2 else ctx.rng.randint(40, 150), 2, ctx.rng.randint(-10, 10), -12, 12, feature=bool(k % 2))
        if ctx.failures:
            return


def replay(path):
    r = json.loads(open(path).read())
    c = r.get("case")
    if not c:
        print("no concrete input in replay file:", json.dumps(r.get("no_longer_checks"))[:2000])
        return 1
    ctx = core.Ctx("C14", "quick", r.get("seed", 0))
    if c["op"] == "shift":
        check_shift(ctx, c["nx"], c["i"])
    elif c["op"] == "compose":
        check_compose(ctx, c["nx"], c["a"], c["b"])
    else:
        from dtscalibration.dts_accessor_utils import suggest_cable_shift_double_ended
        ds = xr.Dataset({k: (("x", "time"), np.array(v)) for k, v in c["data"].items()},
                        coords={"x": c["x"], "time": np.arange(c["nt"]).astype("datetime64[s]")})
        got = suggest_cable_shift_double_ended(ds, np.arange(c["irange"][0], c["irange"][1] + 1), plot_result=False)
        print("suggested", got, "planted", c["planted"])
        if (int(got[0]), int(got[1])) != (-c["planted"], -c["planted"]):
            ctx.fail("planted shift not recovered", c)
    if ctx.drv:
        ctx.drv.close()
    print("property fails on this input:" if ctx.failures else "property holds on this input", [f["what"] for f in ctx.failures[:1]])
    return 1 if ctx.failures else 0
