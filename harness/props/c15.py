"""C15 — merging two channels pairs only adjacent forward/backward measurements.
Correspondence: real merge_double_ended(_times) vs Lean `Merge.mergeTimes` / `Merge.mergeSpace` (exact, integers /
dyadic rationals).  Property oracle (independent of the Lean model): brute-force adjacency on the timestamps."""
import itertools
import json
import warnings

import numpy as np
import xarray as xr

import core
from core import rj

RULE = ("every pattern of present/missing forward/backward measurement for N cycles (4^N), regular and jittered timing on a "
        "0.5 s grid, verify_timedeltas on/off; plus random spatial grids/cable lengths. distinct = the history itself; "
        "non-trivial = at least one measurement missing (times) / at least one location dropped or shifted (space)")
ASSUMPTIONS = ["timestamps distinct within a channel (xarray time index)",
               "pandas reindex(method='nearest') tie-break on a decreasing index is as observed (earlier position)"]
TRUSTED_EXTRA = ["oracle `adjacent_pairs` (15 lines of Python below) states the property on raw timestamps"]

S = 10**9
HALF = 5 * 10**8


def mk(ts, nx=2, extra=None):
    t = np.array(ts, dtype="int64").astype("datetime64[ns]")
    attrs = {"isDoubleEnded": "0"}
    if extra:
        attrs.update(extra)
    return xr.Dataset({"st": (("x", "time"), np.zeros((nx, len(ts))))},
                      coords={"x": np.arange(nx, dtype=float), "time": t}, attrs=attrs)


def real_merge_times(fw, bw, verify):
    from dtscalibration.dts_accessor_utils import merge_double_ended_times
    a, b = merge_double_ended_times(mk(fw), mk(bw), verify_timedeltas=verify, verbose=False)
    ta = a.time.values.astype("int64").tolist()
    tb = b.time.values.astype("int64").tolist()
    if len(ta) != len(tb):
        return ("unequal", ta, tb)
    return [[fw.index(x), bw.index(y)] for x, y in zip(ta, tb)]


# ---- the property, stated directly on the timestamps (independent of the Lean model)
def adjacent_pairs(fw, bw):
    allt = sorted(set(fw) | set(bw))
    out = []
    for i, a in enumerate(fw):
        if a in bw:
            continue  # same instant in both channels: excluded from the generated domain
        later = [t for t in allt if t > a]
        if later and later[0] in bw and later[0] not in fw:
            out.append([i, bw.index(later[0])])
    out.sort(key=lambda p: fw[p[0]])
    return out


def oracle_times(fw, bw, verify, kept):
    """returns None if the property holds for this history, else a description"""
    adj = adjacent_pairs(fw, bw)
    if isinstance(kept, tuple):
        return f"forward and backward selections have different lengths: {kept}"
    if not verify:
        return None if kept == adj else f"kept {kept} but adjacent pairs are {adj}"
    for p in kept:
        if p not in adj:
            return f"kept pair {p} is not adjacent (adjacent: {adj})"
    dt = [bw[j] - fw[i] for i, j in adj]
    lim = 15 * 10**8
    for k, p in enumerate(adj):
        interior = 0 < k < len(adj) - 1
        agree = interior and abs(dt[k - 1] - dt[k + 1]) <= lim
        d_prev = interior and abs(dt[k] - dt[k - 1]) > lim
        d_next = interior and abs(dt[k] - dt[k + 1]) > lim
        must_drop = agree and d_prev and d_next
        must_keep = (not interior) or (not agree) or (not d_prev and not d_next)
        if must_drop and p in kept:
            return f"pair {p} (offset {dt[k]/S}s, neighbours {dt[k-1]/S}s/{dt[k+1]/S}s) differs >1.5 s from two agreeing neighbours but was kept"
        if must_keep and p not in kept:
            return f"adjacent pair {p} with consistent offset was dropped"
    return None


def history(pattern, jitter):
    """pattern: tuple of N codes in 0..3 (bit0: forward present, bit1: backward present)"""
    fw, bw = [], []
    for c, code in enumerate(pattern):
        jf, jb = jitter[c] if jitter else (0, 0)
        if code & 1:
            fw.append(20 * S * c + jf * HALF)
        if code & 2:
            bw.append(20 * S * c + 10 * S + jb * HALF)
    return fw, bw


def check_times(ctx, fw, bw, verify, tag):
    if not fw or not bw:
        ctx.skip("empty channel")
        return
    try:
        kept = real_merge_times(fw, bw, verify)
    except Exception as e:  # the property gives every non-empty history a meaning
        kept = ("raised", type(e).__name__, str(e)[:100])
    model = ctx.driver().call("merge.times", fw=fw, bw=bw, verify=verify)
    case = dict(op="times", fw=fw, bw=bw, verify=verify, tag=tag)
    if kept != model["pairs"]:
        ctx.mismatch("Merge.mergeTimes", case, model["pairs"], kept)
    bad = oracle_times(fw, bw, verify, kept)
    if bad:
        ctx.fail(bad, case)
    ctx.count("branch:" + model["branch"])
    ctx.count("verify:%s" % verify)
    missing = tag.get("missing", 1)
    ctx.case(sig=[fw, bw, verify], nontrivial=missing > 0,
             sample=dict(fw_s=[t / S for t in fw], bw_s=[t / S for t in bw], verify=verify, kept=kept))


# ---- spatial
def build_space(xf, xb, nt=2):
    t = (np.arange(nt) * 20 * S).astype("int64").astype("datetime64[ns]")
    tb = (np.arange(nt) * 20 * S + 10 * S).astype("int64").astype("datetime64[ns]")
    tagf = np.add.outer(np.arange(len(xf)) * 1000.0, np.arange(nt)) + 1
    tagb = np.add.outer(np.arange(len(xb)) * 1000.0, np.arange(nt)) + 5e5
    dsf = xr.Dataset({"st": (("x", "time"), tagf), "ast": (("x", "time"), tagf + 0.25),
                      "userAcquisitionTimeFW": (("time",), np.full(nt, 7.0))},
                     coords={"x": np.array(xf), "time": t}, attrs={"isDoubleEnded": "0"})
    dsb = xr.Dataset({"st": (("x", "time"), tagb), "ast": (("x", "time"), tagb + 0.25),
                      "userAcquisitionTimeFW": (("time",), np.full(nt, 9.0))},
                     coords={"x": np.array(xb), "time": tb}, attrs={"isDoubleEnded": "0"})
    return dsf, dsb, tagf, tagb


def merge_space_on(dsf, dsb, tagf, tagb, xf, L):
    from dtscalibration.dts_accessor_utils import merge_double_ended
    nt = tagf.shape[1]
    with warnings.catch_warnings():
        warnings.simplefilter("ignore")
        ds = merge_double_ended(dsf, dsb, cable_length=L, plot_result=False, verbose=False)
    out = []
    for k, x in enumerate(ds.x.values):
        i = int(round((ds.st.values[k, 0] - 1) / 1000))
        j = int(round((ds.rst.values[k, 0] - 5e5) / 1000))
        ja = int(round((ds.rast.values[k, 0] - 5e5 - 0.25) / 1000))
        ok = 0 <= i < len(xf) and 0 <= j < tagb.shape[0] and (float(xf[i]) == float(x)) \
            and all(ds.rst.values[k, m] == tagb[j, m] for m in range(nt)) and ja == j \
            and all(ds.st.values[k, m] == tagf[i, m] for m in range(nt))
        out.append([i, j if ok else -1])
    meta = dict(double=ds.attrs.get("isDoubleEnded"), acq_bw=ds["userAcquisitionTimeBW"].values.tolist())
    return out, meta


def real_merge_space(xf, xb, L, nt=2):
    dsf, dsb, tagf, tagb = build_space(xf, xb, nt)
    return merge_space_on(dsf, dsb, tagf, tagb, xf, L)


def check_space_again(ctx, xf, xb, L, L2, tag):
    """a sequence of calls on the SAME channel datasets (merge, look at the result, merge again with a refined cable length):
    every call has to satisfy the property, and the inputs have to come back unchanged"""
    case = dict(op="space-again", xf=list(map(float, xf)), xb=list(map(float, xb)), L=float(L), L2=float(L2), tag=tag)
    dsf, dsb, tagf, tagb = build_space(xf, xb)
    try:
        merge_space_on(dsf, dsb, tagf, tagb, xf, L)
        placed2, _ = merge_space_on(dsf, dsb, tagf, tagb, xf, L2)
    except Exception as e:  # noqa: BLE001
        ctx.fail(f"repeated merge_double_ended raised {type(e).__name__}: {str(e)[:200]}", case)
        return
    if not (np.array_equal(dsb.x.values, np.array(xb)) and np.array_equal(dsf.x.values, np.array(xf))
            and np.array_equal(dsb.st.values, tagb) and np.array_equal(dsf.st.values, tagf)):
        ctx.fail("merge_double_ended modified the channel datasets it was given", case)
    else:
        bad = oracle_space(xf, xb, L2, placed2)
        if bad:
            ctx.fail("second merge of the same channel datasets (cable length refined): " + bad, case)
    ctx.count("space: repeated call on the same datasets")


def oracle_space(xf, xb, L, placed):
    dx = xf[1] - xf[0]
    got = {i: j for i, j in placed}
    for i, x in enumerate(xf):
        d = [abs((L - b) - x) for b in xb]
        dmin = min(d)
        if dmin <= 0.99 * dx * (1 - 1e-12):
            if i not in got:
                return f"forward location {i} (x={x}) has a backward sample at distance {dmin} < spacing {dx} but was dropped"
            j = got[i]
            if j < 0 or d[j] > dmin:
                return f"location {i}: rst/rast come from backward sample {j} (distance {d[j] if j >= 0 else None}), nearest is at {dmin}"
        elif dmin > dx:
            if i in got:
                return f"forward location {i} kept although no backward sample lies within one spacing (nearest {dmin}, dx {dx})"
    return None


def check_space(ctx, xf, xb, L, tag):
    try:
        placed, meta = real_merge_space(xf, xb, L)
    except Exception as e:
        placed, meta = ("raised", type(e).__name__, str(e)[:200]), {}
    tol = float(np.float64(0.99) * (np.float64(xf[1]) - np.float64(xf[0])))
    src = [float(np.float64(L) - np.float64(b)) for b in xb]  # the code's float subtraction, exact for dyadic inputs
    m = ctx.driver().call("merge.space", xf=[rj(v) for v in xf], xb=[rj(v) for v in xb], L=rj(L), tol=rj(tol))
    model = [[i, j] for i, j in enumerate(m["src"]) if j is not None]
    case = dict(op="space", xf=list(map(float, xf)), xb=list(map(float, xb)), L=float(L), tag=tag)
    exact = all(core.frac(L) - core.frac(b) == core.frac(s) for b, s in zip(xb, src))
    if not exact:
        ctx.skip("L - x not exact in floats")
    elif placed != model:
        ctx.mismatch("Merge.mergeSpace", case, model, placed)
    if isinstance(placed, tuple):
        ctx.fail(f"merge_double_ended raised {placed[1]}: {placed[2]}", case)
    else:
        bad = oracle_space(xf, xb, L, placed)
        if not bad and meta.get("double") != "1":
            bad = "merged dataset is not marked double-ended"
        if not bad and meta.get("acq_bw") != [9.0, 9.0]:
            bad = "userAcquisitionTimeBW is not the backward channel's acquisition time"
        if bad:
            ctx.fail(bad, case)
    nontriv = isinstance(placed, list) and (len(placed) < len(xf) or any(i != j for i, j in placed))
    ctx.case(sig=case, nontrivial=nontriv, sample=dict(case=case, placed=placed))
    ctx.count("space")


def gen_space(rng):
    n = rng.randint(3, 40)
    dx = rng.choice([0.125, 0.25, 0.5, 1.0, 2.0])
    x0 = rng.randint(-40, 40) * 0.125
    xf = [x0 + dx * k for k in range(n)]
    nb = rng.randint(2, 40)
    mode = rng.random()
    if mode < 0.4:  # same grid, cable length on / off the grid
        xb0 = x0
        L = xf[-1] + xb0 + rng.randint(-8, 8) * dx * rng.choice([1, 1, 0.5, 0.25, 0.125])
    else:
        xb0 = rng.randint(-40, 40) * 0.125
        L = rng.randint(0, 800) * 0.125
    xb = [xb0 + dx * k for k in range(nb)]
    return xf, xb, float(L)


# ---- swapped channels
def check_swapped(ctx):
    from dtscalibration.dts_accessor_utils import merge_double_ended_times
    ids = ["1", "2", "3", "9", "10", "12"]
    for key in ("forward channel", "forwardMeasurementChannel"):
        for a, b in itertools.product(ids + ["channel " + i for i in ids], repeat=2):
            if a == b or a.startswith("c") != b.startswith("c"):
                continue
            fwd, bwd = mk([0, 20 * S], extra={key: a}), mk([10 * S, 30 * S], extra={key: b})
            try:
                merge_double_ended_times(fwd, bwd, verbose=False)
                refused = False
            except AssertionError:
                refused = True
            model = ctx.driver().call("merge.swapped", fw=a, bw=b)["refused"]
            case = dict(op="swapped", key=key, fw=a, bw=b)
            if refused != model:
                ctx.mismatch("Merge.swappedRefused", case, model, refused)
            if int(a.split()[-1]) > int(b.split()[-1]) and not refused:
                # the property only demands that swapped channels are refused
                ctx.fail(f"swapped channels fw={a!r} bw={b!r} were accepted", case)
            ctx.case(sig=case, nontrivial=True)
            ctx.count("swapped")


def corpus_cases():
    d = core.VERIF / "corpus" / "C15"
    return [json.loads(p.read_text()) for p in sorted(d.glob("*.json"))] if d.exists() else []


def run_case(ctx, c):
    if c["op"] == "times":
        check_times(ctx, c["fw"], c["bw"], c["verify"], c.get("tag", {}))
    elif c["op"] == "space":
        check_space(ctx, c["xf"], c["xb"], c["L"], c.get("tag", {}))


def part(ctx, k, nparts):
    rng = ctx.rng
    if k == 0:
        for c in corpus_cases():
            run_case(ctx, c)
            ctx.count("corpus")
    N = 6 if ctx.quick else 7
    idx = 0
    for n in range(1, N + 1):
        for pattern in itertools.product(range(4), repeat=n):
            idx += 1
            if idx % nparts != k:
                continue
            missing = sum(1 for c in pattern if c != 3)
            fw, bw = history(pattern, None)
            for verify in (False, True):
                check_times(ctx, fw, bw, verify, dict(n=n, missing=missing, jitter=False))
            # jittered timing: offsets in multiples of 0.5 s, up to +-4 s, so both sides of the 1.5 s threshold occur
            jit = [(rng.randint(-2, 2), rng.choice([-8, -4, -3, -2, -1, 0, 0, 1, 2, 3, 4, 8])) for _ in pattern]
            fw, bw = history(pattern, jit)
            for verify in (False, True):
                check_times(ctx, fw, bw, verify, dict(n=n, missing=missing, jitter=True))
    # irregular histories: a pause after some cycles, several forwards in a row, long runs
    for _ in range((300 if ctx.quick else 3000) // nparts):
        n = rng.randint(2, 12)
        ts = sorted(rng.sample(range(0, 400), 2 * n))
        dirs = [rng.random() < 0.5 for _ in ts]
        fw = [t * HALF for t, d in zip(ts, dirs) if d]
        bw = [t * HALF for t, d in zip(ts, dirs) if not d]
        for verify in (False, True):
            check_times(ctx, fw, bw, verify, dict(kind="random", missing=1))
    for _ in range((150 if ctx.quick else 2000) // nparts):
        xf, xb, L = gen_space(rng)
        check_space(ctx, xf, xb, L, dict(kind="random"))
        if rng.random() < 0.3:
            check_space_again(ctx, xf, xb, L, L + rng.choice([-3, -1, 1, 2, 5]) * (xf[1] - xf[0]), dict(kind="random"))
    if k == 1:
        check_swapped(ctx)


def run(ctx):
    nparts = 8
    core.parallel_cases(ctx, part, [(k, nparts) for k in range(nparts)], jobs=8)


def search(ctx):
    """a proof or the correspondence broke: look for a history on which the property itself fails"""
    rng = ctx.rng
    for mm in list(ctx.mismatches):
        run_case(ctx, mm["case"]) if mm["case"].get("op") in ("times", "space") else None
        if ctx.failures:
            return
    for _ in range(3000):
        n = rng.randint(2, 10)
        ts = sorted(rng.sample(range(0, 300), 2 * n))
        dirs = [rng.random() < 0.5 for _ in ts]
        fw = [t * HALF for t, d in zip(ts, dirs) if d]
        bw = [t * HALF for t, d in zip(ts, dirs) if not d]
        if not fw or not bw:
            continue
        for verify in (False, True):
            try:
                kept = real_merge_times(fw, bw, verify)
            except Exception as e:
                kept = ("raised", type(e).__name__, str(e)[:100])
            bad = oracle_times(fw, bw, verify, kept)
            if bad:
                ctx.fail(bad, dict(op="times", fw=fw, bw=bw, verify=verify, tag=dict(kind="search")))
                return


def replay(path):
    r = json.loads(open(path).read())
    c = r.get("case")
    if not c:
        print("replay file has no concrete input (no-failing-input-found):", json.dumps(r.get("no_longer_checks"))[:2000])
        return 1
    if c["op"] == "times":
        kept = real_merge_times(c["fw"], c["bw"], c["verify"])
        bad = oracle_times(c["fw"], c["bw"], c["verify"], kept)
        print("kept:", kept, "adjacent:", adjacent_pairs(c["fw"], c["bw"]))
    elif c["op"] == "space":
        placed, meta = real_merge_space(c["xf"], c["xb"], c["L"])
        bad = oracle_space(c["xf"], c["xb"], c["L"], placed)
        print("placed:", placed)
    else:
        bad = r.get("what")
    print("property fails:" if bad else "property holds on this input", bad or "")
    return 1 if bad else 0
