"""C18 — results do not depend on representation choices that carry no information.
Pairs of real runs under each transformation (dictionary/stretch order, bath names, detector gain with variance x k^2, variance
given as float / array / callable, removal of unreferenced locations, permutation of the time steps), repeated calls, and a
deep comparison of the input dataset before and after.  Correspondence: the Lean model is a function of the data only — the
reference rows `ixSecAll` of both dictionaries are compared through the driver."""
import copy
import json

import numpy as np
import xarray as xr

import calib
import core
import fibre
import secgen
from core import rj

RULE = ("C01/C02 inputs x {dict order, stretch order, rename, gain on one channel (1e-3..1e3), variance form, drop unreferenced "
        "locations, time permutation, repeat}; distinct = (transformation, single/double, nx, nt, nta); non-trivial = the "
        "transformation is not the identity on that input")
ASSUMPTIONS = ["temperatures compared to 1e-7 K, variances and parameters to 1e-6 relative (LSQR is iterative)"]

TOL_T = 1e-7
RTOL = 1e-6


def clone(c, **changes):
    d = copy.copy(c)
    d.ds = c.ds.copy(deep=True)
    d.var_args = dict(c.var_args)
    d.var_mats = {k: v.copy() for k, v in c.var_mats.items()}
    d.sections = [(k, list(v)) for k, v in c.sections]
    for k, v in changes.items():
        setattr(d, k, v)
    return d


def outputs(out, c):
    names = ["tmpf", "tmpf_var"] + (["tmpb", "tmpb_var", "tmpw", "tmpw_var"] if c.double else [])
    return {k: out[k].values for k in names}


def same(a, b, what):
    for k in a:
        tol = TOL_T if not k.endswith("_var") else None
        x, y = a[k], b[k]
        if x.shape != y.shape:
            return f"{k}: shapes differ under {what}"
        ok = np.abs(x - y) <= (tol if tol is not None else RTOL * np.abs(x) + 1e-300)
        if not np.all(ok | (np.isnan(x) & np.isnan(y))):
            i = np.unravel_index(int(np.nanargmax(np.abs(x - y))), x.shape)
            return f"{k}{list(i)} changes from {x[i]!r} to {y[i]!r} under {what}"
    return None


def transform(rng, c, kind):
    """returns (transformed case, function mapping the transformed outputs back onto the original's index space)"""
    ident = lambda o: o
    if kind == "dict_order":
        d = clone(c)
        d.sections = list(reversed(d.sections))
        for _, v in d.sections:
            v.reverse()
        d.keys = [k for k, _ in d.sections]
        return d, ident, d.sections != c.sections
    if kind == "rename":
        d = clone(c)
        mp = {k: "renamed_" + k[::-1] for k in c.keys}
        d.ds = d.ds.rename(mp)
        d.sections = [(mp[k], v) for k, v in d.sections]
        d.keys = [mp[k] for k in d.keys]
        d.tbath = {mp[k]: v for k, v in c.tbath.items()}
        return d, ident, True
    if kind == "gain":
        d = clone(c)
        ch = rng.choice(["st", "ast"] + (["rst", "rast"] if c.double else []))
        k = 10.0 ** rng.uniform(-3, 3)
        d.ds[ch] = d.ds[ch] * k
        a = c.var_args[ch + "_var"]
        if callable(a):
            d.var_args[ch + "_var"] = (lambda f, kk: (lambda s: kk * kk * f(s / kk)))(a, k)
        else:
            d.var_args[ch + "_var"] = a * k * k
        d.var_mats[ch] = c.var_mats[ch] * k * k
        return d, ident, True
    if kind == "var_form":
        d = clone(c)
        for name, mat in c.var_mats.items():
            cur = c.var_args[name + "_var"]
            if callable(cur) or isinstance(cur, float):
                d.var_args[name + "_var"] = (cur(c.ds[name]).values if callable(cur) else np.full(mat.shape, cur))
            elif isinstance(cur, np.ndarray):
                d.var_args[name + "_var"] = xr.DataArray(cur, dims=("x", "time"), coords={"x": c.x, "time": c.ds.time.values})
            else:
                d.var_args[name + "_var"] = np.asarray(cur.values)
        return d, ident, True
    if kind == "drop":
        used = set(fibre.ix_sec(c)) | {i for p in fibre.match_pairs(c) for i in p}
        free = [i for i in range(c.nx) if i not in used]
        if not free:
            return None
        drop = set(rng.sample(free, max(1, len(free) // 2)))
        keep = [i for i in range(c.nx) if i not in drop]
        d = clone(c)
        d.ds = c.ds.isel(x=keep)
        d.x = c.x[keep]
        d.nx = len(keep)
        d.var_mats = {k: v[keep] for k, v in c.var_mats.items()}
        for name in list(d.var_args):
            a = c.var_args[name]
            if isinstance(a, np.ndarray):
                d.var_args[name] = a[keep]
            elif isinstance(a, xr.DataArray):
                d.var_args[name] = a.isel(x=keep)
        return d, ("keep", keep), True
    if kind == "time_perm":
        if c.nt < 2:
            return None
        perm = list(range(c.nt))
        rng.shuffle(perm)
        if perm == list(range(c.nt)):
            perm = perm[::-1]
        d = clone(c)
        newt = c.ds.time.values  # keep the coordinate values, permute the data along time
        d.ds = c.ds.isel(time=perm).assign_coords(time=newt)
        d.tbath = {k: v[perm] for k, v in c.tbath.items()}
        d.var_mats = {k: v[:, perm] for k, v in c.var_mats.items()}
        for name in list(d.var_args):
            a = c.var_args[name]
            if isinstance(a, np.ndarray):
                d.var_args[name] = a[:, perm]
            elif isinstance(a, xr.DataArray):
                d.var_args[name] = a.isel(time=perm).assign_coords(time=newt)
        return d, ("time", perm), True
    raise ValueError(kind)


def snapshot(ds):
    return {k: (ds[k].dims, ds[k].values.copy(), dict(ds[k].attrs)) for k in list(ds.data_vars) + list(ds.coords)}, dict(ds.attrs)


def unchanged(snap, ds):
    vars_, attrs = snap
    if dict(ds.attrs) != attrs or set(vars_) != set(list(ds.data_vars) + list(ds.coords)):
        return False
    for k, (dims, val, at) in vars_.items():
        if ds[k].dims != dims or dict(ds[k].attrs) != at or not np.array_equal(ds[k].values, val, equal_nan=val.dtype.kind == "f"):
            return False
    return True


KINDS = ["dict_order", "rename", "gain", "var_form", "drop", "time_perm", "repeat"]


def run_one(ctx, c, kind):
    desc = dict(calib.case_desc(c), transformation=kind)
    snap = snapshot(c.ds)
    out, _ = calib.run_real(c)
    if isinstance(out, tuple):
        ctx.skip("base calibration refused")
        return
    if not unchanged(snap, c.ds):
        ctx.fail("the input dataset was modified by the calibration", desc)
    base = outputs(out, c)
    m0 = calib.run_model(ctx, c, want_cov=False)
    gauge = len(c.trans_att) if c.double else 0
    if m0 is None or m0["rank"] < len(m0["active"]) - gauge:
        ctx.skip("configuration not identifiable: results depend on the solver's start, not compared")
        return
    if kind == "repeat":
        out2, _ = calib.run_real(c)
        for k in out.data_vars:
            if not np.array_equal(np.asarray(out[k].values), np.asarray(out2[k].values), equal_nan=True):
                ctx.fail(f"two identical calls differ in `{k}`", desc)
                break
        nontriv = True
    else:
        tr = transform(ctx.rng, c, kind)
        if tr is None:
            ctx.skip(f"{kind}: not applicable to this input")
            return
        d, back, nontriv = tr
        out2, _ = calib.run_real(d)
        if isinstance(out2, tuple):
            ctx.fail(f"calibration raises after {kind}: {out2[1]}: {out2[2]}", desc)
            return
        o2 = outputs(out2, d)
        b = base
        if isinstance(back, tuple) and back[0] == "keep":
            b = {k: v[back[1]] for k, v in base.items()}
        elif isinstance(back, tuple) and back[0] == "time":
            b = {k: v[:, back[1]] for k, v in base.items()}
        bad = same(b, o2, kind)
        if bad:
            known = None
            if kind == "time_perm" and not c.double:
                # known finding: single-ended weights are attached in location-major order, which a time permutation reshuffles;
                # attributed to it only if the model WITH that weight order reproduces both runs
                m1 = calib.run_model(ctx, d, want_cov=False)
                ok = (m1 is not None and np.nanmax(np.abs(fibre.dymat(m0["tmpf"]) - out["tmpf"].values)) < 1e-6
                      and np.nanmax(np.abs(fibre.dymat(m1["tmpf"]) - out2["tmpf"].values)) < 1e-6)
                if ok:
                    known = next((e for e in core.load_known("C18") if e["id"] == "C18-time-perm-weights-transposed"
                                  and e["status"] == "known"), None)
            ctx.fail(bad, desc, known=known)
        if kind in ("dict_order", "rename"):
            # the model: same reference rows for both dictionaries
            m1 = ctx.driver().call("sections.eval", xs=[rj(v) for v in c.x], dict=secgen.dict_to_json(c.sections), present=[True] * len(c.sections))
            m2 = ctx.driver().call("sections.eval", xs=[rj(v) for v in d.x], dict=secgen.dict_to_json(d.sections), present=[True] * len(d.sections))
            if m1["ixSecAll"] != m2["ixSecAll"]:
                ctx.mismatch("Sections.ixSecAll invariance", desc, m1["ixSecAll"], m2["ixSecAll"])
    ctx.case(sig=[kind, c.double, c.nx, c.nt, len(c.trans_att)], nontrivial=bool(nontriv), sample=desc)
    ctx.count(kind + (":double" if c.double else ":single"))


def run(ctx):
    n = 8 if ctx.quick else 80
    # always present: an intensity-dependent (callable) noise model on double- and single-ended fibres with unreferenced stretches,
    # compared with the same variances given as arrays
    for double in (True, False):
        c = fibre.make_case(ctx.rng, double=double, nx=ctx.rng.randint(18, 26), nt=3, n_baths=2, n_stretch=3, nta=ctx.rng.choice([0, 1]),
                            n_match=0, noise=0.01, var_kind="callable", atten=1.0)
        run_one(ctx, c, "var_form")
    for _ in range(n):
        double = ctx.rng.random() < 0.5
        c = fibre.make_case(ctx.rng, double=double, nx=ctx.rng.randint(14, 30), nt=ctx.rng.randint(2, 4), n_baths=ctx.rng.choice([2, 3]),
                            n_stretch=ctx.rng.randint(3, 4), nta=ctx.rng.choice([0, 0, 1]), n_match=ctx.rng.choice([0, 0, 1]),
                            noise=ctx.rng.choice([0.002, 0.01]))
        for kind in KINDS:
            run_one(ctx, c, kind)


def search(ctx):
    run(ctx)


def replay(path):
    return core.replay_by_seed("C18", path)
