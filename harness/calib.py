"""Shared machinery for the calibration properties (C01, C02, C03, C04, C07, C18, C19): run the real calibration with the
solver's inputs captured, run the Lean model on the same data, compare systems / solutions, and an independent Python
statement of the Spec system (DESIGN.md Appendix D) used as the property oracle."""
import warnings

import numpy as np

import core
import fibre

TAU_P = 1e-3   # parameters: fraction of their own standard deviation
TAU_C = 1e-3   # covariances: fraction of sqrt(c_ii c_jj)
TAU_T = 1e-6   # kelvin


class Capture:
    """records what reaches calibrate_utils.wls_sparse; optionally replaces its result with tagged values"""

    def __init__(self, tagged=False):
        self.calls = []
        self.tagged = tagged

    def __enter__(self):
        from dtscalibration import calibrate_utils as cu
        self.cu = cu
        self.orig = cu.wls_sparse
        if self.orig.__name__ != "wls_sparse":
            raise RuntimeError("wls_sparse already patched")
        cap = self

        def wrap(X, y, w=1.0, x0=None, calc_cov=False, **kw):
            Xd = X.toarray() if hasattr(X, "toarray") else np.asarray(X)
            rec = dict(X=np.array(Xd, dtype=float), y=np.array(y, dtype=float).copy(),
                       w=np.broadcast_to(np.asarray(w, dtype=float), (Xd.shape[0],)).copy(),
                       x0=None if x0 is None else np.array(x0, dtype=float))
            cap.calls.append(rec)
            if cap.tagged:
                n = Xd.shape[1]
                p = np.arange(n) + 0.5
                v = 1000.0 + np.arange(n)
                cc = 1e6 * (np.arange(n)[:, None] + 1) + (np.arange(n)[None, :] + 1)
                cc[np.arange(n), np.arange(n)] = v
                rec["out"] = (p, v, cc)
                return (p, v, cc) if calc_cov else (p, v)
            out = cap.orig(X, y, w=w, x0=x0, calc_cov=calc_cov, **kw)
            rec["out"] = out
            return out

        cu.wls_sparse = wrap
        return self

    def __exit__(self, *a):
        self.cu.wls_sparse = self.orig


def run_real(c, tagged=False, **opts):
    """returns (out dataset or exception tuple, captures)"""
    import dtscalibration  # noqa: F401
    kw = dict(sections=fibre.sections_dict(c), trans_att=list(c.trans_att), **c.var_args)
    if c.matching:
        kw["matching_sections"] = list(c.matching)
    kw.update(opts)
    with Capture(tagged=tagged) as cap, warnings.catch_warnings(), np.errstate(all="ignore"):
        warnings.simplefilter("ignore")
        try:
            if c.double:
                out = c.ds.dts.calibrate_double_ended(**kw)
            else:
                out = c.ds.dts.calibrate_single_ended(**kw)
        except Exception as e:  # noqa: BLE001
            out = ("raised", type(e).__name__, str(e)[:300])
    return out, cap.calls


def run_model(ctx, c, code_weight_order=None, want_cov=True, **fix):
    if code_weight_order is None:
        code_weight_order = not c.double
    req = fibre.model_request(c, code_weight_order=code_weight_order, want_cov=want_cov, **fix)
    try:
        m = ctx.driver().call("calib", **req)
    except core.LeanFailure as e:
        if "singular" in str(e):
            return None
        raise
    m["_p_val"] = fibre.dyarr(m["p_val"])
    m["_p_var"] = fibre.dyarr(m["p_var"])
    if m.get("p_cov") is not None:
        m["_p_cov"] = fibre.dymat(m["p_cov"])
    return m


def model_rows_dense(m):
    act = m["active"]
    col_of = {c: k for k, c in enumerate(act)}
    n = len(m["rows"])
    X = np.zeros((n, len(act)))
    y = np.zeros(n)
    w = np.zeros(n)
    for r, (cs, yy, ww) in enumerate(m["rows"]):
        for cc, val in cs:
            X[r, col_of[cc]] += fibre.dy(val)
        y[r] = fibre.dy(yy)
        w[r] = fibre.dy(ww)
    return X, y, w


def match_rows(Xa, ya, wa, Xb, yb, wb, rtol=1e-9):
    """multiset comparison of two systems (rows may be permuted consistently). returns (n_unmatched, first problem)"""
    if Xa.shape != Xb.shape:
        return max(len(ya), len(yb)), f"shapes differ: {Xa.shape} vs {Xb.shape}"
    scale = np.maximum(np.abs(Xb).max(axis=0), 1e-300)
    used = np.zeros(len(yb), dtype=bool)
    bad, first = 0, None
    order_b = np.argsort(yb, kind="stable")
    yb_sorted = yb[order_b]
    for r in range(len(ya)):
        tol = rtol * max(1.0, abs(ya[r]))
        lo = np.searchsorted(yb_sorted, ya[r] - tol, side="left")
        hi = np.searchsorted(yb_sorted, ya[r] + tol, side="right")
        hit = None
        wprob = None
        for k in order_b[lo:hi]:
            if used[k]:
                continue
            if np.all(np.abs(Xa[r] - Xb[k]) <= rtol * scale + 1e-300):
                if abs(wa[r] - wb[k]) <= 1e-9 * abs(wb[k]):
                    hit = k
                    break
                wprob = (k, wb[k])
        if hit is None:
            bad += 1
            if first is None:
                nz = np.flatnonzero(Xa[r])
                first = dict(model_row=r, y=float(ya[r]), w=float(wa[r]), cols=nz.tolist(), coefs=Xa[r][nz].tolist(),
                             same_row_other_weight=None if wprob is None else dict(code_row=int(wprob[0]), w=float(wprob[1])))
        else:
            used[hit] = True
    return bad, first


# ----------------------------------------------------------------------------------------------------------------------
# The Spec system, written directly from DESIGN.md Appendix D (independent of the Lean model and of the code)
def spec_system(c, fix_gamma=None, fix_dalpha=None, fix_alpha=None, own_weights=True):
    """dense reduced system (X, y, var) + bookkeeping.  Unknowns in full-layout order, fixed ones removed."""
    x, nt, N = c.x, c.nt, c.nx
    ds = c.ds
    IF = np.log(ds.st.values / ds.ast.values)
    vF = c.var_mats["st"] / ds.st.values**2 + c.var_mats["ast"] / ds.ast.values**2
    nta = len(c.trans_att)
    rows = []  # (dict col->coef, y, var)
    R = sorted((i, k) for k, v in c.sections for a, b in v for i in fibre.sel_idx(x, a, b))
    K = {i: c.tbath[k] + fibre.C273 for i, k in R}
    u = lambda a, i: 1.0 if x[i] >= c.trans_att[a] else 0.0
    pairs = fibre.match_pairs(c)
    if not c.double:
        alpha_mode = fix_alpha is not None
        npar = (1 + N + nt + nta * nt) if alpha_mode else (2 + nt + nta * nt)
        cC = (lambda j: 1 + N + j) if alpha_mode else (lambda j: 2 + j)
        cT = (lambda a, j: 1 + N + nt + a * nt + j) if alpha_mode else (lambda a, j: 2 + nt + a * nt + j)
        for j in range(nt):
            for i, _ in R:
                d = {0: 1.0 / K[i][j], cC(j): -1.0}
                if alpha_mode:
                    d[1 + i] = -1.0
                else:
                    d[1] = -x[i]
                for a in range(nta):
                    if u(a, i):
                        d[cT(a, j)] = -1.0
                rows.append((d, IF[i, j], vF[i, j]))
        if not alpha_mode:
            for j in range(nt):
                for h, t in pairs:
                    d = {1: x[t] - x[h]}
                    for a in range(nta):
                        cf = u(a, t) - u(a, h)
                        if cf:
                            d[cT(a, j)] = cf
                    rows.append((d, IF[h, j] - IF[t, j], vF[h, j] + vF[t, j]))
        fixed = {}
        if fix_gamma is not None:
            fixed[0] = fix_gamma
        if fix_dalpha is not None and not alpha_mode:
            fixed[1] = fix_dalpha
        if alpha_mode:
            for i in range(N):
                fixed[1 + i] = (fix_alpha[0][i], fix_alpha[1][i])
        active = [k for k in range(npar) if k not in fixed]
    else:
        IB = np.log(ds.rst.values / ds.rast.values)
        vB = c.var_mats["rst"] / ds.rst.values**2 + c.var_mats["rast"] / ds.rast.values**2
        npar = 1 + 2 * nt + N + 2 * nt * nta
        cA = lambda i: 1 + 2 * nt + i
        cT = lambda a, d_, j: 1 + 2 * nt + N + j + nt * d_ + 2 * nt * a
        r0 = R[0][0]

        def addA(d, i, cf):
            if i != r0:
                d[cA(i)] = d.get(cA(i), 0.0) + cf

        for i, _ in R:
            for j in range(nt):
                d = {0: 1.0 / K[i][j], 1 + j: -1.0}
                addA(d, i, -1.0)
                for a in range(nta):
                    if u(a, i):
                        d[cT(a, 0, j)] = -1.0
                rows.append((d, IF[i, j], vF[i, j]))
        for i, _ in R:
            for j in range(nt):
                d = {0: 1.0 / K[i][j], 1 + nt + j: -1.0}
                addA(d, i, 1.0)
                for a in range(nta):
                    if not u(a, i):
                        d[cT(a, 1, j)] = -1.0
                rows.append((d, IB[i, j], vB[i, j]))
        for h, t in pairs:
            for j in range(nt):
                d = {}
                addA(d, h, -1.0)
                addA(d, t, 1.0)
                for a in range(nta):
                    cf = u(a, t) - u(a, h)
                    if cf:
                        d[cT(a, 0, j)] = cf
                rows.append((d, IF[h, j] - IF[t, j], vF[h, j] + vF[t, j]))
        for h, t in pairs:
            for j in range(nt):
                d = {}
                addA(d, h, 1.0)
                addA(d, t, -1.0)
                for a in range(nta):
                    cf = (1 - u(a, t)) - (1 - u(a, h))
                    if cf:
                        d[cT(a, 1, j)] = cf
                rows.append((d, IB[h, j] - IB[t, j], vB[h, j] + vB[t, j]))
        refset = {i for i, _ in R}
        mnc = sorted({i for p in pairs for i in p} - refset)
        for i in mnc:
            for j in range(nt):
                d = {1 + j: 0.5, 1 + nt + j: -0.5}
                addA(d, i, 1.0)
                for a in range(nta):
                    if u(a, i):
                        d[cT(a, 0, j)] = 0.5
                    else:
                        d[cT(a, 1, j)] = -0.5
                rows.append((d, (IB[i, j] - IF[i, j]) / 2, (vF[i, j] + vB[i, j]) / 4))
        fixed = {}
        if fix_gamma is not None:
            fixed[0] = fix_gamma
        if fix_alpha is not None:
            for i in range(N):
                fixed[cA(i)] = (fix_alpha[0][i], fix_alpha[1][i])
        calmatch = (refset | {i for p in pairs for i in p}) - {r0}
        active = [k for k in range(npar) if k not in fixed and not (cA(0) <= k < cA(0) + N and (k - cA(0)) not in calmatch)]
    col_of = {k: n for n, k in enumerate(active)}
    X = np.zeros((len(rows), len(active)))
    y = np.zeros(len(rows))
    var = np.zeros(len(rows))
    for r, (d, yy, vv) in enumerate(rows):
        for k, cf in d.items():
            if k in fixed:
                yy = yy - cf * fixed[k][0]
                vv = vv + cf * cf * fixed[k][1]
            else:
                X[r, col_of[k]] += cf
        y[r], var[r] = yy, vv
    return dict(X=X, y=y, var=var, active=active, npar=npar, fixed=fixed, R=R, pairs=pairs)


def solve_spec(S):
    """reference WLS on the Spec system: column-scaled, weighted, lstsq in float64 with one step of refinement.
    returns p, cov (pinv-based), wssr, rank"""
    X, y, var = S["X"], S["y"], S["var"]
    w = 1.0 / var
    sw = np.sqrt(w)
    A = X * sw[:, None]
    b = y * sw
    cs = np.sqrt((A * A).sum(axis=0))
    cs[cs == 0] = 1.0
    As = A / cs
    sol, _, rank, sv = np.linalg.lstsq(As, b, rcond=1e-13)
    res = b - As @ sol
    d2 = np.linalg.lstsq(As, res, rcond=1e-13)[0]
    sol = sol + d2
    p = sol / cs
    wssr = float(((b - A @ p) ** 2).sum())
    dof = len(y) - X.shape[1]
    s2 = wssr / dof if dof > 0 else np.nan
    G = np.linalg.pinv(As.T @ As, rcond=1e-13) / np.outer(cs, cs)
    return dict(p=p, cov=G * s2, wssr=wssr, rank=int(rank), ncol=X.shape[1], s2=s2, dof=dof)


def wssr_of(S, p):
    r = S["y"] - S["X"] @ p
    return float((r * r / S["var"]).sum())


# ----------------------------------------------------------------------------------------------------------------------
REGISTRY = {}      # description key -> (case, opts): lets a failing case be written out in full (core.Ctx.fail)


def case_desc(c, opts=None):
    k = len(REGISTRY) + 1
    if len(REGISTRY) > 400:
        REGISTRY.clear()
    REGISTRY[k] = (c, opts)
    d = dict(_k=k, double=c.double, nx=c.nx, nt=c.nt, span=c.span, irregular=bool(c.irregular), noise=c.noise, var_kind=c.var_kind,
             sections=c.sections, trans_att=c.trans_att,
             matching=[[m[0].start, m[0].stop, m[1].start, m[1].stop, m[2]] for m in c.matching])
    if opts:
        d["opts"] = {k: (v if not isinstance(v, tuple) else [np.asarray(t).tolist() for t in v]) for k, v in opts.items()}
    return d


def fix_to_model(opts):
    return {k: opts[k] for k in ("fix_gamma", "fix_dalpha", "fix_alpha") if opts.get(k) is not None}


def weights_region(c, S_own, cap):
    """classifier of known finding C01-weights-transposed: single-ended, the captured system has the Spec's (X, y) rows
    but the weights are attached in location-major order"""
    if c.double or c.nt < 2:
        return False
    if S_own["X"].shape != cap["X"].shape:
        return False
    one = np.ones(len(cap["y"]))
    bad_xy, _ = match_rows(S_own["X"], S_own["y"], one, cap["X"], cap["y"], one)
    if bad_xy:
        return False
    bad_w, _ = match_rows(S_own["X"], S_own["y"], 1.0 / S_own["var"], cap["X"], cap["y"], cap["w"])
    return bad_w > 0


def named_outputs_at_positions(ctx, c, out, desc, opts):
    """the named parameters of a result are the entries of its own p_val at the documented positions, their `_var` the matching
    diagonal entries of p_cov: gamma | (dalpha or alpha) | c, resp. gamma | df | db | alpha | per splice: forward losses, backward
    losses; talpha_fw[t, s] is the loss of splice s at time t, talpha_fw_full[x, t] the sum of the losses acting at x"""
    p = np.asarray(out["p_val"].values, dtype=float)
    v = np.diag(np.asarray(out["p_cov"].values, dtype=float)) if "p_cov" in out else None
    nt, nx, nta = c.nt, c.nx, len(c.trans_att)
    x = np.asarray(c.x, dtype=float)
    want = {}
    if c.double:
        base = 1 + 2 * nt + nx
        want.update(gamma=[0], df=list(range(1, 1 + nt)), db=list(range(1 + nt, 1 + 2 * nt)), alpha=list(range(1 + 2 * nt, base)))
        taf = [[base + s * 2 * nt + t for s in range(nta)] for t in range(nt)]
        tab = [[base + s * 2 * nt + nt + t for s in range(nta)] for t in range(nt)]
    else:
        if opts.get("fix_alpha") is not None:
            base = 1 + nx + nt
            want.update(gamma=[0], alpha=list(range(1, 1 + nx)), c=list(range(1 + nx, base)))
        else:
            base = 2 + nt
            want.update(gamma=[0], dalpha=[1], c=list(range(2, base)))
        taf = [[base + s * nt + t for s in range(nta)] for t in range(nt)]
        tab = None
    problems = []

    def cmp(name, idx, arr):
        if name not in out:
            return
        da = out[name]
        if set(da.dims) == {"time", "trans_att"}:
            da = da.transpose("time", "trans_att")
        got = np.asarray(da.values, dtype=float)
        exp = np.asarray(arr[np.asarray(idx, dtype=int)] if np.size(idx) else np.zeros(np.shape(idx)), dtype=float).reshape(np.shape(idx))
        if got.ndim <= 1 and got.size == exp.size:
            got = got.reshape(exp.shape)
        if got.shape != exp.shape or not np.allclose(got, exp, rtol=1e-12, atol=1e-300, equal_nan=True):
            problems.append(f"{name} is not p_{'val' if arr is p else 'cov diagonal'} at its documented positions")

    for name, idx in want.items():
        cmp(name, idx, p)
        if v is not None:
            cmp(name + "_var", idx, v)
    if nta:
        cmp("talpha_fw", taf, p)
        if v is not None:
            cmp("talpha_fw_var", taf, v)
        if tab is not None:
            cmp("talpha_bw", tab, p)
            if v is not None:
                cmp("talpha_bw_var", tab, v)
        # integrated losses: forward acts on x >= splice, backward on x < splice
        for name, table, mask in (("talpha_fw_full", taf, lambda s: x >= s), ("talpha_bw_full", tab, lambda s: x < s)):
            if table is None or name not in out:
                continue
            exp = np.zeros((nx, nt))
            for si, s in enumerate(c.trans_att):
                exp[mask(s)] += np.array([p[table[t][si]] for t in range(nt)])[None, :]
            got = np.asarray(out[name].transpose("x", "time").values, dtype=float)
            if got.shape != exp.shape or not np.allclose(got, exp, rtol=1e-12, atol=1e-15):
                problems.append(f"{name} is not the sum of the splice losses of p_val acting at each location")
    ctx.count("named outputs vs p_val positions")
    if problems:
        ctx.fail("; ".join(problems[:3]), desc)


def check_design_blocks(ctx, c, desc):
    """the COO blocks the design-matrix builders store, entry for entry, vs `Model/Design.lean` (driver op `design`): exercises the
    numpy semantics of arange / tile / repeat written into `Model/PyPrim` on the sizes of this case (the translator ties the
    expressions themselves to the source; `Props/Design.lean` proves what the entries mean for every size)"""
    import inspect
    from dtscalibration import calibrate_utils as cu
    ixs = fibre.ix_sec(c)
    xs = np.asarray(c.x, dtype=float)[ixs]
    nx, nt = len(ixs), c.nt
    ix0 = [int(np.sum(xs < s)) for s in c.trans_att]        # first reference row at or behind the splice
    pairs = fibre.match_pairs(c) if not c.double else []
    sections = fibre.sections_dict(c)

    def pairs_of(M, lo=None, hi=None, off=0):
        M = M.tocoo() if hasattr(M, "tocoo") else M
        rc = [(int(r), int(k) - off) for r, k in zip(M.row, M.col) if lo is None or lo <= k < hi]
        return sorted(rc)

    def model_pairs(b):
        return sorted(zip(b["row"], b["col"]))

    try:
        with warnings.catch_warnings(), np.errstate(all="ignore"):
            warnings.simplefilter("ignore")
            if c.double:
                if list(inspect.signature(cu.construct_submatrices).parameters) != ["sections", "nt", "nx", "ds", "trans_att", "x_sec"]:
                    ctx.skip("construct_submatrices: signature changed, design blocks not compared")
                    return
                E, Z_D, Z_gamma, _, Z_TA_fw, Z_TA_bw = cu.construct_submatrices(sections, nt, nx, c.ds, list(c.trans_att), xs)
                got = dict(d_gamma=pairs_of(Z_gamma), d_d=pairs_of(Z_D), d_e=pairs_of(E))
                for a in range(len(ix0)):
                    got[f"d_ta_fw[{a}]"] = pairs_of(Z_TA_fw, 2 * nt * a, 2 * nt * (a + 1), 2 * nt * a)
                    got[f"d_ta_bw[{a}]"] = pairs_of(Z_TA_bw, 2 * nt * a, 2 * nt * (a + 1), 2 * nt * a)
            else:
                mi = np.array(pairs, dtype=int) if pairs else None
                r = cu.calibration_single_ended_solver(c.ds, sections, c.var_args.get("st_var"), c.var_args.get("ast_var"),
                                                       solver="external_split", matching_indices=mi, trans_att=list(c.trans_att))
                got = dict(s_gamma=pairs_of(r["X_gamma"]), s_dalpha=pairs_of(r["X_dalpha"]), s_c=pairs_of(r["X_c"]))
                for a in range(len(ix0)):
                    got[f"s_ta[{a}]"] = pairs_of(r["X_TA"], nt * a, nt * (a + 1), nt * a)
                if pairs:
                    got["s_ma"] = pairs_of(r["X_m"], 0, 2 + nt)
                    if ix0:
                        got["s_mt"] = pairs_of(r["X_m"], 2 + nt, 2 + nt + nt * len(ix0), 2 + nt)
    except Exception as e:  # noqa: BLE001
        ctx.skip(f"design blocks not reachable through the solver entry points ({type(e).__name__})")
        return
    xa = np.asarray(c.x, dtype=float)
    M = [[int(xa[t] >= s) - int(xa[h] >= s) for s in c.trans_att] for h, t in pairs]
    m = ctx.driver().call("design", nt=nt, nx=nx, nm=len(pairs), ix0=ix0, M=M)
    if pairs and ix0 and not c.double and "s_mt" in got:
        # the stored values of the splice part of the matching rows, entry for entry (explicit zeros included)
        Xm = r["X_m"].tocoo()
        trip = sorted((int(a), int(b) - (2 + nt), float(v)) for a, b, v in zip(Xm.row, Xm.col, Xm.data) if b >= 2 + nt)
        want_t = sorted(zip(m["s_mt"]["row"], m["s_mt"]["col"], [float(v) for v in m["s_mt_data"]]))
        ctx.count("design blocks compared")
        if trip != want_t:
            first = next((i for i, (u, v) in enumerate(zip(trip, want_t)) if u != v), min(len(trip), len(want_t)))
            ctx.mismatch("Design.s_mt (row, col, value) entries", desc, dict(n=len(want_t), first=want_t[first:first + 3]),
                         dict(n=len(trip), first=trip[first:first + 3]))
    for key, g in got.items():
        if "[" in key:
            name, a = key[:-1].split("[")
            want = model_pairs(m[name][int(a)])
        else:
            want = model_pairs(m[key])
        ctx.count("design blocks compared")
        if g != want:
            first = next((i for i, (u, v) in enumerate(zip(g, want)) if u != v), min(len(g), len(want)))
            ctx.mismatch(f"Design.{key} (row, col) entries", desc, dict(n=len(want), first=want[first:first + 3]),
                         dict(n=len(g), first=g[first:first + 3]))


def check_wls_case(ctx, c, opts, known_weights=None, compare_full=True):
    """one calibration: model vs code (correspondence) and code vs the Spec optimum (property).  returns the real output"""
    desc = case_desc(c, opts)
    out, caps = run_real(c, **opts)
    fix = fix_to_model(opts)
    m = run_model(ctx, c, **fix)
    S_own = spec_system(c, **fix)
    if isinstance(out, tuple):
        # a valid input must calibrate; the only accepted refusal is an unidentifiable configuration
        R = solve_spec(S_own)
        if len(S_own["y"]) <= R["ncol"]:
            ctx.skip("code refused a configuration without residual degrees of freedom")
        elif R["rank"] < R["ncol"]:
            ctx.skip("code refused a rank-deficient configuration")
        else:
            ctx.fail(f"calibration raised {out[1]}: {out[2]}", desc)
        return None
    if not caps:
        ctx.mismatch("wls_sparse hook", desc, "called", "not called")
        return out
    if not opts:
        check_design_blocks(ctx, c, desc)
    named_outputs_at_positions(ctx, c, out, desc, opts)
    cap = caps[-1]
    p_code, v_code, cov_code = cap["out"][0], cap["out"][1], cap["out"][2]
    # ---------------- correspondence: system, solution, layout
    ident = None
    if m is None:
        ctx.skip("model: exact solve not confirmed (singular/none)")
    else:
        Xm, ym, wm = model_rows_dense(m)
        bad, first = match_rows(Xm, ym, wm, cap["X"], cap["y"], cap["w"])
        if bad and not c.double:
            # the model carries the recorded defect C01-weights-transposed (`codeWeightOrder`); a source in which the weights are
            # attached to their own observations corresponds to the model without that flag — no alarm for a repaired tree
            m2 = run_model(ctx, c, code_weight_order=False, **fix)
            if m2 is not None:
                X2, y2, w2 = model_rows_dense(m2)
                bad2, _ = match_rows(X2, y2, w2, cap["X"], cap["y"], cap["w"])
                if not bad2:
                    m, Xm, ym, wm, bad = m2, X2, y2, w2, 0
                    ctx.count("single-ended weights attached to their own observations (recorded defect absent in this source)")
        if bad:
            ctx.mismatch("Calib.system rows (X, y, w)", desc, dict(unmatched=bad, first=first), "see replay")
        act = m["active"]
        ident = m["rank"] == len(act)
        ctx.count("identifiable" if ident else "rank-deficient")
        if not bad:
            pm = m["_p_val"][act]
            Cm = m["_p_cov"][np.ix_(act, act)]
            sd = np.sqrt(np.maximum(np.diag(Cm), 0))
            # residual variance at float round-off level (noise-free data): covariances are numerical zeros, not compared
            dof = max(int(m["dof"]), 1)
            floor = float((cap["w"] * (1e-12 * np.maximum(1.0, np.abs(cap["y"]))) ** 2).sum()) / dof
            roundoff = fibre.dy(m["errVar"]) <= 1e4 * floor
            if roundoff:
                ctx.count("errVar at round-off level: covariance not compared")
            if ident:
                tol = TAU_P * sd + 1e-9 * np.abs(pm) + 1e-12 + (1e-9 if roundoff else 0)
                if np.any(np.abs(p_code - pm) > tol):
                    k = int(np.argmax(np.abs(p_code - pm) / tol))
                    ctx.mismatch("Wls.solve optimum vs LSQR", desc, dict(col=act[k], model=float(pm[k]), sd=float(sd[k])), float(p_code[k]))
                tolc = TAU_C * np.sqrt(np.outer(np.diag(Cm), np.diag(Cm))) + 1e-300
                dC = np.abs(cov_code - Cm)
                if np.any(dC > tolc) and not roundoff:
                    i, j = np.unravel_index(int(np.argmax(dC / tolc)), dC.shape)
                    ctx.mismatch("Wls g-inverse * errVar vs lstsq p_cov", desc,
                                 dict(i=act[i], j=act[j], model=float(Cm[i, j]), rel=float(dC[i, j] / tolc[i, j] * TAU_C)), float(cov_code[i, j]))
                if compare_full:
                    pf, Cf = out["p_val"].values, out["p_cov"].values
                    pmf, Cmf = m["_p_val"], m["_p_cov"]
                    sdf = np.sqrt(np.maximum(np.diag(Cmf), 0))
                    tolf = TAU_P * sdf + 1e-9 * np.abs(pmf) + 1e-12 + (1e-9 if roundoff else 0)
                    if pf.shape != pmf.shape or np.any(np.abs(pf - pmf) > tolf):
                        ctx.mismatch("Calib full-layout p_val", desc, pmf.tolist()[:8], pf.tolist()[:8])
                    tolcf = TAU_C * np.sqrt(np.outer(np.diag(Cmf), np.diag(Cmf))) + 1e-300
                    if Cf.shape != Cmf.shape or (not roundoff and np.any(np.abs(Cf - Cmf) > tolcf + 1e-12 * np.abs(Cmf))):
                        dd = np.abs(Cf - Cmf) - tolcf
                        i, j = np.unravel_index(int(np.argmax(dd)), dd.shape)
                        ctx.mismatch("Calib full-layout p_cov", desc, dict(i=int(i), j=int(j), model=float(Cmf[i, j])), float(Cf[i, j]))
                    tf = fibre.dymat(m["tmpf"])
                    if np.nanmax(np.abs(tf - out["tmpf"].values)) > 1e-6 + 1e3 * np.nanmax(sdf[:1]) * TAU_P:
                        ctx.mismatch("Calib.tmpf", desc, float(np.nanmax(np.abs(tf - out["tmpf"].values))), "K max abs diff")
            else:
                fit_code = cap["X"] @ p_code
                fm = Xm @ pm
                # same rows only up to permutation: compare the sorted fitted residual norms
                r_code = float((cap["w"] * (cap["y"] - fit_code) ** 2).sum())
                r_mod = float((wm * (ym - fm) ** 2).sum())
                # LSQR stops at a relative residual tolerance; at round-off level (noise-free data) both are numerical zeros
                if abs(r_code - r_mod) > 1e-6 * r_mod + 1e4 * floor * dof:
                    ctx.mismatch("Wls.solve WSSR (rank-deficient)", desc, r_mod, r_code)
    # ---------------- the property itself (independent of the Lean model)
    R = solve_spec(S_own)
    in_region = False
    problems = []
    if cap["X"].shape[1] != S_own["X"].shape[1]:
        problems.append(f"solver received {cap['X'].shape[1]} unknowns, the Spec problem has {S_own['X'].shape[1]}")
    else:
        w_code = wssr_of(S_own, p_code)
        if w_code > R["wssr"] * (1 + 1e-6) + 1e-14 * max(1.0, float((S_own["y"] ** 2 / S_own["var"]).sum())):
            problems.append(f"returned parameters do not minimise the weighted SSR with own-variance weights: "
                            f"{w_code:.12g} > optimum {R['wssr']:.12g}")
        floor_o = float(((1e-12 * np.maximum(1.0, np.abs(S_own["y"]))) ** 2 / S_own["var"]).sum()) / max(R["dof"], 1)
        if R["rank"] == R["ncol"] and R["dof"] > 0 and np.all(np.isfinite(R["cov"])) and R["s2"] > 1e4 * floor_o:
            sd = np.sqrt(np.maximum(np.diag(R["cov"]), 0))
            tol = 10 * TAU_C * np.outer(sd, sd) + 1e-300
            if np.any(np.abs(cov_code - R["cov"]) > tol):
                i, j = np.unravel_index(int(np.argmax(np.abs(cov_code - R["cov"]) / tol)), tol.shape)
                problems.append(f"p_cov[{i},{j}] = {cov_code[i, j]:.6g} but inv(X'WX)*s2 gives {R['cov'][i, j]:.6g}")
    if problems:
        in_region = weights_region(c, S_own, cap)
        ctx.fail("; ".join(problems), desc, known=known_weights if in_region else None)
    return out


def attach_data(case):
    """called by Ctx.fail: replace the registry key of a failing case by the full input"""
    if isinstance(case, dict) and "_k" in case and case["_k"] in REGISTRY:
        c, opts = REGISTRY[case["_k"]]
        case = dict(case)
        case["_data"] = fibre.dump_case(c)
    return case


def replay_with_data(path, prop, runner):
    """--replay for calibration cases: rebuild the exact input from the replay file and run the property's single-case check on
    it; exit 1 if the property fails again on the current source, 0 if it holds"""
    import json
    import core
    r = json.loads(open(path).read())
    case = r.get("case") or {}
    print(json.dumps(r.get("what") or r.get("no_longer_checks"))[:2000])
    if not isinstance(case, dict) or "_data" not in case:
        print("replay: the file holds no input data; re-run `VERIF_SEED=%s harness/vcheck.py %s --tier %s` (cases are regenerated from the seed)"
              % (r.get("seed"), prop, r.get("tier")))
        return 1
    c = fibre.load_case(case["_data"])
    opts = {}
    for k, v in (case.get("opts") or {}).items():
        opts[k] = tuple(np.array(t) if isinstance(t, list) else t for t in v) if isinstance(v, list) else v
    ctx = core.Ctx(prop, "quick", int(r.get("seed", 0)))
    try:
        runner(ctx, c, opts)
    finally:
        if ctx.drv is not None:
            ctx.drv.close()
    for f in ctx.failures[:3]:
        print("FAILS AGAIN:", f["what"])
    for kid, h in ctx.known_hits.items():
        print("known finding met:", kid)
    print("property fails on this input" if ctx.failures else "property holds on this input (with the current source)")
    return 1 if ctx.failures else 0
