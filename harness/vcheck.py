#!/venv/bin/python
"""Entry point of every registered check:  vcheck.py <Cxx> [--tier quick|thorough] [--replay file]
exit 0: property held on everything explored; exit 1: VIOLATION line printed; exit 2: harness problem/timeout."""
import argparse
import importlib
import os
import sys
import traceback

# one BLAS/OpenMP thread per process: the checks parallelise over processes, and single-threaded reductions make the
# floating-point results independent of the machine's load and core count
for _v in ("OMP_NUM_THREADS", "OPENBLAS_NUM_THREADS", "MKL_NUM_THREADS", "NUMEXPR_NUM_THREADS"):
    os.environ.setdefault(_v, "1")

sys.path.insert(0, os.path.dirname(os.path.abspath(__file__)))
import core  # noqa: E402


def main():
    ap = argparse.ArgumentParser()
    ap.add_argument("prop")
    ap.add_argument("--tier", default=os.environ.get("VERIF_TIER", "quick"))
    ap.add_argument("--replay")
    a = ap.parse_args()
    prop = a.prop.upper()
    tier = a.tier if a.tier in ("quick", "thorough") else "quick"
    try:
        seed = int(os.environ.get("VERIF_SEED", "0"))
    except ValueError:
        seed = 0
    mod = importlib.import_module(f"props.{prop.lower()}")
    if a.replay:
        sys.exit(mod.replay(a.replay))
    ctx = core.Ctx(prop, tier, seed)
    try:
        lean = core.lean_build_and_audit(prop, thorough=(tier == "thorough"))
        try:
            mod.run(ctx)
        except core.LeanFailure as e:
            lean["problems"].append({"kind": "driver", "detail": str(e)})
        except Exception as e:   # noqa: BLE001
            # the harness could not process what the code returned.  If a property failure was recorded before that, the failure
            # stands and is reported; otherwise this is a harness problem (exit 2), never a violation by itself.
            if not ctx.failures:
                raise
            ctx.note(f"harness exception after a recorded failure: {type(e).__name__}: {str(e)[-300:]}")
        if (lean["problems"] or ctx.mismatches) and not ctx.failures and hasattr(mod, "search"):
            try:
                mod.search(ctx)
            except core.LeanFailure:
                pass
        rc = core.finish(ctx, lean, mod)
    except Exception:
        traceback.print_exc()
        print(f"[{prop}] harness error (exit 2, not a violation)")
        rc = 2
    finally:
        if ctx.drv is not None:
            ctx.drv.close()
    sys.exit(rc)


if __name__ == "__main__":
    main()
