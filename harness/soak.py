#!/venv/bin/python
"""Clean-tree soak: run every registered check for several seeds (and tiers) in parallel and summarise exit codes.
Usage: soak.py [--tier quick|thorough] [--seeds 0,1,2] [--props C01,C02] [--jobs 8]
Not a registered check; a development aid (DESIGN §9 self-validation)."""
import argparse
import json
import os
import subprocess
import sys
import time
from concurrent.futures import ThreadPoolExecutor
from pathlib import Path

VERIF = Path(__file__).resolve().parent.parent


def one(job):
    prop, seed, tier = job
    env = dict(os.environ, VERIF_SEED=str(seed))
    t0 = time.time()
    p = subprocess.run(["/venv/bin/python", str(VERIF / "harness" / "vcheck.py"), prop, "--tier", tier], cwd=VERIF, env=env,
                       stdout=subprocess.PIPE, stderr=subprocess.STDOUT, text=True)
    lines = [l for l in p.stdout.splitlines() if l.startswith("VIOLATION") or l.startswith("[") or "harness error" in l or "Traceback" in l]
    return prop, seed, p.returncode, round(time.time() - t0, 1), lines[-3:]


def main():
    ap = argparse.ArgumentParser()
    ap.add_argument("--tier", default="quick")
    ap.add_argument("--seeds", default="0,1,2,3")
    ap.add_argument("--props", default="")
    ap.add_argument("--jobs", type=int, default=8)
    a = ap.parse_args()
    man = json.load(open(VERIF / "MANIFEST.json"))
    props = [c["property_id"] for c in man["checks"]]
    if a.props:
        props = [p for p in props if p in a.props.split(",")]
    jobs = [(p, int(s), a.tier) for s in a.seeds.split(",") for p in props]
    bad = 0
    with ThreadPoolExecutor(a.jobs) as ex:
        for prop, seed, rc, wall, lines in ex.map(one, jobs):
            flag = "ok " if rc == 0 else "BAD"
            if rc != 0:
                bad += 1
            print(f"{flag} {prop} seed={seed} rc={rc} {wall}s" + ("" if rc == 0 else " :: " + " | ".join(lines)), flush=True)
    print(f"soak finished: {len(jobs)} runs, {bad} non-zero")
    sys.exit(1 if bad else 0)


if __name__ == "__main__":
    main()
