#!/venv/bin/python
"""Run the pinned test suite with every admitted seeded change whose meta.json says tests == "pending" (one at a time, scratch
worktree of /repo HEAD, removed afterwards); record the summary line in meta.json, or move the change to seeded/_rejected/ when the
suite does not pass with it (such a change would have been caught by the existing tests and is not a valid seeded change).
Development aid (DESIGN §14)."""
import json
import os
import re
import shutil
import subprocess
import sys
from pathlib import Path

VERIF = Path(__file__).resolve().parent.parent
SCRATCH = Path(os.environ.get("SEEDED_SCRATCH", "/tmp/seedtests"))


def sh(cmd, **kw):
    return subprocess.run(cmd, stdout=subprocess.PIPE, stderr=subprocess.STDOUT, text=True, **kw)


def main():
    jobs = sys.argv[1] if len(sys.argv) > 1 else "8"
    for d in sorted((VERIF / "seeded").iterdir()):
        mp = d / "meta.json"
        if not mp.exists():
            continue
        meta = json.loads(mp.read_text())
        if meta.get("tests") != "pending":
            continue
        wt = SCRATCH / d.name
        sh(["git", "-C", "/repo", "worktree", "remove", "--force", str(wt)])
        SCRATCH.mkdir(parents=True, exist_ok=True)
        sh(["git", "-C", "/repo", "worktree", "add", "--detach", str(wt), "HEAD"])
        try:
            r = sh(["git", "-C", str(wt), "apply", str(d / "patch.diff")])
            if r.returncode != 0:
                print(f"{d.name}: patch does not apply to HEAD: {r.stdout[-300:]}")
                continue
            env = dict(os.environ, PYTHONPATH=str(wt / "src"), MPLBACKEND="Agg", OMP_NUM_THREADS="1", OPENBLAS_NUM_THREADS="1")
            t = sh(["/venv/bin/python", "-m", "pytest", "-q", "-p", "no:cacheprovider", "-n", jobs, "--timeout=3000"], env=env, cwd=str(wt), timeout=4 * 3600)
            summary = next((l for l in reversed(t.stdout.splitlines()) if re.search(r"\d+ passed", l)), t.stdout[-300:]).strip()
            ok = "79 passed" in summary and " failed" not in summary and " error" not in summary
            if not ok:
                # a loaded machine makes notebook kernels and Monte Carlo tests time out: re-run the failed tests on their own before
                # concluding that the existing suite catches the change
                failed_ids = [l.split()[1] for l in t.stdout.splitlines() if l.startswith("FAILED ") and len(l.split()) > 1]
                if 0 < len(failed_ids) <= 4:
                    t2 = sh(["/venv/bin/python", "-m", "pytest", "-q", "-p", "no:cacheprovider", "--timeout=6000"] + failed_ids, env=env, cwd=str(wt), timeout=4 * 3600)
                    s2 = next((l for l in reversed(t2.stdout.splitlines()) if re.search(r"\d+ passed", l)), "").strip()
                    if f"{len(failed_ids)} passed" in s2 and " failed" not in s2:
                        ok = True
                        summary = f"{summary} -- the {len(failed_ids)} failed test(s) re-run alone: {s2}"
            print(f"{d.name}: {summary} -> {'ok' if ok else 'REJECTED'}", flush=True)
            if ok:
                meta["tests"] = summary
                meta["ran"] = meta.get("ran", "").replace("'skipped'", f"'{summary}'")
                mp.write_text(json.dumps(meta, indent=1))
            else:
                failed = [l for l in t.stdout.splitlines() if l.startswith("FAILED")]
                meta["tests"] = summary
                meta["failed"] = failed[:10]
                mp.write_text(json.dumps(meta, indent=1))
                (VERIF / "seeded" / "_rejected").mkdir(exist_ok=True)
                shutil.move(str(d), str(VERIF / "seeded" / "_rejected" / d.name))
        finally:
            sh(["git", "-C", "/repo", "worktree", "remove", "--force", str(wt)])


if __name__ == "__main__":
    main()
