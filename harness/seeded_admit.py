#!/venv/bin/python
"""Admit a candidate seeded change (from a sub-agent) into /verif/seeded/<id>/ after confirming, in a scratch worktree of /repo:
  1. the patch applies to the current HEAD,
  2. the pinned test suite passes with it (same outcome counts as on the clean tree),
  3. the demonstration exits 0 on the clean tree and non-zero with the change.
Usage: seeded_admit.py <property> <id> <patch.diff> <demo.py> [<notes.md>] [--skip-tests]
Development aid (DESIGN §14), not a registered check."""
import json
import os
import re
import shutil
import subprocess
import sys
from pathlib import Path

VERIF = Path(__file__).resolve().parent.parent
SCRATCH = Path(os.environ.get("SEEDED_SCRATCH", "/tmp/seedadmit"))
EXPECT = os.environ.get("SEEDED_EXPECT", "79 passed, 5 skipped, 1 xfailed, 1 xpassed")


def sh(cmd, **kw):
    return subprocess.run(cmd, stdout=subprocess.PIPE, stderr=subprocess.STDOUT, text=True, **kw)


def main():
    args = [a for a in sys.argv[1:] if not a.startswith("--")]
    skip_tests = "--skip-tests" in sys.argv
    prop, sid, patch, demo = args[:4]
    notes = args[4] if len(args) > 4 else None
    wt = SCRATCH / sid
    sh(["git", "-C", "/repo", "worktree", "remove", "--force", str(wt)])
    SCRATCH.mkdir(parents=True, exist_ok=True)
    sh(["git", "-C", "/repo", "worktree", "add", "--detach", str(wt), "HEAD"])
    out = dict(id=sid, property=prop)
    try:
        r = sh(["git", "-C", str(wt), "apply", patch])
        if r.returncode != 0:
            print(f"REJECT {sid}: patch does not apply: {r.stdout[-400:]}")
            return 1
        files = sh(["git", "-C", str(wt), "diff", "--stat"]).stdout.strip().splitlines()
        env_clean = dict(os.environ, PYTHONPATH="/repo/src", MPLBACKEND="Agg")
        env_mut = dict(os.environ, PYTHONPATH=str(wt / "src"), MPLBACKEND="Agg")
        rc = sh(["/venv/bin/python", demo], env=env_clean, cwd="/tmp", timeout=3600)
        rm = sh(["/venv/bin/python", demo], env=env_mut, cwd="/tmp", timeout=3600)
        out.update(demo_clean_rc=rc.returncode, demo_mutant_rc=rm.returncode, demo_mutant_tail=rm.stdout[-600:])
        if rc.returncode != 0 or rm.returncode == 0:
            print(f"REJECT {sid}: demo clean rc={rc.returncode} mutant rc={rm.returncode}\n--- clean tail\n{rc.stdout[-500:]}\n--- mutant tail\n{rm.stdout[-500:]}")
            return 1
        summary = "skipped"
        if not skip_tests:
            t = sh(["/venv/bin/python", "-m", "pytest", "-q", "-p", "no:cacheprovider", "-n", "8", "--timeout=900"], env=env_mut, cwd=str(wt), timeout=7200)
            summary = next((l for l in reversed(t.stdout.splitlines()) if re.search(r"\d+ passed", l)), t.stdout[-300:])
            if " failed" in summary or " error" in summary or "79 passed" not in summary:
                print(f"REJECT {sid}: test suite with the change: {summary}")
                return 1
        d = VERIF / "seeded" / sid
        d.mkdir(parents=True, exist_ok=True)
        shutil.copy(patch, d / "patch.diff")
        shutil.copy(demo, d / "demo.py")
        if notes and Path(notes).exists():
            shutil.copy(notes, d / "notes.md")
        meta = dict(property=prop, also=[], origin="fresh sub-agent given only the property text and a scratch worktree",
                    breaks=[prop], needs=[Path(notes).read_text().strip()[:1500] if notes and Path(notes).exists() else ""],
                    files=files, tests=("pending" if skip_tests else summary.strip()),
                    ran=f"scratch worktree of /repo HEAD: git apply ok; pytest -n 8 with the change: '{summary.strip()}'; "
                        f"demo.py clean rc={rc.returncode}, with the change rc={rm.returncode}")
        (d / "meta.json").write_text(json.dumps(meta, indent=1))
        print(f"ADMIT {sid}: tests '{summary.strip()}', demo {rc.returncode}/{rm.returncode}")
        return 0
    finally:
        sh(["git", "-C", "/repo", "worktree", "remove", "--force", str(wt)])


if __name__ == "__main__":
    sys.exit(main())
