"""Seeded generator of physically valid single-/double-ended fibres (Raman model of the package) with reference
sections, splices, matching sections, noise and the four ways of giving a noise variance.  Shared by C01..C08, C18, C19."""
import math
from fractions import Fraction

import numpy as np
import xarray as xr

from core import rj

C273 = 273.15


class Case:
    pass


def _grid(rng, nx, span, irregular):
    if irregular:
        steps = np.array([rng.choice([0.5, 1.0, 1.0, 1.5, 2.0]) for _ in range(nx - 1)])
        x = np.concatenate(([0.0], np.cumsum(steps)))
        x = x / x[-1] * span
        x = np.round(x * 64) / 64  # short dyadics
        for k in range(1, nx):  # keep strictly increasing after rounding
            if x[k] <= x[k - 1]:
                x[k] = x[k - 1] + 1 / 64
    else:
        x = np.round(np.linspace(0.0, span, nx) * 64) / 64
        for k in range(1, nx):
            if x[k] <= x[k - 1]:
                x[k] = x[k - 1] + 1 / 64
    return x + rng.choice([0.0, 0.0, 2.5, -1.0])


def _random_blocks(rng, nx, n_stretch, n_match):
    nseg = n_stretch + n_match * 2
    # --- partition the index range into gaps and blocks: choose 2*nseg distinct cut points, blocks never touch
    for _try in range(200):
        cuts = sorted(rng.sample(range(0, nx), 2 * nseg)) if 2 * nseg <= nx else None
        if cuts is None:
            nseg -= 1
            continue
        blocks = [(cuts[2 * k], cuts[2 * k + 1]) for k in range(nseg)]
        if all(blocks[k][1] < blocks[k + 1][0] for k in range(nseg - 1)) and all(b[1] - b[0] >= 1 for b in blocks):
            break
    else:
        blocks = [(k * (nx // nseg), k * (nx // nseg) + max(1, nx // nseg - 2)) for k in range(nseg)]
    # now and then a stretch that selects a single location
    if rng.random() < 0.2:
        k = rng.randrange(len(blocks))
        j = rng.randint(blocks[k][0], blocks[k][1])
        blocks[k] = (j, j)
    # matching sections need two blocks of equal length: trim
    order = list(range(nseg))
    rng.shuffle(order)
    match_blocks = []
    used = set()
    for m in range(n_match):
        if 2 * m + 1 >= len(order):
            break
        a, b = order[2 * m], order[2 * m + 1]
        la = blocks[a][1] - blocks[a][0]
        lb = blocks[b][1] - blocks[b][0]
        ln = min(la, lb)
        ba = (blocks[a][0], blocks[a][0] + ln)
        bb = (blocks[b][0], blocks[b][0] + ln)
        match_blocks.append((ba, bb))
        used |= {a, b}
    ref_blocks = [blocks[k] for k in range(nseg) if k not in used]
    if not ref_blocks:
        ref_blocks = [blocks[0]]
    return ref_blocks, match_blocks


def make_case(rng, double=False, nx=None, nt=None, span=None, n_baths=None, n_stretch=None, nta=0, n_match=0,
              noise=None, var_kind=None, irregular=None, shuffle=True, j_config=None, layout=None, atten=None, trans_order=None,
              xgrid=None, bath_temps=None):
    """returns a Case with .ds, .sections [(key, [(a, b), ...])], .trans_att, .matching [(hs, ts, rev)], .truth, .var_args"""
    c = Case()
    nx = nx or rng.randint(12, 40)
    nt = nt or rng.randint(1, 6)
    span = span or rng.choice([10.0, 50.0, 100.0, 400.0, 2000.0, 10000.0])
    irregular = rng.random() < 0.3 if irregular is None else irregular
    x = _grid(rng, nx, span, irregular)
    if xgrid is not None:
        x = np.asarray(xgrid, dtype=float)
        nx, span = len(x), float(x[-1] - x[0])
    n_baths = n_baths or rng.randint(1, 3)
    n_stretch = max(n_baths, n_stretch or rng.randint(n_baths, min(2 * n_baths + 1, 5)))
    nseg = n_stretch + n_match * 2
    if layout is not None:
        # explicit layout: ref_blocks [(i0, i1, bath)], match_blocks [((h0, h1), (t0, t1))], trans positions
        ref_blocks = [(a, b) for a, b, _ in layout["ref_blocks"]]
        match_blocks = list(layout.get("match_blocks", []))
        n_baths = 1 + max(k for _, _, k in layout["ref_blocks"])
    else:
        ref_blocks, match_blocks = _random_blocks(rng, nx, n_stretch, n_match)
    n_baths = min(n_baths, len(ref_blocks))
    keys = [f"bath{k}" for k in range(n_baths)]

    def bounds(i0, i1):
        lo = x[i0] - (x[i0] - x[i0 - 1]) * rng.choice([0, 0, 0.25, 0.5]) if i0 > 0 else x[i0] - rng.choice([0, 0.5])
        hi = x[i1] + (x[i1 + 1] - x[i1]) * rng.choice([0, 0, 0.25, 0.4]) if i1 < nx - 1 else x[i1] + rng.choice([0, 0.5])
        return float(lo), float(hi)

    if layout is not None:
        assign = [k for _, _, k in layout["ref_blocks"]]
    else:
        assign = list(range(n_baths)) + [rng.randrange(n_baths) for _ in range(len(ref_blocks) - n_baths)]
        rng.shuffle(assign)
    secs = {k: [] for k in keys}
    bath_of_loc = {}
    for (i0, i1), b in zip(ref_blocks, assign):
        secs[keys[b]].append(bounds(i0, i1))
        for i in range(i0, i1 + 1):
            bath_of_loc[i] = b
    sections = [(k, v) for k, v in secs.items() if v]
    if shuffle:
        rng.shuffle(sections)
        for _, v in sections:
            rng.shuffle(v)
    keys = [k for k, _ in sections]
    # --- temperatures
    r = np.random.default_rng(rng.randrange(2**31))
    tbath = {k: 5.0 + 12.0 * j + 3 * r.random(nt) + r.normal(0, 0.5) for j, k in enumerate(sorted(keys))}
    if bath_temps is not None:
        tbath = {k: float(bath_temps[int(k[4:])]) + 0.2 * r.random(nt) for k in keys}
    T = 12.0 + 10.0 * r.random((nx, 1)) + 1.5 * r.random((1, nt)) + np.zeros((nx, nt))
    for i, b in bath_of_loc.items():
        kname = f"bath{b}"
        T[i] = tbath[kname]
    matching = []
    for (ba, bb) in match_blocks:
        rev = (rng.random() < 0.7) if j_config is None else j_config
        hs, ts = bounds(*ba), bounds(*bb)
        if rng.random() < 0.5:  # list the pair downstream-first
            hs, ts, ba, bb = ts, hs, bb, ba
        hi = list(range(ba[0], ba[1] + 1))
        ti = list(range(bb[0], bb[1] + 1))
        if rev:
            ti = ti[::-1]
        for h, t in zip(hi, ti):
            if h in bath_of_loc:
                T[t] = T[h]
            else:
                T[h] = T[t] if t in bath_of_loc else T[h]
                T[t] = T[h]
        matching.append((slice(*hs), slice(*ts), rev))
    # --- splices: in gaps between blocks, on or between grid points
    gaps = [i for i in range(2, nx - 2) if i not in bath_of_loc and (i - 1) not in bath_of_loc]
    trans = []
    if layout is not None:
        trans = [float(v) for v in layout.get("trans", [])]
        trans += [float(x[i]) if on_grid else float(x[i] - 0.5 * (x[i] - x[i - 1])) for i, on_grid in layout.get("trans_idx", [])]
        nta = 0
    for _ in range(nta):
        ends = sorted(i1 for (i0, i1) in ref_blocks if 2 <= i1 < nx - 2 and float(x[i1]) not in trans)
        if ends and rng.random() < 0.2:
            # a splice exactly AT the last location of a reference stretch (x = s counts as downstream); half of the time at the
            # last reference location of the whole fibre
            i = ends[-1] if rng.random() < 0.5 else rng.choice(ends)
            trans.append(float(x[i]))
            gaps = [g for g in gaps if abs(g - i) > 1]
            continue
        if not gaps:
            break
        i = rng.choice(gaps)
        gaps = [g for g in gaps if abs(g - i) > 1]
        s = x[i] if rng.random() < 0.4 else x[i] - 0.5 * (x[i] - x[i - 1])
        trans.append(float(s))
    trans.sort()
    if len(trans) >= 2 and ((layout is None and trans_order is None and rng.random() < 0.5) or trans_order == "desc"):
        trans.reverse()   # splices may be listed in any order; every result is labelled by the listed order
    # --- intensities
    gamma = 482.6 + r.normal(0, 2)
    TK = T + C273
    truth = dict(gamma=gamma, T=T)
    ampl = 2000.0
    if not double:
        dalpha = float(r.uniform(-2e-5, 8e-5)) * min(1.0, 2000.0 / span)
        cc = 1.4 + r.normal(0, 0.05, nt)
        IF = gamma / TK - cc[None, :] - dalpha * x[:, None]
        ta_vals = []
        for k, s in enumerate(trans):
            v = 0.05 * (k + 1) + r.normal(0, 0.01, nt)
            IF[x >= s] -= v
            ta_vals.append(v)
        truth.update(dalpha=dalpha, c=cc, ta=ta_vals, alpha=dalpha * x)
    else:
        df = 1.4 + r.normal(0, 0.05, nt)
        db = 1.6 + r.normal(0, 0.05, nt)
        alpha = 5e-5 * min(1.0, 2000.0 / span) * (x - x[0]) + 0.002 * np.sin((x - x[0]) / span * 6)
        IF = gamma / TK - df[None, :] - alpha[:, None]
        IB = gamma / TK - db[None, :] + alpha[:, None]
        taf, tab = [], []
        for k, s in enumerate(trans):
            f = 0.05 * (k + 1) + r.normal(0, 0.005, nt)
            b = 0.08 * (k + 1) + r.normal(0, 0.005, nt)
            IF[x >= s] -= f
            IB[x < s] -= b
            taf.append(f)
            tab.append(b)
        truth.update(df=df, db=db, alpha=alpha, taf=taf, tab=tab)
    k_att = 1e-4 * min(1.0, 1000.0 / span) if atten is None else atten / span   # atten: total attenuation exponent over the fibre
    ast = ampl * np.exp(-k_att * (x - x[0]))[:, None] * (1 + 0.05 * r.random((1, nt)))
    st = ast * np.exp(IF)
    data = {"st": st, "ast": ast}
    if double:
        rast = ampl * np.exp(-k_att * (x[-1] - x))[:, None] * (1 + 0.05 * r.random((1, nt)))
        data.update(rst=rast * np.exp(IB), rast=rast)
    # --- noise and variance arguments
    noise = rng.choice([0.0, 0.001, 0.005, 0.02, 0.05]) if noise is None else noise
    var_kind = var_kind or rng.choice(["float", "array", "dataarray", "callable"])
    slope = 0.5 * noise**2 * ampl + 1e-9
    offset = 0.5 * (noise * ampl) ** 2 * 0.2 + 1e-6
    var_args, var_mats = {}, {}
    for name in list(data):
        clean = data[name]
        if var_kind == "callable":
            v = slope * clean + offset
        elif var_kind == "float":
            v = np.full_like(clean, (max(noise, 1e-4) * ampl * 0.3) ** 2)
        else:
            v = ((max(noise, 1e-4) * clean * 0.5) ** 2) * (0.5 + r.random(clean.shape))
        if noise > 0:
            data[name] = clean + r.normal(0, 1, clean.shape) * np.sqrt(v)
        data[name] = np.maximum(data[name], 1.0)
        m = data[name]
        if var_kind == "callable":
            f = (lambda sl, of: (lambda s: sl * s + of))(slope, offset)
            var_args[name + "_var"] = f
            var_mats[name] = slope * m + offset
        elif var_kind == "float":
            var_args[name + "_var"] = float(v.flat[0])
            var_mats[name] = np.full_like(m, float(v.flat[0]))
        elif var_kind == "array":
            var_args[name + "_var"] = v
            var_mats[name] = v
        else:
            var_args[name + "_var"] = None  # filled below (needs coords)
            var_mats[name] = v
    time = (np.arange(nt) * 30).astype("datetime64[s]")
    dvars = {k: (("x", "time"), v) for k, v in data.items()}
    for k in keys:
        dvars[k] = (("time",), tbath[k])
    dvars["userAcquisitionTimeFW"] = (("time",), np.full(nt, 30.0))
    if double:
        dvars["userAcquisitionTimeBW"] = (("time",), np.full(nt, 30.0))
    ds = xr.Dataset(dvars, coords={"x": x, "time": time}, attrs={"isDoubleEnded": "1" if double else "0"})
    if var_kind == "dataarray":
        for name in data:
            var_args[name + "_var"] = xr.DataArray(var_mats[name], dims=("x", "time"), coords={"x": x, "time": time})
    c.ds, c.double, c.x, c.nt, c.nx = ds, double, x, nt, nx
    c.sections, c.keys, c.tbath = sections, keys, tbath
    c.trans_att, c.matching, c.truth = trans, matching, truth
    c.var_args, c.var_mats, c.var_kind, c.noise = var_args, var_mats, var_kind, noise
    c.var_callable = (float(slope), float(offset))
    c.span, c.irregular = span, irregular
    return c


def correlated_design_case(rng, nt=1, dT=4.0, var_kind="float"):
    """a valid but strongly correlated single-ended design: two short calibration baths a few kelvin apart at the far end of a
    kilometre-scale fibre (x nearly constant inside each bath, so the dalpha column is almost a combination of the gamma and c
    columns; the normalised normal matrix has a singular-value ratio of 1e-8..1e-9) — well determined, and the reported
    covariance has to be inv(X'WX) s2 there as on a lab fibre ("equally for metre-scale and kilometre-scale fibres")"""
    lead = [0.0, 2.0, 4.0, 6.0]
    far = float(rng.choice([6000.0, 9000.0]))
    g1 = [far + 4.0 * k for k in range(7)]
    g2 = [far + 500.0 + 4.0 * k for k in range(7)]
    tail = [far + 700.0, far + 704.0]
    x = lead + g1 + g2 + tail
    layout = dict(ref_blocks=[(4, 10, 0), (11, 17, 1)], match_blocks=[], trans_idx=[])
    return make_case(rng, double=False, nt=nt, n_baths=2, layout=layout, noise=0.002, var_kind=var_kind, irregular=False, shuffle=False,
                     xgrid=x, bath_temps=[20.0, 20.0 + dT])


def splice_at_last_reference_case(rng, double, noise=None, n_match=1):
    """always-present layout: a splice exactly at the LAST reference location; fibre behind it reached through a matching pair"""
    a0 = rng.randint(2, 4)
    nx = a0 + rng.randint(24, 30)
    blocks = [(a0, a0 + 5, 0), (a0 + 9, a0 + 13, 1)]
    match = [((a0 + 1, a0 + 2), (a0 + 17, a0 + 18))] if n_match else []
    layout = dict(ref_blocks=blocks, match_blocks=match, trans_idx=[(a0 + 13, True)])
    return make_case(rng, double=double, nx=nx, nt=rng.randint(1, 4), span=rng.choice([50.0, 100.0, 500.0]), noise=noise, layout=layout,
                     irregular=False)


def dump_case(c):
    """everything needed to rebuild the case bit for bit (floats are written with repr precision by json)"""
    names = ["st", "ast"] + (["rst", "rast"] if c.double else [])
    truth = {k: (np.asarray(v).tolist() if not isinstance(v, list) else [np.asarray(t).tolist() for t in v]) for k, v in c.truth.items()}
    return dict(double=bool(c.double), x=np.asarray(c.x).tolist(), nt=int(c.nt), data={n: c.ds[n].values.tolist() for n in names},
                keys=list(c.keys), tbath={k: np.asarray(c.tbath[k]).tolist() for k in c.keys}, sections=[[k, [list(s) for s in v]] for k, v in c.sections],
                trans_att=list(c.trans_att), matching=[[m[0].start, m[0].stop, m[1].start, m[1].stop, bool(m[2])] for m in c.matching],
                var_kind=c.var_kind, var_mats={n: np.asarray(c.var_mats[n]).tolist() for n in names}, var_callable=list(c.var_callable),
                noise=c.noise, span=c.span, irregular=bool(c.irregular), truth=truth)


def load_case(d):
    c = Case()
    x = np.array(d["x"], dtype=float)
    nt, nx, double = d["nt"], len(d["x"]), d["double"]
    time = (np.arange(nt) * 30).astype("datetime64[s]")
    dvars = {k: (("x", "time"), np.array(v, dtype=float)) for k, v in d["data"].items()}
    for k in d["keys"]:
        dvars[k] = (("time",), np.array(d["tbath"][k], dtype=float))
    dvars["userAcquisitionTimeFW"] = (("time",), np.full(nt, 30.0))
    if double:
        dvars["userAcquisitionTimeBW"] = (("time",), np.full(nt, 30.0))
    ds = xr.Dataset(dvars, coords={"x": x, "time": time}, attrs={"isDoubleEnded": "1" if double else "0"})
    var_mats = {n: np.array(v, dtype=float) for n, v in d["var_mats"].items()}
    var_args = {}
    slope, offset = d["var_callable"]
    for n in d["data"]:
        if d["var_kind"] == "callable":
            var_args[n + "_var"] = (lambda sl, of: (lambda s: sl * s + of))(slope, offset)
        elif d["var_kind"] == "float":
            var_args[n + "_var"] = float(var_mats[n].flat[0])
        elif d["var_kind"] == "array":
            var_args[n + "_var"] = var_mats[n]
        else:
            var_args[n + "_var"] = xr.DataArray(var_mats[n], dims=("x", "time"), coords={"x": x, "time": time})
    c.ds, c.double, c.x, c.nt, c.nx = ds, double, x, nt, nx
    c.sections = [(k, [tuple(s) for s in v]) for k, v in d["sections"]]
    c.keys = list(d["keys"])
    c.tbath = {k: np.array(v, dtype=float) for k, v in d["tbath"].items()}
    c.trans_att = list(d["trans_att"])
    c.matching = [(slice(m[0], m[1]), slice(m[2], m[3]), m[4]) for m in d["matching"]]
    c.truth = {k: (np.array(v) if not (isinstance(v, list) and v and isinstance(v[0], list) and k in ("ta", "taf", "tab")) else [np.array(t) for t in v])
               for k, v in d["truth"].items()}
    for k in ("gamma", "dalpha"):
        if k in c.truth:
            c.truth[k] = float(c.truth[k])
    c.var_args, c.var_mats, c.var_kind, c.noise = var_args, var_mats, d["var_kind"], d["noise"]
    c.var_callable = (slope, offset)
    c.span, c.irregular = d["span"], d["irregular"]
    return c


def sections_dict(c):
    return {k: [slice(a, b) for a, b in v] for k, v in c.sections}


def sel_idx(x, a, b):
    return [i for i, v in enumerate(x) if a <= v <= b]


def match_pairs(c):
    """the Spec of match_sections: head i-th location with tail i-th location (reversed for a J configuration)"""
    pairs = []
    for hs, ts, rev in c.matching:
        h = sel_idx(c.x, hs.start, hs.stop)
        t = sel_idx(c.x, ts.start, ts.stop)
        if rev:
            t = t[::-1]
        pairs += list(zip(h, t))
    return pairs


def ix_sec(c):
    return sorted(i for _, v in c.sections for a, b in v for i in sel_idx(c.x, a, b))


def mat(a):
    return [[rj(v) for v in row] for row in np.asarray(a, dtype=float)]


def model_request(c, fix_gamma=None, fix_dalpha=None, fix_alpha=None, code_weight_order=False, want_cov=True, wbits=128):
    ds = c.ds
    req = dict(double=c.double, x=[rj(v) for v in c.x], nt=c.nt, c273=rj(C273),
               dict=[[[rj(a), rj(b)] for a, b in v] for _, v in c.sections],
               tref=[[rj(v) for v in c.tbath[k]] for k in c.keys],
               trans=[rj(s) for s in c.trans_att], pairs=[[int(h), int(t)] for h, t in match_pairs(c)],
               st=mat(ds.st.values), ast=mat(ds.ast.values), st_var=mat(c.var_mats["st"]), ast_var=mat(c.var_mats["ast"]),
               iF=mat(np.log(ds.st.values / ds.ast.values)), wbits=wbits)
    if c.double:
        req.update(rst=mat(ds.rst.values), rast=mat(ds.rast.values), rst_var=mat(c.var_mats["rst"]),
                   rast_var=mat(c.var_mats["rast"]), iB=mat(np.log(ds.rst.values / ds.rast.values)))
    if fix_gamma is not None:
        req["fix_gamma"] = [rj(fix_gamma[0]), rj(fix_gamma[1])]
    if fix_dalpha is not None:
        req["fix_dalpha"] = [rj(fix_dalpha[0]), rj(fix_dalpha[1])]
    if fix_alpha is not None:
        req["fix_alpha"] = [[rj(v) for v in fix_alpha[0]], [rj(v) for v in fix_alpha[1]]]
    if code_weight_order:
        req["code_weight_order"] = True
    if want_cov:
        req["want_cov"] = True
    return req


def dy(j):
    """driver number [m, e] -> float"""
    m, e = j
    if m == 0:
        return 0.0
    try:
        return math.ldexp(float(m), e)
    except OverflowError:
        return float(Fraction(m) * (Fraction(2) ** e))


def dyarr(j):
    return np.array([dy(v) for v in j], dtype=float)


def dymat(j):
    return np.array([[dy(v) for v in row] for row in j], dtype=float)
