"""Generators and helpers shared by the section properties (C16, C20, and the calibration generators)."""
import itertools
from fractions import Fraction

import numpy as np
import xarray as xr

from core import rj


def dict_to_json(d):
    """d: list of (key, [ (a, b), ... ]) -> driver encoding (list of list of [a, b] rationals)"""
    return [[[rj(a), rj(b)] for (a, b) in v] for _, v in d]


def to_sections(d):
    return {k: [slice(a, b) for (a, b) in v] for k, v in d}


def mk_ds(xs, keys_present, nt=3, rng=None, dask=False, extra_x_only=False):
    xs = np.asarray(xs, dtype=float)
    nx = len(xs)
    r = np.random.default_rng(0 if rng is None else rng.randrange(2**31))
    data = {
        "st": (("x", "time"), 1000.0 + r.integers(0, 2**20, size=(nx, nt)) / 1024.0),
        "ast": (("x", "time"), 800.0 + r.integers(0, 2**20, size=(nx, nt)) / 1024.0),
        "prof": (("x",), r.integers(0, 2**20, size=nx) / 1024.0),
    }
    for j, k in enumerate(keys_present):
        data[k] = (("time",), 10.0 + 5 * j + r.integers(0, 2**12, size=nt) / 64.0)
    ds = xr.Dataset(data, coords={"x": xs, "time": np.arange(nt).astype("datetime64[s]")},
                    attrs={"isDoubleEnded": "0"})
    if dask:
        ds = ds.chunk({"x": max(1, nx // 3), "time": max(1, nt // 2)})
    return ds


def usable(xs, d, present):
    """the property's own notion (independent of the model): keys present, every stretch selects something,
    no location selected twice"""
    seen = []
    for k, v in d:
        if k not in present:
            return False, "key"
        for a, b in v:
            sel = [i for i, x in enumerate(xs) if a <= x <= b]
            if not sel:
                return False, "empty"
            seen += sel
    if len(set(seen)) != len(seen):
        return False, "shared"
    return True, "ok"


def classify_exception(e):
    m = str(e)
    if "overlapping" in m:
        return "overlap"
    if "valid timeserie" in m or "is not in the Dataset" in m:
        return "key"
    if "not within the x-dimension" in m:
        return "empty"
    if "share a location" in m:
        return "shared"
    return "other:" + type(e).__name__


def lattice(n):
    """endpoints on and between the grid points 0..n-1"""
    return [Fraction(k, 2) for k in range(-1, 2 * n)]


def all_stretches(n):
    L = lattice(n)
    return [(float(a), float(b)) for a in L for b in L]


def random_layout(rng, nx=None, max_stretches=4, valid_bias=0.7, dyadic=True):
    """returns xs (floats), d = [(key, [(a,b)...])...] ; mostly valid layouts, endpoints on and between grid points"""
    nx = nx or rng.randint(4, 40)
    irregular = rng.random() < 0.4
    if irregular:
        steps = [rng.choice([0.25, 0.5, 1.0, 1.5, 3.0]) for _ in range(nx)]
    else:
        steps = [rng.choice([0.125, 0.5, 1.0, 2.0])] * nx
    x0 = rng.randint(-20, 20) * 0.5
    xs = list(np.cumsum([x0] + steps[:-1]))
    ns = rng.randint(1, max_stretches)
    stretches = []
    if rng.random() < valid_bias:
        # choose disjoint index ranges, endpoints on or between grid points
        cuts = sorted(rng.sample(range(0, 2 * nx), min(2 * ns, 2 * nx)))
        for k in range(0, len(cuts) - 1, 2):
            i0, i1 = cuts[k] // 2, cuts[k + 1] // 2
            if i1 < i0:
                continue
            a = xs[i0] - (rng.choice([0, 0, 0.0625]) if True else 0)
            b = xs[i1] + rng.choice([0, 0, 0.0625])
            stretches.append((float(a), float(b)))
        if not stretches:
            stretches.append((xs[0], xs[min(1, nx - 1)]))
    else:
        for _ in range(ns):
            i0, i1 = rng.randrange(nx), rng.randrange(nx)
            a = xs[i0] + rng.choice([0, 0, 0.0625, -0.0625])
            b = xs[i1] + rng.choice([0, 0, 0.0625, -0.0625])
            if rng.random() < 0.85 and a > b:
                a, b = b, a
            stretches.append((float(a), float(b)))
    rng.shuffle(stretches)
    nb = rng.randint(1, min(3, len(stretches)))
    keys = ["bath%d" % k for k in range(nb)]
    rng.shuffle(keys)
    d = [(k, []) for k in keys]
    for j, s in enumerate(stretches):
        d[j % nb if j < nb else rng.randrange(nb)][1].append(s)
    return [float(v) for v in xs], d
