#!/venv/bin/python
"""Run the registered checks against the seeded changes kept in /verif/seeded/<id>/ (patch.diff, demo.py, meta.json).
For every seeded change: a scratch worktree of /repo is created outside /repo and /verif, the patch is applied there, the
demonstration is run on the clean tree (must pass) and on the patched tree (must fail), then the quick check of the owning
property (and of the other properties listed in meta["also"]) is run with DTS_SRC pointing at the patched tree.  The worktree is
removed afterwards.  Results are written to seeded/RESULTS.md.  Development aid (DESIGN §0.6/§14), not a registered check.
Usage: seeded.py [--only id1,id2] [--jobs 4] [--tier quick] [--seed 0]"""
import argparse
import json
import os
import subprocess
import sys
import time
from concurrent.futures import ThreadPoolExecutor
from pathlib import Path

VERIF = Path(__file__).resolve().parent.parent
SCRATCH = Path(os.environ.get("SEEDED_SCRATCH", "/tmp/seedtest"))


def sh(cmd, **kw):
    return subprocess.run(cmd, stdout=subprocess.PIPE, stderr=subprocess.STDOUT, text=True, **kw)


def evaluate(sid, tier, seed):
    d = VERIF / "seeded" / sid
    meta = json.loads((d / "meta.json").read_text())
    wt = SCRATCH / sid
    res = dict(id=sid, property=meta["property"], checks={})
    sh(["git", "-C", "/repo", "worktree", "remove", "--force", str(wt)])
    SCRATCH.mkdir(parents=True, exist_ok=True)
    r = sh(["git", "-C", "/repo", "worktree", "add", "--detach", str(wt), "HEAD"])
    try:
        r = sh(["git", "-C", str(wt), "apply", str(d / "patch.diff")])
        if r.returncode != 0:
            res["error"] = "patch does not apply: " + r.stdout[-300:]
            return res
        env_clean = dict(os.environ, PYTHONPATH="/repo/src", MPLBACKEND="Agg")
        env_mut = dict(os.environ, PYTHONPATH=str(wt / "src"), MPLBACKEND="Agg")
        demo = d / "demo.py"
        if demo.exists():
            res["demo_clean_rc"] = sh(["/venv/bin/python", str(demo)], env=env_clean, cwd="/tmp", timeout=1800).returncode
            res["demo_mutant_rc"] = sh(["/venv/bin/python", str(demo)], env=env_mut, cwd="/tmp", timeout=1800).returncode
        for prop in [meta["property"]] + meta.get("also", []):
            scratch = VERIF / "harness" / ".work" / "seeded" / sid
            env = dict(os.environ, DTS_SRC=str(wt / "src"), VERIF_SEED=str(seed), VERIF_EVIDENCE_DIR=str(scratch / "evidence"),
                       VERIF_REPLAY_DIR=str(scratch / "replay"))   # never into /verif/evidence: that holds runs against /repo only
            t0 = time.time()
            r = sh(["/venv/bin/python", str(VERIF / "harness" / "vcheck.py"), prop, "--tier", tier], env=env, cwd=VERIF, timeout=7200)
            lines = [l for l in r.stdout.splitlines() if l.startswith("VIOLATION") or l.startswith("[" + prop)]
            res["checks"][prop] = dict(rc=r.returncode, wall=round(time.time() - t0, 1), lines=lines[-3:])
    finally:
        sh(["git", "-C", "/repo", "worktree", "remove", "--force", str(wt)])
    return res


def main():
    ap = argparse.ArgumentParser()
    ap.add_argument("--only", default="")
    ap.add_argument("--jobs", type=int, default=4)
    ap.add_argument("--tier", default="quick")
    ap.add_argument("--seed", type=int, default=0)
    a = ap.parse_args()
    ids = sorted(p.name for p in (VERIF / "seeded").iterdir() if (p / "meta.json").exists())
    if a.only:
        ids = [i for i in ids if i in a.only.split(",")]
    out = []
    with ThreadPoolExecutor(a.jobs) as ex:
        for r in ex.map(lambda i: evaluate(i, a.tier, a.seed), ids):
            own = r["checks"].get(r["property"], {})
            caught = own.get("rc") == 1
            print(f"{'CAUGHT' if caught else 'MISSED'} {r['id']} ({r['property']}) demo clean/mutant rc = {r.get('demo_clean_rc')}/{r.get('demo_mutant_rc')} "
                  f"checks: " + ", ".join(f"{p}:rc={c['rc']}({c['wall']}s)" for p, c in r["checks"].items()) + (" ERROR " + r["error"] if "error" in r else ""), flush=True)
            out.append(r)
    rp = VERIF / "seeded" / f"results-{a.tier}-seed{a.seed}.json"
    prev = {r["id"]: r for r in json.loads(rp.read_text())} if rp.exists() else {}
    prev.update({r["id"]: r for r in out})
    rp.write_text(json.dumps([prev[k] for k in sorted(prev)], indent=1))
    missed = [r["id"] for r in out if r["checks"].get(r["property"], {}).get("rc") != 1]
    print(f"{len(out) - len(missed)}/{len(out)} seeded changes caught by the owning property's {a.tier} check; missed: {missed}")


if __name__ == "__main__":
    main()
