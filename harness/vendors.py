"""Synthesis of vendor file sets from the bundled templates (values, time stamps and point counts substituted), for C11/C13."""
import datetime as dt
import os
import re
import struct
from pathlib import Path

import numpy as np

DATA = Path("/repo/tests/data")
ROW = re.compile(r"<data(?:\s[^>]*)?>(.*?)</data>", re.S)


def fmt(v):
    return repr(float(v))


# --------------------------------------------------------------------------------------------------- Silixa / AP Sensing xml
class XmlTemplate:
    def __init__(self, path, encoding="utf-8"):
        raw = Path(path).read_bytes()
        self.bom = raw.startswith(b"\xef\xbb\xbf")
        t = raw.decode("utf-8-sig")
        rows = list(ROW.finditer(t))
        self.head = t[: rows[0].start()]
        self.foot = t[rows[-1].end():]
        first = rows[0]
        self.open_tag = t[first.start(): first.start(1)]
        inner = first.group(1)
        self.lead = inner[: len(inner) - len(inner.lstrip())]
        self.trail = inner[len(inner.rstrip()):]
        self.sep = t[rows[0].end(): rows[1].start()]
        self.ncol = len(inner.strip().split(","))

    def render(self, table, subs):
        """table: (npts, ncol) array; subs: {tag: text} replacing the text of the first element with that tag"""
        head, foot = self.head, self.foot
        for tag, text in subs.items():
            tag, _, nth = tag.partition("#")
            pat = re.compile(r"(<%s(?:\s[^>]*)?>)[^<]*(</%s>)" % (re.escape(tag), re.escape(tag)))
            if nth:
                # "tag#k": the k-th element with that tag (0-based, document order: head, then foot)
                want, seen = int(nth), [0]

                def rep(m, text=text, want=want, seen=seen):
                    seen[0] += 1
                    return m.group(1) + text + m.group(2) if seen[0] - 1 == want else m.group(0)
                head = pat.sub(rep, head)
                foot = pat.sub(rep, foot)
                if seen[0] <= want:
                    raise KeyError(tag + "#" + nth)
                continue
            head, n = pat.subn(lambda m: m.group(1) + text + m.group(2), head)
            if n == 0:
                foot, n = pat.subn(lambda m: m.group(1) + text + m.group(2), foot)
            if n == 0:
                raise KeyError(tag)
        body = self.sep.join(self.open_tag + self.lead + ",".join(fmt(v) for v in row) + self.trail + "</data>" for row in table)
        return head + body + foot


SILIXA = {
    # variant: (template dir, name pattern, has start/end index tags, time tags)
    "v6-single": ("single_ended", "channel 2_{ts:%Y%m%d%H%M%S}{ms:03d}.xml", ("startDateTimeIndex", "endDateTimeIndex")),
    "v6-double": ("double_ended2", "channel 1_{ts:%Y%m%d%H%M%S}{ms:03d}.xml", ("startDateTimeIndex", "endDateTimeIndex")),
    "v7-single": ("silixa_v7.0", "channel 2_UTC_{ts:%Y%m%d_%H%M%S}.{ms:03d}.xml", ("startDateTimeIndex", "endDateTimeIndex")),
    "v8-double": ("silixa_v8.1", "channel.1_UTC_{ts:%Y%m%d_%H%M%S}.{ms:03d}.xml", ("startDateTimeIndex", "endDateTimeIndex")),
    "v4-single": ("silixa_v4.5", "channel 3_{ts:%Y%m%d%H%M%S}{ms:03d}.xml", ("minDateTimeIndex", "maxDateTimeIndex")),
}
_cache = {}


def template(dirname, encoding="utf-8"):
    if dirname not in _cache:
        d = DATA / dirname
        f = sorted(p for p in d.iterdir() if p.suffix in (".xml",))[0]
        _cache[dirname] = XmlTemplate(f)
    return _cache[dirname]


def silixa_channels(variant):
    """zero-based forward / reverse measurement channel of the template (None if single ended)"""
    tp = template(SILIXA[variant][0])
    txt = tp.head + tp.foot
    fw = int(re.search(r"<forwardMeasurementChannel>(\d+)<", txt).group(1)) - 1
    m = re.search(r"<reverseMeasurementChannel>(\d+)<", txt)
    return fw, (int(m.group(1)) - 1 if m else None)


def silixa_write(variant, outdir, records, order):
    """records: list of dict(ts: datetime (UTC), ms: int, table: (npts, ncol), series: {tag: float}); written in `order`"""
    dirname, pattern, (tag_start, tag_end) = SILIXA[variant]
    tp = template(dirname)
    names = []
    for k in order:
        r = records[k]
        end = r["ts"].strftime("%Y-%m-%dT%H:%M:%S") + ".%03dZ" % r["ms"]
        start = (r["ts"] - dt.timedelta(seconds=int(r["series"].get("acquisitionTime", 20)))).strftime("%Y-%m-%dT%H:%M:%S") + ".%03dZ" % r["ms"]
        subs = {tag_start: start, tag_end: end}
        subs.update({k_: fmt(v) for k_, v in r["series"].items()})
        for ch, v in enumerate(r.get("acq", ())):
            subs["AcquisitionTime#%d" % ch] = fmt(v)
        name = pattern.format(ts=r["ts"], ms=r["ms"])
        (Path(outdir) / name).write_text(tp.render(r["table"], subs), encoding="utf-8")
        names.append(name)
    return tp.ncol


def apsensing_write(outdir, records, order):
    tp = template("ap_sensing")
    for k in order:
        r = records[k]
        subs = {"creationDate": r["ts"].strftime("%Y-%m-%dT%H:%M:%S")}
        name = "_AP Sensing_N4386B_3_" + r["ts"].strftime("%Y%m%d%H%M%S") + ".xml"
        text = tp.render(r["table"], subs)
        (Path(outdir) / name).write_bytes((b"\xef\xbb\xbf" if tp.bom else b"") + text.encode("utf-8"))
    return tp.ncol


# --------------------------------------------------------------------------------------------------- Sensornet ddf
SENSORNET = {
    "oryx-single": ("sensornet_oryx_v3.7", False),
    "oryx-double": ("sensornet_oryx_v3.7_double", False),
    "sentinel-double": ("sensornet_sentinel_v5.1_double", True),
    "halo-double": ("sensornet_halo_v1.0", True),
}


def ddf_header(dirname):
    d = DATA / dirname
    f = sorted(d.glob("*.ddf"))[0]
    with open(f, encoding="windows-1252") as fh:
        lines = fh.read().splitlines()
    return lines[:26]


def comma(v, nd=None):
    s = repr(float(v)) if nd is None else ("%." + str(nd) + "f") % v
    return s.replace(".", ",")


def sensornet_write(variant, outdir, records, order):
    """records: dict(ts, table (npts, 4|6), meta {header key: text})"""
    dirname, _ = SENSORNET[variant]
    hdr = ddf_header(dirname)
    for n_, k in enumerate(order):
        r = records[k]
        lines = []
        for i, line in enumerate(hdr[:25]):
            sepc = ":\t" if i < 4 else "\t"
            key = line.split(sepc)[0]
            if key in r["meta"]:
                line = key + sepc + r["meta"][key]
            lines.append(line)
        lines.append(hdr[25])
        for row in r["table"]:
            lines.append("\t".join(comma(v) for v in row))
        name = "channel 1 " + r["ts"].strftime("%Y%m%d %H%M%S") + " %05d.ddf" % (k + 1)
        with open(Path(outdir) / name, "w", encoding="windows-1252", newline="\r\n") as fh:
            fh.write("\n".join(lines) + "\n")


# --------------------------------------------------------------------------------------------------- Sensortran binary
def sensortran_bytes(survey_type, hdr_version, x_units, y_units, num_points, channel_id, ref_temp, epoch, words1, words2,
                     probe="probe", extra=(7, 8, 9)):
    b = struct.pack("<hhiiiiiii", survey_type, hdr_version, x_units, y_units, num_points, extra[0], channel_id, extra[1], extra[2])
    b += struct.pack("<f", ref_temp) + struct.pack("<i", epoch)
    name = probe.encode("utf-16-le")
    b += (b"\xff\xfe" + name + b"\x00" * 128)[:128]
    b += struct.pack("<ii", 176, 3)
    b += words1 + words2
    return b


def sensortran_write(outdir, records, order):
    """records: dict(epoch, name, x float32[npts], tmp float32[npts], st int32[m], ast int32[m], ref_temp)"""
    for k in order:
        r = records[k]
        npts = len(r["x"])
        temp = sensortran_bytes(0, 3, 0, 1, npts, 2, r["ref_temp"], r["epoch"], np.asarray(r["x"], dtype="<f4").tobytes(),
                                np.asarray(r["tmp"], dtype="<f4").tobytes())
        m = len(r["st"])
        raw = sensortran_bytes(2, 3, 0, 3, m, 2, r["ref_temp"], r["epoch"], np.asarray(r["st"], dtype="<i4").tobytes(),
                               np.asarray(r["ast"], dtype="<i4").tobytes())
        (Path(outdir) / (r["name"] + "_BinaryTemp.dat")).write_bytes(temp)
        (Path(outdir) / (r["name"] + "_BinaryRawDTS.dat")).write_bytes(raw)


# --------------------------------------------------------------------------------------------------- AP Sensing xml + .tra
APS2 = "ap_sensing_2/CH1_SE"


def _tra_head():
    f = sorted((DATA / APS2).glob("*.tra"))[0]
    lines = f.read_text().splitlines()
    k = lines.index("[Trace.1]")
    return lines[: k + 1]


def apsensing_tra_write(outdir, records, order, tra_for=None, tra_stamp_shift=None):
    """records: dict(ts, table (npts, 4: LAF, TEMP, ST, AST), logratio[npts], loss[npts], ref[4]).  An xml and a .tra file per record
    (same 14-digit stamp in both names); tra_for: indices that get a .tra (default all); tra_stamp_shift: {index: seconds} puts a
    different time INSIDE the .tra than in its name"""
    tp = template(APS2)
    head = _tra_head()
    for k in order:
        r = records[k]
        stamp = r["ts"].strftime("%Y%m%d%H%M%S")
        text = tp.render(r["table"], {"creationDate": r["ts"].strftime("%Y-%m-%dT%H:%M:%S")})
        (Path(outdir) / f"CH1_SE_AP Sensing_N4386B_1_{stamp}.xml").write_bytes((b"\xef\xbb\xbf" if tp.bom else b"") + text.encode("utf-8"))
        if tra_for is not None and k not in tra_for:
            continue
        t_in = r["ts"] + dt.timedelta(seconds=(tra_stamp_shift or {}).get(k, 0))
        lines = list(head)
        for i, row in enumerate(r["table"]):
            lines.append(f"{i};{fmt(row[0])};{fmt(row[1])};{fmt(r['logratio'][i])};{fmt(r['loss'][i])}")
        for j, v in enumerate(r["ref"], start=1):
            lines.append(f"Ref.Temperature.Sensor.{j};{fmt(v)}")
        lines += [f"Date.Year;{t_in.year}", f"Date.Month;{t_in.month}", f"Date.Day;{t_in.day}", f"Time.Hour;{t_in.hour}",
                  f"Time.Minute;{t_in.minute}", f"Time.Second;{t_in.second}"]
        (Path(outdir) / f"C1_SE_CH1_0_5_m{stamp}.tra").write_text("\n".join(lines) + "\n")
    return tp.ncol
