"""Shared machinery of the checks: Lean build + audit, driver process, evidence, known findings,
VIOLATION / KNOWN-FINDING protocol.  Runs under /venv/bin/python.  See DESIGN.md §4-§5."""
import fcntl
import json
import os
import random
import re
import subprocess
import sys
import time
import traceback
from fractions import Fraction
from pathlib import Path

VERIF = Path(__file__).resolve().parent.parent
LEAN = VERIF / "lean"
DRV = LEAN / ".lake" / "build" / "bin" / "dtsdrv"
DTS_SRC = os.environ.get("DTS_SRC", "/repo/src")
ALLOWED_AXIOMS = {"propext", "Classical.choice", "Quot.sound"}
FORBIDDEN = re.compile(
    r"\bsorry\b|\badmit\b|^\s*axiom\s|native_decide|bv_decide|implemented_by|\bunsafe\s|maxHeartbeats\s+0|@\[csimp\]|\bextern\b"
)

# the implementation under test always comes from DTS_SRC (default: /repo's working tree)
if DTS_SRC not in sys.path:
    sys.path.insert(0, DTS_SRC)
os.environ.setdefault("DTSCAL_VERIF", "1")
os.environ.setdefault("MPLBACKEND", "Agg")


# ----------------------------------------------------------------------------- numbers
def frac(v):
    """exact rational value of a Python/numpy float or int"""
    if isinstance(v, Fraction):
        return v
    if hasattr(v, "item"):
        v = v.item()
    return Fraction(v)


def rj(v):
    """rational -> JSON [num, den]"""
    f = frac(v)
    return [f.numerator, f.denominator]


def unrj(j):
    return Fraction(j[0], j[1])


# ----------------------------------------------------------------------------- lean
class LeanFailure(Exception):
    pass


class HarnessError(Exception):
    """an exception inside a (sub-)case; carries the child's traceback text"""


def _run(cmd, cwd=None, timeout=3600):
    p = subprocess.run(cmd, cwd=cwd, stdout=subprocess.PIPE, stderr=subprocess.STDOUT, text=True, timeout=timeout)
    return p.returncode, p.stdout


def strip_comments(text):
    # remove /- ... -/ (nested not needed here) and -- line comments
    text = re.sub(r"/-.*?-/", lambda m: "\n" * m.group(0).count("\n"), text, flags=re.S)
    text = re.sub(r"--.*", "", text)
    return text


def forbidden_tokens():
    hits = []
    for f in list((LEAN / "DtsVerif").rglob("*.lean")) + [LEAN / "Main.lean", LEAN / "DtsVerif.lean"]:
        body = strip_comments(f.read_text())
        for n, line in enumerate(body.splitlines(), 1):
            if FORBIDDEN.search(line):
                hits.append(f"{f.relative_to(LEAN)}:{n}: {line.strip()[:120]}")
    return hits


def lean_build_and_audit(prop, thorough=False):
    """Build the library + driver (no-op when current), grep for forbidden constructs, audit the axioms of every
    theorem in namespace DtsVerif.<prop>.  Returns dict(obligations, discharged, theorems, problems)."""
    res = dict(obligations=0, discharged=0, theorems=[], problems=[], build_s=0.0)
    t0 = time.time()
    lock = open(LEAN / ".build.lock", "w")
    fcntl.flock(lock, fcntl.LOCK_EX)
    try:
        rc, out = _run(["lake", "build"], cwd=LEAN)
    finally:
        fcntl.flock(lock, fcntl.LOCK_UN)
        lock.close()
    res["build_s"] = round(time.time() - t0, 2)
    if rc != 0:
        errs = [l for l in out.splitlines() if "error" in l][:10]
        res["problems"].append({"kind": "lean-build-failed", "detail": errs})
        return res
    hits = forbidden_tokens()
    if hits:
        res["problems"].append({"kind": "forbidden-construct", "detail": hits[:10]})
    work = VERIF / "harness" / ".work"
    work.mkdir(exist_ok=True)
    af = work / f"audit-{prop}-{os.getpid()}.lean"
    af.write_text(f"import DtsVerif.Props.{prop}\nimport DtsVerif.AuditCmd\n#audit_ns DtsVerif.{prop}\n")
    try:
        rc, out = _run(["lake", "env", "lean", str(af)], cwd=LEAN)
    finally:
        af.unlink(missing_ok=True)
    if rc != 0:
        res["problems"].append({"kind": "audit-failed", "detail": out.splitlines()[:10]})
        return res
    for line in out.splitlines():
        m = re.search(r"AUDIT (\S+) ::(.*)$", line)
        if not m:
            continue
        name, axs = m.group(1), m.group(2).split()
        res["obligations"] += 1
        bad = [a for a in axs if a not in ALLOWED_AXIOMS]
        res["theorems"].append({"name": name, "axioms": axs})
        if bad:
            res["problems"].append({"kind": "axiom", "theorem": name, "detail": bad})
        else:
            res["discharged"] += 1
    if res["obligations"] == 0:
        res["problems"].append({"kind": "no-theorems", "detail": f"namespace DtsVerif.{prop} is empty"})
    if prop in TRANSLATED:
        translated_obligations(prop, res)
    if thorough:
        t1 = time.time()
        mods = [f"DtsVerif.Props.{prop}"]
        rc, out = _run(["lake", "env", "leanchecker"] + mods, cwd=LEAN)
        res["leanchecker"] = {"rc": rc, "wall_s": round(time.time() - t1, 1), "tail": out.splitlines()[-3:]}
        if rc != 0:
            res["problems"].append({"kind": "leanchecker", "detail": out.splitlines()[-10:]})
    return res


# properties whose model is additionally tied to the source by the translator (harness/translate.py): the formulas of the
# temperature / variance-propagation block are re-read from the current source, emitted as Lean, and proved equal to the model
TRANSLATED = {"C01", "C02", "C03", "C04", "C05", "C06", "C07", "C08", "C12", "C14", "C19"}   # = translate.SECTIONS


def translated_obligations(prop, res):
    """generate Gen.lean from DTS_SRC, compile it (`gen = model` theorems), audit its axioms; results are added to `res`"""
    import hashlib
    import translate
    t0 = time.time()
    info = dict(source=str(Path(DTS_SRC) / "dtscalibration" / "dts_accessor.py"))
    res["translator"] = info
    try:
        text, names = translate.translate_for(prop, DTS_SRC)
    except translate.Untranslatable as e:
        info["status"] = "untranslatable"
        res["problems"].append({"kind": "translation", "detail": f"source left the translated fragment: {e}"})
        return
    except (OSError, SyntaxError) as e:
        info["status"] = "unreadable"
        res["problems"].append({"kind": "translation", "detail": f"{type(e).__name__}: {e}"})
        return
    info["term_names"] = names
    text += "\n#audit_ns DtsVerif.Gen\n#audit_ns DtsVerif.GenLayout\n#audit_ns DtsVerif.GenTime\n#audit_ns DtsVerif.GenGuards\n#audit_ns DtsVerif.GenShift\n#audit_ns DtsVerif.GenObs\n#audit_ns DtsVerif.GenReduce\n#audit_ns DtsVerif.GenDesign\n#audit_ns DtsVerif.GenScatter\n"
    text = text.replace("import DtsVerif.Props.C06\n", "import DtsVerif.Props.C06\nimport DtsVerif.AuditCmd\n", 1)
    olean = LEAN / ".lake" / "build" / "lib" / "lean" / "DtsVerif" / "Props" / "C06.olean"
    stamp = str(olean.stat().st_mtime_ns) if olean.exists() else "none"
    key = hashlib.sha256((text + stamp).encode()).hexdigest()[:24]
    info["sha"] = key
    work = VERIF / "harness" / ".work" / "gen"
    work.mkdir(parents=True, exist_ok=True)
    cache = work / f"{key}.out"
    if cache.exists():
        rc, out = 0, cache.read_text()
        info["cached"] = True
    else:
        gf = work / f"Gen-{os.getpid()}.lean"
        gf.write_text(text)
        try:
            rc, out = _run(["lake", "env", "lean", str(gf)], cwd=LEAN)
        finally:
            gf.unlink(missing_ok=True)
        if rc == 0:
            cache.write_text(out)
    info["wall_s"] = round(time.time() - t0, 2)
    if rc != 0:
        errs = [l for l in out.splitlines() if "error" in l][:6]
        info["status"] = "proof-failed"
        res["problems"].append({"kind": "translation", "detail": ["the formulas in the source are no longer the model's (gen = model theorem fails)"] + errs})
        return
    n = 0
    for line in out.splitlines():
        m = re.search(r"AUDIT (\S+) ::(.*)$", line)
        if not m:
            continue
        name, axs = m.group(1), m.group(2).split()
        n += 1
        res["obligations"] += 1
        res["theorems"].append({"name": name, "axioms": axs, "generated": True})
        bad = [a for a in axs if a not in ALLOWED_AXIOMS]
        if bad:
            res["problems"].append({"kind": "axiom", "theorem": name, "detail": bad})
        else:
            res["discharged"] += 1
    info["status"] = "ok"
    info["theorems"] = n
    if n == 0:
        res["problems"].append({"kind": "translation", "detail": "no generated theorem was audited"})


class Driver:
    """the compiled Lean model behind a JSON line protocol"""

    def __init__(self):
        if not DRV.exists():
            raise LeanFailure(f"driver {DRV} missing (lake build failed?)")
        self.p = subprocess.Popen([str(DRV)], stdin=subprocess.PIPE, stdout=subprocess.PIPE, text=True, bufsize=1)
        self.n = 0

    def call(self, op, **kw):
        self.n += 1
        req = dict(id=self.n, op=op, **kw)
        self.p.stdin.write(json.dumps(req) + "\n")
        self.p.stdin.flush()
        line = self.p.stdout.readline()
        if not line:
            raise LeanFailure(f"driver died on op {op}")
        rep = json.loads(line)
        if "err" in rep:
            raise LeanFailure(f"driver error on {op}: {rep['err']}")
        return rep["ok"]

    def close(self):
        try:
            self.p.stdin.close()
            self.p.wait(timeout=5)
        except Exception:
            self.p.kill()


# ----------------------------------------------------------------------------- known findings
def load_known(prop):
    f = VERIF / "known_findings.jsonl"
    out = []
    if f.exists():
        for line in f.read_text().splitlines():
            line = line.strip()
            if line and not line.startswith("#"):
                e = json.loads(line)
                if e.get("property") == prop:
                    out.append(e)
    return out


# ----------------------------------------------------------------------------- context
class Ctx:
    def __init__(self, prop, tier, seed):
        self.prop, self.tier, self.seed = prop, tier, seed
        self.rng = random.Random(seed * 1000003 + int(prop[1:]))
        self.t0 = time.time()
        self.evals = 0
        self.sigs = set()
        self.samples = []
        self.hist = {}
        self.mismatches = []  # model vs code disagreements (correspondence)
        self.failures = []  # property-oracle failures on the real code
        self.notes = []
        self.known_hits = {}
        self.skipped = {}
        self.traces = 0
        self.drv = None
        self.extra = {}

    @property
    def quick(self):
        return self.tier == "quick"

    def driver(self):
        if self.drv is None:
            self.drv = Driver()
        return self.drv

    def case(self, sig=None, nontrivial=True, sample=None, traces=1):
        self.evals += 1
        self.traces += traces
        if nontrivial and sig is not None:
            self.sigs.add(json.dumps(sig, sort_keys=True, default=str))
        if sample is not None and len(self.samples) < 6:
            self.samples.append(sample)

    def count(self, key, val=1):
        self.hist[key] = self.hist.get(key, 0) + val

    def note(self, s):
        if len(self.notes) < 40:
            self.notes.append(s)

    def skip(self, why):
        self.skipped[why] = self.skipped.get(why, 0) + 1

    def mismatch(self, component, case, model, code):
        if len(self.mismatches) < 50:
            self.mismatches.append(dict(component=component, case=case, model=model, code=code))

    def fail(self, what, case, detail=None, known=None):
        """the property itself fails on the real code at this input"""
        if known is not None:
            self.known_hits.setdefault(known["id"], dict(entry=known, n=0, first=what))["n"] += 1
            return
        if len(self.failures) < 50:
            if len(self.failures) < 2:
                try:
                    import calib
                    case = calib.attach_data(case)
                except Exception:   # noqa: BLE001  the replay file then carries the description and the seed only
                    pass
            self.failures.append(dict(what=what, case=case, detail=detail))


def jsonable(o):
    import numpy as np

    if isinstance(o, dict):
        return {str(k): jsonable(v) for k, v in o.items()}
    if isinstance(o, (list, tuple, set)):
        return [jsonable(v) for v in o]
    if isinstance(o, Fraction):
        return float(o)
    if isinstance(o, np.ndarray):
        return jsonable(o.tolist())
    if isinstance(o, (np.integer,)):
        return int(o)
    if isinstance(o, (np.floating,)):
        return float(o)
    if isinstance(o, (np.bool_,)):
        return bool(o)
    if isinstance(o, slice):
        return {"slice": [jsonable(o.start), jsonable(o.stop)]}
    if isinstance(o, (str, int, float, bool)) or o is None:
        return o
    return repr(o)


def write_replay(ctx, payload):
    d = Path(os.environ.get("VERIF_REPLAY_DIR", str(VERIF / "replay")))
    d.mkdir(parents=True, exist_ok=True)
    k = 0
    while True:
        p = d / f"{ctx.prop}-{ctx.seed}-{k}.json"
        if not p.exists():
            break
        k += 1
    payload = dict(property=ctx.prop, seed=ctx.seed, tier=ctx.tier, **payload)
    p.write_text(json.dumps(jsonable(payload), indent=1))
    return p


TRUSTED = [
    "Lean 4.33 kernel + elaborator; Mathlib v4.33 where imported; axioms limited to propext, Classical.choice, Quot.sound (audited this run)",
    "hand-written Lean model; tied to /repo/src only through this run's correspondence cases (counts below)",
    "Python harness, generators, property oracles, tolerance table, known-finding classifiers",
    "numpy/scipy/xarray/pandas/dask runtime behaviour is exercised, not modelled",
]


def finish(ctx, lean, module, level="proof"):
    """decide exit status, write evidence, print VIOLATION / KNOWN-FINDING lines"""
    violations = 0
    lines = []
    for kid, hit in ctx.known_hits.items():
        e = hit["entry"]
        if e.get("status") == "known":
            lines.append(f"KNOWN-FINDING: property={ctx.prop} {kid} {e.get('what', '')} (seen {hit['n']}x this run)")
    if ctx.failures:
        f0 = ctx.failures[0]
        p = write_replay(ctx, dict(kind="property-failure", what=f0["what"], case=f0["case"], detail=f0["detail"],
                                   n_failures=len(ctx.failures), other=[f["what"] for f in ctx.failures[1:6]]))
        lines.append(f"VIOLATION property={ctx.prop} replay={p}")
        violations = len(ctx.failures)
    elif lean["problems"] or ctx.mismatches:
        # proof or correspondence broken, and the search (already run by the module) found no failing input
        what = []
        for pr in lean["problems"]:
            what.append(dict(broken="lean", **pr))
        for mm in ctx.mismatches[:5]:
            what.append(dict(broken="correspondence", **mm))
        p = write_replay(ctx, dict(kind="no-failing-input-found", no_longer_checks=what,
                                   note="the property is no longer shown to hold: a proof obligation or the model/code "
                                        "correspondence broke and the failing-input search found no input on which the "
                                        "property itself fails"))
        lines.append(f"VIOLATION property={ctx.prop} replay={p} no-failing-input-found")
        violations = 1
    wall = round(time.time() - ctx.t0, 2)
    ev = dict(
        property_id=ctx.prop, tier=ctx.tier, seed=ctx.seed, level=level,
        coverage=dict(
            obligations=lean["obligations"], discharged=lean["discharged"],
            checker_cmd=f"cd lean && lake build && lake env lean <audit DtsVerif.{ctx.prop}>" + (" && lake env leanchecker" if ctx.tier == "thorough" else ""),
            trusted_base=TRUSTED + getattr(module, "TRUSTED_EXTRA", []) + (
                ["translator harness/translate.py (atom table, assignment walk, Python ast): the temperature / variance-propagation "
                 "formulas are re-read from the current source and proved equal to the model on this run"] if "translator" in lean else []),
            translator=lean.get("translator"),
            theorems=lean["theorems"],
            evaluations=ctx.evals, distinct_nontrivial=len(ctx.sigs),
            rule=getattr(module, "RULE", ""),
            samples=jsonable(ctx.samples) or ["(none)"],
            traces_validated_against_impl=ctx.traces,
            correspondence_mismatches=len(ctx.mismatches),
            input_distribution=ctx.hist, skipped=ctx.skipped, notes=ctx.notes,
            known_findings_seen={k: v["n"] for k, v in ctx.known_hits.items()},
            lean_build_s=lean.get("build_s"), leanchecker=lean.get("leanchecker"),
            **jsonable(ctx.extra),
        ),
        assumptions=getattr(module, "ASSUMPTIONS", []),
        wall_s=wall, violations=violations,
    )
    # evidence of the registered checks goes to /verif/evidence; development runs against other trees (seeded changes) redirect it
    edir = Path(os.environ.get("VERIF_EVIDENCE_DIR", str(VERIF / "evidence")))
    edir.mkdir(parents=True, exist_ok=True)
    (edir / f"{ctx.prop}.json").write_text(json.dumps(ev, indent=1))
    for l in lines:
        print(l)
    comp = {}
    for mm in ctx.mismatches:
        comp[mm["component"]] = comp.get(mm["component"], 0) + 1
    if comp:
        print(f"[{ctx.prop}] correspondence mismatches by component: {comp}")
    print(f"[{ctx.prop}] tier={ctx.tier} seed={ctx.seed} obligations={lean['obligations']} discharged={lean['discharged']} "
          f"cases={ctx.evals} distinct_nontrivial={len(ctx.sigs)} mismatches={len(ctx.mismatches)} "
          f"failures={len(ctx.failures)} wall={wall}s")
    return 1 if violations else 0


# ----------------------------------------------------------------------------- parallel sub-cases
def _child(payload):
    modname, fname, prop, tier, seed, k, args = payload
    import importlib
    here = os.path.dirname(os.path.abspath(__file__))
    if here not in sys.path:
        sys.path.insert(0, here)
    fn = getattr(importlib.import_module(modname), fname)
    ctx = Ctx(prop, tier, seed)
    ctx.rng = random.Random(seed * 7919 + k)
    error = None
    try:
        fn(ctx, *args)
    except Exception:   # noqa: BLE001  reported by the parent unless a property failure was already recorded
        error = traceback.format_exc()[-2000:]
    finally:
        if ctx.drv is not None:
            ctx.drv.close()
    return dict(error=error, evals=ctx.evals, traces=ctx.traces, sigs=list(ctx.sigs), samples=jsonable(ctx.samples), hist=ctx.hist,
                mismatches=jsonable(ctx.mismatches), failures=jsonable(ctx.failures), notes=ctx.notes, skipped=ctx.skipped,
                known={k_: dict(entry=v["entry"], n=v["n"], first=v["first"]) for k_, v in ctx.known_hits.items()})


def parallel_cases(ctx, fn, args_list, jobs=8):
    """run fn(ctx_child, *args) for every args in a process pool and merge what the children recorded into ctx"""
    from concurrent.futures import ProcessPoolExecutor
    import multiprocessing as mp
    payloads = [(fn.__module__, fn.__name__, ctx.prop, ctx.tier, ctx.seed, k, a) for k, a in enumerate(args_list)]
    errors = []
    with ProcessPoolExecutor(max_workers=jobs, mp_context=mp.get_context("spawn")) as ex:
        for r in ex.map(_child, payloads):
            ctx.evals += r["evals"]
            ctx.traces += r["traces"]
            ctx.sigs.update(r["sigs"])
            for s in r["samples"]:
                if len(ctx.samples) < 6:
                    ctx.samples.append(s)
            for k_, v in r["hist"].items():
                ctx.count(k_, v)
            for k_, v in r["skipped"].items():
                ctx.skipped[k_] = ctx.skipped.get(k_, 0) + v
            ctx.mismatches += r["mismatches"][: max(0, 50 - len(ctx.mismatches))]
            ctx.failures += r["failures"][: max(0, 50 - len(ctx.failures))]
            for k_, v in r["known"].items():
                h = ctx.known_hits.setdefault(k_, dict(entry=v["entry"], n=0, first=v["first"]))
                h["n"] += v["n"]
            if r["error"]:
                errors.append(r["error"])
    if errors:
        raise HarnessError(errors[0])


def replay_by_seed(prop, path):
    """replay of a recorded failure whose input is a generated case: the cases of a run are a function of (tier, VERIF_SEED), so the
    recorded run is repeated on the CURRENT source with that seed and tier (evidence and replay files go to a scratch directory, never
    into /verif/evidence) and the outcome is reported: exit 1 if the property fails again (the first failure is printed next to the
    recorded one), exit 0 if it holds on the regenerated cases"""
    import json
    import shutil
    import tempfile
    r = json.loads(Path(path).read_text())
    seed, tier = str(r.get("seed", 0)), r.get("tier", "quick")
    print("recorded:", json.dumps(r.get("what") or r.get("no_longer_checks"))[:1500])
    scratch = Path(tempfile.mkdtemp(prefix=f"replay-{prop}-", dir=str(VERIF / "harness" / ".work")))
    try:
        env = dict(os.environ, VERIF_SEED=seed, VERIF_EVIDENCE_DIR=str(scratch / "evidence"), VERIF_REPLAY_DIR=str(scratch / "replay"))
        p = subprocess.run([sys.executable, str(VERIF / "harness" / "vcheck.py"), prop, "--tier", tier], env=env, cwd=str(VERIF),
                           stdout=subprocess.PIPE, stderr=subprocess.STDOUT, text=True)
        tail = [l for l in p.stdout.splitlines() if l.startswith("VIOLATION") or l.startswith("KNOWN-FINDING") or l.startswith("[" + prop)]
        print("\n".join(tail[-4:]))
        again = sorted((scratch / "replay").glob("*.json")) if (scratch / "replay").exists() else []
        if again:
            print("now:", json.dumps(json.loads(again[0].read_text()).get("what"))[:1500])
        print(f"replay: seed {seed}, tier {tier}: the property {'FAILS again' if p.returncode == 1 else 'holds' if p.returncode == 0 else 'could not be evaluated (harness exit %d)' % p.returncode} on the regenerated cases")
        return p.returncode
    finally:
        shutil.rmtree(scratch, ignore_errors=True)
