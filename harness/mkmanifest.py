#!/usr/bin/env python3
"""Regenerates /verif/MANIFEST.json from the table below (kept in one place so the manifest is always valid)."""
import json
import sys
from pathlib import Path

VERIF = Path(__file__).resolve().parent.parent
ALL = [f"C{n:02d}" for n in range(1, 21)]

NOTE = ("Trusted base: Lean 4.33 kernel; axioms propext/Classical.choice/Quot.sound only (audited per run with "
        "#audit_ns, no sorry/native_decide/own axioms: grep per run); hand-written code-faithful Lean model tied to "
        "/repo/src by the correspondence cases of each run (model driver dtsdrv vs real code on the same inputs); "
        "Python harness, oracles and known-finding classifiers. ")

# property -> (technique, level text, level note, design ref)
CLAIMED = {
    "C15": ("Lean 4 theorems on a code-faithful model (walk/shortcut/filter/nearest) + exact differential correspondence on all 4^N histories",
            "Proof: the chronological walk keeps (i,j) iff bw[j] is the next measurement after fw[i] (C15_walk_iff_adjacent, "
            "C15_merge_iff_adjacent), the early return equals the walk whenever it is taken (C15_shortcut_iff_adjacent, "
            "C15_shortcut_filter_noop), the 1.5 s filter is characterised (C15_dt_filter, C15_must_drop), the spatial nearest "
            "re-index is a within-tolerance argmin (C15_nearest_spec), swapped channel ids are refused (finite table). The model is "
            "run against merge_double_ended(_times) on every missing-measurement pattern for N<=6 (quick) / 7 (thorough) with "
            "regular and jittered timing, both verify settings, random irregular histories and random grids, compared exactly.",
            NOTE + "Assumes distinct timestamps within a channel; pandas nearest tie-break as observed.", "§8 C15"),
}

NOT_YET = "check not built yet in this round (planned, see DESIGN.md §8/§13); no claim is made"


def main():
    checks = []
    for pid, (tech, text, note, ref) in sorted(CLAIMED.items()):
        checks.append(dict(
            property_id=pid,
            quick_cmd=f"/venv/bin/python harness/vcheck.py {pid} --tier quick",
            thorough_cmd=f"/venv/bin/python harness/vcheck.py {pid} --tier thorough",
            evidence_file=f"/verif/evidence/{pid}.json",
            replay_cmd_template=f"/venv/bin/python harness/vcheck.py {pid} --replay {{path}}",
            engine="lean4-model+correspondence",
            level_claimed=dict(category="proof", text=text, design_ref=ref),
            level_note=note,
            technique=tech,
        ))
    na = [dict(property_id=p, reason=NA.get(p, NOT_YET)) for p in ALL if p not in CLAIMED]
    man = dict(
        version=1,
        setup_cmd="cd lean && lake build",
        hooks=dict(
            guard="DTSCAL_VERIF",
            enable="no source hooks are needed: the harness reaches internals by module-attribute replacement from its own "
                   "process (PYTHONPATH=$DTS_SRC, default /repo/src); DTSCAL_VERIF=1 is exported for completeness",
            baseline_off_cmd="cd /repo && /venv/bin/python -m pytest -ra -q -p no:cacheprovider --timeout=900 --continue-on-collection-errors",
            source_commits=[],
            add_only=True,
        ),
        engines=[dict(name="lean4-model+correspondence", path="lean/ + harness/", serves_properties=sorted(CLAIMED),
                      kind_free_text="Lean 4 library DtsVerif (Model/Lemmas/Theory/Props) + compiled model driver dtsdrv + Python "
                                     "differential harness against /repo/src")],
        checks=checks,
        notes="All claims are machine-checked Lean 4 theorems about a hand-written model; the model is tied to the code by a "
              "correspondence check run on every invocation. See DESIGN.md. known_findings.jsonl lists fixed/known defects.",
        not_applicable=na,
    )
    (VERIF / "MANIFEST.json").write_text(json.dumps(man, indent=1) + "\n")
    try:
        import jsonschema
        jsonschema.validate(man, json.load(open("/root/.vp/MANIFEST.schema.json")))
        print("MANIFEST.json valid;", len(checks), "checks,", len(na), "not claimed")
    except ImportError:
        print("MANIFEST.json written (jsonschema not available to validate)")


NA = {}

if __name__ == "__main__":
    main()
