#!/usr/bin/env python3
"""Regenerates /verif/MANIFEST.json from the table below (kept in one place so the manifest is always valid)."""
import json
import sys
from pathlib import Path

VERIF = Path(__file__).resolve().parent.parent
ALL = [f"C{n:02d}" for n in range(1, 21)]

TRANSL = ("Tie to the source additionally by the translator harness/translate.py: on every run the relevant block of the CURRENT "
          "source is read with Python's ast, emitted as Lean definitions and proved equal to the model (generated gen = model theorems, "
          "compiled and axiom-audited that run; trusted: atom table, assignment walk, NumPy semantics written into the translator). ")

NOTE = ("Trusted base: Lean 4.33 kernel; axioms propext/Classical.choice/Quot.sound only (audited per run with "
        "#audit_ns, no sorry/native_decide/own axioms: grep per run); hand-written code-faithful Lean model tied to "
        "/repo/src by the correspondence cases of each run (model driver dtsdrv vs real code on the same inputs); "
        "Python harness, oracles and known-finding classifiers. ")

# property -> (technique, level text, level note, design ref)
WLSNOTE = ("The executable reference solves the system whose coefficients 1/K and weights are rounded to 128 significant bits "
           "(DESIGN §4b); LSQR convergence and lstsq accuracy are exercised by the tolerance comparison (1e-3 sd), not proved. ")

DESIGN_COMMON = ("Design matrix inside the model: Model/Design holds the row/column index vectors of every COO block exactly as the solver "
                 "spells them (np.arange/tile/repeat); the translator re-reads them from the current source and proves gen = model by rfl on "
                 "every run (blocks, shapes, constant data, stacking order, three-way splice rule); Lemmas/NumpyIdx + Lemmas/Design give length "
                 "and entry formulas for every size; ")
DESIGN_S = (DESIGN_COMMON + "design_model_ref_row, design_ta_matches_model (the code stores a splice coefficient at (row of observation (r,j), loss of "
            "splice a at time j) iff the model's row has it, for all nt, nx, nta and splice positions), design_c_matches_model, "
            "design_dalpha_matches_model, Design.sTa_injective (no entry twice), matching rows: design_model_match_row, design_mt_entry, "
            "match_row_ta_mem; design_code_weight_order (the recorded weight-order defect stated for every size); every block is also compared "
            "entry for entry with the real solver output (driver op design). ")
DESIGN_D = (DESIGN_COMMON + "design_model_fw_row / _bw_row, design_ta_fw_matches_model, design_ta_bw_matches_model, design_d_matches_model, "
            "design_E_matches_model, design_E_first_row (for all sizes); splice coefficients of EQ1-EQ3 of the matching-section builder "
            "(mEq1_entry, mEq2_entry, mEq3_entry, design_eq1/2/3_coefficient; un-masked and re-read from the source each run); every block of construct_submatrices is also compared entry for "
            "entry with the real output (driver op design). Scatter: from_i of the solver and of the three fixed-parameter branches of the "
            "helper (Model/Scatter, gen = model by rfl each run); scatter_solver_head/_alpha/_ta, scatter_positions_are_layout, "
            "scatter_solver_mem_activeCols (a position is written iff the model counts the parameter among the unknowns), "
            "scatter_fix_gamma_skips_gamma, scatter_fix_alpha_skips_alpha, scatter_fix_both_mem_activeCols, lifted to equality of lists "
            "(scatter_solver_eq_activeCols: the k-th unknown of the code is the k-th unknown of the model); assembly of po_sol / po_var "
            "(Scatter.poSol / poSolMatch, re-read each run): poSol_head/_first/_ref/_outside/_ta, poSol_follows_fromI. ")

CLAIMED = {
    "C01": ("Lean 4: normal equations => global minimiser (Mathlib, any ordered field) + result-checked exact rational WLS in the model + bridge theorem; differential correspondence of the captured (X,y,w), optimum, covariance, layout, tmpf",
            "Proof: Theory.normalEq_min / normalEq_fitted_unique / exact_recovery; bridge check_sound (the model's exact check implies "
            "the normal equations on Mathlib matrices); C01_solution_minimises, C01_fitted_unique, C01_cov_is_ginverse, C01_dof, "
            "C01_fixed_reported, C01_column_scaling (the unit-norm column scaling of wls_sparse: un-scaled solution minimises the posed "
            "WSSR, un-scaled g-inverse is one of the posed normal matrix); weight alignment refuted (C01_w_aligned_refuted, registered known finding) with "
            "C01_w_aligned_partial. " + DESIGN_S + "Every run: seeded Raman fibres (10 m..10 km, 0-2 splices, 0-2 matching pairs, four variance "
            "forms); the system reaching the solver is compared row by row with the model's, LSQR's optimum and lstsq's covariance "
            "with the exact optimum, the full-layout p_val/p_cov/tmpf with the model; independent Python Spec oracle.",
            NOTE + TRANSL + WLSNOTE, "§8 C01"),
    "C02": ("as C01 for the double-ended layout (forward/backward/EQ1-EQ3 rows, gauge-aware), plus tagged-solver position check",
            "Proof: C02_solution_minimises, C02_estimable_invariant (fitted values unique although X'WX is singular with splices), "
            "C02_alpha_zero_at_first, C02_cov_positions, C02_ta_index, the splice gauge (C02_splice_gauge_temperatures: db+=d, both losses "
            "of a splice -=d, alpha+=d downstream changes no temperature; C02_splice_gauge_alpha_outside: alpha outside the sections moves "
            "with it), on the model Calib.calibrate (alphaOutside = inverse-variance "
            "time average). " + DESIGN_D + "Every run: double-ended fibres, rows/optimum/covariance/p_val/p_cov/tmpf/tmpb vs the model; with the "
            "solver replaced by a tagged stub every reduced parameter, variance and covariance must sit at its documented index "
            "(also with fix_gamma); gauge-independent oracle for alpha outside the reference sections (the property's formula on the "
            "result's own parameters).",
            NOTE + TRANSL + WLSNOTE + "With splices only the weighted SSR (estimable) is compared.", "§8 C02"),
    "C03": ("Lean 4: exact-recovery theorem (normal equations + y = X p0 => fitted values, and parameters under full column rank) on the model's checked solve; noise-free end-to-end recovery over the option cross product",
            "Proof: C03_recovery (from Theory.exact_recovery and the bridge), C03_temperature_at_fitted_row (gamma/(I+o) = K when "
            "the row is reproduced), C03_matching_row, C03_match_pairing, C03_splice_mask_consistent, design_splice_rule (the splice rule of the three "
            "design-matrix builders, re-read from the source each run, is the model's rule = the mask x >= splice of the temperature equation). Every run: noise-free Raman data x {single, double} x "
            "{0,1,2 splices on/between grid points} x {references everywhere, front-only + matching} x {free, fix_gamma, fix_dalpha, "
            "fix_alpha, fix_alpha+fix_gamma}: tmpf/tmpb/tmpw within 1e-5 K of the truth everywhere, gamma/dalpha recovered; same "
            "data through the exact model.",
            NOTE + TRANSL + WLSNOTE + "Identifiability is by construction of the generator and confirmed by the exact model's rank.", "§8 C03"),
    "C04": ("Lean 4: bijection of the documented layouts onto [0, npar) for all sizes + equation theorems; exhaustive layout/tagged-external correspondence and bit-exact external round trips",
            "Proof: C04_layout_partition_double / _single (every parameter has exactly one slot, for all nt, nx, nta), "
            "C04_model_columns_* (the model's columns are those slots; splice index = F-order reshape), C04_tmpf_equation_double, "
            "C04_tmpb_equation, C04_splice_mask; generated each run from the source: the ParameterIndex* blocks = C04.indexD/indexS for all "
            "sizes, flatten/read order of taf/tab, tmpf/tmpb equations. Every run: for all (nt, nx <= 6 quick / 8 thorough, nta <= 3) x {single, single "
            "alpha-mode, double} the ParameterIndex tables vs the model vs the docstring, a method='external' run with distinct "
            "p_val/p_cov entries whose named outputs, *_var and tmpf/tmpb must come from the documented slots; wls results fed back "
            "through method='external' must reproduce every data variable bit for bit (also with parameters fixed at non-zero variance).",
            NOTE + TRANSL, "§8 C04"),
    "C05": ("Lean 4 (Mathlib, over R and any field): HasDerivAt facts of the temperature equation; ring identities term-list = J Sigma J^T incl. all cross terms; grouping lemma for several splices; derivative dictionaries and term lists regenerated from the source each run (translator) and proved equal to the model; term-by-term exact correspondence",
            "Proof: C05_derivs_fw, C05_deriv_alpha_bw, C05_deriv_dalpha (the derivative dictionary is the derivative, through "
            "Real.log), C05_channel_is_propagation, C05_single_is_propagation (12 terms = measurement part + J^T Sigma J), "
            "C05_tmpw_is_propagation (25 terms = J^T Sigma J over six parameter groups, all fifteen cross-covariances; the defects first "
            "recorded were repaired in /repo, commit ccb9910), quad_group / group_cov_entry / C05_splice_pairs (several splices acting on "
            "one location), C05_tmpw_cross_term_needed. Every run: generated derivsFwD/BwD/S_eq, varFwD/BwD/WD/FwS_eq (source = model); each component of var_fw_da / var_bw_da / var_w_da vs the model's term lists evaluated in exact "
            "rationals on the result's own p_val/p_cov (wls results and external results with random positive-definite p_cov); "
            "independent analytic-Jacobian oracle with all cross terms.",
            NOTE + TRANSL + "p_var fed to the model is diag(p_cov).", "§8 C05"),
    "C06": ("Lean 4 (ordered fields): convex-combination / betweenness / bound-ordering inequalities; correspondence of tmpw, approx, lower, tmpw_var",
            "Proof: C06_tmpw_formula, C06_tmpw_between, C06_approx_le_min, convex_combo_lower, C06_lower_le_var, C06_lower_le_tmpw_var (on the "
            "code's own 25-term list, positive semi-definite parameter covariance), C06_channel_var_positive; generated each run: "
            "approxD/tmpwD/weightsD/lowerD_eq and the term lists (source = model). Every run: tmpw, tmpw_var_approx, tmpw_var_lower, tmpw_var of "
            "double-ended results vs the exact model; the formulas and inequalities evaluated on the real outputs.",
            NOTE + TRANSL + "Positivity with a float p_cov (possibly slightly indefinite after lstsq) is observed, not proved.", "§8 C06"),
    "C07": ("Lean 4: fixed-parameter reduction identity, reported-as-supplied theorem, positivity of the inflated variance; correspondence of the reduced system for every fix_* combination",
            "Proof: C07_fixed_reported, C07_reduction (wssr_fixed_reduction), C07_fixed_not_active, C07_weights_positive_spec, "
            "C07_reduceObs_single, scatter_single_mem_activeCols (ip_use of calibration_single_ended_helper, re-read from the source each run, is "
            "the model's list of unknowns, in the same order (scatter_single_eq_activeCols), for all eight flag combinations and all sizes). Every run: C01/C02 generator x {fix_gamma, fix_dalpha, fix_alpha, fix_alpha+fix_gamma} x variance "
            "classes {0, 1e-20, comparable, 100x}: reduced rows/weights vs model, optimum vs exact WLS, value/variance/zero covariance "
            "of the fixed parameter and finiteness checked on the result.",
            NOTE + TRANSL + WLSNOTE + "fix_alpha variance at the first reference location taken as 0.", "§8 C07"),
    "C08": ("Lean 4: the sampler's index arithmetic equals the documented layout (all sizes), percentile monotonicity; unit-perturbation samplers give an exact unpacking correspondence; statistical sub-checks with fixed seeds",
            "Proof: C08_fromI_head, C08_fromI_alpha, C08_unpack_matches_layout_double (the Fortran-order reshape of the sampled tail "
            "reads tau^d_{a,t} from its documented slot), C08_unpack_matches_layout_single, C08_percentile_monotone (linear-interpolation "
            "percentiles are non-decreasing in the level: bounds ordered along CI); generated each run: the Monte Carlo temperature "
            "equations = the calibration's (mcTmpf/bD_eq, mcTmpfS_eq, mcTmpw_eq) and the splice-block unpacking reads the documented "
            "slots (mc*_ta_*_slot). Every run: samplers replaced by unit-perturbation "
            "samplers, every realisation compared with the model's temperature equation at p_val perturbed at the documented slot; "
            "zero variances (bit-level equality with the calibration); all flag combinations; np.percentile vs the model; "
            "convergence of *_mc_var to *_var and bracketing within a chi-square 6-sigma band at fixed seeds.",
            NOTE + TRANSL + "Convergence and bracketing are statistical and observed, not proved; tmpw convergence is judged in the small-noise "
            "regime only (second-order term below a quarter of the band).", "§8 C08"),
    "C09": ("Lean 4: decision table of output dimensions (decide), n-term inverse-variance inequality, label=index selection; correspondence of dims, means and variance identities",
            "Proof: C09_no_mc_dim (no output of any mode is indexed by mc or by the averaged dimension), C09_avg2_var (1/sum(1/v_i) is "
            "positive and <= every v_i), C09_sel_eq_isel. Every run: names/dims of all outputs vs the model table; *_avg1/_avgx1 vs the "
            "exact mean of the calibrated temperature; *_mc_avg2_var/_avgx2_var vs 1/sum(1/var_i) of the per-cell Monte Carlo variances; "
            "label vs index selection of the same elements with re-seeded generators.",
            NOTE + "avg2/avgx2 values and tmpw_avg1 are Monte Carlo quantities: compared within their own 6-sigma / a quarter of |tmpf-tmpb|.", "§8 C09"),
    "C10": ("Lean 4: permutation invariance and k^2 scaling of the sample variance, placement of residual rows; exact tagged placement correspondence for the three estimators; planted-noise statistics",
            "Proof: C10_var_order_independent, C10_scale_equivariance, C10_residual_placement (for accepted sections every reference "
            "location receives exactly one residual row), C10_row_location. Every run: fitting helpers replaced by tagging stubs, the "
            "reshaped residual arrays of variance_stokes_constant/_exponential and the (intensity, residual) pairs of "
            "variance_stokes_linear compared exactly with the model for shuffled dictionaries; var(ddof=1) vs the model; planted noise: "
            "estimate within the chi-square 6-sigma band of s2(1-p/n), ~0 noise-free, x k^2 under scaling, order independent; planted "
            "linear variance recovered.",
            NOTE + "Convergence of Powell/LSQR and the bias factor are observed statistically.", "§8 C10"),
    "C11": ("Lean 4: sorted-permutation theorem for the time axis, lexicographic = numeric order for fixed-width stamps, rejection iff lengths differ, Python reverse-slice arithmetic, little-endian round trip; synthesised vendor file sets as differential correspondence",
            "Proof: C11_order_is_sorted_permutation, C11_order_by_time, C11_chronological (names that differ in a fixed-width decimal "
            "stamp sort in time order), C11_length_mismatch_rejected, C11_stack_placement, C11_sensornet_reverse_map "
            "(REV[end:start:-1] row j = raw row end-j), C11_sensortran_roundtrip. Every run: file sets synthesised from the vendor "
            "templates (Silixa v4/v6/v7/v8 single+double, Sensornet oryx/sentinel/halo, AP Sensing, Sensortran binary; 1-6 files quick / "
            "1-12 thorough, arbitrary finite values, shuffled creation order; faults: other point count, truncated file, missing "
            "companion): every variable compared exactly with the intended records, time axis order and accept/reject vs the model, "
            "Sensornet window and reverse rows vs the model, Sensortran bytes decoded by the model.",
            NOTE + "Text/XML parsing is exercised, not modelled; for Sensornet the returned window (not completeness) is judged. Per-channel "
            "acquisition times are written into the synthesised Silixa/Sensornet sets and compared.", "§8 C11"),
    "C12": ("Lean 4: order/span/midpoint theorems on an integer-nanosecond model of coords_time, same-instant identity for the zone conversion; direct differential correspondence with zoneinfo offsets; readers re-run under four host time zones",
            "Proof: C12_order, C12_span, C12_midpoint (single-ended: midpoint to within 1 s; double-ended: time = end of forward), "
            "C12_same_instant, C12_same_zone; generated each run: the nine coordinates of coords_time in both modes = TimeCoords.coords. "
            "Every run: synthesised Silixa/Sensornet sets with forward != backward acquisition times (span, midpoint, stamp); coords_time over time stamps 1990-2037, acquisition times 1-600 s (whole and "
            "fractional), IANA zone pairs incl. DST and half-hour zones: all nine coordinates in ns vs the model with zone offsets from "
            "zoneinfo; the four readers on the bundled vendor files in subprocesses under TZ = UTC / New_York / Kolkata / Auckland "
            "(+ another cwd, locale): identical coordinates; Sensortran against the epoch seconds of the binary header.",
            NOTE + TRANSL + "The tz database is a parameter of the model; ambiguous local times are excluded and counted.", "§8 C12"),
    "C13": ("Lean 4: chunk-invariance theorems (map, label selection, reductions) for every chunking in exact arithmetic; dask-vs-memory runs over chunkings and schedulers",
            "Proof: C13_map_chunk_invariant, C13_filter_chunk_invariant, C13_sum_chunk_invariant (for every list of block sizes, "
            "per-block evaluation + concatenation/combination = whole-array evaluation). Every run: dask's own chunking and per-block "
            "results vs the model (exact); calibrate_single/double_ended and the Stokes variance estimators on dask-backed data with "
            "chunkings incl. 1x1 under the synchronous and the threaded scheduler (1..16 workers) vs in memory (1e-10); Silixa / "
            "AP Sensing readers with load_in_memory False/True/'auto' compared exactly; a follow-up workflow (temp_err statistics twice, then "
            "the variable again) compared between backings; two same-named lazily read directories evaluated in one dask computation.",
            NOTE + "Weakest fit for the technique (DESIGN §8 C13): scheduling, thread interleavings and float re-association are observed, not proved.", "§8 C13"),
    "C14": ("Lean 4 theorems on the model of the Python slicing in shift_double_ended and of the argmin in suggest_cable_shift_double_ended + exhaustive differential correspondence",
            "Proof (all sizes, all |i|<=nx): C14_length, C14_pairing_nonneg/neg (st[j+i] with rst[j]; st[j] with rst[j-i]), "
            "C14_zero_identity, C14_compose_nonneg/neg, C14_inverse_interior, C14_suggest_member, C14_argmin_unique (a strictly "
            "smallest objective is the one returned). Model vs shift_double_ended for every (nx<=12, |i|<nx) with tagged "
            "cells, extra variables and attrs (exact), compositions/inverses on the real function, and planted misalignments: "
            "objectives recomputed in exact rationals, argmin compared when decisive; generated each run: the slices of shift_double_ended "
            "and of the candidate loop of suggest_cable_shift_double_ended = Shift.shift.",
            NOTE + TRANSL + "That a planted misalignment makes the objective minimal is a numeric fact about the data: observed, not proved.", "§8 C14"),
    "C15": ("Lean 4 theorems on a code-faithful model (walk/shortcut/filter/nearest) + exact differential correspondence on all 4^N histories",
            "Proof: the chronological walk keeps (i,j) iff bw[j] is the next measurement after fw[i] (C15_walk_iff_adjacent, "
            "C15_merge_iff_adjacent), the early return equals the walk whenever it is taken (C15_shortcut_iff_adjacent, "
            "C15_shortcut_filter_noop), the 1.5 s filter is characterised (C15_dt_filter, C15_must_drop), the spatial nearest "
            "re-index is a within-tolerance argmin (C15_nearest_spec), swapped channel ids are refused (finite table). The model is "
            "run against merge_double_ended(_times) on every missing-measurement pattern for N<=6 (quick) / 7 (thorough) with "
            "regular and jittered timing, both verify settings, random irregular histories and random grids, compared exactly.",
            NOTE + "Assumes distinct timestamps within a channel; pandas nearest tie-break as observed.", "§8 C15"),
    "C16": ("Lean 4 theorems on a code-faithful model of validate_sections (accept => usable, usable+ordered bounds => accept, refutation of the converse, strictly ascending reference rows) + exhaustive/random differential correspondence",
            "Proof: C16_accept_imp_usable (whatever is let through has present keys, non-empty stretches, no location twice), "
            "C16_usable_chain_imp_accept, C16_accept_iff_usable_refuted (usable definitions with overlapping bounds are refused: "
            "registered known finding), C16_chain_sep, C16_ixSecAll_strictly_increasing (one observation per location, fibre "
            "order). Model vs validate_sections / calibrate_single_ended / variance_stokes_constant on every placement of <=2 "
            "stretches on the half-integer lattice of a 4-point grid, sampled 3-4 stretch layouts, random larger layouts; "
            "x_indices and broadcast reference rows compared exactly.",
            NOTE + "Grid strictly increasing; equal starts may be ordered either way by numpy (verdict insensitive).", "§8 C16"),
    "C17": ("Lean 4: get-after-set theorems on an attribute/coordinate map model under a round-tripping codec; operation-sequence correspondence with payload ids",
            "Proof: C17_travel_calibrate, C17_travel_monte_carlo (for every codec with load(dump v) = v the result of calibrate_* and of "
            "monte_carlo_* fed with it reports exactly the definitions passed in and carries trans_att), C17_storage_roundtrip. Every "
            "run: calibrate -> monte carlo -> to_netcdf -> open_dataset on dictionaries with int/float/numpy bounds, 0-3 matching "
            "pairs, 0-3 splices; .dts.sections, .dts.matching_sections, trans_att, coordinates and data compared; the same sequence on "
            "the model with payload ids.",
            NOTE + "Thin application (DESIGN §8 C17): the codec law of PyYAML/netCDF4 is an assumption, exercised not proved.", "§8 C17"),
    "C18": ("Lean 4: order-independence of the reference rows, translation/row-/column-permutation invariance of WLS, gain identities; pairs of real runs under each transformation",
            "Proof: C18_dict_order (accepted definitions with the same stretches give the same reference rows), C18_gain_weight, "
            "C18_gain_measurement_term, C18_gain_parameters (wls_translate), C18_row_order, C18_column_order. Every run: real "
            "calibrations before/after dictionary/stretch re-ordering, renaming, a gain 1e-3..1e3 with variance x k^2, variance as "
            "float/array/callable, removal of unreferenced locations, time permutation; repeated calls bit-identical; input dataset "
            "deep-compared before/after.",
            NOTE + "Bit-identity and non-mutation are runtime facts: observed, not proved.", "§8 C18"),
    "C19": ("Lean 4: finite decision table over six IEEE classes (decide) for the guard chain; one-corruption-at-a-time differential correspondence",
            "Proof: C19_refusal_table (every listed corruption x site is refused by the modelled guard chain), C19_valid_passes, "
            "C19_finite_temperature; generated each run: the assert conditions of parse_st_var / validate_sections / the intensity checks / "
            "wls_sparse abstracted to the IEEE classes, no return before them, every variance through parse_st_var; listed corruptions "
            "falsify a guard that is in the source; the verdict table is what these guards give. Every run: each intensity variable x reference location x {first, middle, last} time x {0, -1, "
            "nan, +inf, -inf}; reference temperatures x {nan, +-inf}; variances x {nan, inf, negative} as float, as array "
            "entry and through a callable; short fix_alpha; transposed arrays; unknown method/solver: raise/return vs the model; finiteness of every "
            "output where intensities are valid.",
            NOTE + TRANSL + "The abstract class semantics of numpy are a model, validated row by row.", "§8 C19"),
    "C20": ("Lean 4 theorems on the model of ufunc_per_section_helper (selection, three orderings, row->bath map) + differential correspondence over modes x calc_per x backing",
            "Proof: C20_stretch_selects (exactly the in-range locations, ascending, once), C20_stretch_order, "
            "C20_section_order, C20_all_order (permutation sorted by start), C20_x_indices_ascending, C20_row_bath (the "
            "reference series of a row is that of a bath selecting its location). Model-derived gathers vs both "
            "ufunc_per_section entry points for random valid layouts x 5 argument modes x 3 calc_per x numpy/dask x "
            "(x,)/(x,time) x 4 funcs; arrays compared exactly (var/mean to 1e-12).",
            NOTE + "dask evaluation is exercised, not modelled; temp_err/ref on (x,) variables recorded, not judged.", "§8 C20"),
}

NOT_YET = "check not built yet in this round (planned, see DESIGN.md §8/§13); no claim is made"


# sequence / variant cases added after the third and fourth round of independent seeded changes (DESIGN §14)
SESSION3 = {
    "C01": " Also every run: a strongly correlated far-bath design (km-scale fibre, short baths a few kelvin apart); every named output against p_val / diag p_cov at the documented positions.",
    "C02": " Also every run: named outputs (incl. talpha_fw/bw and their full versions) against p_val / diag p_cov; the executable scatter model against the tagged run.",
    "C03": " Also every run: one Dataset object calibrated, given a second model-consistent campaign in place, and calibrated again (found the stale-accessor defect, fix 6c1939c).",
    "C04": " Also every run: tagged layouts with the splices listed in descending / rotated order.",
    "C05": " Also every run: a second calibration of the same dataset with other noise variances.",
    "C07": " Also every run: the executable scatter model against the Spec's list of free parameters.",
    "C08": " Also every run: convergence with fixed parameters that carry a (dominating) variance.",
    "C09": " Also every run: index selections spelled from the end / as ndarray / as range, unsorted selections on the kept dimension, finiteness of every averaged output.",
    "C10": " Also every run: residual placement on dask-backed Stokes.",
    "C12": " Also every run: folders with the same relative path read from other working directories and re-read after their files were replaced.",
    "C13": " Also every run: two passes with different variance arrays on one lazy dataset.",
    "C14": " Also every run: four-channel datasets with time-only coordinates (identity at i = 0).",
    "C15": " Also every run: repeated merges of the same channel datasets; inputs must come back unchanged.",
    "C17": " Also every run: definitions asked again after the caller edited the returned objects.",
    "C19": " Also every run: mixed (x,time)/(time,x) layouts, also with scalar variances.",
    "C20": " Also every run: requests repeated after the caller edited the returned arrays (same and fresh dataset).",
}


def main():
    checks = []
    for pid, (tech, text, note, ref) in sorted(CLAIMED.items()):
        checks.append(dict(
            property_id=pid,
            quick_cmd=f"/venv/bin/python harness/vcheck.py {pid} --tier quick",
            thorough_cmd=f"/venv/bin/python harness/vcheck.py {pid} --tier thorough",
            evidence_file=f"/verif/evidence/{pid}.json",
            replay_cmd_template=f"/venv/bin/python harness/vcheck.py {pid} --replay {{path}}",
            engine="lean4-model+correspondence",
            level_claimed=dict(category="proof", text=text + SESSION3.get(pid, ""), design_ref=ref),
            level_note=note,
            technique=tech,
        ))
    na = [dict(property_id=p, reason=NA.get(p, NOT_YET)) for p in ALL if p not in CLAIMED]
    man = dict(
        version=1,
        setup_cmd="cd lean && lake build",
        hooks=dict(
            guard="DTSCAL_VERIF",
            enable="no source hooks are needed: the harness reaches internals by module-attribute replacement from its own "
                   "process (PYTHONPATH=$DTS_SRC, default /repo/src); DTSCAL_VERIF=1 is exported for completeness",
            baseline_off_cmd="cd /repo && /venv/bin/python -m pytest -ra -q -p no:cacheprovider --timeout=900 --continue-on-collection-errors",
            source_commits=[],
            add_only=True,
        ),
        engines=[dict(name="lean4-model+correspondence", path="lean/ + harness/", serves_properties=sorted(CLAIMED),
                      kind_free_text="Lean 4 library DtsVerif (Model/Lemmas/Theory/Props) + compiled model driver dtsdrv + Python "
                                     "differential harness against /repo/src")],
        checks=checks,
        notes="All claims are machine-checked Lean 4 theorems about a hand-written model; the model is tied to the code by a "
              "correspondence check run on every invocation. See DESIGN.md. known_findings.jsonl lists fixed/known defects.",
        not_applicable=na,
    )
    (VERIF / "MANIFEST.json").write_text(json.dumps(man, indent=1) + "\n")
    try:
        import jsonschema
        jsonschema.validate(man, json.load(open("/root/.vp/MANIFEST.schema.json")))
        print("MANIFEST.json valid;", len(checks), "checks,", len(na), "not claimed")
    except ImportError:
        print("MANIFEST.json written (jsonschema not available to validate)")


NA = {}

if __name__ == "__main__":
    main()
