import os,sys
from dtscalibration.io.sensortran import read_sensortran_files
ds=read_sensortran_files("/repo/tests/data/sensortran_binary",silent=True)
print(os.environ.get("TZ"),ds.time.values[:2])
