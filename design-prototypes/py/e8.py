import numpy as np, itertools, warnings
warnings.filterwarnings("ignore")
from gen2 import *
L=100.
for ta in [(),(50.0,)]:
  ds,T,tr=make_double(nx=30,nt=3,noise=1.0,seed=3,ta=ta)
  sections={"cold":[slice(0.5,0.24*L),slice(0.51*L,0.74*L)],"warm":[slice(0.26*L,0.49*L),slice(0.76*L,L)]}
  out=ds.dts.calibrate_double_ended(sections=sections,st_var=1.,ast_var=1.,rst_var=1.,rast_var=1.,trans_att=list(ta))
  for epu,vos,rmu,rem in itertools.product([False,True],repeat=4):
    try:
        mc=ds.dts.monte_carlo_double_ended(result=out,st_var=1.,ast_var=1.,rst_var=1.,rast_var=1.,conf_ints=[2.5,50,97.5],mc_sample_size=50,
            exclude_parameter_uncertainty=epu,var_only_sections=vos,reduce_memory_usage=rmu,mc_remove_set_flag=rem)
        v=mc.tmpf_mc_var.values
        print(ta,epu,vos,rmu,rem,"ok",np.isfinite(v).mean())
    except Exception as e:
        print(ta,epu,vos,rmu,rem,"ERR",type(e).__name__,str(e)[:80])
# zero variance
ds,T,tr=make_double(nx=30,nt=3,noise=0.0,seed=3,ta=(50.,))
out=ds.dts.calibrate_double_ended(sections=sections,st_var=1.,ast_var=1.,rst_var=1.,rast_var=1.,trans_att=[50.])
o2=out.copy(); o2["p_cov"]=o2.p_cov*0
try:
    mc=ds.dts.monte_carlo_double_ended(result=o2,st_var=0.,ast_var=0.,rst_var=0.,rast_var=0.,conf_ints=[2.5,97.5],mc_sample_size=10,mc_remove_set_flag=False)
    print("zero var: max dev", float(np.abs(mc.tmpf_mc_set-out.tmpf).max()), float(np.abs(mc.tmpb_mc_set-out.tmpb).max()))
except Exception as e:
    print("zero var ERR",type(e).__name__,str(e)[:200])
