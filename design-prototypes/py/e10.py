import numpy as np, warnings
warnings.filterwarnings("ignore")
from gen2 import *
from dtscalibration import calibrate_utils as cu
L=100.
ds,T,tr=make_double(nx=12,nt=2,noise=1.0,seed=3,ta=(50.0,))
sections={"cold":[slice(0,0.24*L),slice(0.51*L,0.74*L)],"warm":[slice(0.26*L,0.49*L),slice(0.76*L,L)]}
cap={}
def stub(X,y,w=1.0,x0=None,calc_cov=False,**kw):
    n=X.shape[1]
    cap['n']=n; cap['X']=X.toarray(); cap['y']=np.array(y); cap['w']=np.array(w)
    p=np.arange(n)+0.5; v=1000.+np.arange(n); c=1e6*(np.arange(n)[:,None]+1)+(np.arange(n)[None,:]+1)
    return (p,v,c) if calc_cov else (p,v)
cu.wls_sparse=stub
for kw in [dict(),dict(fix_gamma=(482.6,1e-3)),dict(fix_alpha=(np.zeros(12),np.zeros(12)))]:
    out=ds.dts.calibrate_double_ended(sections=sections,st_var=1.,ast_var=1.,rst_var=1.,rast_var=1.,trans_att=[50.0],**kw)
    pv=out.p_val.values
    print(list(kw), "n reduced",cap['n'],"npar",pv.size)
    print(" p_val:",np.round(pv,3).tolist())
    pc=out.p_cov.values
    nz=[(i,j,pc[i,j]) for i in range(pc.shape[0]) for j in range(pc.shape[1]) if pc[i,j]>=1e6]
    rows=sorted(set(i for i,j,_ in nz)); print(" rows with tagged cov:",rows)
