import numpy as np, xarray as xr
import dtscalibration
def make_double(nx=40, nt=4, L=100.0, seed=0, noise=0.0, gamma=482.6, ta=(), nt_gain=True):
    rng=np.random.default_rng(seed)
    x=np.linspace(0,L,nx); time=np.arange(nt)
    cold=4.0+rng.normal(0,1,nt); warm=20+rng.normal(0,1,nt)
    T=np.full((nx,nt),12.0)+273.15
    T[x<0.25*L]=cold+273.15
    T[(x>=0.25*L)&(x<0.5*L)]=warm+273.15
    T[(x>=0.5*L)&(x<0.75*L)]=cold+273.15
    T[(x>=0.75*L)]=warm+273.15
    df=1.4+rng.normal(0,0.05,nt); db=1.6+rng.normal(0,0.05,nt)
    alpha=5e-5*x+ 0.002*np.sin(x/L*6)
    IF=gamma/T-df[None,:]-alpha[:,None]
    IB=gamma/T-db[None,:]+alpha[:,None]
    taf=[];tab=[]
    for k,tk in enumerate(ta):
        f=0.05*(k+1)+rng.normal(0,0.005,nt); b=0.08*(k+1)+rng.normal(0,0.005,nt)
        IF[x>=tk]-=f; IB[x<tk]-=b; taf.append(f); tab.append(b)
    ast=2000*np.exp(-1e-4*x)[:,None]*np.ones((1,nt)); st=ast*np.exp(IF)
    rast=2000*np.exp(-1e-4*(L-x))[:,None]*np.ones((1,nt)); rst=rast*np.exp(IB)
    if noise>0:
        st=st+rng.normal(0,noise,st.shape); ast=ast+rng.normal(0,noise,ast.shape)
        rst=rst+rng.normal(0,noise,st.shape); rast=rast+rng.normal(0,noise,ast.shape)
    ds=xr.Dataset({"st":(("x","time"),st),"ast":(("x","time"),ast),"rst":(("x","time"),rst),"rast":(("x","time"),rast),
        "cold":(("time",),cold),"warm":(("time",),warm),
        "userAcquisitionTimeFW":(("time",),np.ones(nt)),"userAcquisitionTimeBW":(("time",),np.ones(nt))},coords={"x":x,"time":time},attrs={"isDoubleEnded":"1"})
    return ds,T-273.15,dict(df=df,db=db,alpha=alpha,taf=taf,tab=tab)
