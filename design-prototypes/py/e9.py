import numpy as np, warnings
warnings.filterwarnings("ignore")
from gen import *
L=100
sections={"cold":[slice(0,0.24*L),slice(0.51*L,0.74*L)],"warm":[slice(0.26*L,0.49*L),slice(0.76*L,L)]}
def run(tag, mut, **kw):
    ds,T=make_single(nx=40,nt=3,noise=1.0,seed=1)
    mut(ds)
    a=dict(st_var=1.,ast_var=1.); a.update(kw)
    try:
        out=ds.dts.calibrate_single_ended(sections=sections,**a)
        print(tag,"RETURNED finite tmpf:",bool(np.isfinite(out.tmpf.values).all()),"finite var:",bool(np.isfinite(out.tmpf_var.values).all()), "gamma",float(out.gamma))
    except Exception as e:
        print(tag,"RAISED",type(e).__name__,str(e)[:60])
run("ref inf", lambda d: d["cold"].values.__setitem__(0,np.inf))
run("ref nan", lambda d: d["cold"].values.__setitem__(0,np.nan))
run("var inf", lambda d: None, st_var=np.inf)
run("var neg", lambda d: None, st_var=-1.0)
run("var neg small", lambda d: None, st_var=-1e-3)
run("var nan", lambda d: None, st_var=np.nan)
run("var zero both", lambda d: None, st_var=0.0, ast_var=0.0)
run("st nan in sec", lambda d: d["st"].values.__setitem__((3,1),np.nan))
run("st inf in sec", lambda d: d["st"].values.__setitem__((3,1),np.inf))
run("st 0 in sec", lambda d: d["st"].values.__setitem__((3,1),0.0))
run("unknown solver", lambda d: None, solver="foo")
run("unknown method", lambda d: None, method="foo")
# touching sections
ds,T=make_single(nx=41,nt=3,noise=1.0,seed=1)
s={"cold":[slice(0,20.0)],"warm":[slice(20.0,45.0)]}
try:
    ix=ds.dts.ufunc_per_section(sections=s,x_indices=True,calc_per="all"); print("touching ix dup:", len(ix)-len(set(ix.tolist())))
    out=ds.dts.calibrate_single_ended(sections=s,st_var=1.,ast_var=1.); print("touching accepted")
except Exception as e: print("touch RAISED",e)
s={"cold":[slice(0,21.0)],"warm":[slice(20.5,45.0)]}
try:
    out=ds.dts.calibrate_single_ended(sections=s,st_var=1.,ast_var=1.); print("overlap-bounds accepted")
except Exception as e: print("overlap-bounds-disjoint-locations RAISED",str(e)[:50])
