import numpy as np, scipy.sparse as sp, warnings
from gen import *
from dtscalibration import calibrate_utils as cu
for L in [10.,100.,1000.,10000.]:
  for noise in [0.0, 1.0]:
    ds,T=make_single(nx=60,nt=4,noise=noise,seed=2,L=L,dalpha=5e-5*100/L)
    sections={"cold":[slice(0,0.24*L),slice(0.51*L,0.74*L)],"warm":[slice(0.26*L,0.49*L),slice(0.76*L,L)]}
    cap={}
    orig=cu.wls_sparse
    def wrap(X,y,w=1.0,**kw):
        cap['X']=X.toarray() if sp.issparse(X) else X; cap['y']=np.array(y); cap['w']=np.array(w)*np.ones(len(y))
        out=orig(X,y,w=w,**kw); cap['out']=out; return out
    cu.wls_sparse=wrap
    try:
        out=ds.dts.calibrate_single_ended(sections=sections,st_var=1.0,ast_var=1.0)
    finally:
        cu.wls_sparse=orig
    X,y,w=cap['X'],cap['y'],cap['w']
    sw=np.sqrt(w)
    A=X*sw[:,None]; b=y*sw
    # column-scaled QR reference
    sc=np.linalg.norm(A,axis=0)
    p_ref=np.linalg.lstsq(A/sc,b,rcond=None)[0]/sc
    r=b-A@p_ref; dof=len(y)-X.shape[1]
    cov_ref=np.linalg.inv((A/sc).T@(A/sc))/np.outer(sc,sc)*(r@r/dof)
    p=out.p_val.values; cov=out.p_cov.values
    sd=np.sqrt(np.diag(cov_ref))
    print(f"L={L} noise={noise} max|p-pref|/sd={np.max(np.abs(p-p_ref)/np.where(sd>0,sd,1)):.3g} rel cov err={np.max(np.abs(cov-cov_ref)/np.sqrt(np.outer(np.diag(cov_ref),np.diag(cov_ref)))):.3g} tmpf err={float(np.abs(out.tmpf.values-T).max()):.3g}")
