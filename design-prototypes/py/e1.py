import numpy as np, scipy.sparse as sp
from gen import *
from dtscalibration import calibrate_utils as cu
ds,T=make_single(nx=40,nt=5,noise=2.0,seed=1)
L=100
sections={"cold":[slice(0,0.24*L),slice(0.51*L,0.74*L)],"warm":[slice(0.26*L,0.49*L),slice(0.76*L,L)]}
cap={}
orig=cu.wls_sparse
def wrap(X,y,w=1.0,**kw):
    cap['X']=X.toarray() if sp.issparse(X) else X; cap['y']=np.array(y); cap['w']=np.array(w)
    out=orig(X,y,w=w,**kw); cap['out']=out; return out
cu.wls_sparse=wrap
# intensity-dependent variance so weights vary in x and t
stv=lambda s: 0.5*s/1000.+1.0
out=ds.dts.calibrate_single_ended(sections=sections,st_var=stv,ast_var=stv)
X,y,w=cap['X'],cap['y'],cap['w']
ix=ds.dts.ufunc_per_section(sections=sections,x_indices=True,calc_per='all')
st=ds.st.values[ix]; ast=ds.ast.values[ix]
w_own=(1/(stv(st)/st**2+stv(ast)/ast**2)).T.ravel()  # time-major like y
y_own=np.log(st/ast).T.ravel()
print("y matches time-major:",np.allclose(y,y_own)," w matches time-major:",np.allclose(w,w_own)," w matches x-major:",np.allclose(w,(1/(stv(st)/st**2+stv(ast)/ast**2)).ravel()))
# reference WLS
sw=np.sqrt(w_own)
p_ref=np.linalg.lstsq(X*sw[:,None],y_own*sw,rcond=None)[0]
print("p_val",out.p_val.values[:3],"ref",p_ref[:3])
