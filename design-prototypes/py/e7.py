import numpy as np, xarray as xr, yaml, os, tempfile
from gen import *
ds,T=make_single(nx=40,nt=3,noise=1.0,seed=1)
L=100
for name,mk in [("float",float),("np.float64",np.float64),("int",int),("np.int64",np.int64),("np.float32",np.float32)]:
    sections={"cold":[slice(mk(0),mk(24))],"warm":[slice(mk(26),mk(49))]}
    ms=[(slice(mk(51),mk(55)),slice(mk(76),mk(80)),True)]
    try:
        out=ds.dts.calibrate_single_ended(sections=sections,st_var=1.,ast_var=1.,matching_sections=ms,trans_att=[50.0])
        s=out.dts.sections; m=out.dts.matching_sections
        ok1 = s==sections and m==ms
        fn=tempfile.mktemp(suffix=".nc"); out.to_netcdf(fn); o2=xr.open_dataset(fn); 
        ok2 = o2.dts.sections==sections and o2.dts.matching_sections==ms
        print(name, ok1, ok2, type(s['cold'][0].start), 'trans_att' in o2.coords, o2.trans_att.values)
        o2.close(); os.remove(fn)
    except Exception as e:
        print(name,"ERR",type(e).__name__,str(e)[:200])
