import numpy as np, warnings, itertools
warnings.filterwarnings("ignore")
from gen2 import *
from gen import make_single
import dask.array as da
L=100.
ds,T,tr=make_double(nx=20,nt=4,noise=0.5,seed=3)
sections={"cold":[slice(0,0.24*L),slice(0.51*L,0.74*L)],"warm":[slice(0.26*L,0.49*L),slice(0.76*L,L)]}
out=ds.dts.calibrate_double_ended(sections=sections,st_var=.25,ast_var=.25,rst_var=.25,rast_var=.25)
modes=[dict(ci_avg_time_flag1=True),dict(ci_avg_time_flag2=True),dict(ci_avg_x_flag1=True),dict(ci_avg_x_flag2=True)]
sels=[dict(),dict(ci_avg_time_isel=[0,1,2]),dict(ci_avg_time_sel=slice(0,2)),dict(ci_avg_x_isel=[3,4,5,6]),dict(ci_avg_x_sel=slice(15.,32.))]
for m in modes:
  for s in sels:
    if ('time' in list(m)[0]) != (not s or 'time' in list(s)[0]) and s: continue
    for ci in [None,[2.5,97.5]]:
      try:
        np.random.seed(1)
        r=ds.dts.average_monte_carlo_double_ended(result=out,st_var=.25,ast_var=.25,rst_var=.25,rast_var=.25,conf_ints=ci,mc_sample_size=30,da_random_state=da.random.RandomState(1),**m,**s)
        bad=[(k,v.dims) for k,v in r.data_vars.items() if 'mc' in v.dims]
        print(list(m)[0],list(s),ci is not None,"vars",len(r.data_vars),"mc-dim vars:",bad)
      except Exception as e:
        print(list(m)[0],list(s),ci is not None,"ERR",type(e).__name__,str(e)[:90])
