import numpy as np, warnings, scipy.sparse as sp
warnings.filterwarnings("ignore")
from gen import *
from dtscalibration import calibrate_utils as cu
L=100
sections={"cold":[slice(0,0.24*L),slice(0.51*L,0.74*L)],"warm":[slice(0.26*L,0.49*L),slice(0.76*L,L)]}
ds,T=make_single(nx=40,nt=3,noise=1.0,seed=1)
cap={}
orig=cu.wls_sparse
def wrap(X,y,w=1.0,**kw):
    cap['X']=X.toarray(); cap['y']=np.array(y); cap['w']=np.array(w)*np.ones(len(y))
    return orig(X,y,w=w,**kw)
cu.wls_sparse=wrap
ix=ds.dts.ufunc_per_section(sections=sections,x_indices=True,calc_per='all')
st=ds.st.values[ix]; ast=ds.ast.values[ix]
v0=(1/st**2+1/ast**2)  # (nx,nt) own variance with st_var=ast_var=1
Tref=ds.dts.ufunc_per_section(sections=sections,label="st",ref_temp_broadcasted=True,calc_per="all")
for name,kw,coef in [("fix_gamma",dict(fix_gamma=(482.6,4.0)), (1/(np.asarray(Tref)+273.15))),
                     ("fix_dalpha",dict(fix_dalpha=(5e-5,1e-12)), -(ds.x.values[ix][:,None]*np.ones((1,3))))]:
    try:
        out=ds.dts.calibrate_single_ended(sections=sections,st_var=1.,ast_var=1.,**kw)
        w=cap['w']
        var=list(kw.values())[0][1]
        w_spec=(1/(v0+var*coef**2)).T.ravel()
        w_code_formula=(1/(v0+var*coef)).T.ravel()
        print(name,"returned; w min",w.min(),"neg weights:",int((w<0).sum()),"matches spec (time-major):",np.allclose(w,w_spec),"matches var*coef (x-major base):",np.allclose(np.sort(w),np.sort(1/(v0.ravel()+ (var*coef).T.ravel()))) )
    except Exception as e:
        print(name,"RAISED",type(e).__name__,str(e)[:80])
