import numpy as np, warnings, copy
warnings.filterwarnings("ignore")
from gen2 import *
from gen import make_single
import dask, dask.array as da
L=100.
sections={"cold":[slice(0,0.24*L),slice(0.51*L,0.74*L)],"warm":[slice(0.26*L,0.49*L),slice(0.76*L,L)]}
def cal2(ds,**kw):
    a=dict(sections=sections,st_var=1.,ast_var=1.,rst_var=1.,rast_var=1.); a.update(kw)
    return ds.dts.calibrate_double_ended(**a)
ds,T,tr=make_double(nx=40,nt=4,noise=1.0,seed=5)
o1=cal2(ds)
# gain invariance
k=37.0
ds2=ds.copy(deep=True); ds2["st"]=ds2.st*k
o2=cal2(ds2,st_var=k*k)
print("gain: tmpf",float(np.abs(o1.tmpf-o2.tmpf).max()),"tmpf_var rel",float(np.abs(o1.tmpf_var/o2.tmpf_var-1).max()),"tmpw",float(np.abs(o1.tmpw-o2.tmpw).max()))
# dict order
s2={"warm":[slice(0.76*L,L),slice(0.26*L,0.49*L)],"cold":[slice(0.51*L,0.74*L),slice(0,0.24*L)]}
o3=cal2(ds,sections=s2)
print("dict order: tmpf",float(np.abs(o1.tmpf-o3.tmpf).max()),"var rel",float(np.abs(o1.tmpf_var/o3.tmpf_var-1).max()))
# repeat bit identical & input unmodified
before=ds.copy(deep=True)
o4=cal2(ds)
print("repeat identical:",bool((o1.tmpf.values==o4.tmpf.values).all() and (o1.p_cov.values==o4.p_cov.values).all()),"input unmodified:",ds.identical(before))
# external roundtrip
o5=cal2(ds,method="external",p_val=o1.p_val.values,p_var=np.diag(o1.p_cov.values).copy(),p_cov=o1.p_cov.values)
print("external roundtrip identical tmpf:",bool((o5.tmpf.values==o1.tmpf.values).all()),"tmpf_var:",float(np.abs(o5.tmpf_var-o1.tmpf_var).max()),"tmpw_var",float(np.abs(o5.tmpw_var-o1.tmpw_var).max()))
# C06 inequalities
lo=o1.tmpw_var_lower.values; v=o1.tmpw_var.values; ap=o1.tmpw_var_approx.values
mn=np.minimum(o1.tmpf.values,o1.tmpb.values); mx=np.maximum(o1.tmpf.values,o1.tmpb.values)
print("between:",bool(((o1.tmpw.values>=mn-1e-9)&(o1.tmpw.values<=mx+1e-9)).all()),"approx<=min:",bool((ap<=np.minimum(o1.tmpf_var.values,o1.tmpb_var.values)*(1+1e-12)).all()),"lower<=var:",bool((lo<=v*(1+1e-12)).all()), "all pos:",bool((o1.tmpf_var.values>0).all() and (v>0).all()))
# dask-backed
dsd=ds.chunk({"x":7,"time":2})
for sch in ["synchronous","threads"]:
    with dask.config.set(scheduler=sch):
        try:
            od=cal2(dsd)
            print("dask",sch,"tmpf diff",float(np.abs(od.tmpf.compute()-o1.tmpf).max()),"var diff rel",float(np.abs(od.tmpf_var.compute()/o1.tmpf_var-1).max()), type(od.tmpf.data).__name__)
        except Exception as e:
            print("dask",sch,"ERR",type(e).__name__,str(e)[:150])
# time permutation
perm=np.array([2,0,3,1])
dsp=ds.isel(time=perm)
op=cal2(dsp)
print("time perm: tmpf",float(np.abs(op.tmpf.values-o1.tmpf.values[:,perm]).max()),"df",float(np.abs(op.df.values-o1.df.values[perm]).max()))
# drop unreferenced locations
ix=ds.dts.ufunc_per_section(sections=sections,x_indices=True,calc_per="all")
keep=np.array(sorted(set(ix.tolist())|set(range(0,40,3))))
dk=ds.isel(x=keep); ok=cal2(dk)
print("drop unref: tmpf",float(np.abs(ok.tmpf.values-o1.tmpf.values[keep]).max()),"var rel",float(np.abs(ok.tmpf_var.values/o1.tmpf_var.values[keep]-1).max()))
