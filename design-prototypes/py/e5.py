import numpy as np, xarray as xr, os, time as _t
from gen import *
from dtscalibration.variance_stokes import variance_stokes_constant
from dtscalibration.calibrate_utils import match_sections
ds,T=make_single(nx=40,nt=30,noise=2.0,seed=1)
L=100
s1={"cold":[slice(0,0.24*L),slice(0.51*L,0.74*L)],"warm":[slice(0.26*L,0.49*L),slice(0.76*L,L)]}
s2={"warm":[slice(0.76*L,L),slice(0.26*L,0.49*L)],"cold":[slice(0.51*L,0.74*L),slice(0,0.24*L)]}
v1,r1=variance_stokes_constant(ds.st,s1,ds.userAcquisitionTimeFW)
v2,r2=variance_stokes_constant(ds.st,s2,ds.userAcquisitionTimeFW)
print("var",v1,v2,"resid equal:",np.allclose(r1.values,r2.values,equal_nan=True, atol=1e-3))
# match sections order
ms=[(slice(60,65),slice(80,85),True),(slice(10,15),slice(30,35),False)]
print(match_sections(ds,ms).tolist())
