import numpy as np, xarray as xr
from dtscalibration.dts_accessor_utils import merge_double_ended_times
def mk(times):
    t=np.array(times,dtype='datetime64[s]').astype('datetime64[ns]')
    return xr.Dataset({"st":(("x","time"),np.ones((3,len(t))))},coords={"x":[0.,1.,2.],"time":t},attrs={"isDoubleEnded":"0"})
base=np.datetime64('2020-01-01T00:00:00')
fw=[base+np.timedelta64(20*i,'s') for i in range(4)]
bw=[base+np.timedelta64(20*i+10,'s') for i in range(4)]
# drop bw0 and fw3
f=mk(fw[:3]); b=mk(bw[1:])
for v in (True,False):
    a,c=merge_double_ended_times(f,b,verify_timedeltas=v,verbose=False)
    print(v,[(str(x)[11:19],str(y)[11:19]) for x,y in zip(a.time.values,c.time.values)])
