import numpy as np, warnings
warnings.filterwarnings("ignore")
import xarray as xr, dtscalibration
def fibre(order):
    nx,nt,L=101,3,100.
    x=np.linspace(0,L,nx); gamma=482.6; dalpha=4e-5
    rng=np.random.default_rng(0)
    cold=4+rng.normal(0,1,nt); warm=20+rng.normal(0,1,nt)
    Tamb=12+3*np.sin(x/7.)   # structure
    T=np.repeat(Tamb[:,None],nt,1)+273.15
    T[x<=10]=cold+273.15; T[(x>10)&(x<=20)]=warm+273.15
    # J-config: section 30..35 mirrored at 60..65
    seg=T[(x>=30)&(x<=35)].copy(); T[(x>=60)&(x<=65)]=seg[::-1]
    C=1.4+rng.normal(0,0.05,nt); ta=0.1+rng.normal(0,0.01,nt)
    I=gamma/T-C[None,:]-dalpha*x[:,None]; I[x>=50]-=ta
    ast=2000*np.exp(-1e-4*x)[:,None]*np.ones((1,nt)); st=ast*np.exp(I)
    ds=xr.Dataset({"st":(("x","time"),st),"ast":(("x","time"),ast),"cold":(("time",),cold),"warm":(("time",),warm)},coords={"x":x,"time":np.arange(nt)})
    sections={"cold":[slice(0,10)],"warm":[slice(10.5,20)]}
    ms=[(slice(30,35),slice(60,65),True)] if order=="up-first" else [(slice(60,65),slice(30,35),True)]
    out=ds.dts.calibrate_single_ended(sections=sections,st_var=1.,ast_var=1.,trans_att=[50.0],matching_sections=ms)
    return float(np.abs(out.tmpf.values-(T-273.15)).max()), float(out.gamma)
for o in ["up-first","down-first"]:
    print(o, fibre(o))
