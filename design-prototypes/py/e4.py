import numpy as np, scipy.sparse as sp
from gen2 import *
from dtscalibration import calibrate_utils as cu
L=100.
ds,T,tr=make_double(nx=30,nt=3,noise=1.0,seed=3,ta=(50.0,))
sections={"cold":[slice(0,0.24*L),slice(0.51*L,0.74*L)],"warm":[slice(0.26*L,0.49*L),slice(0.76*L,L)]}
cap={}
orig=cu.wls_sparse
def wrap(X,y,w=1.0,**kw):
    out=orig(X,y,w=w,**kw); cap['out']=out; cap['X']=X; return out
cu.wls_sparse=wrap
out=ds.dts.calibrate_double_ended(sections=sections,st_var=1.,ast_var=1.,rst_var=1.,rast_var=1.,trans_att=[50.0])
p_sol,p_var,p_cov=cap['out']
nt=3; nx=30
ix=ds.dts.ufunc_per_section(sections=sections,x_indices=True,calc_per='all')
nxs=len(ix)
full=out.p_cov.values
# expected: TA block of reduced (last 2*nt) sits at 1+2nt+nx ... in full
red_ta=np.arange(1+2*nt+nxs-1, 1+2*nt+nxs-1+2*nt)
full_ta=np.arange(1+2*nt+nx,1+2*nt+nx+2*nt)
print("ta-ta block placed right:",np.allclose(full[np.ix_(full_ta,full_ta)],p_cov[np.ix_(red_ta,red_ta)]))
print("gamma-ta cov placed right:",np.allclose(full[0,full_ta],p_cov[0,red_ta]), full[0,full_ta][:3], p_cov[0,red_ta][:3])
print("diag ta ok:",np.allclose(np.diag(full)[full_ta],p_var[red_ta]))
# where did it go?
wrong=np.arange(1+2*nt+nxs,1+2*nt+nxs+2*nt)
print("written at nx_sec-based rows:",np.allclose(full[0,wrong],p_cov[0,red_ta]))
print("talpha_fw_var vs", out.talpha_fw_var.values.ravel(), p_var[red_ta][:nt])
