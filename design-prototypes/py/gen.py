import numpy as np, xarray as xr, warnings
import dtscalibration  # registers accessor
def make_single(nx=40, nt=5, L=100.0, seed=0, noise=0.0, gamma=482.6, dalpha=5e-5, ta=(), ta_vals=None):
    rng=np.random.default_rng(seed)
    x=np.linspace(0,L,nx)
    time=np.arange(nt)
    cold=4.0+rng.normal(0,1,nt); warm=20+rng.normal(0,1,nt)
    T=np.full((nx,nt),12.0)+273.15
    T[x<0.25*L]=cold+273.15
    T[(x>=0.25*L)&(x<0.5*L)]=warm+273.15
    T[(x>=0.5*L)&(x<0.75*L)]=cold+273.15
    T[(x>=0.75*L)]=warm+273.15
    C=1.4+rng.normal(0,0.05,nt)
    I=gamma/T - C[None,:] - dalpha*x[:,None]
    for k,tk in enumerate(ta):
        I[x>=tk]-= (ta_vals[k] if ta_vals is not None else 0.1*(k+1))
    ast=2000*np.exp(-1e-4*x)[:,None]*np.ones((1,nt))
    st=ast*np.exp(I)
    st_true,ast_true=st.copy(),ast.copy()
    if noise>0:
        st=st+rng.normal(0,noise,st.shape); ast=ast+rng.normal(0,noise,ast.shape)
    ds=xr.Dataset({"st":(("x","time"),st),"ast":(("x","time"),ast),"cold":(("time",),cold),"warm":(("time",),warm),
        "userAcquisitionTimeFW":(("time",),np.ones(nt))},coords={"x":x,"time":time},attrs={"isDoubleEnded":"0"})
    return ds,T-273.15
