import Mathlib.Data.Matrix.Mul
import Mathlib.Algebra.BigOperators.Fin
import Mathlib.Tactic.Ring
import Mathlib.Tactic.Linarith
import Mathlib.Algebra.Order.BigOperators.Ring.Finset

/-! core-style model (no Mathlib needed for these defs) -/
structure Sys where
  m : Nat
  n : Nat
  X : Array (Array Rat)
  y : Array Rat
  w : Array Rat

def Sys.entry (s : Sys) (i j : Nat) : Rat := (s.X.getD i #[]).getD j 0
def sumTo (n : Nat) (f : Nat → Rat) : Rat := (List.range n).foldl (fun acc i => acc + f i) 0
def Sys.fit (s : Sys) (p : Array Rat) (i : Nat) : Rat := sumTo s.n (fun j => s.entry i j * p.getD j 0)
def Sys.normalEqCheck (s : Sys) (p : Array Rat) : Bool :=
  (List.range s.n).all fun j =>
    sumTo s.m (fun i => s.entry i j * (s.w.getD i 0 * (s.y.getD i 0 - s.fit p i))) == 0

/-! bridge -/
open Matrix Finset

theorem sumTo_eq (n : Nat) (f : Nat → Rat) : sumTo n f = ∑ i : Fin n, f i := by
  unfold sumTo
  rw [Fin.sum_univ_eq_sum_range (fun i => f i) n]
  induction n with
  | zero => simp
  | succ k ih =>
    rw [List.range_succ, List.foldl_append, Finset.sum_range_succ, ← ih]
    simp

def Sys.mat (s : Sys) : Matrix (Fin s.m) (Fin s.n) ℚ := fun i j => s.entry i j
def Sys.yv (s : Sys) : Fin s.m → ℚ := fun i => s.y.getD i 0
def Sys.wv (s : Sys) : Fin s.m → ℚ := fun i => s.w.getD i 0
def pv (s : Sys) (p : Array Rat) : Fin s.n → ℚ := fun j => p.getD j 0

def NormalEq {m n : Type} [Fintype m] [Fintype n] (X : Matrix m n ℚ) (y w : m → ℚ) (p : n → ℚ) : Prop :=
  ∀ j, ∑ i, X i j * (w i * (y i - (X *ᵥ p) i)) = 0

theorem check_sound (s : Sys) (p : Array Rat) (h : s.normalEqCheck p = true) :
    NormalEq s.mat s.yv s.wv (pv s p) := by
  intro j
  unfold Sys.normalEqCheck at h
  rw [List.all_eq_true] at h
  have hj := h j.val (List.mem_range.mpr j.isLt)
  rw [beq_iff_eq, sumTo_eq] at hj
  rw [← hj]
  apply Finset.sum_congr rfl
  intro i _
  simp only [Sys.mat, Sys.yv, Sys.wv, Sys.fit, pv, Matrix.mulVec, dotProduct, sumTo_eq]
#print axioms check_sound
