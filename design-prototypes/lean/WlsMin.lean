import Mathlib.LinearAlgebra.Matrix.DotProduct
import Mathlib.Data.Matrix.Mul
import Mathlib.Tactic.Ring
import Mathlib.Tactic.Linarith
import Mathlib.Algebra.Order.BigOperators.Ring.Finset

open Matrix Finset

variable {m n : Type} [Fintype m] [Fintype n] [DecidableEq m] [DecidableEq n]

/-- weighted sum of squared residuals -/
def wssr (X : Matrix m n ℚ) (y w : m → ℚ) (p : n → ℚ) : ℚ :=
  ∑ i, w i * (y i - (X *ᵥ p) i) ^ 2

def normalEq (X : Matrix m n ℚ) (y w : m → ℚ) (p : n → ℚ) : Prop :=
  ∀ j, ∑ i, X i j * (w i * (y i - (X *ᵥ p) i)) = 0

theorem wssr_min (X : Matrix m n ℚ) (y w : m → ℚ) (p q : n → ℚ)
    (hw : ∀ i, 0 ≤ w i) (h : normalEq X y w p) : wssr X y w p ≤ wssr X y w q := by
  -- S(q) = S(p) + Σ w (X(p-q))² + 2 Σ w r (X (p - q)) and cross term vanishes
  have key : wssr X y w q = wssr X y w p + ∑ i, w i * ((X *ᵥ (p - q)) i) ^ 2
      + 2 * ∑ i, w i * (y i - (X *ᵥ p) i) * (X *ᵥ (p - q)) i := by
    unfold wssr
    rw [Finset.mul_sum, ← Finset.sum_add_distrib, ← Finset.sum_add_distrib]
    apply Finset.sum_congr rfl
    intro i _
    have : (X *ᵥ (p - q)) i = (X *ᵥ p) i - (X *ᵥ q) i := by
      simp [Matrix.mulVec_sub]
    rw [this]; ring
  have cross : ∑ i, w i * (y i - (X *ᵥ p) i) * (X *ᵥ (p - q)) i = 0 := by
    have : ∀ i, w i * (y i - (X *ᵥ p) i) * (X *ᵥ (p - q)) i
        = ∑ j, (p - q) j * (X i j * (w i * (y i - (X *ᵥ p) i))) := by
      intro i
      simp only [Matrix.mulVec, dotProduct, Finset.mul_sum]
      apply Finset.sum_congr rfl; intro j _; ring
    simp_rw [this]
    rw [Finset.sum_comm]
    apply Finset.sum_eq_zero; intro j _
    rw [← Finset.mul_sum, h j, mul_zero]
  rw [key, cross]
  have : 0 ≤ ∑ i, w i * ((X *ᵥ (p - q)) i) ^ 2 :=
    Finset.sum_nonneg (fun i _ => mul_nonneg (hw i) (sq_nonneg _))
  linarith
#print axioms wssr_min
