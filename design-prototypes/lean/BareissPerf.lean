/-! prototype 2: dyadic data, integer fraction-free (Bareiss) elimination, result-checked -/
abbrev IMat := Array (Array Int)

/-- Bareiss fraction-free Gaussian elimination to upper-triangular on augmented integer matrix (n × (n+1)).
    Returns (matrix, ok) assuming nonsingular with nonzero leading pivots after row swaps. -/
def bareiss (M0 : IMat) : IMat × Bool := Id.run do
  let n := M0.size
  let mut M := M0
  let mut prev : Int := 1
  let mut ok := true
  for k in [0:n] do
    if ok then
      -- pivot search
      let mut piv := n
      for r in [k:n] do
        if piv == n && M[r]![k]! != 0 then piv := r
      if piv == n then ok := false
      else
        if piv != k then
          let tmp := M[piv]!
          M := M.set! piv M[k]!
          M := M.set! k tmp
        let pk := M[k]![k]!
        let rowk := M[k]!
        for i in [k+1:n] do
          let rowi := M[i]!
          let f := rowi[k]!
          let newrow := (Array.range (n+1)).map fun j =>
            if j ≤ k then 0 else (pk * rowi[j]! - f * rowk[j]!) / prev
          M := M.set! i newrow
        prev := pk
  return (M, ok)

/-- back substitution over Rat from triangular integer system -/
def backsub (M : IMat) : Array Rat := Id.run do
  let n := M.size
  let mut x : Array Rat := Array.replicate n 0
  for kk in [0:n] do
    let k := n - 1 - kk
    let mut s : Rat := ((M[k]![n]! : Int) : Rat)
    for j in [k+1:n] do
      s := s - ((M[k]![j]! : Int) : Rat) * x[j]!
    x := x.set! k (s / ((M[k]![k]! : Int) : Rat))
  return x

def lcg (s : Nat) : Nat := (s * 6364136223846793005 + 1442695040888963407) % (2^64)

def main (args : List String) : IO Unit := do
  let n := args[0]!.toNat!
  let p := args[1]!.toNat!
  let wbits := args[2]!.toNat!
  -- X, y: 53-bit integers (scaled dyadics); w: wbits-bit integers
  let mut s := 12345
  let mut X : Array (Array Int) := #[]
  let mut y : Array Int := #[]
  let mut w : Array Int := #[]
  for _ in [0:n] do
    let mut r : Array Int := #[]
    for _ in [0:p] do
      s := lcg s; r := r.push (Int.ofNat (s % (2^53)))
    X := X.push r
    s := lcg s; y := y.push (Int.ofNat (s % (2^53)))
    let mut wi : Nat := 1
    for _ in [0:(wbits/64)] do
      s := lcg s; wi := wi * (2^64) + s
    w := w.push (Int.ofNat wi)
  let t0 ← IO.monoMsNow
  -- normal matrix (integers)
  let A : IMat := (Array.range p).map fun a => ((Array.range p).map fun b =>
      (Array.range n).foldl (fun acc i => acc + X[i]![a]! * w[i]! * X[i]![b]!) 0).push
        ((Array.range n).foldl (fun acc i => acc + X[i]![a]! * w[i]! * y[i]!) 0)
  IO.println s!"A00 bits {A[0]![0]!.natAbs.log2}"
  let t1 ← IO.monoMsNow
  let (U, ok) := bareiss A
  IO.println s!"ok {ok} last pivot bits {U[p-1]![p-1]!.natAbs.log2}"
  let t2 ← IO.monoMsNow
  let x := backsub U
  IO.println s!"x0 num bits {x[0]!.num.natAbs.log2}"
  let t3 ← IO.monoMsNow
  -- check A x = g exactly
  let good := (Array.range p).all fun a =>
    ((Array.range p).foldl (fun (acc : Rat) b => acc + ((A[a]![b]! : Int) : Rat) * x[b]!) (0:Rat)) == ((A[a]![p]! : Int) : Rat)
  let t4 ← IO.monoMsNow
  IO.println s!"n={n} p={p} good={good} assemble={t1-t0}ms elim={t2-t1}ms backsub={t3-t2}ms check={t4-t3}ms"
