/-! prototype C15: adjacency walk over a strictly sorted event list -/
inductive Dir | fw | bw deriving DecidableEq, Repr
structure Ev where
  t : Int
  d : Dir
  i : Nat
deriving DecidableEq, Repr

def walk : List Ev → List (Nat × Nat)
  | a :: b :: rest =>
      (if a.d = .fw ∧ b.d = .bw then [(a.i, b.i)] else []) ++ walk (b :: rest)
  | _ => []

/-- strictly increasing in time -/
def StrictSorted : List Ev → Prop
  | a :: b :: rest => a.t < b.t ∧ StrictSorted (b :: rest)
  | _ => True

/-- spec: a is a forward event, b a backward event, a before b, nothing strictly in between -/
def Adjacent (L : List Ev) (a b : Ev) : Prop :=
  a ∈ L ∧ b ∈ L ∧ a.d = .fw ∧ b.d = .bw ∧ a.t < b.t ∧ ∀ c ∈ L, ¬ (a.t < c.t ∧ c.t < b.t)

theorem strictSorted_head_lt : ∀ {a : Ev} {L : List Ev}, StrictSorted (a :: L) → ∀ c ∈ L, a.t < c.t
  | a, [], _, c, hc => by cases hc
  | a, b :: rest, h, c, hc => by
    have hab : a.t < b.t := h.1
    have hs : StrictSorted (b :: rest) := h.2
    cases hc with
    | head => exact hab
    | tail _ hc' => exact Int.lt_trans hab (strictSorted_head_lt hs c hc')

theorem strictSorted_tail : ∀ {a : Ev} {L : List Ev}, StrictSorted (a :: L) → StrictSorted L
  | _, [], _ => trivial
  | _, _ :: _, h => h.2

/-- the real statement: membership of the event pair, formulated on events to avoid index aliasing -/
def walkEv : List Ev → List (Ev × Ev)
  | a :: b :: rest =>
      (if a.d = .fw ∧ b.d = .bw then [(a, b)] else []) ++ walkEv (b :: rest)
  | _ => []

theorem walkEv_iff : ∀ (L : List Ev), StrictSorted L → ∀ a b, (a, b) ∈ walkEv L ↔ Adjacent L a b
  | [], _, a, b => by simp [walkEv, Adjacent]
  | [x], _, a, b => by
      simp only [walkEv, List.not_mem_nil, false_iff, Adjacent, List.mem_singleton]
      rintro ⟨rfl, rfl, h1, h2, _⟩
      rw [h1] at h2; cases h2
  | x :: y :: rest, hs, a, b => by
      have hxy : x.t < y.t := hs.1
      have hs' : StrictSorted (y :: rest) := hs.2
      have ih := walkEv_iff (y :: rest) hs' a b
      have hlt := strictSorted_head_lt hs
      have hlt' := strictSorted_head_lt hs'
      simp only [walkEv, List.mem_append]
      constructor
      · rintro (h | h)
        · -- (a,b) is the head pair
          split at h
          · rename_i hd
            simp only [List.mem_singleton, Prod.mk.injEq] at h
            obtain ⟨rfl, rfl⟩ := h
            refine ⟨List.mem_cons_self, List.mem_cons_of_mem _ List.mem_cons_self, hd.1, hd.2, hxy, ?_⟩
            intro c hc ⟨h1, h2⟩
            cases hc with
            | head => exact absurd h1 (Int.lt_irrefl _)
            | tail _ hc =>
              cases hc with
              | head => exact absurd h2 (Int.lt_irrefl _)
              | tail _ hc => exact absurd (Int.lt_trans (hlt' c hc) h2) (Int.lt_irrefl _)
          · cases h
        · obtain ⟨ha, hb, hd1, hd2, hab, hno⟩ := ih.mp h
          refine ⟨List.mem_cons_of_mem _ ha, List.mem_cons_of_mem _ hb, hd1, hd2, hab, ?_⟩
          intro c hc hcc
          cases hc with
          | head =>
            -- x.t < everything in tail, but a in tail so x.t < a.t, contradiction with a.t < x.t
            exact absurd (Int.lt_trans (hlt a ha) hcc.1) (Int.lt_irrefl _)
          | tail _ hc => exact hno c hc hcc
      · rintro ⟨ha, hb, hd1, hd2, hab, hno⟩
        cases ha with
        | head =>
          -- a = x ; then b must be y
          left
          have hbm : b ∈ y :: rest := by
            cases hb with
            | head => exact absurd hab (Int.lt_irrefl _)
            | tail _ h => exact h
          have hby : b = y := by
            cases hbm with
            | head => rfl
            | tail _ hbr =>
              exfalso
              exact hno y (List.mem_cons_of_mem _ List.mem_cons_self) ⟨hxy, hlt' b hbr⟩
          subst hby
          simp [hd1, hd2]
        | tail _ ha =>
          right
          have hbm : b ∈ y :: rest := by
            cases hb with
            | head =>
              exfalso
              exact absurd (Int.lt_trans (hlt a ha) hab) (Int.lt_irrefl _)
            | tail _ h => exact h
          exact ih.mpr ⟨ha, hbm, hd1, hd2, hab, fun c hc => hno c (List.mem_cons_of_mem _ hc)⟩
#print axioms walkEv_iff
