/-! prototype C16: chain check ⇒ selections can only share a touching grid point -/
structure Stretch where
  a : Int
  b : Int
deriving DecidableEq, Repr

def flat : List Stretch → List Int
  | [] => []
  | s :: r => s.a :: s.b :: flat r

def sel (xs : List Int) (s : Stretch) : List Int := xs.filter (fun x => s.a ≤ x ∧ x ≤ s.b)

theorem mem_flat_of_mem {t : Stretch} : ∀ {l : List Stretch}, t ∈ l → t.a ∈ flat l ∧ t.b ∈ flat l
  | s :: r, h => by
    cases h with
    | head => simp [flat]
    | tail _ h => have := mem_flat_of_mem h; simp [flat, this.1, this.2]

/-- if the flattened bound list (stretches already sorted by start) is non-decreasing,
    a later stretch starts at or after the stop of an earlier one -/
theorem chain_sep : ∀ (l : List Stretch), (flat l).Pairwise (· ≤ ·) →
    l.Pairwise (fun s t => s.b ≤ t.a)
  | [], _ => List.Pairwise.nil
  | s :: r, h => by
    simp only [flat, List.pairwise_cons] at h
    obtain ⟨_, hb, hr⟩ := h
    refine List.Pairwise.cons ?_ (chain_sep r hr)
    intro t ht
    exact hb t.a (mem_flat_of_mem ht).1

theorem shared_only_touching (xs : List Int) (s t : Stretch) (h : s.b ≤ t.a) (x : Int)
    (hs : x ∈ sel xs s) (ht : x ∈ sel xs t) : x = s.b ∧ x = t.a := by
  simp only [sel, List.mem_filter, decide_eq_true_eq] at hs ht
  omega

-- refutation witness: touching stretches on the grid [0,1,2] both select 1 yet pass the chain check
example : (flat [⟨0,1⟩, ⟨1,2⟩]).Pairwise (· ≤ ·) ∧ 1 ∈ sel [0,1,2] ⟨0,1⟩ ∧ 1 ∈ sel [0,1,2] ⟨1,2⟩ := by decide
#print axioms chain_sep
